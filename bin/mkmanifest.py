#!/usr/bin/env python3
"""Regenerates MANIFEST.json from the table below (keeps it valid at all times)."""
import json, os
V = os.path.dirname(os.path.dirname(os.path.abspath(__file__)))
props = [json.loads(l) for l in open(os.path.join(V, "properties.jsonl"))]
CLAIMED = {
 "C19": dict(tech="Coq proof over a Gallina model of PackURI/posixpath + extracted-model correspondence (bounded-exhaustive part names) + direct oracle",
   text="15 theorems (C19_*) closed under the global context state the round trip for all well-formed part names, the accessors, rejection, and agreement with RFC 3986 dot-segment removal; the model is tied to src/pptx/opc/packuri.py by running the extracted model and the implementation on every part name to depth 3/4 over a 16-segment alphabet and on random references.",
   note="posixpath is re-implemented in the model (transcribed, exercised by the correspondence); cwd-dependent inputs excluded; RFC statement excludes references ending in '.', '..', '/' or containing '//'.", ref="6/C19"),
 "C10": dict(tech="Coq proof by reflection: verified decision procedure (decl_ok) evaluated by vm_compute on declarations and XSD content models regenerated from /repo each run; grid correspondence of xmlchemy semantics",
   text="Generic theorems: every schema-accepted child sequence is rank-sorted (lang_sorted) and a declaration accepted by decl_ok inserts in rank order in EVERY schema-accepted context (insert_schema_ordered); instance theorem C10_all_declared over all (class, XSD type, declared child) triples and the literal-successor direct sites re-extracted from the current tree; get_or_add/remove/change_to theorems; the xmlchemy model is tied to the metaclass-generated methods by complete enumeration of the property's context grid on real lxml elements.",
   note="translator tx_c10/xsdlib trusted to transcribe; xsd:all over-approximated; sites classified template/observed are outside the instance theorem; lxml tree operations modelled on tag lists.", ref="6/C10"),
}
checks = []
for p in props:
    pid = p["id"]
    if pid in CLAIMED:
        c = CLAIMED[pid]
        checks.append({
            "property_id": pid,
            "quick_cmd": "./bin/check %s --tier quick" % pid,
            "thorough_cmd": "./bin/check %s --tier thorough" % pid,
            "evidence_file": "/verif/evidence/%s.json" % pid,
            "replay_cmd_template": "./bin/check %s --replay {path}" % pid,
            "engine": "coq-proof+correspondence",
            "level_claimed": {"category": "proof", "text": c["text"], "design_ref": "DESIGN.md section " + c["ref"]},
            "level_note": c["note"] + " Kernel: Coq 8.16.1 full .vo build, vm_compute, no axioms (Print Assumptions recorded per theorem in the evidence).",
            "technique": c["tech"],
        })
na = [{"property_id": p["id"], "reason": "check not built yet in this session (planned: DESIGN.md section 6/%s); not claimed until its check exists" % p["id"]}
      for p in props if p["id"] not in CLAIMED]
m = {
 "version": 1,
 "setup_cmd": "./bin/setup",
 "hooks": {"guard": "PPTX_VERIF", "enable": "none needed: no hooks are compiled into /repo; checks import pptx from /repo/src as is",
           "baseline_off_cmd": "/verif/bin/baseline", "source_commits": [], "add_only": True},
 "engines": [{"name": "coq-proof+correspondence", "path": "/verif/bin/check",
              "serves_properties": sorted(CLAIMED), "kind_free_text": "Coq 8.16.1 theorems over Gallina models (coq/), translators regenerating Coq data from /repo (tx/), extracted OCaml model runners and a differential harness (corr/, checks/)"}],
 "checks": checks,
 "not_applicable": na,
 "notes": "Fixes to genuine defects are separate 'fix:' commits in /repo, listed in known_findings.json as fixed entries.",
}
json.dump(m, open(os.path.join(V, "MANIFEST.json"), "w"), indent=1)
print("MANIFEST: %d checks, %d not claimed" % (len(checks), len(na)))
