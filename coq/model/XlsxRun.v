(** Runner entry point for the C08 correspondence: [run_c08 args]; the first field is
    the operation name, the remaining fields are a token stream (one token per field):

      data   ::= cat NCATS cat* NSER series*  |  xy NSER xyser*  |  bub NSER xyser*
      cat    ::= pyval NSUBS cat*
      pyval  ::= 0 | S str | N num den | D ord | T ord us
      series ::= name NVALS val*          name ::= 0 | S str      val ::= 0 | N num den
      xyser  ::= name NPTS (val val val)*
      ops    ::= (rep data | d1904 0 | d1904 1)*

    Operations:  one AGREE DATE1904 data   (XML and sheet of one chart data object)
                 hist data ops             (new chart, then a history of operations)
                 col N                     (_column_reference)
                 xlstr str                 (worksheet.write of a string)
                 date ORD US ISDT          (both date conversions) *)
From V.lib Require Import Prelude Wire.
From V.model Require Import Xlsx.
Open Scope N_scope.

Definition t_0 : str := [48].
Definition t_1 : str := [49].
Definition t_S : str := [83].
Definition t_N : str := [78].
Definition t_D : str := [68].
Definition t_T : str := [84].
Definition t_cat : str := [99; 97; 116].
Definition t_xy : str := [120; 121].
Definition t_bub : str := [98; 117; 98].
Definition t_rep : str := [114; 101; 112].
Definition t_d1904 : str := [100; 49; 57; 48; 52].
Definition t_one : str := [111; 110; 101].
Definition t_hist : str := [104; 105; 115; 116].
Definition t_col : str := [99; 111; 108].
Definition t_xlstr : str := [120; 108; 115; 116; 114].
Definition t_date : str := [100; 97; 116; 101].

Definition P (A : Type) := list str -> option (A * list str).

Definition p_nat : P nat := fun toks =>
  match toks with t :: r => match parse_nat t with Some n => Some (n, r) | None => None end | [] => None end.
Definition p_N : P N := fun toks =>
  match toks with t :: r => match parse_N t with Some n => Some (n, r) | None => None end | [] => None end.
Definition p_pos : P positive := fun toks =>
  match toks with
  | t :: r => match parse_N t with Some (Npos p) => Some (p, r) | _ => None end
  | [] => None
  end.
Definition p_Z : P Z := fun toks =>
  match toks with t :: r => match parse_Z t with Some n => Some (n, r) | None => None end | [] => None end.

Definition p_pyval : P pyval := fun toks =>
  match toks with
  | t :: r =>
      if str_eqb t t_0 then Some (PNone, r)
      else if str_eqb t t_S then match r with s :: r' => Some (PStr s, r') | [] => None end
      else if str_eqb t t_N then
        match p_Z r with Some (n, r1) => match p_pos r1 with Some (d, r2) => Some (PNum n d, r2) | None => None end | None => None end
      else if str_eqb t t_D then
        match p_Z r with Some (o, r1) => Some (PDate o, r1) | None => None end
      else if str_eqb t t_T then
        match p_Z r with Some (o, r1) => match p_N r1 with Some (u, r2) => Some (PDateTime o u, r2) | None => None end | None => None end
      else None
  | [] => None
  end.

Definition p_val : P val := fun toks =>
  match toks with
  | t :: r =>
      if str_eqb t t_0 then Some (None, r)
      else if str_eqb t t_N then
        match p_Z r with Some (n, r1) => match p_pos r1 with Some (d, r2) => Some (Some (n, d), r2) | None => None end | None => None end
      else None
  | [] => None
  end.

Definition p_name : P (option str) := fun toks =>
  match toks with
  | t :: r =>
      if str_eqb t t_0 then Some (None, r)
      else if str_eqb t t_S then match r with s :: r' => Some (Some s, r') | [] => None end
      else None
  | [] => None
  end.

Fixpoint p_list {A} (p : P A) (n : nat) : P (list A) := fun toks =>
  match n with
  | O => Some ([], toks)
  | S n' => match p toks with
            | Some (a, r) => match p_list p n' r with Some (l, r') => Some (a :: l, r') | None => None end
            | None => None
            end
  end.

(** n sibling categories; fuel bounds the total number of nodes visited *)
Fixpoint p_cats (fuel : nat) (n : nat) : P (list cat) := fun toks =>
  match fuel with
  | O => None
  | S f =>
      match n with
      | O => Some ([], toks)
      | S n' =>
          match p_pyval toks with
          | Some (lab, r1) =>
              match p_nat r1 with
              | Some (k, r2) =>
                  match p_cats f k r2 with
                  | Some (subs, r3) =>
                      match p_cats f n' r3 with
                      | Some (rest, r4) => Some (Cat lab subs :: rest, r4)
                      | None => None
                      end
                  | None => None
                  end
              | None => None
              end
          | None => None
          end
      end
  end.

Definition p_series : P series := fun toks =>
  match p_name toks with
  | Some (nm, r1) =>
      match p_nat r1 with
      | Some (k, r2) => match p_list p_val k r2 with Some (vs, r3) => Some (mk_series nm vs, r3) | None => None end
      | None => None
      end
  | None => None
  end.

Definition p_pt : P (val * val * val) := fun toks =>
  match p_val toks with
  | Some (x, r1) => match p_val r1 with
                    | Some (y, r2) => match p_val r2 with Some (z, r3) => Some ((x, y, z), r3) | None => None end
                    | None => None end
  | None => None
  end.

Definition p_xyseries : P xyseries := fun toks =>
  match p_name toks with
  | Some (nm, r1) =>
      match p_nat r1 with
      | Some (k, r2) => match p_list p_pt k r2 with Some (ps, r3) => Some (mk_xyseries nm ps, r3) | None => None end
      | None => None
      end
  | None => None
  end.

Definition p_data : P chart_data := fun toks =>
  match toks with
  | t :: r =>
      if str_eqb t t_cat then
        match p_nat r with
        | Some (nc, r1) =>
            match p_cats (S (length r1)) nc r1 with
            | Some (cs, r2) =>
                match p_nat r2 with
                | Some (ns, r3) =>
                    match p_list p_series ns r3 with
                    | Some (ss, r4) => Some (CatD (mk_catdata cs ss), r4)
                    | None => None
                    end
                | None => None
                end
            | None => None
            end
        | None => None
        end
      else if str_eqb t t_xy || str_eqb t t_bub then
        match p_nat r with
        | Some (ns, r1) =>
            match p_list p_xyseries ns r1 with
            | Some (ss, r2) => Some (XyD (str_eqb t t_bub) ss, r2)
            | None => None
            end
        | None => None
        end
      else None
  | [] => None
  end.

Fixpoint p_ops (fuel : nat) (toks : list str) : option (list op) :=
  match fuel with
  | O => None
  | S f =>
      match toks with
      | [] => Some []
      | t :: r =>
          if str_eqb t t_rep then
            match p_data r with
            | Some (d, r1) => match p_ops f r1 with Some l => Some (OpReplace d :: l) | None => None end
            | None => None
            end
          else if str_eqb t t_d1904 then
            match r with
            | b :: r1 => match p_ops f r1 with Some l => Some (OpDate1904 (str_eqb b t_1) :: l) | None => None end
            | [] => None
            end
          else None
      end
  end.

(** ---- printing ---- *)
Definition sep (c : N) (l : list str) : str := join_with [c] l.
Definition sp (l : list str) : str := sep 32 l.

Definition show_cval (v : cval) : str :=
  match v with
  | CStr s => match s with [] => t_S | _ => sp [t_S; show_str s] end
  | CNum n d => sp [t_N; show_Z n; show_N (Npos d)]
  | COpaque => [79]
  end.

Definition show_cell (c : cell) : str :=
  match c with
  | Empty => [69]
  | Str s => match s with [] => t_S | _ => sp [t_S; show_str s] end
  | Num n d => sp [t_N; show_Z n; show_N (Npos d)]
  | Formula s => match s with [] => [70] | _ => sp [[70]; show_str s] end
  | Opaque => [79]
  end.

Definition show_pts (l : list (N * cval)) : str :=
  sep 58 (map (fun p => sep 61 [show_N (fst p); show_cval (snd p)]) l).
Definition show_cache (c : cache) : str :=
  sep 58 [show_N (pt_count c); show_pts (pts c)].
Definition show_kind (k : cat_kind) : str :=
  match k with KNum => [110] | KStr => [115] | KMulti => [109] end.
Definition show_cat_cache (c : cat_cache) : str :=
  sep 47 (show_kind (cc_kind c) :: show_N (cc_count c) :: map show_pts (cc_levels c)).
Definition show_rng (r : rng) : str :=
  sp [show_N (r_c1 r); show_N (r_r1 r); show_N (r_c2 r); show_N (r_r2 r)].

Definition show_cat_ser (e : cat_ser) : str :=
  sep 44 [show_str (cs_name_ref e); show_str (cs_name e);
          show_str (cs_cat_ref e); show_cat_cache (cs_cat e);
          show_str (cs_val_ref e); show_cache (cs_val e);
          show_rng (cs_name_rng e); show_rng (cs_cat_rng e); show_rng (cs_val_rng e)].

Definition show_xy_ser (e : xy_ser) : str :=
  sep 44 ([show_str (xs_name_ref e); show_str (xs_name e);
           show_str (xs_x_ref e); show_cache (xs_x e);
           show_str (xs_y_ref e); show_cache (xs_y e);
           show_rng (xs_name_rng e); show_rng (xs_x_rng e); show_rng (xs_y_rng e)]
          ++ match xs_size e with
             | Some (r, t, c) => [show_str t; show_cache c; show_rng r]
             | None => []
             end).

Definition show_xml (x : chart_xml) : str :=
  match x with
  | CatX es => sep 59 ([99] :: map show_cat_ser es)
  | XyX es => sep 59 ([120] :: map show_xy_ser es)
  end.

(** the log in program order (oldest first) *)
Definition show_sheet (sh : sheet) : str :=
  sep 59 (rev (map (fun e => sep 44 [show_N (fst (fst e)); show_N (snd (fst e)); show_cell (snd e)]) sh)).

Definition show_chart (agree : bool) (st : chart) : str :=
  sep 35 [show_N (ch_parts st); show_bool (ch_date1904 st); show_xml (ch_xml st);
          show_sheet (ch_sheet st);
          if agree then show_bool (agree_chart st) else [45]].

(** states after the new chart and after every operation, up to the first error *)
Fixpoint trace (st : chart) (ops : list op) : list str :=
  match ops with
  | [] => []
  | o :: r =>
      match step st o with
      | Ok st' => (w_ok ++ show_chart true st') :: trace st' r
      | Err e => [w_err ++ show_err e]
      end
  end.

Definition run_c08 (args : list str) : str :=
  match args with
  | op :: rest =>
      if str_eqb op t_one then
        match rest with
        | ag :: d19 :: toks =>
            match p_data toks with
            | Some (d, []) =>
                let b := str_eqb d19 t_1 in
                let x := xml_of b d in
                let s := sheet_of d in
                sep 35 [show_res show_xml x; show_res show_sheet s;
                        if str_eqb ag t_1 then
                          match x, s with
                          | Ok x', Ok s' => show_bool (agree_xml x' s')
                          | _, _ => [45]
                          end
                        else [45]]
            | _ => w_badcase
            end
        | _ => w_badcase
        end
      else if str_eqb op t_hist then
        match p_data rest with
        | Some (d, r1) =>
            match p_ops (S (length r1)) r1 with
            | Some ops =>
                match new_chart d with
                | Ok st => sep 124 ((w_ok ++ show_chart true st) :: trace st ops)
                | Err e => w_err ++ show_err e
                end
            | None => w_badcase
            end
        | None => w_badcase
        end
      else if str_eqb op t_col then
        match rest with
        | [n] =>
            match parse_Z n with
            | Some z =>
                (* a negative number is below 1 as well *)
                let r := if (z <? 0)%Z then Err ValueErr else column_reference (Z.to_N z) in
                fields [show_res show_str r;
                        match r with Ok s => show_N (parse_col s) | Err _ => [45] end]
            | None => w_badcase
            end
        | _ => w_badcase
        end
      else if str_eqb op t_xlstr then
        match rest with
        | [s] => show_cell (xl_write_str s)
        | _ => w_badcase
        end
      else if str_eqb op t_date then
        match rest with
        | [o; u; dt] =>
            match parse_Z o, parse_N u with
            | Some ord, Some us =>
                let isdt := str_eqb dt t_1 in
                fields [show_Z (excel_date_number false ord); show_Z (excel_date_number true ord);
                        show_cell (xl_cell (if isdt then PDateTime ord us else PDate ord))]
            | _, _ => w_badcase
            end
        | _ => w_badcase
        end
      else w_badcase
  | [] => w_badcase
  end.
