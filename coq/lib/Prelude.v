(** Shared substrate: Python strings as lists of code points, results with the
    exception classes the properties talk about, and small list utilities.
    Definitions only + a handful of basic lemmas used everywhere. *)
From Coq Require Export List Bool Arith ZArith NArith Lia.
Export ListNotations.

(** A Python [str] is a list of code points. *)
Definition str := list N.

Inductive pyerr := TypeErr | ValueErr | KeyErr | IndexErr | OverflowErr | StopIter | OtherErr.
Inductive res (A : Type) := Ok (a : A) | Err (e : pyerr).
Arguments Ok {A} a.
Arguments Err {A} e.

Definition bind {A B} (r : res A) (f : A -> res B) : res B :=
  match r with Ok a => f a | Err e => Err e end.

Definition pyerr_eqb (a b : pyerr) : bool :=
  match a, b with
  | TypeErr, TypeErr | ValueErr, ValueErr | KeyErr, KeyErr | IndexErr, IndexErr
  | OverflowErr, OverflowErr | StopIter, StopIter | OtherErr, OtherErr => true
  | _, _ => false
  end.

(** Code points used by name. *)
Definition c_slash : N := 47%N.
Definition c_dot : N := 46%N.

Fixpoint str_eqb (a b : str) : bool :=
  match a, b with
  | [], [] => true
  | x :: a', y :: b' => N.eqb x y && str_eqb a' b'
  | _, _ => false
  end.

Lemma str_eqb_spec a b : reflect (a = b) (str_eqb a b).
Proof.
  revert b; induction a as [|x a IH]; intros [|y b]; simpl; try (constructor; congruence).
  destruct (N.eqb_spec x y) as [->|Hn]; simpl.
  - destruct (IH b) as [->|Hn]; constructor; congruence.
  - constructor; congruence.
Qed.

Lemma str_eqb_eq a b : str_eqb a b = true <-> a = b.
Proof. destruct (str_eqb_spec a b); split; congruence. Qed.

Lemma str_eqb_refl a : str_eqb a a = true.
Proof. apply str_eqb_eq; reflexivity. Qed.

Definition mem_str (s : str) (l : list str) : bool := existsb (str_eqb s) l.

Lemma mem_str_In s l : mem_str s l = true <-> In s l.
Proof.
  unfold mem_str; rewrite existsb_exists; split.
  - intros [x [Hx He]]; apply str_eqb_eq in He; subst; auto.
  - intros H; exists s; split; auto; apply str_eqb_refl.
Qed.

Definition memN (c : N) (l : list N) : bool := existsb (N.eqb c) l.

(** Python [sep.join(parts)]. *)
Fixpoint join_with (sep : str) (parts : list str) : str :=
  match parts with
  | [] => []
  | [p] => p
  | p :: ps => p ++ sep ++ join_with sep ps
  end.

(** Python [s.split(c)] for a one-character separator: always at least one piece. *)
Fixpoint split_on (c : N) (s : str) : list str :=
  match s with
  | [] => [[]]
  | x :: s' =>
      if N.eqb x c then [] :: split_on c s'
      else match split_on c s' with
           | [] => [[x]]      (* unreachable: split_on never returns [] *)
           | p :: ps => (x :: p) :: ps
           end
  end.

Fixpoint starts_with (p s : str) : bool :=
  match p, s with
  | [], _ => true
  | x :: p', y :: s' => N.eqb x y && starts_with p' s'
  | _ :: _, [] => false
  end.

Definition ends_with (p s : str) : bool := starts_with (rev p) (rev s).

Fixpoint drop_while {A} (f : A -> bool) (l : list A) : list A :=
  match l with
  | [] => []
  | x :: l' => if f x then drop_while f l' else l
  end.

Fixpoint take_while {A} (f : A -> bool) (l : list A) : list A :=
  match l with
  | [] => []
  | x :: l' => if f x then x :: take_while f l' else []
  end.

Lemma take_drop_while {A} (f : A -> bool) l : take_while f l ++ drop_while f l = l.
Proof. induction l as [|x l IH]; simpl; auto. destruct (f x); simpl; congruence. Qed.

(** Decimal digits. *)
Definition is_digit (c : N) : bool := (48 <=? c)%N && (c <=? 57)%N.
Definition is_alpha_ascii (c : N) : bool :=
  ((65 <=? c)%N && (c <=? 90)%N) || ((97 <=? c)%N && (c <=? 122)%N).

(** Value of a string of ASCII decimal digits (no validation; callers check). *)
Definition dec_value (s : str) : N :=
  fold_left (fun acc c => (acc * 10 + (c - 48))%N) s 0%N.

(** Decimal rendering of a natural number, with explicit fuel (number of digits
    never exceeds [N.size n + 1]). *)
Fixpoint dec_digits_fuel (fuel : nat) (n : N) (acc : str) : str :=
  match fuel with
  | O => acc
  | S f => let d := (48 + n mod 10)%N in
           if (n <? 10)%N then d :: acc else dec_digits_fuel f (n / 10)%N (d :: acc)
  end.
Definition dec_of_N (n : N) : str := dec_digits_fuel (S (N.to_nat (N.size n))) n [].
