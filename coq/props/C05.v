(** C05 -- caller-supplied strings are stored as data, never interpreted as markup.
    Generic theorems over model/Escape.v (all strings of XML characters) + instance over
    the template sinks regenerated from /repo on this run (gen/GenC05.v). *)
From V.lib Require Import Prelude.
From V.model Require Import Escape.
From V.proofs Require Import Escape_proofs C05_instance.
From V.gen Require Import GenC05.

(** saxutils.escape (three replace passes) is the per-character substitution *)
Theorem C05_escape_single_pass : forall s,
  sax_escape s = flat_map esc_char s /\ sax_escape_q s = flat_map esc_char_q s.
Proof. intros s. split; [apply sax_escape_flat | apply sax_escape_q_flat]. Qed.
Print Assumptions C05_escape_single_pass.

(** element text: escaped caller text is read back as one text node holding the string
    (after the line-end handling every XML parser applies) *)
Theorem C05_text_safe_norm : forall s, xml_str s = true ->
  lex_text (sax_escape s) = OneText (norm Text s).
Proof. exact text_safe_norm. Qed.
Print Assumptions C05_text_safe_norm.

Theorem C05_text_safe : forall s, xml_str s = true -> no_cr s = true ->
  lex_text (sax_escape s) = OneText s.
Proof. exact text_safe. Qed.
Print Assumptions C05_text_safe.

(** double-quoted attribute value: escaping that includes the quot entity gives back one
    value, the string after attribute-value normalisation (TAB, LF, CR, CR LF -> blank) *)
Theorem C05_attr_safe_norm : forall s, xml_str s = true ->
  lex_attr (c_quot :: sax_escape_q s ++ [c_quot]) = OneValue (norm AttrDq s).
Proof. exact attr_safe_norm. Qed.
Print Assumptions C05_attr_safe_norm.

Theorem C05_attr_safe : forall s, xml_str s = true -> no_ws_ctl s = true ->
  lex_attr (c_quot :: sax_escape_q s ++ [c_quot]) = OneValue s.
Proof. exact attr_safe. Qed.
Print Assumptions C05_attr_safe.

(** with TAB, LF and CR written as character references as well: every string, no guard *)
Theorem C05_attr_safe_ws : forall s, xml_str s = true ->
  lex_attr (c_quot :: sax_escape_qw s ++ [c_quot]) = OneValue s.
Proof. exact attr_safe_w. Qed.
Print Assumptions C05_attr_safe_ws.

(** element text with the carriage return written as a reference: every string, no guard *)
Theorem C05_text_safe_cr : forall s q t l, xml_str s = true ->
  lex_text (sax_escape_g q t l true s) = OneText s.
Proof. intros; apply text_safe_r; auto. Qed.
Print Assumptions C05_text_safe_cr.

(** escape with any sub-dictionary of quote / TAB / LF / CR is the per-character substitution *)
Theorem C05_escape_dict_single_pass : forall q t l r s,
  sax_escape_g q t l r s = flat_map (esc_char_g q t l r) s.
Proof. exact sax_escape_g_flat. Qed.
Print Assumptions C05_escape_dict_single_pass.

(** plain saxutils.escape is not enough inside an attribute value: witness the double quote *)
Theorem C05_attr_sax_refuted : exists s, xml_str s = true /\ no_ws_ctl s = true /\
  lex_attr (c_quot :: sax_escape s ++ [c_quot]) <> OneValue s.
Proof. exact attr_sax_refuted. Qed.
Print Assumptions C05_attr_sax_refuted.

(** no escaping at all: the ampersand and the less-than sign break both contexts, the double
    quote breaks the attribute *)
Theorem C05_none_refuted :
  (forall cx, lex_slot cx [c_amp] = Broken) /\ (forall cx, lex_slot cx [c_lt] = Broken)
  /\ lex_slot AttrDq [c_quot] = Broken.
Proof. exact none_refuted. Qed.
Print Assumptions C05_none_refuted.

(** the CDATA-end sequence is rejected wherever it stands in character data ... *)
Theorem C05_cdata_end_rejected : forall a b rb cr acc,
  fold_left (step Text) a start = Run (MNorm rb cr) acc ->
  lex_text (a ++ cdata_end ++ b) = BrokenText.
Proof. exact cdata_end_rejected. Qed.
Print Assumptions C05_cdata_end_rejected.
Example C05_ex_cdata_end : fold_left (step Text) [97]%N start = Run (MNorm 0 false) [97]%N
  /\ lex_text ([97]%N ++ cdata_end ++ [98]%N) = BrokenText.
Proof. split; reflexivity. Qed.

(** ... and cannot occur in escaped text: no greater-than sign survives *)
Theorem C05_cdata_end_absent : forall s, ~ In c_gt (sax_escape s) /\
  forall a b, sax_escape s <> a ++ cdata_end ++ b.
Proof. intros s. split; [apply no_gt_after_escape | apply no_cdata_end_after_escape]. Qed.
Print Assumptions C05_cdata_end_absent.

(** the decision table (the slot gives back EXACTLY the string, for every string) is sound ... *)
Theorem C05_sink_ok_sound : forall cx e, sink_ok cx e = true ->
  forall s, xml_str s = true -> (e = NotText -> plain s = true /\ no_ws_ctl s = true) ->
  lex_slot cx (apply_esc e s) = Got s.
Proof. exact sink_ok_sound. Qed.
Print Assumptions C05_sink_ok_sound.

(** ... and exact: every rejected combination has a string that does not come back
    (the double quote, TAB, LF or CR in an attribute; CR in text; the ampersand without escaping) *)
Theorem C05_sink_ok_complete : forall cx e, sink_ok cx e = false ->
  xml_str (witness cx e) = true /\
  lex_slot cx (apply_esc e (witness cx e)) <> Got (witness cx e).
Proof. exact sink_ok_complete. Qed.
Print Assumptions C05_sink_ok_complete.

(** the weaker table (markup safety): whatever white space does, the slot is never broken *)
Theorem C05_markup_ok_sound : forall cx e, markup_ok cx e = true ->
  forall s, xml_str s = true -> (e = NotText -> plain s = true) ->
  lex_slot cx (apply_esc e s) <> Broken.
Proof. exact markup_ok_sound. Qed.
Print Assumptions C05_markup_ok_sound.

(** nothing the translator met was left unmodelled *)
Theorem C05_no_unmodelled : n_unmodelled = 0%nat.
Proof. exact no_unmodelled. Qed.
Print Assumptions C05_no_unmodelled.

(** INSTANCE: every template slot of python-pptx (except recorded findings), for every
    string of XML characters (values that are not caller text: for every string without
    markup metacharacters and TAB / LF / CR): the parsed template holds exactly one value /
    text node, the string itself *)
Theorem C05_all_sinks : forall k, In k sinks -> memN (sk_id k) known_failing = false ->
  forall s, xml_str s = true -> (sk_esc k = NotText -> plain s = true /\ no_ws_ctl s = true) ->
  lex_slot (sk_ctx k) (apply_esc (sk_esc k) s) = Got s.
Proof. exact all_sinks_safe. Qed.
Print Assumptions C05_all_sinks.

(** recorded findings are real *)
Theorem C05_known_failing_refuted : forall k, In k sinks -> memN (sk_id k) known_failing = true ->
  xml_str (sink_witness k) = true /\
  lex_slot (sk_ctx k) (apply_esc (sk_esc k) (sink_witness k)) <> Got (sink_witness k).
Proof. exact known_failing_refuted. Qed.
Print Assumptions C05_known_failing_refuted.

(** non-vacuity *)
Example C05_ex_ws :
  let s := [97; c_tab; c_lf; c_cr; c_lf; c_cr; c_quot; c_amp; 98]%N in
  xml_str s = true /\ lex_slot AttrDq (sax_escape_qw s) = Got s /\ lex_slot Text (sax_escape_g false false false true s) = Got s
  /\ lex_slot AttrDq (sax_escape_q s) = Got [97; c_sp; c_sp; c_sp; c_sp; c_quot; c_amp; 98]%N.
Proof. vm_compute. repeat split. Qed.
Example C05_ex_guards :
  let s := [97; c_amp; c_lt; c_gt; c_quot; c_apos; c_rbr; c_rbr; c_gt; 233; 128512]%N in
  xml_str s = true /\ no_ws_ctl s = true /\ no_cr s = true
  /\ lex_text (sax_escape s) = OneText s
  /\ lex_attr (c_quot :: sax_escape_q s ++ [c_quot]) = OneValue s.
Proof. exact guards_inhabited. Qed.
Example C05_ex_injection : lex_slot AttrDq inj_payload = Broken.
Proof. exact attr_injection_broken. Qed.
Example C05_ex_sinks : (0 < length (filter sink_good sinks))%nat
  /\ (0 < length (filter (fun k => negb (esc_eqb (sk_esc k) NotText)) sinks))%nat.
Proof. vm_compute. split; lia. Qed.
