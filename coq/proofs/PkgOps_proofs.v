(** Proofs about model/PkgOps.v (C02). *)
From V.lib Require Import Prelude.
From V.model Require Import PackUri PkgOps.
From V.model Require Ids Opc.
From V.proofs Require Prelude_proofs PackUri_proofs Ids_proofs Opc_proofs.
From Coq Require Import Permutation.

(* ------------------------------------------------------------------------------ *)
(** * Reachability: iter_pids computes the parts the relationship graph reaches *)

Definition wfg (s : state) : Prop :=
  (forall q, In q (int_targets (st_prels s)) -> q < length (st_parts s)) /\
  (forall p x q, getp s p = Some x -> In q (int_targets (pt_rels x)) -> q < length (st_parts s)).

Inductive reachP (s : state) : nat -> Prop :=
| rp0 q : In q (int_targets (st_prels s)) -> reachP s q
| rp1 p q x : reachP s p -> getp s p = Some x -> In q (int_targets (pt_rels x)) -> reachP s q.

Lemma key_inj a b : key a = key b -> a = b.
Proof. unfold key. intros H. inversion H. lia. Qed.

Lemma unkey_key a : unkey (key a) = a.
Proof. unfold unkey, key. lia. Qed.

Definition okk (s : state) (k : str) : Prop := exists p, p < length (st_parts s) /\ k = key p.

Lemma gsucc_key s p : gsucc (st_parts s) (key p) =
  match getp s p with Some x => map key (int_targets (pt_rels x)) | None => [] end.
Proof. unfold gsucc, key, getp. rewrite Nat2N.id. reflexivity. Qed.

Lemma okk_closed s : wfg s -> forall x y, okk s x -> In y (gsucc (st_parts s) x) -> okk s y.
Proof.
  intros [_ Hw] x y (p & Hp & ->) Hy. rewrite gsucc_key in Hy.
  destruct (getp s p) as [px|] eqn:E; [|destruct Hy].
  apply in_map_iff in Hy as (q & <- & Hq). exists q. split; auto. eapply Hw; eauto.
Qed.

Lemma okk_U s x : okk s x -> In x (map key (seq 0 (length (st_parts s)))).
Proof. intros (p & Hp & ->). apply in_map. apply in_seq. lia. Qed.

Lemma reach_keys s : wfg s -> forall y x, okk s y -> Opc.reach (gsucc (st_parts s)) y x -> okk s x.
Proof. intros Hw y x Hy Hr. induction Hr; auto. eapply okk_closed; eauto. Qed.

Lemma reachP_of_key s : forall q p, In q (int_targets (st_prels s)) ->
  Opc.reach (gsucc (st_parts s)) (key q) (key p) -> reachP s p.
Proof.
  intros q p Hq Hr. remember (key p) as kp eqn:Ekp. revert p Ekp.
  induction Hr as [|x y Hr IH Hy]; intros p Ekp.
  - apply key_inj in Ekp. subst. constructor; auto.
  - subst y. (* x is a key *)
    assert (Hx : exists px, x = key px).
    { clear IH Hy. remember (key q) as kq. induction Hr.
      - eauto.
      - destruct IHHr as (pz & ->); auto. rewrite gsucc_key in H.
        destruct (getp s pz); [|destruct H]. apply in_map_iff in H as (w & <- & _). eauto. }
    destruct Hx as (px & ->). specialize (IH px eq_refl).
    rewrite gsucc_key in Hy. destruct (getp s px) as [xx|] eqn:E; [|destruct Hy].
    apply in_map_iff in Hy as (w & Hw & Hin). apply key_inj in Hw. subst w.
    eapply rp1; eauto.
Qed.

Lemma key_of_reachP s p : reachP s p ->
  exists q, In q (int_targets (st_prels s)) /\ Opc.reach (gsucc (st_parts s)) (key q) (key p).
Proof.
  induction 1 as [q Hq|p q x Hp IH Hx Hq].
  - exists q. split; auto. apply Opc.r0.
  - destruct IH as (r & Hr & Hreach). exists r. split; auto.
    eapply Opc.r1; eauto. rewrite gsucc_key, Hx. apply in_map; auto.
Qed.

Lemma iter_pids_spec s : wfg s ->
  (forall p, In p (iter_pids s) <-> reachP s p) /\ NoDup (iter_pids s) /\
  (forall p, In p (iter_pids s) -> p < length (st_parts s)).
Proof.
  intros Hw. unfold iter_pids.
  set (g := gsucc (st_parts s)). set (ys := map key (int_targets (st_prels s))).
  assert (Hys : forall y, In y ys -> okk s y).
  { intros y Hy. apply in_map_iff in Hy as (q & <- & Hq). exists q. split; auto. apply (proj1 Hw); auto. }
  destruct (Opc_proofs.walk_reach g (okk s) (map key (seq 0 (length (st_parts s))))
              (okk_closed s Hw) (okk_U s) ys (S (length (st_parts s))) Hys) as [Hiff Hnd].
  { rewrite map_length, seq_length. lia. }
  assert (Hall : forall k, In k (Opc.walk g (S (S (length (st_parts s)))) [] ys) -> okk s k).
  { intros k Hk. apply Hiff in Hk as (y & Hy & Hr). eapply reach_keys; eauto. }
  split; [|split].
  - intros p. rewrite in_map_iff. split.
    + intros (k & <- & Hk). apply in_rev in Hk. destruct (Hall k Hk) as (q & Hq & ->).
      rewrite unkey_key. apply Hiff in Hk as (y & Hy & Hr).
      apply in_map_iff in Hy as (r & <- & Hrin). eapply reachP_of_key; eauto.
    + intros Hp. exists (key p). split; [apply unkey_key|]. apply -> in_rev.
      apply Hiff. destruct (key_of_reachP s p Hp) as (q & Hq & Hr).
      exists (key q). split; auto. apply in_map; auto.
  - assert (Hnd' : NoDup (rev (Opc.walk g (S (S (length (st_parts s)))) [] ys))).
    { apply NoDup_rev. exact Hnd. }
    revert Hnd'. assert (Hall' : forall k, In k (rev (Opc.walk g (S (S (length (st_parts s)))) [] ys)) -> okk s k).
    { intros k Hk. apply Hall. apply in_rev. exact Hk. }
    revert Hall'. generalize (rev (Opc.walk g (S (S (length (st_parts s)))) [] ys)).
    induction l as [|a l IH]; intros Hok Hn; simpl; constructor.
    + inversion Hn; subst. intros Hin. apply in_map_iff in Hin as (b & Hb & Hbin).
      destruct (Hok a (or_introl eq_refl)) as (pa & _ & ->).
      destruct (Hok b (or_intror Hbin)) as (pb & _ & ->).
      rewrite !unkey_key in Hb. subst. auto.
    + inversion Hn; subst. apply IH; auto. intros k Hk. apply Hok. right; auto.
  - intros p Hp. apply in_map_iff in Hp as (k & <- & Hk). apply in_rev in Hk.
    destruct (Hall k Hk) as (q & Hq & ->). rewrite unkey_key. exact Hq.
Qed.

(* ------------------------------------------------------------------------------ *)
(** * Small facts *)

Lemma NoDup_nodupb l : NoDup l -> Opc.nodupb l = true.
Proof.
  induction 1 as [|x l Hx Hnd IH]; simpl; auto.
  rewrite IH, andb_true_r. apply negb_true_iff. apply Opc_proofs.mem_str_nIn. exact Hx.
Qed.

Lemma getp_lt s p x : getp s p = Some x -> p < length (st_parts s).
Proof. unfold getp. intros H. apply nth_error_Some. congruence. Qed.

Lemma getp_some s p : p < length (st_parts s) -> exists x, getp s p = Some x.
Proof. unfold getp. intros H. destruct (nth_error (st_parts s) p) eqn:E; eauto. apply nth_error_None in E. lia. Qed.

Lemma name_of_getp s p x : getp s p = Some x -> name_of (st_parts s) p = pt_name x.
Proof. unfold getp, name_of. intros ->. reflexivity. Qed.

Lemma inv_wfg T s : Inv T s -> wfg s.
Proof.
  intros I. split; [apply (iv_ptgts T s I)|].
  intros p x q Hx Hq. exact (gp_tgts _ _ (iv_parts T s I p x Hx) q Hq).
Qed.

Lemma find_rel_In rid rs r : find_rel rid rs = Some r -> In r rs /\ rr_id r = rid.
Proof.
  induction rs as [|a rs IH]; simpl; [discriminate|].
  destruct (str_eqb_spec (rr_id a) rid) as [E|E].
  - intros [= <-]. auto.
  - intros H. destruct (IH H). auto.
Qed.

Lemma find_rel_None rid rs : find_rel rid rs = None <-> ~ In rid (map rr_id rs).
Proof.
  induction rs as [|a rs IH]; simpl; [tauto|].
  destruct (str_eqb_spec (rr_id a) rid) as [E|E]; [split; [discriminate|tauto]|].
  rewrite IH. tauto.
Qed.

Lemma find_rel_NoDup rs r : NoDup (map rr_id rs) -> In r rs -> find_rel (rr_id r) rs = Some r.
Proof.
  induction rs as [|a rs IH]; simpl; [tauto|]. intros Hnd [->|Hin].
  - rewrite str_eqb_refl. reflexivity.
  - inversion Hnd; subst. destruct (str_eqb_spec (rr_id a) (rr_id r)) as [E|E]; [|auto].
    exfalso. apply H1. rewrite E. apply in_map. exact Hin.
Qed.

Lemma int_targets_In q rs : In q (int_targets rs) <-> exists r, In r rs /\ rr_tgt r = TInt q.
Proof.
  unfold int_targets. rewrite in_flat_map. split.
  - intros (r & Hr & Hq). exists r. split; auto. destruct (rr_tgt r); simpl in Hq; [destruct Hq as [->|[]]; auto|destruct Hq].
  - intros (r & Hr & E). exists r. split; auto. rewrite E. simpl; auto.
Qed.

(** the parts save writes are the reached ones, each once *)
Definition memf (s : state) (p : nat) : pmember :=
  match getp s p with
  | Some x => mkMem (pt_name x) p (out_rels (st_parts s) (pt_base x) (pt_rels x))
  | None => mkMem [] p []
  end.

Lemma filter_all_true {A} (f : A -> bool) l : (forall x, In x l -> f x = true) -> filter f l = l.
Proof. induction l as [|a l IH]; simpl; auto. intros H. rewrite H by auto. f_equal. apply IH. auto. Qed.

Lemma save_members T s : wfg s -> ph_members (save_phys T s) = map (memf s) (iter_pids s).
Proof.
  intros Hw. destruct (iter_pids_spec s Hw) as (_ & _ & Hlt). unfold save_phys. cbn [ph_members].
  rewrite filter_all_true.
  - revert Hlt. generalize (iter_pids s). induction l as [|p l IH]; intros Hlt; simpl; auto.
    destruct (getp_some s p (Hlt p (or_introl eq_refl))) as (x & Hx).
    unfold memf at 1. rewrite Hx. simpl. f_equal. apply IH. intros; apply Hlt; simpl; auto.
  - intros p Hp. destruct (getp_some s p (Hlt p Hp)) as (x & ->). reflexivity.
Qed.

Lemma save_plist T s : wfg s ->
  ph_cts (save_phys T s) =
  Opc.content_types_item (tenv T)
    (map (fun p => Opc.mkPart (name_of (st_parts s) p)
                              (match getp s p with Some x => pt_ct x | None => [] end) tt []) (iter_pids s)).
Proof.
  intros Hw. destruct (iter_pids_spec s Hw) as (_ & _ & Hlt). unfold save_phys. cbn [ph_cts].
  f_equal. rewrite filter_all_true.
  - revert Hlt. generalize (iter_pids s). induction l as [|p l IH]; intros Hlt; simpl; auto.
    destruct (getp_some s p (Hlt p (or_introl eq_refl))) as (x & Hx).
    rewrite Hx, (name_of_getp s p x Hx). simpl. f_equal. apply IH. intros; apply Hlt; simpl; auto.
  - intros p Hp. destruct (getp_some s p (Hlt p Hp)) as (x & ->). reflexivity.
Qed.

Lemma memf_name s p : pm_name (memf s p) = name_of (st_parts s) p.
Proof. unfold memf, name_of, getp. destruct (nth_error (st_parts s) p); reflexivity. Qed.

Lemma memf_pid s p : pm_pid (memf s p) = p.
Proof. unfold memf. destruct (getp s p); reflexivity. Qed.

(* ------------------------------------------------------------------------------ *)
(** * Closed, clause by clause *)

Section SaveClosed.
Variable T : tables.
Variable s : state.
Hypothesis HI : Inv T s.
Hypothesis HT : tables_ok T.

Let Hw : wfg s := inv_wfg T s HI.

Lemma iter_good p : In p (iter_pids s) -> exists x, getp s p = Some x /\ good_part (length (st_parts s)) x.
Proof.
  intros Hp. destruct (iter_pids_spec s Hw) as (_ & _ & Hlt).
  destruct (getp_some s p (Hlt p Hp)) as (x & Hx). exists x. split; auto. exact (iv_parts T s HI p x Hx).
Qed.

Lemma iter_part_name p : In p (iter_pids s) -> Opc.part_name (name_of (st_parts s) p).
Proof. intros Hp. destruct (iter_good p Hp) as (x & Hx & G). rewrite (name_of_getp s p x Hx). apply (gp_name _ _ G). Qed.

(** ** member names are unique *)
Lemma closed_names : c_names (save_phys T s) = true.
Proof.
  unfold c_names. apply NoDup_nodupb. unfold member_names. rewrite save_members by exact Hw.
  pose proof (iv_names T s HI) as Hnd. unfold iter_names in Hnd.
  pose proof iter_part_name as Hpn.
  set (L := iter_pids s) in *.
  set (f := fun m : pmember => pm_name m :: rels_member (pm_name m) (pm_rels m)).
  assert (Hf : forall p z, In p L -> In z (f (memf s p)) ->
                z = name_of (st_parts s) p \/ z = Opc.rels_item_name (name_of (st_parts s) p)).
  { intros p z Hp Hz. unfold f in Hz. rewrite memf_name in Hz. destruct Hz as [<-|Hz]; auto.
    unfold rels_member in Hz. destruct (pm_rels (memf s p)); [destruct Hz|]. destruct Hz as [<-|[]]. auto. }
  assert (Hnot_ct : forall z, In z (flat_map f (map (memf s) L)) -> z <> Opc.ct_uri).
  { intros z Hz. apply in_flat_map in Hz as (m & Hm & Hz). apply in_map_iff in Hm as (p & <- & Hp).
    destruct (Hf p z Hp Hz) as [->| ->].
    - apply Opc_proofs.part_name_ne_ct. auto.
    - intros E. apply Opc_proofs.ct_uri_not_shaped. rewrite <- E. apply Opc_proofs.rels_item_shaped. auto. }
  assert (Hnot_root : forall z, In z (flat_map f (map (memf s) L)) -> z <> Opc.rels_item_name Opc.root).
  { intros z Hz. apply in_flat_map in Hz as (m & Hm & Hz). apply in_map_iff in Hm as (p & <- & Hp).
    destruct (Hf p z Hp Hz) as [->| ->].
    - intros E. apply (Opc_proofs.part_name_not_shaped _ (Hpn p Hp)). rewrite E. apply Opc_proofs.rels_item_root_shaped.
    - apply Opc_proofs.rels_item_not_root. auto. }
  constructor.
  - intros [E|Hin].
    + revert E. vm_compute. discriminate.
    + apply (Hnot_ct _ Hin). reflexivity.
  - constructor.
    + intros Hin. apply (Hnot_root _ Hin). reflexivity.
    + apply Opc_proofs.NoDup_flat_map.
      * apply FinFun.Injective_map_NoDup.
        -- intros a b E. apply (f_equal pm_pid) in E. rewrite !memf_pid in E. exact E.
        -- destruct (iter_pids_spec s Hw) as (_ & H & _). exact H.
      * intros m Hm. apply in_map_iff in Hm as (p & <- & Hp). unfold f. rewrite memf_name.
        unfold rels_member. destruct (pm_rels (memf s p)); [repeat constructor; auto|].
        constructor; [|repeat constructor; auto]. intros [E|[]].
        apply (Opc_proofs.part_name_not_shaped _ (Hpn p Hp)). rewrite <- E.
        apply Opc_proofs.rels_item_shaped. auto.
      * intros m1 m2 z Hm1 Hm2 Hne Hz1 Hz2.
        apply in_map_iff in Hm1 as (p1 & <- & Hp1). apply in_map_iff in Hm2 as (p2 & <- & Hp2).
        assert (Hpne : p1 <> p2) by (intros ->; apply Hne; reflexivity).
        assert (Hnn : name_of (st_parts s) p1 <> name_of (st_parts s) p2).
        { intros E. apply Hpne. clear - Hnd Hp1 Hp2 E. induction L as [|a L IH]; [destruct Hp1|].
          simpl in Hnd. inversion Hnd; subst.
          destruct Hp1 as [->|Hp1], Hp2 as [->|Hp2]; auto.
          - exfalso. apply H1. rewrite E. apply in_map. auto.
          - exfalso. apply H1. rewrite <- E. apply in_map. auto. }
        destruct (Hf p1 z Hp1 Hz1) as [E1|E1], (Hf p2 z Hp2 Hz2) as [E2|E2]; subst z.
        -- apply Hnn; auto.
        -- apply (Opc_proofs.part_name_not_shaped _ (Hpn p1 Hp1)). rewrite E2. apply Opc_proofs.rels_item_shaped. auto.
        -- apply (Opc_proofs.part_name_not_shaped _ (Hpn p2 Hp2)). rewrite <- E2. apply Opc_proofs.rels_item_shaped. auto.
        -- apply Hnn. apply Opc_proofs.rels_item_inj; auto.
Qed.

End SaveClosed.
