"""C20 — enumerations and the preset-shape table agree with the standard.

translate (tx/tx_c20.py: member tables of every BaseXmlEnum subclass, attribute <-> enumeration
           links from the live element classes, XSD enumeration facets, pptx.spec.autoshape_types,
           presetShapeDefinitions.xml, XL_CHART_TYPE + the ChartXmlWriter dispatch and what the
           writers emit)
-> prove (props/C20.v: generic theorems about the BaseXmlEnum model + instance theorems over
          gen/GenC20.v by vm_compute; the domain is finite so the bound is the whole domain)
-> diagnose (diag/Diag_C20.v: the failing table entries)
-> replay each failing entry on the implementation (concrete violation)
-> exhaustive correspondence of model/EnumLib.v with the implementation (every member/token
   pair, every auto-shape type added to a slide with an adjustment history, every chart type)
-> oracle: the property's statement evaluated directly on the implementation, with its own
   reading of the XSDs and of presetShapeDefinitions.xml.
"""
import io
import json
import os
import re

from corr.harness import COQ, REPO, VERIF, _run, coq_build, exc_name, run_model

TB = [
    "tx/tx_c20.py + tx/xsdlib.py (translator: member rows from EnumCls.__members__, alias tuples from the AST, "
    "attribute declarations recovered from property closures, xsd:enumeration facets and attribute types read "
    "structurally, presetShapeDefinitions.xml avLst read with lxml, ChartXmlWriter dispatch dict from the AST)",
    "Python Enum alias semantics (a row repeating an earlier value becomes an alias) as modelled in model/EnumLib.v "
    "(tied by the exhaustive correspondence on every member name and value)",
    "the XSDs and presetShapeDefinitions.xml under /repo/spec are the oracle",
]
ASSUME = [
    "guides in a:avLst are of the form `val N` with a plain decimal N (int() of Python accepts more spellings)",
    "the float <-> raw conversion of Adjustment.effective_value (int(v * 100000.0)) is outside the model: the check "
    "feeds the model the raw integer the implementation computes",
    "s:ST_Lang (the type of the lang attribute) is xsd:string: membership of language tokens in the schema type is trivial",
    "to_xml is exercised with int values and members; other argument types (float, str, None) resolve through "
    "Enum.__call__ by hash/equality and are not modelled",
    "chart types: what a writer emits is observed on a fixed family of data grids (string, date, number and "
    "multi-level categories; XY; bubble); PlotTypeInspector is executed, not modelled",
]
XSD_FILE = {"a": "dml-main.xsd", "p": "pml.xsd", "c": "dml-chart.xsd", "s": "shared-commonSimpleTypes.xsd"}
PRESET_XML = (REPO + "/spec/ISO-IEC-29500-1/schemas/dml-geometries/OfficeOpenXML-DrawingMLGeometries/"
              "presetShapeDefinitions.xml")


def show(s):
    return " ".join(str(ord(c)) for c in s)


def load_meta():
    return json.load(open(os.path.join(COQ, "gen", "c20_meta.json")))


def enum_class(meta_enum):
    import importlib

    return getattr(importlib.import_module(meta_enum["module"]), meta_enum["name"])


# ------------------------------------------------------------------ independent readings (oracle)
_xsd_cache = {}


def xsd_tokens(stype):
    """enumeration facets of a simple type by regex on the XSD text (not through tx/xsdlib)."""
    if stype in _xsd_cache:
        return _xsd_cache[stype]
    pfx, name = stype.split(":")[0], stype.split(":")[1]
    res = None
    if "@" not in name and pfx in XSD_FILE:
        txt = open(REPO + "/spec/ISO-IEC-29500-4/xsd/" + XSD_FILE[pfx], encoding="utf-8").read()
        m = re.search(r'<xsd:simpleType name="%s">(.*?)</xsd:simpleType>' % re.escape(name), txt, re.S)
        if m:
            toks = re.findall(r'<xsd:enumeration value="([^"]*)"', m.group(1))
            res = toks or None
    _xsd_cache[stype] = res
    return res


_defs_cache = []


def preset_definitions():
    """name -> list of avLst (name, fmla) lists, one per definition with that name (xpath reading)."""
    if _defs_cache:
        return _defs_cache[0]
    from lxml import etree

    root = etree.parse(PRESET_XML).getroot()
    out = {}
    for e in root.xpath("/*/*"):
        gds = [(g.get("name"), g.get("fmla")) for g in e.xpath("./*[local-name()='avLst']/*[local-name()='gd']")]
        out.setdefault(etree.QName(e).localname, []).append(gds)
    _defs_cache.append(out)
    return out


# ------------------------------------------------------------------ implementation side
def new_slide():
    from pptx import Presentation

    prs = Presentation()
    return prs, prs.slides.add_slide(prs.slide_layouts[6])


def impl_enum(case, classes):
    op, cls = case[0], classes[case[1]]
    try:
        if op == "ms":
            return "|".join(show(m.name) for m in cls)
        if op == "fx":
            return "ok:" + show(cls.from_xml(case[2]).name)
        if op == "nm":
            return "ok:" + show(cls[case[2]].name)
        if op == "tx":
            return "ok:" + show(cls.to_xml(int(case[2])))
        if op == "rt":
            try:
                t = cls.to_xml(int(case[2]))
            except Exception as e:  # noqa
                return "err:%s|err:%s" % (exc_name(e), exc_name(e))
            try:
                back = "ok:" + show(cls.from_xml(t).name)
            except Exception as e:  # noqa
                back = "err:" + exc_name(e)
            return "ok:" + show(t) + "|" + back
    except Exception as e:  # noqa
        return "err:" + exc_name(e)
    return "badcase"


def impl_av(value):
    from pptx.shapes.autoshape import AutoShapeType

    try:
        av = AutoShapeType.default_adjustment_values(value)
        return "ok:" + "|".join("%s=%d" % (show(n), v) for n, v in av)
    except Exception as e:  # noqa
        return "err:" + exc_name(e)


def raw_of(v):
    """what Adjustment._denormalize computes for the float the check assigns"""
    return int(v * 100000.0)


def impl_adj(prst, ops, floats):
    """New shape with a:prstGeom/@prst = prst; assignments adjustments[idx] = value through a fresh
    Shape proxy each time (so that every step re-reads the XML); then guides and read-back."""
    from pptx.enum.shapes import MSO_SHAPE
    from pptx.util import Emu

    try:
        _prs, slide = new_slide()
        member = None
        try:
            member = MSO_SHAPE.from_xml(prst)
        except ValueError:
            pass
        sh = slide.shapes.add_shape(member if member is not None else MSO_SHAPE.RECTANGLE, Emu(0), Emu(0), Emu(914400), Emu(914400))
        pg = sh._element.xpath(".//a:prstGeom")[0]
        if member is None or pg.get("prst") != prst:
            pg.set("prst", prst)
        for (idx, _raw), v in zip(ops, floats):
            slide.shapes[-1].adjustments[idx] = v
        guides = [(g.get("name"), int(g.get("fmla")[4:])) for g in pg.xpath("./a:avLst/a:gd")]
    except Exception as e:  # noqa
        return "err:%s|err:%s" % (exc_name(e), exc_name(e))
    gs = "ok:" + "|".join("%s=%d" % (show(n), v) for n, v in guides)
    try:
        adjs = slide.shapes[-1].adjustments._adjustments
        return gs + "|ok:" + "|".join(
            "%s=%d:%s" % (show(a.name), a.def_val, "None" if a.actual is None else str(a.actual)) for a in adjs)
    except Exception as e:  # noqa
        return gs + "|err:" + exc_name(e)


def sample_data(writer):
    from pptx.chart.data import BubbleChartData, CategoryChartData, XyChartData

    if "Xy" in writer:
        d = XyChartData()
        s = d.add_series("S1")
        s.add_data_point(1.0, 2.0)
        s.add_data_point(2.0, 3.0)
        return d
    if "Bubble" in writer:
        d = BubbleChartData()
        s = d.add_series("S1")
        s.add_data_point(1.0, 2.0, 3.0)
        s.add_data_point(2.0, 3.0, 1.0)
        return d
    d = CategoryChartData()
    d.categories = ["a", "b"]
    d.add_series("S1", (1, 2))
    d.add_series("S2", (3, 4))
    return d


def impl_wr(value, meta):
    from pptx.chart.xmlwriter import ChartXmlWriter

    try:
        w = ChartXmlWriter(value, sample_data("Category"))
        return "ok:%d" % meta["writers"].index(type(w).__name__)
    except Exception as e:  # noqa
        return "err:" + exc_name(e)


# ------------------------------------------------------------------ replays of failing entries
def replay_bij(ename, module, mname):
    import importlib

    cls = getattr(importlib.import_module(module), ename)
    member = cls[mname]
    rec = {"entry_point": "%s.to_xml / %s.from_xml" % (ename, ename), "kind2": "bij",
           "input": {"enum": ename, "module": module, "member": mname}}
    try:
        t = cls.to_xml(member)
    except Exception as e:  # noqa
        rec["impl_outcome"] = "to_xml raised %r" % e
        return False, rec, "to_xml(%s.%s) raised %r" % (ename, mname, e)
    sharing = [m.name for m in cls if m.xml_value == t]
    try:
        back = cls.from_xml(t)
        back_s = back.name
    except Exception as e:  # noqa
        back, back_s = None, "raised %r" % e
    rec["impl_outcome"] = {"to_xml": t, "from_xml(to_xml)": back_s, "members_with_this_token": sharing,
                           "resolves_to": member.name}
    ok = back is member and sharing == [member.name]
    what = "%s.%s: to_xml gives %r, which is the token of members %s; from_xml(%r) gives %s" % (
        ename, mname, t, sharing, t, back_s)
    if member.name != mname:
        # alias row: Python keeps only the first row with this value; read the tuple written for the alias
        import inspect

        m = re.search(r"^\s+%s\s*=\s*\(\s*(-?\d+)\s*,\s*(None|\"[^\"]*\"|'[^']*')" % re.escape(mname), inspect.getsource(cls), re.M)
        written = None if m is None else (None if m.group(2) == "None" else m.group(2)[1:-1])
        rec["impl_outcome"]["alias_row_written_with_token"] = written
        if m is not None and written != t:
            ok = False
            what = "%s.%s is an alias of %s (same value %d): its row is written with token %r but it maps to %r" % (
                ename, mname, member.name, int(member), written, t)
    return ok, rec, what


def bij_sig(ename, mname, rec):
    """the finding is identified by the member AND by what its token resolves to: the same pair of members sharing a
    token is a different failure when the other one of the two stops reading back as itself"""
    out = rec.get("impl_outcome")
    back = out.get("from_xml(to_xml)") if isinstance(out, dict) else None
    res = out.get("resolves_to", mname) if isinstance(out, dict) else mname
    if back is None or back == res:
        return "bij:%s.%s" % (ename, mname)
    return "bij:%s.%s->%s" % (ename, mname, back if re.match(r"^\w+$", back) else "error")


def replay_tok(u, ename, module, mname):
    import importlib
    from pptx.oxml.xmlchemy import OxmlElement

    cls = getattr(importlib.import_module(module), ename)
    member = cls[mname]
    t = cls.to_xml(member)
    toks = xsd_tokens(u["stype"])
    written = None
    try:
        elm = OxmlElement(u["tag"])
        prop = u["origin"].split(" ")[0].split(".")[-1]
        setattr(elm, prop, member)
        written = elm.get(u["attr"])
    except Exception as e:  # noqa
        written = "not written through the element class (%s)" % type(e).__name__
    rec = {"entry_point": "%s@%s typed %s" % (u["tag"], u["attr"], ename), "kind2": "tok",
           "input": {"enum": ename, "module": module, "member": mname, "use": u},
           "impl_outcome": {"to_xml": t, "attribute_written": written, "schema_type": u["stype"], "schema_tokens": toks}}
    ok = toks is None or t in toks
    what = "%s.%s writes %s@%s=%r but %s enumerates %s" % (ename, mname, u["tag"], u["attr"], t, u["stype"], toks)
    return ok, rec, what


def observe_shape(member):
    """add to a slide, read back through a fresh proxy"""
    from pptx.util import Emu

    _prs, slide = new_slide()
    slide.shapes.add_shape(member, Emu(0), Emu(0), Emu(914400), Emu(914400))
    sh = slide.shapes[-1]
    prst = sh._element.xpath(".//a:prstGeom/@prst")[0]
    got = sh.auto_shape_type
    adjs = [(a.name, a.def_val) for a in sh.adjustments._adjustments]
    return prst, got, adjs


def replay_preset(mname):
    from pptx.enum.shapes import MSO_SHAPE

    member = MSO_SHAPE[mname]
    rec = {"entry_point": "SlideShapes.add_shape / Shape.adjustments", "kind2": "preset", "input": {"member": mname}}
    try:
        prst, got, adjs = observe_shape(member)
    except Exception as e:  # noqa
        rec["impl_outcome"] = "raised %r" % e
        return False, rec, "add_shape(MSO_SHAPE.%s) raised %r" % (mname, e)
    defs = preset_definitions().get(prst)
    want = None if not defs else [(n, f) for n, f in defs[0]]
    rec["impl_outcome"] = {"prst": prst, "adjustments(name, default)": adjs, "definition_avLst": want,
                           "definitions_with_this_name": 0 if not defs else len(defs)}
    if not defs:
        return False, rec, ("MSO_SHAPE.%s: add_shape writes prst=%r, for which presetShapeDefinitions.xml has no "
                            "definition; the shape reports adjustments %s" % (mname, prst, adjs))
    ok = [(n, "val %d" % v) for n, v in adjs] == want
    what = "MSO_SHAPE.%s (prst=%r): a new shape reports adjustments %s, the definition's avLst is %s" % (
        mname, prst, adjs, want)
    return ok, rec, what


def observe_chart(ct, writer, reopen=True):
    from pptx import Presentation
    from pptx.util import Emu

    prs, slide = new_slide()
    slide.shapes.add_chart(ct, Emu(0), Emu(0), Emu(3000000), Emu(2000000), sample_data(writer))
    if reopen:
        buf = io.BytesIO()
        prs.save(buf)
        buf.seek(0)
        prs = Presentation(buf)
        slide = prs.slides[0]
    return slide.shapes[-1].chart.chart_type


def replay_chart(row):
    from pptx.enum.chart import XL_CHART_TYPE

    ct = XL_CHART_TYPE[row["name"]]
    rec = {"entry_point": "SlideShapes.add_chart / Chart.chart_type", "kind2": "chart", "input": {"member": row["name"], "writer": row["writer"]}}
    try:
        got = observe_chart(ct, row["writer"])
        got_s = getattr(got, "name", repr(got))
    except Exception as e:  # noqa
        got, got_s = None, "raised %r" % e
    bad_tokens = [(t["where"], t["token"], t["stype"]) for t in row["tokens"]
                  if xsd_tokens(t["stype"]) is not None and t["token"] not in xsd_tokens(t["stype"])]
    rec["impl_outcome"] = {"chart_type_read_back": got_s, "tokens_outside_schema": bad_tokens}
    ok = got is ct and not bad_tokens
    what = "XL_CHART_TYPE.%s: written chart reads back as %s; emitted values outside their schema enumeration: %s" % (
        row["name"], got_s, bad_tokens)
    return ok, rec, what


def diag_rows():
    rc, out = _run(["timeout", "600", "coqc", "-Q", ".", "V", "diag/Diag_C20.v"], cwd=COQ)
    if rc != 0:
        return None, out
    body = out[out.index("="):] if "=" in out else ""
    rows = []
    for m in re.finditer(r"\[([^\[\]]*)\]", body):
        nums = [int(x) for x in re.findall(r"(\d+)%N", m.group(1))]
        if len(nums) >= 3 and nums[1] == 7777:
            rows.append((nums[0], nums[2:]))
    return rows, out


def ensure_runner():
    ml = os.path.join(COQ, "extract", "c20.ml")
    exe = os.path.join(COQ, "extract", "run_c20")
    if os.path.exists(ml) and ((not os.path.exists(exe)) or os.path.getmtime(exe) < os.path.getmtime(ml)):
        _run(["./extract/build.sh", "c20"], cwd=COQ)
    return os.path.exists(exe) and os.path.exists(ml) and os.path.getmtime(exe) >= os.path.getmtime(ml)


# ------------------------------------------------------------------ the check
def run(ck, tier, rng):
    rc, out = _run(["/venv/bin/python", os.path.join(VERIF, "tx", "tx_c20.py")], cwd=VERIF)
    if rc != 0:
        ck.violation("translator", "tx_c20 failed on the current tree: " + out[-600:],
                     {"theorem_or_correspondence": "translator tx_c20 (table regeneration)"}, concrete=False)
        return ck.finish("translator failed", TB, ASSUME)
    ck.notes.append(out.strip())
    meta = load_meta()
    ck.build = coq_build("C20", extra_targets=["proofs/EnumLib_proofs.vo", "gen/GenC20.vo"])
    have_runner = ensure_runner()
    if not ck.build.ok:
        ck.notes.append("build: " + str(ck.build.failed_at)[:400])

    enums = meta["enums"]
    classes = {e["name"]: enum_class(e) for e in enums}
    row_by_id = {r["id"]: (e, r) for e in enums for r in e["rows"]}
    use_by_id = {u["id"]: u for u in meta["uses"]}
    chart_by_id = {r["id"]: r for r in meta["chart_rows"]}

    # 1. failing table entries (Coq computes them), each replayed on the implementation
    rows, dout = diag_rows()
    if rows is None:
        ck.notes.append("diagnostics did not compile: " + dout[-300:])
        rows = []
    failing = []
    for kind, ids in rows:
        if kind == 1:
            e, r = row_by_id[ids[1]]
            ok, rec, what = replay_bij(e["name"], e["module"], r["name"])
            sig = bij_sig(e["name"], r["name"], rec)
            thm = "C20_bijective"
        elif kind == 2:
            u = use_by_id[ids[0]]
            e, r = row_by_id[ids[1]]
            sig = "token:%s.%s@%s/%s" % (e["name"], r["name"], u["tag"], u["attr"])
            ok, rec, what = replay_tok(u, e["name"], e["module"], r["name"])
            thm = "C20_tokens_in_schema"
        elif kind == 3:
            e, r = row_by_id[ids[0]]
            sig = "preset:" + r["name"]
            ok, rec, what = replay_preset(r["name"])
            thm = "C20_presets"
        else:
            r = chart_by_id[ids[0]]
            sig = "chart:" + r["name"]
            ok, rec, what = replay_chart(r)
            thm = "C20_chart_types"
        failing.append(sig)
        rec["model_outcome"] = "entry fails its check in diag/Diag_C20.v (%s)" % thm
        if not ok:
            ck.violation(sig, what, rec)
        else:
            ck.violation("unreplayed:" + sig, "table entry %s fails %s but the implementation replay shows no failure (%s)" % (
                sig, thm, what), dict(rec, theorem_or_correspondence=thm), concrete=False)

    # 2. constructs the translator did not understand
    for u in meta["unmodelled"]:
        ck.violation("unmodelled:" + u[:100], "translator met a construct outside the model: " + u,
                     {"theorem_or_correspondence": "C20_no_unmodelled", "construct": u}, concrete=False)

    # 3. exhaustive cases
    cases, impl_out = [], []

    def add(case, out_, nontrivial, klass):
        cases.append(case)
        impl_out.append(out_)
        ck.count(tuple(case), nontrivial, klass)

    uses_of = {}
    for u in meta["uses"]:
        uses_of.setdefault(u["enum"], []).append(u)
    stype_tokens = {s["name"]: s["tokens"] for s in meta["stypes"]}
    extra_tokens = {}
    for e in enums:
        cls = classes[e["name"]]
        n = e["name"]
        add(["ms", n], impl_enum(["ms", n], classes), True, "members")
        for r in e["rows"]:
            add(["nm", n, r["name"]], impl_enum(["nm", n, r["name"]], classes), True, "by-name")
        for bad in ["", "NoSuchMember", e["rows"][0]["name"].lower(), e["rows"][0]["name"] + " "]:
            add(["nm", n, bad], impl_enum(["nm", n, bad], classes), False, "by-name")
        values = sorted({r["value"] for r in e["rows"]})
        off = sorted({v + d for v in values for d in (-1, 1)} | {0, -1, 10 ** 9, -(10 ** 9)}) if len(values) < 60 else \
            sorted({values[0] - 1, values[-1] + 1, 0, -1, 10 ** 9} | {rng.randint(-5000, 70000) for _ in range(40)})
        off = [v for v in off if v not in values]
        for v in values:
            add(["tx", n, str(v)], impl_enum(["tx", n, str(v)], classes), True, "to_xml")
            add(["rt", n, str(v)], impl_enum(["rt", n, str(v)], classes), True, "round-trip")
            # to_xml accepts the member as well as its int value: same answer
            try:
                via_member = "ok:" + show(cls.to_xml(cls(v)))
            except Exception as ex:  # noqa
                via_member = "err:" + exc_name(ex)
            if via_member != impl_out[-2]:
                ck.violation("to_xml-member-vs-int:%s" % n, "%s.to_xml(member) and to_xml(int) differ for %d" % (n, v),
                             {"entry_point": n + ".to_xml", "input": {"enum": n, "value": v}, "impl_outcome": [via_member, impl_out[-2]]})
        for v in off:
            add(["tx", n, str(v)], impl_enum(["tx", n, str(v)], classes), False, "to_xml")
        toks = [r["runtime_xml"] for r in e["rows"] if r["runtime_xml"]]
        schema = []
        for u in uses_of.get(n, []):
            schema += stype_tokens.get(u["stype"]) or []
        pool = sorted(set(toks) | set(schema))
        extra_tokens[n] = sorted(set(schema) - set(toks))
        malformed = {"", " ", "none", "NONE"} | {t.upper() for t in pool[:20]} | {t + " " for t in pool[:10]} | {
            t[:-1] for t in pool[:20] if len(t) > 1} | {"".join(rng.choice("abcRt-3é ") for _ in range(rng.randint(1, 6))) for _ in range(20)}
        for t in pool:
            add(["fx", n, t], impl_enum(["fx", n, t], classes), True, "from_xml")
        for t in sorted(malformed - set(pool)):
            add(["fx", n, t], impl_enum(["fx", n, t], classes), False, "from_xml-malformed")

    # preset table + adjustment histories on real shapes
    shape_rows = [r for r in next(e for e in enums if e["name"] == meta["shape_enum"])["rows"] if not r["alias"]]
    for r in shape_rows:
        add(["av", str(r["value"])], impl_av(r["value"]), True, "default-adjustments")
    for v in (0, -1, 184, 10 ** 6):
        add(["av", str(v)], impl_av(v), False, "default-adjustments")
    spec_by_value = {s["value"]: s for s in meta["spec_rows"]}
    for r in shape_rows:
        nadj = len(spec_by_value.get(r["value"], {"av": []})["av"])
        prst = r["runtime_xml"]
        hist = []
        for i in range(nadj):
            hist.append((i, rng.choice([0.0, 0.25, 0.5, 1.0, -0.2, 2.5, rng.randint(-30000, 150000) / 100000.0])))
        if nadj:
            hist.append((-1, rng.randint(0, 100000) / 100000.0))
            hist.append((0, rng.randint(0, 100000) / 100000.0))
        variants = [[], hist, hist + [(nadj, 0.5)], [(-nadj - 1, 0.5)]] if nadj else [[], [(0, 0.5)], [(-1, 0.5)]]
        for h in variants:
            ops = [(i, raw_of(v)) for i, v in h]
            field = " ".join("%d %d" % p for p in ops)
            add(["adj", prst, field], impl_adj(prst, ops, [v for _i, v in h]), bool(h), "adjustment-history")
    for prst in ("line", "RECT", "", "rect "):
        add(["adj", prst, ""], impl_adj(prst, [], []), False, "adjustment-history-malformed")
        add(["adj", prst, "0 5"], impl_adj(prst, [(0, 5)], [0.00005]), False, "adjustment-history-malformed")

    # chart types
    chart_values = [c["value"] for c in meta["chart_types"]]
    for v in chart_values:
        add(["wr", str(v)], impl_wr(v, meta), True, "writer-dispatch")
    for v in (0, 2, 99999, -5000):
        if v not in chart_values:
            add(["wr", str(v)], impl_wr(v, meta), False, "writer-dispatch")

    for c in cases[:2] + [c for c in cases if c[0] == "rt"][:2] + [c for c in cases if c[0] == "adj" and c[2]][:3] + [
            c for c in cases if c[0] == "wr"][:2]:
        ck.sample(c, limit=10)

    # 4. oracle: the property's statement on the implementation, independent of the model
    from pptx.enum.base import BaseXmlEnum

    live = []
    todo = list(BaseXmlEnum.__subclasses__())
    while todo:
        c = todo.pop(0)
        if c not in live:
            live.append(c)
            todo += c.__subclasses__()
    if sorted(c.__name__ for c in live) != sorted(classes):
        ck.violation("correspondence", "XML enumerations alive in the implementation %s differ from the translated ones %s" % (
            sorted(c.__name__ for c in live), sorted(classes)),
            {"theorem_or_correspondence": "translator completeness (BaseXmlEnum subclasses)"}, concrete=False)
    npairs = 0
    for cls in live:
        for name, m in cls.__members__.items():
            if not m.xml_value:
                continue
            npairs += 1
            ok, rec, what = replay_bij(cls.__name__, cls.__module__, name)
            if not ok:
                ck.violation(bij_sig(cls.__name__, name, rec), what, rec)
    for u in meta["uses"]:
        toks = xsd_tokens(u["stype"])
        if toks is None:
            continue
        cls = classes[u["enum"]]
        for m in cls:
            if m.xml_value and m.xml_value not in toks:
                ok, rec, what = replay_tok(u, cls.__name__, cls.__module__, m.name)
                ck.violation("token:%s.%s@%s/%s" % (cls.__name__, m.name, u["tag"], u["attr"]), what, rec)
    # every auto-shape type added and read back (one deck, saved and reopened at the end)
    from pptx import Presentation
    from pptx.enum.shapes import MSO_SHAPE
    from pptx.util import Emu

    prs, slide = new_slide()
    observed = []
    for m in MSO_SHAPE:
        ok, rec, what = replay_preset(m.name)
        if not ok:
            ck.violation("preset:" + m.name, what, rec)
        try:
            slide.shapes.add_shape(m, Emu(0), Emu(0), Emu(914400), Emu(914400))
            sh = slide.shapes[-1]
            got = sh.auto_shape_type
            observed.append((m, [(a.name, a.def_val) for a in sh.adjustments._adjustments]))
        except Exception as e:  # noqa
            got = e
            observed.append((m, None))
        if got is not m:
            ck.violation("bij:%s.%s->%s" % (type(m).__name__, m.name, getattr(got, "name", "error")),
                         "MSO_SHAPE.%s added to a slide reads back as %s" % (m.name, getattr(got, "name", repr(got))),
                         {"entry_point": "SlideShapes.add_shape / Shape.auto_shape_type", "kind2": "bij",
                          "input": {"enum": type(m).__name__, "module": type(m).__module__, "member": m.name},
                          "impl_outcome": getattr(got, "name", repr(got))})
    buf = io.BytesIO()
    prs.save(buf)
    buf.seek(0)
    shapes2 = list(Presentation(buf).slides[0].shapes)
    reopened_diff = 0
    for (m, adjs), sh in zip(observed, shapes2):
        try:
            again = (sh.auto_shape_type, [(a.name, a.def_val) for a in sh.adjustments._adjustments])
        except Exception as e:  # noqa
            again = (repr(e), None)
        first = (MSO_SHAPE.from_xml(m.xml_value), adjs)
        if again != first:
            reopened_diff += 1
            ck.violation("reopen:" + m.name, "MSO_SHAPE.%s: after save and reopen the shape reads %r, before %r" % (m.name, again, first),
                         {"entry_point": "Presentation.save / Shape.auto_shape_type", "kind2": "preset", "input": {"member": m.name},
                          "impl_outcome": repr(again)})
    if len(shapes2) != len(observed):
        ck.violation("reopen:count", "%d shapes added, %d read back" % (len(observed), len(shapes2)),
                     {"entry_point": "Presentation.save", "input": {}, "impl_outcome": len(shapes2)})
    # every writable chart type added, saved, reopened, read back
    for r in meta["chart_rows"]:
        ok, rec, what = replay_chart(r)
        if not ok:
            ck.violation("chart:" + r["name"], what, rec)
    ck.dist["oracle-member-token-pairs"] = npairs
    ck.dist["oracle-shapes-added"] = len(observed)
    ck.dist["oracle-charts-added"] = len(meta["chart_rows"])

    # 5. model vs implementation
    diffs = 0
    if have_runner:
        try:
            model_out = run_model("C20", cases)
        except Exception as e:  # noqa
            model_out = None
            ck.notes.append("model runner unavailable: %r" % e)
        if model_out is not None:
            first = None
            for c, mo, io_ in zip(cases, model_out, impl_out):
                if mo.strip() != io_.strip():
                    diffs += 1
                    if first is None:
                        first = (c, mo, io_)
                    if diffs <= 5:
                        ck.notes.append("diff %r model=%s impl=%s" % (c, mo, io_))
            if diffs:
                c, mo, io_ = first
                ck.violation("correspondence",
                             "model/EnumLib.v (over the regenerated tables) and the implementation disagree on %d cases, e.g. %r: "
                             "model=%s impl=%s" % (diffs, c, mo, io_),
                             {"theorem_or_correspondence": "correspondence EnumLib.v ~ enum/base.py, shapes/autoshape.py, chart/xmlwriter.py",
                              "input": c, "model_outcome": mo, "impl_outcome": io_}, concrete=False)
    else:
        ck.notes.append("extracted runner not available; correspondence not run")
    any_concrete = any(v["concrete"] for v in ck.violations)
    ck.broken_build(oracle_found_concrete=any_concrete)
    converse = {}
    for u in meta["uses"]:
        toks = stype_tokens.get(u["stype"])
        if toks:
            have = {r["runtime_xml"] for r in enums[u["enum_id"]]["rows"]}
            missing = [t for t in toks if t not in have]
            if missing:
                converse["%s@%s (%s) typed %s" % (u["tag"], u["attr"], u["stype"], u["enum"])] = missing
    return ck.finish(
        rule="exhaustive over the finite domain: every XML-mapped enumeration x {list(E), E[name] for every row and 4 bad names, "
             "to_xml and to_xml->from_xml for every member value and neighbouring non-values, from_xml for every member token, every "
             "schema token of the attribute types and a malformed stream}; every auto-shape type x {table row, adjustment histories "
             "(none; each index once + a negative index + a re-assignment; the same + an out-of-range index; out-of-range only) on a real "
             "shape re-read from the XML at each step}; all 73 chart type values through ChartXmlWriter; oracle: every member/token pair, "
             "every auto-shape type added/saved/reopened, every writable chart type added/saved/reopened; non-trivial = member values, "
             "member/schema tokens, non-empty histories",
        trusted_base=TB, assumptions=ASSUME,
        extra={"exhaustive": True, "correspondence_diffs": diffs, "failing_entries": failing,
               "enumerations": {e["name"]: len(e["rows"]) for e in enums},
               "attribute_uses": ["%s@%s: %s -> %s" % (u["tag"], u["attr"], u["enum"], u["stype"]) for u in meta["uses"]],
               "attribute_declarations_scanned": meta["n_attribute_declarations"], "direct_sites": meta["direct_sites"],
               "table_rows": len(meta["spec_rows"]), "preset_definitions": len(meta["preset_defs"]),
               "chart_types": len(meta["chart_types"]), "writable_chart_types": len(meta["chart_rows"]),
               "chart_elements_walked": meta["chart_walk"]["elems_walked"],
               "chart_elements_not_walked": meta["chart_walk"]["elems_unwalked"],
               "reopened_shape_diffs": reopened_diff,
               "extra": {"schema_tokens_without_member (read side, C11)": converse,
                         "preset_definitions_without_member": sorted(
                             {d["name"] for d in meta["preset_defs"]} - {r["runtime_xml"] for r in shape_rows}),
                         "preset_definitions_duplicated": sorted(
                             {d["name"] for d in meta["preset_defs"] if [x["name"] for x in meta["preset_defs"]].count(d["name"]) > 1})}},
    )


def replay(rec):
    k = rec.get("kind2")
    inp = rec.get("input", {})
    if k == "bij":
        ok, r, what = replay_bij(inp["enum"], inp["module"], inp["member"])
    elif k == "tok":
        ok, r, what = replay_tok(inp["use"], inp["enum"], inp["module"], inp["member"])
    elif k == "preset":
        ok, r, what = replay_preset(inp["member"])
    elif k == "chart":
        ok, r, what = replay_chart({"name": inp["member"], "writer": inp["writer"], "tokens": []})
    elif isinstance(inp, list):
        meta = load_meta()
        classes = {e["name"]: enum_class(e) for e in meta["enums"]}
        op = inp[0]
        if op in ("ms", "fx", "nm", "tx", "rt"):
            io_ = impl_enum(inp, classes)
        elif op == "av":
            io_ = impl_av(int(inp[1]))
        elif op == "wr":
            io_ = impl_wr(int(inp[1]), meta)
        else:
            nums = [int(x) for x in inp[2].split()]
            ops = list(zip(nums[0::2], nums[1::2]))
            import math
            fl = []
            for _i, r_ in ops:
                v = r_ / 100000.0
                if raw_of(v) != r_:
                    v = next((w for w in (math.nextafter(v, math.inf), math.nextafter(v, -math.inf)) if raw_of(w) == r_), v)
                fl.append(v)
            io_ = impl_adj(inp[1], ops, fl)
        mo = run_model("C20", [inp])[0]
        print("case ", inp)
        print("impl ", io_)
        print("model", mo)
        return 0 if io_ == mo else 1
    else:
        print("nothing to replay in this record")
        return 0
    print(what)
    print(json.dumps(r["impl_outcome"], indent=1, default=str))
    return 0 if ok else 1


CLAIM = {
    "tech": "translator-driven Coq proof: the member tables of every BaseXmlEnum subclass, the attribute<->enumeration links, the XSD enumeration facets, pptx.spec.autoshape_types, presetShapeDefinitions.xml and the chart-writer dispatch are regenerated from the tree on every run (tx/tx_c20.py) and decided by vm_compute over the whole finite domain; generic theorems about a Gallina model of BaseXmlEnum; exhaustive extracted-model correspondence + independent oracle on real shapes and charts incl. save/re-open",
    "text": "24 theorems closed under the global context. Generic (any member table): from_xml never maps the empty string, returns a member carrying exactly the token, token->member->token is the identity; with pairwise distinct tokens member->token->member is the identity for members and alias rows and to_xml is injective; distinctness is necessary. Instance (16 enumerations, 575 rows, 22 attribute uses, 182 auto-shape types, 187 preset definitions, 73 chart types / 29 writable): every row with an XML value has a token no other member carries and round-trips; every token is in the schema enumeration of each attribute typed by the enumeration; every auto-shape type has a table row whose prst names a definition and whose adjustment names, order and defaults equal the definition's avLst; every dispatched chart type is a member, its writer emits only schema tokens and PlotTypeInspector reports the written type. Recorded known findings are excluded by id and each is proved to genuinely fail (_known_refuted). The model is tied to enum/base.py, shapes/autoshape.py and chart/xmlwriter.py by ~4.5k exhaustive cases (every name, value, member token, schema token, malformed strings, adjustment histories re-read from the XML, all 73 chart values) with 0 differences; the oracle adds all 182 shapes and 29 charts to a deck, saves, reopens and reads them back.",
    "note": "PlotTypeInspector and the chart XML writers are executed (on six data grids), not modelled; s:ST_Lang is xsd:string so language tokens are trivially schema-valid; schema tokens without a member (read side) are recorded under coverage.extra and judged by C11; to_xml with non-int arguments and the float<->raw adjustment conversion are outside the model; the first of two same-named preset definitions is the one compared.",
    "ref": "6/C20",
}
