"""C17 — connector end points, group extents, freeform bounds.
Proof: props/C17.v over model/Geom.v.
Tie: correspondence of the extracted model (model/GeomRun.v) with real shapes built through
pptx.Presentation(): histories of connector end-point assignments, histories of additions to
groups nested to depth 4 (5 in thorough) interleaved with assignments of left / top / width /
height to EXISTING members (shapes and groups, through the public API) and with start states of
other producers (nested groups whose a:off / a:ext differ from their a:chOff / a:chExt, written
with lxml, schema-validated, saved and re-opened), freeform builders with fractional / negative /
repeated vertices, several contours and non-uniform int and float scales.
Oracle: the property's own statement evaluated on what the implementation reports
(shape.left/top/width/height, begin/end, a:chOff/a:chExt, a:path w/h, a:pt x/y), independent
of the model (Python's own round(), exact Fractions)."""
import io
import itertools
import math
import re
import struct
import zlib
from fractions import Fraction

from corr.harness import coq_build, run_model, exc_name

COORD_LO, COORD_HI = -27273042329600, 27273042316900

TB = [
    "IEEE-754 binary64: int->float conversion and float*float product are modelled in model/Geom.v (fl53: round to 53 "
    "significant bits, ties to even, unbounded exponent; overflow at 2^1024) and tied to CPython's float by this correspondence, "
    "not verified against the C library / FPU",
    "Python round() on int / float / Fraction modelled as round-half-even on the exact value (Geom.rhe)",
    "lxml element tree and the xmlchemy attribute descriptors are abstracted to records of integers (x, y, cx, cy, flipH, flipV, "
    "chOff, chExt); their validation (ST_Coordinate, ST_PositiveCoordinate ranges) is transcribed",
]
ASSUME = [
    "connector: values assigned are Python ints (Length); int(value) truncation of non-integral floats is outside the model",
    "connector theorems are about assignments that do not raise (C17_conn_history_total: none raises within half the ST_Coordinate "
    "range); an assignment refused by range validation is modelled exactly (partial writes stay) and its non-atomicity is proved as "
    "C17_conn_set_failure_not_atomic_refuted / _swaps_refuted; the oracle reports it under the signature conn-set-raises-partial",
    "groups: members are added through add_shape / add_textbox / add_picture / add_connector / add_group_shape() / "
    "build_freeform().convert_to_shape(); add_chart and add_ole_object are not exercised (same _recalculate_extents call in the source)",
    "groups: an existing member (shape or group) is moved / resized by assigning left / top / width / height through the public API; "
    "group frames of other producers (a:off / a:ext different from a:chOff / a:chExt) are written with lxml into the generated deck, "
    "kept within the schema ranges, the slide part is validated against pml.xsd (libxml2) at every re-open. The property speaks of "
    "additions: after an addition every group on its path is the bounding box of its members' own left/top/width/height (a nested group "
    "counts with its own a:off / a:ext, never with its members or its a:chOff / a:chExt) and everything off the path is unchanged; an "
    "assignment recalculates nothing (modelled so, theorems C17_group_assign_*), so groups that were assigned to, or contain an assigned "
    "member, stay as they are until an addition at or below them (the dirty set of C17_group_history_assign); removing or re-ordering "
    "members, rotation and flips of groups are outside",
    "groups: every add_* method recalculates the receiving group and its ancestors (add_group_shape() and convert_to_shape() since "
    "their repair); should either stop doing so the oracle reports group-stale-after-add-group-shape / group-stale-after-freeform",
    "groups: the model's Leaf carries only the xfrm numbers; every member kind reads its extents from the same BaseShapeElement.x/y/cx/cy",
    "freeform: an int scale is modelled exactly in Z; a float scale is modelled exactly as binary64 (see trusted base) for finite "
    "scales; nan / inf scales and vertices are not generated; subnormal products are modelled with 53-bit precision, which gives "
    "the same integer (zero) after round()",
    "freeform: theorem C17_freeform_float_scale bounds |result - exact product| by 1/2 + |exact product| * 2^-51; the oracle "
    "checks the same bound with exact Fractions on the implementation's read-backs",
]


# ------------------------------------------------------------------------------- wire mirrors
_RZ = re.compile(r"-?[0-9]+\Z")
_RN = re.compile(r"[0-9]+\Z")


def pZ(s):
    return int(s) if _RZ.match(s) else None


def pN(s):
    return int(s) if _RN.match(s) else None


def p_round_arg(s):
    """n/d -> the exact number handed to python-pptx (int, float when representable, else Fraction)."""
    parts = s.split("/")
    if len(parts) != 2:
        return None
    n, d = pZ(parts[0]), pN(parts[1])
    if n is None or d is None or d <= 0:
        return None
    fr = Fraction(n, d)
    if fr.denominator == 1:
        return int(fr)
    try:
        fl = float(fr)
        if Fraction(fl) == fr:
            return fl
    except OverflowError:
        pass
    return fr


def p_scale(s):
    t = s.split(" ")
    if len(t) == 2 and t[0] == "i":
        return pZ(t[1])
    if len(t) == 3 and t[0] == "f":
        m, e = pZ(t[1]), pZ(t[2])
        if m is None or e is None or not (abs(m) < 2 ** 53 and -1074 <= e <= 971):
            return None
        return math.ldexp(float(m), e)
    return None


def p_path(s):
    if s == "-":
        return []
    out = []
    for t in s.split("."):
        n = pN(t)
        if n is None:
            return None
        out.append(n)
    return out


def enc_num(v):
    """int / float -> n/d"""
    if isinstance(v, int):
        return "%d/1" % v
    n, d = v.as_integer_ratio()
    return "%d/%d" % (n, d)


def enc_scale(s):
    if isinstance(s, int):
        return "i %d" % s
    m, d = s.as_integer_ratio()
    e = -(d.bit_length() - 1)
    while m != 0 and m % 2 == 0:
        m //= 2
        e += 1
    if m == 0:
        e = 0
    return "f %d %d" % (m, e)


# ------------------------------------------------------------------------------- implementation side
_PNG = None


def png_bytes():
    global _PNG
    if _PNG is None:
        def chunk(tag, data):
            c = struct.pack(">I", len(data)) + tag + data
            return c + struct.pack(">I", zlib.crc32(tag + data) & 0xFFFFFFFF)
        raw = b"\x00\xff\x00\x00"
        _PNG = (b"\x89PNG\r\n\x1a\n" + chunk(b"IHDR", struct.pack(">IIBBBBB", 1, 1, 8, 2, 0, 0, 0))
                + chunk(b"IDAT", zlib.compress(raw)) + chunk(b"IEND", b""))
    return _PNG


class Deck:
    """One presentation with one blank slide, emptied between cases."""

    def __init__(self):
        from pptx import Presentation
        self.prs = Presentation()
        self.slide = self.prs.slides.add_slide(self.prs.slide_layouts[6])

    def fresh(self):
        spTree = self.slide.shapes._spTree
        for el in list(spTree.iter_shape_elms()):
            spTree.remove(el)
        return self.slide.shapes


_DECK = None


def deck():
    global _DECK
    if _DECK is None:
        _DECK = Deck()
    return _DECK


def conn_read(c):
    el = c._element
    return (int(c.begin_x), int(c.begin_y), int(c.end_x), int(c.end_y), int(el.x), int(el.y), int(el.cx), int(el.cy),
            int(bool(el.flipH)), int(bool(el.flipV)))


def impl_conn(f, obs):
    from pptx.enum.shapes import MSO_CONNECTOR
    if len(f) < 4:
        return "badcase"
    init = [pZ(x) for x in f[:4]]
    rest = f[4:]
    if None in init or len(rest) % 2:
        return "badcase"
    ops = []
    for k, v in zip(rest[0::2], rest[1::2]):
        z = pZ(v)
        if z is None or k not in ("bx", "by", "ex", "ey"):
            return "badcase"
        ops.append((k, z))
    shapes = deck().fresh()
    kind = (MSO_CONNECTOR.STRAIGHT, MSO_CONNECTOR.ELBOW, MSO_CONNECTOR.CURVE)[(len(ops) + init[0]) % 3]
    c = shapes.add_connector(kind, *init)
    r0 = conn_read(c)
    obs.append(("new", tuple(init), r0, (int(c.left), int(c.top), int(c.width), int(c.height))))
    out = [" ".join(map(str, r0))]
    attr = {"bx": "begin_x", "by": "begin_y", "ex": "end_x", "ey": "end_y"}
    prev = r0
    for k, z in ops:
        try:
            setattr(c, attr[k], z)
            st = "ok"
        except Exception as e:  # noqa
            st = "err:" + exc_name(e)
        r = conn_read(c)
        obs.append(("set", k, z, st, prev, r, (int(c.left), int(c.top), int(c.width), int(c.height))))
        out.append(st + " " + " ".join(map(str, r)))
        prev = r
    return "|".join(out)


_FLD = {"l": "left", "t": "top", "w": "width", "h": "height"}
ADD_KINDS = ("sp", "tb", "pic", "cxn", "ff", "grp")


def p_gcmd(s):
    t = s.split(" ")
    if t == ["reopen"]:
        return ("reopen", [])
    if len(t) == 2 and t[0] == "grp":
        p = p_path(t[1])
        return None if p is None else ("grp", p)
    if len(t) == 4 and t[0] == "set":
        p, v = p_path(t[1]), pZ(t[3])
        if p is None or v is None or t[2] not in _FLD:
            return None
        return ("set", p, t[2], v)
    if len(t) == 6:
        p = p_path(t[1])
        nums = [pZ(x) for x in t[2:]]
        if p is None or None in nums or t[0] not in ("sp", "tb", "pic", "cxn", "ff"):
            return None
        return (t[0], p) + tuple(nums)
    if len(t) == 10 and t[0] == "xf":
        p = p_path(t[1])
        nums = [pZ(x) for x in t[2:]]
        if p is None or None in nums:
            return None
        # the rewritten part must stay schema-valid: a:off / a:chOff are ST_Coordinate, a:ext / a:chExt ST_PositiveCoordinate
        for i, v in enumerate(nums):
            lo = COORD_LO if i in (0, 1, 4, 5) else 0
            if not lo <= v <= COORD_HI:
                return None
        return ("xf", p) + tuple(nums)
    return None


def walk(shapes):
    """Readings of every shape, recursively, through the public proxies."""
    from pptx.shapes.group import GroupShape
    out = []
    for sh in shapes:
        if isinstance(sh, GroupShape):
            xfrm = sh._element.xfrm
            out.append(("G", (int(sh.left), int(sh.top), int(sh.width), int(sh.height),
                              int(xfrm.chOff.x), int(xfrm.chOff.y), int(xfrm.chExt.cx), int(xfrm.chExt.cy)),
                        walk(sh.shapes)))
        else:
            out.append(("L", (int(sh.left), int(sh.top), int(sh.width), int(sh.height)), None))
    return out


def show_tree(t):
    parts = []
    for kind, nums, kids in t:
        if kind == "L":
            parts.append("L " + " ".join(map(str, nums)))
        else:
            parts.append("G " + " ".join(map(str, nums)) + " (" + "".join(" " + show_tree([k]) for k in kids) + " )")
    return "; ".join(parts)


_SHAPES = None
_XSD = None
_NSA = "{http://schemas.openxmlformats.org/drawingml/2006/main}"


def pml_schema():
    """libxml2 schema of PresentationML (ISO/IEC 29500-4 transitional, shipped in the source tree)"""
    global _XSD
    if _XSD is None:
        import os
        from lxml import etree
        from corr.harness import REPO
        _XSD = etree.XMLSchema(etree.parse(os.path.join(REPO, "spec/ISO-IEC-29500-4/xsd/pml.xsd")))
    return _XSD


def foreign_xfrm(grpSp, nums):
    """The a:xfrm of a p:grpSp as another producer writes it: plain lxml, no python-pptx setter involved."""
    xfrm = grpSp.find("{http://schemas.openxmlformats.org/presentationml/2006/main}grpSpPr").find(_NSA + "xfrm")
    for tag, names, vals in (("off", ("x", "y"), nums[0:2]), ("ext", ("cx", "cy"), nums[2:4]),
                             ("chOff", ("x", "y"), nums[4:6]), ("chExt", ("cx", "cy"), nums[6:8])):
        el = xfrm.find(_NSA + tag)
        for n, v in zip(names, vals):
            el.set(n, str(v))


def reopen(prs):
    """save, check the slide part against the schema, load: what is judged afterwards is a document from a file"""
    from lxml import etree
    from pptx import Presentation
    buf = io.BytesIO()
    prs.save(buf)
    prs2 = Presentation(io.BytesIO(buf.getvalue()))
    slide = prs2.slides[0]
    xsd = pml_schema()
    if not xsd.validate(etree.fromstring(etree.tostring(slide._element))):
        raise AssertionError("driver: slide part not schema-valid: %s" % str(xsd.error_log)[:300])
    return prs2, slide.shapes


def impl_grp(f, obs):
    from pptx.enum.shapes import MSO_CONNECTOR, MSO_SHAPE
    from pptx.shapes.group import GroupShape
    global _SHAPES
    if _SHAPES is None:
        _SHAPES = (MSO_SHAPE.RECTANGLE, MSO_SHAPE.OVAL, MSO_SHAPE.ROUNDED_RECTANGLE, MSO_SHAPE.RIGHT_ARROW)
    cmds = [p_gcmd(s) for s in f]
    if None in cmds:
        return "badcase"
    prs = deck().prs
    top = deck().fresh()
    out = []

    def group_at(path):
        cur = top
        for i in path:
            lst = list(cur)
            if i >= len(lst) or not isinstance(lst[i], GroupShape):
                raise IndexError("driver: path does not lead to a group")
            cur = lst[i].shapes
        return cur

    def member_at(path):
        if not path:
            raise IndexError("driver: the slide has no frame")
        lst = list(group_at(path[:-1]))
        if path[-1] >= len(lst):
            raise IndexError("driver: no member at that path")
        return lst[path[-1]]

    for n, cmd in enumerate(cmds):
        kind, path = cmd[0], cmd[1]
        try:
            if kind == "reopen":
                prs, top = reopen(prs)
            elif kind == "set":
                # the public API on an EXISTING member: shape.left / top / width / height = v
                setattr(member_at(path), _FLD[cmd[2]], cmd[3])
            elif kind == "xf":
                m = member_at(path)
                if not isinstance(m, GroupShape):
                    raise IndexError("driver: path does not lead to a group")
                foreign_xfrm(m._element, cmd[2:])
            elif kind == "grp":
                group_at(path).add_group_shape()
            else:
                cur = group_at(path)
                a, b, c, d = cmd[2:]
                if kind == "sp":
                    cur.add_shape(_SHAPES[n % 4], a, b, c, d)
                elif kind == "tb":
                    cur.add_textbox(a, b, c, d)
                elif kind == "pic" and c != 0 and d != 0:
                    cur.add_picture(io.BytesIO(png_bytes()), a, b, c, d)
                elif kind == "pic":
                    # add_picture reads a zero width/height as "not given" (native or aspect-scaled size):
                    # a zero-sized member is created as an auto shape instead
                    cur.add_shape(_SHAPES[n % 4], a, b, c, d)
                elif kind == "cxn":
                    cur.add_connector(MSO_CONNECTOR.STRAIGHT, a, b, c, d)
                elif kind == "ff":
                    fb = cur.build_freeform(0, 0, 1)
                    fb.add_line_segments([(c, d)])
                    fb.convert_to_shape(a, b)
        except AssertionError as e:
            out.append("err:schema-invalid")
            obs.append((cmd, None, str(e)))
            break
        except Exception as e:  # noqa
            out.append("err:" + exc_name(e))
            obs.append((cmd, None))
            break
        t = walk(top)
        obs.append((cmd, t))
        out.append("ok:" + show_tree(t))
    return "|".join(out)


def impl_ff(f, obs, checkpoint=None):
    """checkpoint = (j, how): before drawing operation j the builder is USED once already (how 0: converted to a
    shape, how 1: its shape offsets are read) and then drawn on further; the result judged is the final conversion,
    which must be the same as for a builder drawn in one go"""
    if len(f) < 6:
        return "badcase"
    sx, sy = p_round_arg(f[0]), p_round_arg(f[1])
    xs, ys = p_scale(f[2]), p_scale(f[3])
    ox, oy = pZ(f[4]), pZ(f[5])
    ops = []
    for s in f[6:]:
        t = s.split(" ")
        if len(t) == 1 and t[0] == "C":
            ops.append(("C",))
        elif len(t) == 3 and t[0] in ("L", "M"):
            x, y = p_round_arg(t[1]), p_round_arg(t[2])
            if x is None or y is None:
                ops.append(None)
            else:
                ops.append((t[0], x, y))
        else:
            ops.append(None)
    if None in (sx, sy, xs, ys, ox, oy) or None in ops:
        return "badcase"
    shapes = deck().fresh()
    rec = {"start": (sx, sy), "scale": (xs, ys), "origin": (ox, oy), "ops": ops}
    try:
        fb = shapes.build_freeform(sx, sy, scale=(xs, ys) if (xs != ys or type(xs) is not type(ys)) else xs)
        run = []

        def flush(close):
            fb.add_line_segments(list(run), close=close)
            del run[:]
        for j, op in enumerate(ops):
            if checkpoint is not None and j == checkpoint[0] % max(1, len(ops)):
                if run:
                    flush(False)
                if checkpoint[1] == 0:
                    fb.convert_to_shape(ox, oy)
                else:
                    fb.shape_offset_x, fb.shape_offset_y
            if op[0] == "L":
                run.append((op[1], op[2]))
            elif op[0] == "C":
                flush(True)
            else:
                if run:
                    flush(False)
                fb.move_to(op[1], op[2])
        if run:
            flush(False)
        sp = fb.convert_to_shape(ox, oy)
    except Exception as e:  # noqa
        rec["error"] = exc_name(e)
        obs.append(rec)
        return "err:" + exc_name(e)
    path_lst = sp._element.spPr.custGeom.pathLst.path_lst
    path = path_lst[0]
    pts = []
    for ch in path:
        tag = ch.tag.split("}")[1]
        if tag == "close":
            pts.append(("C",))
        else:
            pts.append(("M" if tag == "moveTo" else "L", int(ch.pt.x), int(ch.pt.y)))
    hdr = (int(sp.left), int(sp.top), int(sp.width), int(sp.height), int(path.w), int(path.h))
    rec.update({"hdr": hdr, "pts": pts, "npaths": len(path_lst),
                "raw": (path.get("w"), path.get("h"), [(ch.pt.get("x"), ch.pt.get("y")) for ch in path if len(ch)])})
    obs.append(rec)
    return "|".join(["ok:" + " ".join(map(str, hdr))] + [" ".join(map(str, p)) for p in pts])


def impl(case, obs=None):
    obs = [] if obs is None else obs
    f = [str(x) for x in case]
    if not f:
        return "badcase"
    if f[0] == "conn":
        return impl_conn(f[1:], obs)
    if f[0] == "grp":
        return impl_grp(f[1:], obs)
    if f[0] == "ff":
        return impl_ff(f[1:], obs)
    if f[0] == "ffk" and len(f) > 3:
        return impl_ff(f[3:], obs, (int(f[1]), int(f[2])))
    return "badcase"


def plain(c):
    """the case as the model and the oracle see it: a builder used at a checkpoint (ffk j how ...) draws the same
    shape as one drawn in one go (ff ...)"""
    if c and c[0] == "ffk":
        return ("ff",) + tuple(c[3:])
    return c


# ------------------------------------------------------------------------------- oracle
def oracle_conn(ck, case, out, obs):
    for o in obs:
        if o[0] == "new":
            _, init, r, box = o
            if tuple(r[:4]) != tuple(init) or box[2] < 0 or box[3] < 0 or r[6] < 0 or r[7] < 0:
                ck.violation("conn-new", "add_connector%r reads back begin/end %r, width/height %r" % (init, r[:4], box[2:]),
                             {"entry_point": "SlideShapes.add_connector", "input": list(case), "impl_outcome": out})
        else:
            _, k, z, st, prev, r, box = o
            idx = {"bx": 0, "by": 1, "ex": 2, "ey": 3}[k]
            if st == "ok":
                want = list(prev[:4])
                want[idx] = z
                if list(r[:4]) != want or box[2] < 0 or box[3] < 0 or r[6] < 0 or r[7] < 0:
                    ck.violation("conn-set", "connector with begin/end %r: assigning %s=%d gives begin/end %r, width/height %r "
                                 "(expected %r, non-negative size)" % (prev[:4], k, z, r[:4], box[2:], tuple(want)),
                                 {"entry_point": "Connector.begin_x/begin_y/end_x/end_y setter", "input": list(case),
                                  "impl_outcome": out})
            else:
                half = COORD_HI // 2
                if all(abs(t) <= half for t in tuple(prev[:4]) + (z,)) and prev[6] >= 0 and prev[7] >= 0:
                    # C17_conn_history_total: nothing can be refused on such values
                    ck.violation("conn-set-raises-in-range",
                                 "connector with begin/end %r: assigning %s=%d raises %s although every coordinate is within "
                                 "half the ST_Coordinate range" % (prev[:4], k, z, st),
                                 {"entry_point": "Connector.begin_x/begin_y/end_x/end_y setter", "input": list(case),
                                  "impl_outcome": out})
                elif tuple(r[:4]) != tuple(prev[:4]):
                    # a setter call that raises after it has written part of its attribute assignments
                    sig = "conn-set-raises-partial" if st == "err:Value" else "conn-set-raises-partial-" + st[4:].lower()
                    ck.violation(sig,
                                 "connector with begin/end %r: assigning %s=%d raises %s (a value outside the ST_Coordinate / "
                                 "ST_PositiveCoordinate range) yet leaves begin/end %r: the setter's earlier attribute writes stay "
                                 "applied, so an end point that was not assigned moved" % (prev[:4], k, z, st, r[:4]),
                                 {"entry_point": "Connector.begin_x/begin_y/end_x/end_y setter", "input": list(case),
                                  "impl_outcome": out})


def bbox(kids):
    if not kids:
        return (0, 0, 0, 0)
    x0 = min(k[1][0] for k in kids)
    y0 = min(k[1][1] for k in kids)
    x1 = max(k[1][0] + k[1][2] for k in kids)
    y1 = max(k[1][1] + k[1][3] for k in kids)
    return (x0, y0, x1 - x0, y1 - y0)


def stale_groups(tree, prefix=()):
    out = {}
    for i, (kind, nums, kids) in enumerate(tree):
        if kind == "G":
            b = bbox(kids)
            if tuple(nums) != b + b:
                out[prefix + (i,)] = (tuple(nums), b)
            out.update(stale_groups(kids, prefix + (i,)))
    return out


def node_at(tree, path):
    """(kind, nums, kids) at a path of member indices in a walk() tree; the slide itself is ("S", None, tree)"""
    node = ("S", None, tree)
    for i in path:
        node = node[2][i]
    return node


def off_path_changes(prev, now, path, depth=0):
    """An addition at `path` (the receiving group; () is the slide): everything that is not a group on the path must read
    as before, the new member is the last one of the receiving group.  Returns descriptions of what differs."""
    bad = []
    if depth == len(path):
        if now[:-1] != prev or len(now) != len(prev) + 1:
            bad.append("members of the receiving group at %r changed: %s -> %s" % (list(path), show_tree(prev)[:200], show_tree(now[:-1])[:200]))
        return bad
    if len(now) != len(prev):
        return ["number of members at depth %d changed" % depth]
    for i, (a, b) in enumerate(zip(prev, now)):
        if i == path[depth]:
            if a[0] != "G" or b[0] != "G":
                bad.append("member %d on the path is not a group" % i)
            else:
                bad += off_path_changes(a[2], b[2], path, depth + 1)
        elif a != b:
            bad.append("member %r off the path changed: %s -> %s" % (list(path[:depth]) + [i], show_tree([a])[:200], show_tree([b])[:200]))
    return bad


def oracle_grp(ck, case, out, obs):
    """The group sentence of the property, judged on what the implementation reports through the public proxies.
    After an ADDITION at a path: every group on the path, from the receiving group up to the top-level group, has
    (left, top, width, height) and (chOff, chExt) equal to the bounding box of its members, each member counted with its
    own left / top / width / height (a nested group with its own frame, whatever its members or its child frame say);
    every shape and group off the path reads as before.  As long as the history consists of additions only this is the
    same as: every group of the slide, recursively, is the bounding box of its members, which is then checked too.
    Assignments to existing members, foreign frames and re-opens are not additions: nothing is demanded of them here
    (the correspondence with the model covers them)."""
    before = {}
    prev = []
    pure = True          # only additions so far
    for o in obs:
        cmd, tree = o[0], o[1]
        if tree is None:
            if len(o) > 2:
                ck.violation("group-deck-not-schema-valid", "after %r the saved slide part is not schema-valid: %s" % (list(cmd), o[2]),
                             {"entry_point": "Presentation.save", "input": list(case), "impl_outcome": out, "failing_step": list(cmd)})
            break
        kind = cmd[0]
        if kind in ("set", "xf", "reopen"):
            pure = False
            prev = tree
            continue
        path = tuple(cmd[1])
        ep = {"grp": "GroupShapes.add_group_shape", "ff": "FreeformBuilder.convert_to_shape"}.get(
            kind, "GroupShapes.add_*/CT_GroupShape.recalculate_extents")
        sig = {"grp": "group-stale-after-add-group-shape", "ff": "group-stale-after-freeform"}.get(kind, "group-extents")
        for k in range(len(path), 0, -1):
            _, nums, kids = node_at(tree, path[:k])
            b = bbox(kids)
            if tuple(nums) != b + b:
                ck.violation(sig, "after adding a %s member at group path %r the group at path %r (on the path of the addition) has "
                             "off/ext/chOff/chExt %r but the bounding box of its members' left/top/width/height is %r"
                             % (kind, list(path), list(path[:k]), tuple(nums), b),
                             {"entry_point": ep, "input": list(case), "impl_outcome": out, "failing_step": list(cmd)})
                break
        diff = off_path_changes(prev, tree, path)
        if diff:
            ck.violation("group-add-changes-off-path", "adding a %s member at group path %r changed what is not on its path: %s"
                         % (kind, list(path), "; ".join(diff[:2])),
                         {"entry_point": ep, "input": list(case), "impl_outcome": out, "failing_step": list(cmd)})
        if pure:
            now = stale_groups(tree)
            for gp, (nums, b) in now.items():
                if gp in before and before[gp] == (nums, b):
                    continue  # already attributed to the addition after which it appeared
                ck.violation(sig, "after adding a %s member at group path %r the group at path %r has off/ext/chOff/chExt %r but the "
                             "bounding box of its members is %r" % (kind, list(path), list(gp), nums, b),
                             {"entry_point": ep, "input": list(case), "impl_outcome": out, "failing_step": list(cmd)})
            before = now
        prev = tree


def count_settling_adds(obs):
    """additions whose path holds a member group whose frame differs from its child frame (moved / scaled as a whole):
    the situations in which the box of a nested group and the composite of its members are different things"""
    n = 0
    for o in obs:
        cmd, tree = o[0], o[1]
        if tree is None or cmd[0] not in ADD_KINDS:
            continue
        for k in range(len(cmd[1]), 0, -1):
            kids = node_at(tree, cmd[1][:k])[2]
            if any(kd[0] == "G" and tuple(kd[1][:4]) != tuple(kd[1][4:]) for kd in kids):
                n += 1
                break
    return n


def oracle_ff(ck, case, out, o):
    if "error" in o:
        (sx, sy), (xs, ys) = o["start"], o["scale"]
        nums = [sx, sy] + [v for op in o["ops"] for v in op[1:]] + list(o["origin"])
        benign = all(abs(v) <= 10 ** 12 for v in nums) and all(0 <= s <= 10 ** 6 for s in (xs, ys))
        if benign:
            ck.violation("freeform-raises", "build_freeform/convert_to_shape raises %s on moderate input" % o["error"],
                         {"entry_point": "FreeformBuilder.convert_to_shape", "input": list(case), "impl_outcome": out})
        return
    pen = [(int(round(o["start"][0])), int(round(o["start"][1])))]
    want_ops = []
    for op in o["ops"]:
        if op[0] == "C":
            want_ops.append(("C",))
        else:
            p = (int(round(op[1])), int(round(op[2])))
            pen.append(p)
            want_ops.append((op[0],) + p)
    minx, maxx = min(p[0] for p in pen), max(p[0] for p in pen)
    miny, maxy = min(p[1] for p in pen), max(p[1] for p in pen)
    left, top, width, height, w, h = o["hdr"]
    bad = []
    if o["npaths"] != 1:
        bad.append("%d a:path elements" % o["npaths"])
    if (w, h) != (maxx - minx, maxy - miny):
        bad.append("a:path w,h = %r, vertex extents are %r" % ((w, h), (maxx - minx, maxy - miny)))
    want_pts = [("M", pen[0][0] - minx, pen[0][1] - miny)] + [
        op if op[0] == "C" else (op[0], op[1] - minx, op[2] - miny) for op in want_ops]
    if o["pts"] != want_pts:
        bad.append("path children %r, expected %r" % (o["pts"][:6], want_pts[:6]))
    for p in o["pts"]:
        if p[0] != "C" and not (0 <= p[1] <= w and 0 <= p[2] <= h):
            bad.append("point %r outside [0,%d]x[0,%d]" % (p, w, h))
            break
    raw_w, raw_h, raw_pts = o["raw"]
    if not all(_RZ.match(s or "") for s in [raw_w, raw_h] + [v for p in raw_pts for v in p]):
        bad.append("non-integer text in a:path attributes")
    for name, got, org, lo, ext, s in (("left/width", (left, width), o["origin"][0], minx, maxx - minx, o["scale"][0]),
                                       ("top/height", (top, height), o["origin"][1], miny, maxy - miny, o["scale"][1])):
        S = Fraction(s)
        for what, g, exact in (("position", got[0] - org, S * lo), ("size", got[1], S * ext)):
            if isinstance(s, int):
                ok = (g == exact)
            else:
                ok = abs(g - exact) <= Fraction(1, 2) + abs(exact) / 2 ** 51
            if not ok:
                bad.append("%s %s: got %d, exact scaled value %s" % (name, what, g, exact))
        if s >= 0 and got[1] < 0:
            bad.append("%s: negative size %d" % (name, got[1]))
    if bad:
        ck.violation("freeform", "freeform start=%r scale=%r origin=%r: %s" % (o["start"], o["scale"], o["origin"], "; ".join(bad[:3])),
                     {"entry_point": "FreeformBuilder.convert_to_shape", "input": list(case), "impl_outcome": out})


def oracle(ck, case, out, obs):
    if out == "badcase":
        return
    if case[0] == "conn":
        oracle_conn(ck, case, out, obs)
    elif case[0] == "grp":
        oracle_grp(ck, case, out, obs)
    elif case[0] == "ff" and obs:
        oracle_ff(ck, case, out, obs[0])


# ------------------------------------------------------------------------------- generators
def gen_conn(tier, rng):
    cases = []
    # bounded-exhaustive on one axis at a time: every initial orientation, every history of the given depth
    depth = 2 if tier == "quick" else 3
    vals = (-4, -3, 0, 1, 2, 5)
    for axis in ("x", "y"):
        kb, ke = ("bx", "ex") if axis == "x" else ("by", "ey")
        alpha = [(k, v) for k in (kb, ke) for v in vals]
        for b0 in (-3, 0, 2):
            for e0 in (-3, 0, 2):
                init = (b0, 7, e0, -7) if axis == "x" else (7, b0, -7, e0)
                for d in range(depth + 1):
                    for hist in itertools.product(alpha, repeat=d):
                        cases.append(("conn",) + init + tuple(str(t) for kv in hist for t in kv))
    # random histories in both axes steered to cross the other end point
    n = 4000 if tier == "quick" else 40000
    pools = [lambda: rng.randint(-6, 6), lambda: rng.randint(-10 ** 6, 10 ** 6), lambda: 914400 * rng.randint(-12, 12),
             lambda: rng.randint(-10 ** 13, 10 ** 13)]
    for _ in range(n):
        pool = pools[min(rng.randrange(5), 3) if rng.random() < 0.3 else rng.randrange(3)]
        cur = {"bx": pool(), "by": pool(), "ex": pool(), "ey": pool()}
        fields = [cur["bx"], cur["by"], cur["ex"], cur["ey"]]
        for _ in range(rng.randint(0, 14)):
            k = rng.choice(("bx", "by", "ex", "ey"))
            other = cur[{"bx": "ex", "ex": "bx", "by": "ey", "ey": "by"}[k]]
            r = rng.random()
            if r < 0.35:
                v = other + rng.choice((-1, 1)) * rng.randint(1, 1 + abs(other - cur[k]))   # cross or approach
            elif r < 0.45:
                v = other
            elif r < 0.5:
                v = cur[k]
            else:
                v = pool()
            cur[k] = v
            fields += [k, v]
        cases.append(("conn",) + tuple(fields))
    # the edges of the attribute ranges (assignments that raise)
    edge = [COORD_HI, COORD_HI - 1, COORD_HI + 1, COORD_LO, COORD_LO + 1, COORD_LO - 1, 0, 1, -1, 10 ** 15, -10 ** 15]
    for _ in range(150 if tier == "quick" else 2000):
        fields = [rng.choice(edge) if rng.random() < 0.6 else rng.randint(-10, 10) for _ in range(4)]
        for _ in range(rng.randint(1, 6)):
            fields += [rng.choice(("bx", "by", "ex", "ey")), rng.choice(edge) + rng.choice((0, 0, 1, -1, 5))]
        cases.append(("conn",) + tuple(fields))
    return cases


def gen_grp(tier, rng):
    cases = []
    maxdepth = 4 if tier == "quick" else 5
    KINDS = ("sp", "tb", "pic", "cxn", "ff", "grp", "grp")

    def coord():
        r = rng.random()
        if r < 0.3:
            return rng.randint(-20, 20)
        if r < 0.9:
            return rng.randint(-5 * 10 ** 6, 10 ** 7)
        return 914400 * rng.randint(-3, 9)

    def size():
        r = rng.random()
        if r < 0.1:
            return 0
        if r < 0.4:
            return rng.randint(1, 30)
        return rng.randint(1, 4 * 10 ** 6)

    def ptxt(path):
        return ".".join(map(str, path)) if path else "-"

    class Hist:
        """the operations so far and what exists: paths of groups (() is the slide), member counts, paths of members"""

        def __init__(self):
            self.groups, self.count, self.members, self.ops = [()], {(): 0}, [], []

        def add(self, path, kind, extreme=False):
            if kind == "grp" and len(path) >= maxdepth:
                kind = "sp"
            newp = path + (self.count[path],)
            if kind == "grp":
                self.ops.append("grp " + ptxt(path))
                self.groups.append(newp)
                self.count[newp] = 0
            elif kind == "cxn":
                self.ops.append("cxn %s %d %d %d %d" % (ptxt(path), coord(), coord(), coord(), coord()))
            else:
                w, h = size(), size()
                if extreme and rng.random() < 0.15:
                    w = rng.choice((-5, COORD_HI, COORD_HI + 1, 3 * 10 ** 13))
                x, y = coord(), coord()
                if extreme and rng.random() < 0.15:
                    x = rng.choice((COORD_LO, COORD_LO - 1, COORD_HI, -3 * 10 ** 13))
                self.ops.append("%s %s %d %d %d %d" % (kind, ptxt(path), x, y, w, h))
            self.members.append((newp, kind == "grp"))
            self.count[path] += 1
            return newp

        def assign(self, path, extreme=False):
            """member.left / top / width / height = v on the existing member at `path`"""
            f = rng.choice("ltwh")
            v = coord() if f in "lt" else size()
            if extreme and rng.random() < 0.2:
                v = rng.choice((-5, COORD_HI, COORD_HI + 1, COORD_LO, COORD_LO - 1))
            self.ops.append("set %s %s %d" % (ptxt(path), f, v))

        def foreign(self, path):
            """the frame another producer leaves on a group it moved / scaled as a whole: a:off / a:ext are where the group is
            shown, a:chOff / a:chExt the coordinate space of its members (any numbers the schema allows)"""
            chx, chy, chcx, chcy = coord(), coord(), size() + 1, size() + 1
            r = rng.random()
            if r < 0.35:       # translated
                x, y, cx, cy = chx + coord(), chy + coord(), chcx, chcy
            elif r < 0.7:      # scaled (and translated)
                k = rng.choice((2, 3, 10))
                x, y = coord(), coord()
                cx, cy = (chcx // k, chcy // k) if rng.random() < 0.5 else (chcx * k, chcy * k)
            else:
                x, y, cx, cy = coord(), coord(), size(), size()
            self.ops.append("xf %s %d %d %d %d %d %d %d %d" % (ptxt(path), x, y, cx, cy, chx, chy, chcx, chcy))

        def case(self):
            return ("grp",) + tuple(self.ops)

    def pick_group(h):
        # prefer deep groups so that depth 4 is reached
        return max(rng.sample(h.groups, min(len(h.groups), 2)), key=len) if rng.random() < 0.6 else rng.choice(h.groups)

    def history(nops, extreme, assign=0.0):
        h = Hist()
        follow = []            # receiving groups for the next additions: above or inside what was just assigned
        for _ in range(nops):
            nested = [m for m in h.members if len(m[0]) >= 2]
            if follow and rng.random() < 0.75:
                h.add(follow.pop(), rng.choice(KINDS), extreme)
            elif h.members and rng.random() < assign:
                path, is_grp = rng.choice(nested) if nested and rng.random() < 0.7 else rng.choice(h.members)
                for _ in range(rng.choice((1, 1, 2, 4))):
                    h.assign(path, extreme)
                # then additions to a group that contains it (at any distance) and, for a group, inside it
                above = [path[:k] for k in range(1, len(path))]
                follow = [rng.choice(above)] if above else []
                if is_grp and rng.random() < 0.4:
                    follow.append(path)
                if len(above) > 1 and rng.random() < 0.5:
                    follow.append(rng.choice(above))
            else:
                h.add(pick_group(h), rng.choice(KINDS), extreme)
        return h.case()

    def foreign_start(extra, reopen=True):
        """A deck as another producer leaves it: a nest of groups, some of them moved / scaled as a whole (frame different from
        child frame), saved and opened; then an addition at every depth, innermost or outermost first, then a random tail."""
        h = Hist()
        path = h.add((), "grp")
        chain = [path]
        for _ in range(rng.randint(1, maxdepth - 1)):
            for _ in range(rng.randint(0, 2)):
                h.add(path, rng.choice(KINDS[:5]))
            path = h.add(path, "grp")
            chain.append(path)
            if rng.random() < 0.3:
                h.add(chain[-2], rng.choice(KINDS[:5]))
        for _ in range(rng.randint(0, 2)):
            h.add(path, rng.choice(KINDS[:5]))
        side = [m[0] for m in h.members if m[1] and m[0] not in chain]
        targets = [g for g in chain[1:] if rng.random() < 0.6] or [chain[-1]]
        if rng.random() < 0.25:
            targets.append(chain[0])
        for g in targets + [g for g in side if rng.random() < 0.5]:
            h.foreign(g)
        if reopen:
            h.ops.append("reopen")
        # outermost first keeps the foreign frames below alive the longest; innermost first settles the whole chain at once
        r = rng.random()
        order = list(chain) if r < 0.6 else list(reversed(chain))
        if r >= 0.8:
            rng.shuffle(order)
        for g in order:
            h.add(g, rng.choice(KINDS))
        for _ in range(extra):
            r = rng.random()
            if r < 0.25:
                h.assign(rng.choice(h.members)[0])
            elif r < 0.35:
                h.foreign(rng.choice([m[0] for m in h.members if m[1]]))
            else:
                h.add(pick_group(h), rng.choice(KINDS))
        return h.case()

    # a nest of depth 4 filled from the inside, every member kind
    chain = ["grp -", "grp 0", "grp 0.0", "grp 0.0.0"]
    for i, k in enumerate(("sp", "tb", "pic", "cxn")):
        chain.append("%s 0.0.0.0 %d %d %d %d" % (k, -100 * i, 50 * i, 10 + i, 20 + i))
    chain += ["sp 0.0.0 -7 -7 3 3", "tb 0.0 1000 1000 5 5", "cxn 0 9 9 -9 -9", "pic - 1 2 3 4"]
    cases.append(("grp",) + tuple(chain))
    # the same nest, every group and every kind of member moved / resized through the API, an addition after each
    for f, v in (("l", -50000), ("t", 70000), ("w", 3), ("h", 900000)):
        for target in ("0.0", "0.0.0", "0.0.0.0", "0.0.0.0.%d" % "ltwh".index(f)):
            for rec in ("0", "0.0", target if target.count(".") < 4 else "0.0.0.0"):
                cases.append(("grp",) + tuple(chain) + ("set %s %s %d" % (target, f, v), "tb %s 11 12 13 14" % rec))
    n_add, n_mix, n_for = (450, 450, 300) if tier == "quick" else (2500, 2500, 1500)
    for i in range(n_add):
        cases.append(history(rng.randint(2, 22), extreme=(i % 10 == 9)))
    for i in range(n_mix):
        cases.append(history(rng.randint(4, 22), extreme=(i % 10 == 9), assign=0.3))
    for i in range(n_for):
        cases.append(foreign_start(rng.randint(0, 6), reopen=(i % 5 != 4)))
    return cases


def gen_ff(tier, rng):
    cases = []
    ties = [0.5, 1.5, 2.5, -0.5, -1.5, -2.5, 3.5, 0.49999999999999994, 0.5000000000000001, 1e-320, -0.0]
    scales = [1, 2, 3, 914, 12700, 1.0, 0.5, 0.1, 0.3, 1 / 3, 2.5, 914.4, 9525.0, 12700.000000000002, 1e-3, 36000.5, 0.7,
              1e-9, 100.0 / 3]
    rare = [0, 0.0, -1, -0.5, 5e-324, 1e300, 1.7976931348623157e308, 2.0 ** 60, 2 ** 70, 1e16]

    def num():
        r = rng.random()
        if r < 0.25:
            return rng.randint(-30, 30)
        if r < 0.4:
            return rng.choice(ties) + rng.randint(-3, 3) * 2
        if r < 0.6:
            return round(rng.uniform(-200, 200), rng.randint(0, 3))
        if r < 0.75:
            return rng.uniform(-1e6, 1e6)
        if r < 0.85:
            return rng.randint(-10 ** 7, 10 ** 7)
        if r < 0.9:
            return rng.randint(-10 ** 7, 10 ** 7) + 0.5
        return float(rng.randint(-1000, 1000))

    def scale():
        r = rng.random()
        if r < 0.8:
            return rng.choice(scales)
        if r < 0.93:
            return rng.uniform(0.001, 20000.0)
        return rng.choice(rare)

    n = 6000 if tier == "quick" else 60000
    for i in range(n):
        wild = rng.random() < 0.04
        sx, sy = num(), num()
        xs = scale()
        ys = scale() if rng.random() < 0.5 else xs
        ox, oy = rng.randint(-10 ** 7, 10 ** 7), rng.randint(-10 ** 7, 10 ** 7)
        ops = []
        pts = [(sx, sy)]
        for _ in range(rng.randint(0, 4)):           # contours
            if ops and rng.random() < 0.8:
                p = (num(), num())
                pts.append(p)
                ops.append("M %s %s" % (enc_num(p[0]), enc_num(p[1])))
            for _ in range(rng.randint(0, 6)):
                p = rng.choice(pts) if rng.random() < 0.2 else (num(), num())   # repeated vertices
                if wild and rng.random() < 0.3:
                    p = (rng.choice((2 ** 53 + 1, -2 ** 60, 10 ** 14, 3 * 10 ** 13, 1e300)), p[1])
                pts.append(p)
                ops.append("L %s %s" % (enc_num(p[0]), enc_num(p[1])))
            if rng.random() < 0.7:
                ops.append("C")
        cases.append(("ff", enc_num(sx), enc_num(sy), enc_scale(xs), enc_scale(ys), ox, oy) + tuple(ops))
        if i % 6 == 0 and len(ops) >= 2:
            # the same builder used once (converted, or its offsets read) part-way through the drawing
            cases.append(("ffk", rng.randint(0, len(ops) - 1), i // 6 % 2, enc_num(sx), enc_num(sy), enc_scale(xs), enc_scale(ys), ox, oy) + tuple(ops))
    return cases


def gen_malformed(tier, rng, valid):
    junk = ["", "+5", "1.5", "--1", "٣", "5 ", " 5", "1/0", "1/-2", "/", "1/2/3", "x", "L", "C C", "grp", "grp -", "sp",
            "sp - 1 2 3", "sp - 1 2 3 4 5", "sp  - 1 2 3 4", "grp 0..1", "grp .", "grp 99999999999999999999", "zz - 1 2 3 4",
            "i", "i 1 2", "f 1", "f 9007199254740992 0", "f 1 972", "f 1 -1075", "f 3 -1074", "M 1/1", "L 1/1 x", "bx", "-", "0",
            "conn", "ff", "1e3", "0x10", "١", "set", "set 0 l", "set 0 x 5", "set 0 l 1.5", "set 0 l 5 6", "set  0 l 5", "reopen 1",
            "reopen ", "xf 0 1 2 3", "xf 0 0 0 -1 0 0 0 0 0", "xf 0 0 0 0 0 0 0 0 %d" % (COORD_HI + 1), "xf - 0 0 0 0 0 0 0 0",
            "set - l 5", "set 0 W 5", "reopen", "set 0 l 5", "xf 0 1 2 3 4 5 6 7 8"]
    cases = [(), ("",), ("conn",), ("grp",), ("ff",), ("conn", 1, 2, 3), ("ff", "0/1", "0/1", "i 1", "i 1", 0),
             ("nope", 1, 2), ("conn", 1, 2, 3, 4, "bx"), ("conn", 1, 2, 3, 4, "bz", 3), ("conn", 1, 2, 3, 4, "bx", ""),
             ("grp", "grp 0"), ("grp", "sp 0 1 2 3 4"), ("grp", "grp -", "sp 0.0 1 2 3 4"), ("grp", "sp - 1 2 3 4", "sp 0 1 2 3 4"),
             ("grp", "grp -", "grp 1"), ("grp", "grp -", "ff 0 0 0 %d 5" % (COORD_HI + 1)),
             ("grp", "grp 5", "ff - 0 0 %d 5" % (COORD_HI + 1)), ("grp", "ff 3 0 0 %d 5" % (COORD_HI + 1)),
             ("grp", "set - l 5"), ("grp", "set 0 l 5"), ("grp", "sp - 1 2 3 4", "set 0.0 l 5"), ("grp", "sp - 1 2 3 4", "set 1 l 5"),
             ("grp", "sp - 1 2 3 4", "set 0 w -1", "set 0 l 5"), ("grp", "sp - 1 2 3 4", "set 0 l %d" % (COORD_HI + 1)),
             ("grp", "sp - 1 2 3 4", "xf 0 1 2 3 4 5 6 7 8"), ("grp", "grp -", "xf 0 1 2 3 4 5 6 7 8", "xf 0.0 1 2 3 4 5 6 7 8"),
             ("grp", "grp -", "xf 0 0 0 %d 0 0 0 0 0" % (COORD_HI + 1)), ("grp", "grp -", "xf 0 %d 0 0 0 0 0 0 0" % (COORD_LO - 1)),
             ("grp", "xf - 1 2 3 4 5 6 7 8"), ("grp", "reopen", "reopen", "grp -", "reopen", "set 0 h 0", "reopen", "sp 0 -1 -2 0 0"),
             ("grp", "grp -", "xf 0 %d %d %d %d %d %d %d %d" % (COORD_LO, COORD_HI, COORD_HI, 0, COORD_HI, COORD_LO, 0, COORD_HI),
              "reopen", "grp 0")]
    n = 600 if tier == "quick" else 6000
    for _ in range(n):
        c = list(rng.choice(valid))
        r = rng.random()
        if r < 0.3 and len(c) > 1:
            c[rng.randrange(len(c))] = rng.choice(junk)
        elif r < 0.5:
            c.insert(rng.randrange(len(c) + 1), rng.choice(junk))
        elif r < 0.65 and len(c) > 1:
            del c[rng.randrange(len(c))]
        elif r < 0.85 and len(c) > 1:
            i = rng.randrange(1, len(c))
            s = str(c[i])
            if s:
                j = rng.randrange(len(s))
                s = s[:j] + rng.choice(["", " ", "-", "/", ".", "x", "9", "  "]) + s[j + (rng.random() < 0.5):]
            c[i] = s
        else:
            c = [rng.choice(junk) for _ in range(rng.randint(0, 8))]
        cases.append(tuple(c))
    return cases


def canonical():
    """Small fixed histories first, so that a finding is reported on its smallest witness."""
    return [
        ("conn", 0, 0, 10, 5, "bx", 20, "ey", -3, "ex", 25, "by", -9, "bx", 20),
        ("conn", 0, 0, COORD_HI, 5, "bx", -1),               # x written, cx refused
        ("conn", 10, 0, 0, 5, "bx", COORD_LO - 1),           # flipH cleared, x refused: the end points swap
        ("grp", "grp -", "sp 0 100 100 50 50", "grp 0", "tb 0 120 120 5 5"),
        ("grp", "grp -", "sp 0 100 100 50 50", "ff 0 10 10 500 500", "tb 0 120 120 5 5"),
        ("grp", "grp -", "grp 0", "grp 0.0", "grp 0.0.0", "sp 0.0.0.0 -100 50 10 20", "sp 0.0.0 7 -7 3 3",
         "sp 0 1000 1000 5 5", "sp - 1 2 3 4"),
        # a nested group scaled and moved as a whole by another producer, re-opened, then an addition to the outer group
        ("grp", "grp -", "sp 0 1500000 1200000 500000 500000", "grp 0", "sp 0.1 0 0 4000000 2000000",
         "cxn 0.1 4000000 0 1000000 2000000", "xf 0.1 1000000 1000000 2000000 1000000 0 0 4000000 2000000", "reopen",
         "tb 0 2500000 1500000 1000000 300000", "sp 0.1 -500000 100000 200000 200000"),
        # a nested group and one of its members moved / resized through the public API, then additions above and inside
        ("grp", "grp -", "sp 0 100 100 50 50", "grp 0", "sp 0.1 10 20 30 40", "set 0.1 l 500", "set 0.1 w 7",
         "set 0.1.0 t -5", "tb 0 0 0 1 1", "tb 0.1 0 0 1 1"),
        ("ff", "5/2", "-3/1", "f 3602879701896397 -55", "i 3", -1000, 25, "L 10/1 -3/1", "L 10/1 40/1", "L -7/1 40/1", "C",
         "M 100/1 100/1", "L 10/1 40/1", "L 105/1 -20/1"),
    ]


def klass(case, out):
    if out == "badcase":
        return "malformed"
    if case[0] == "grp":
        ops = [str(x).split(" ")[0] for x in case[1:]]
        return ("group-history-foreign-frames" if "xf" in ops else
                "group-history-with-assignments" if "set" in ops else "group-history")
    return {"conn": "connector-history", "ff": "freeform", "ffk": "freeform-builder-used-midway"}[case[0]]


def nontrivial(case, out, obs):
    if out == "badcase" or not case:
        return False
    if case[0] == "conn":
        # some assignment crossed over the other end point (a flip changed)
        return any(o[0] == "set" and o[3] == "ok" and o[4][8:] != o[5][8:] for o in obs)
    if case[0] == "grp":
        # a member was added below the top-level group
        return any(len(o[0][1]) >= 2 and o[1] is not None and o[0][0] in ADD_KINDS for o in obs)
    if case[0] in ("ff", "ffk"):
        o = obs[0] if obs else {}
        if "hdr" not in o:
            return False
        fr = any(not isinstance(v, int) for op in o["ops"] for v in op[1:])
        return fr or o["scale"][0] != o["scale"][1] or any(op[0] == "M" for op in o["ops"])
    return False


def run(ck, tier, rng):
    ck.build = coq_build("C17")
    valid = canonical() + gen_conn(tier, rng) + gen_grp(tier, rng) + gen_ff(tier, rng)
    cases = valid + gen_malformed(tier, rng, [c for c in valid if c[0] != "ffk"])
    impl_out = []
    depth_seen = 0
    adds_after_assign = 0
    for c in cases:
        obs = []
        o = impl(c, obs)
        impl_out.append(o)
        ck.count(c, nontrivial(c, o, obs), klass(c, o))
        if "err:" in o:
            ck.dist["with-exception"] = ck.dist.get("with-exception", 0) + 1
        if c and c[0] == "grp" and o != "badcase":
            depth_seen = max([depth_seen] + [len(q[0][1]) + (1 if q[0][0] == "grp" else 0) for q in obs
                                             if q[1] is not None and q[0][0] in ADD_KINDS])
            adds_after_assign += count_settling_adds(obs)
        oracle(ck, plain(c), o, obs)
    grp_valid = [c for c in valid if c[0] == "grp"]
    for c in (cases[5], cases[2000], valid[-1]) + tuple(grp_valid[:2]) + tuple(
            [c for c in grp_valid if any(str(x).startswith("xf ") for x in c)][:2]) + tuple(
            [c for c in grp_valid if any(str(x).startswith("set ") for x in c)][1:2]) + tuple(
            c for c in cases[len(valid):])[20:23]:
        ck.sample([str(x) for x in c][:40], limit=12)
    concrete_before = len(ck.violations)
    oracle_concrete = len(ck.violations)
    diffs = 0
    if ck.build.ok:
        model_out = run_model("C17", [[str(x) for x in plain(c)] if c else [""] for c in cases])
        first = None
        for c, mo, io in zip(cases, model_out, impl_out):
            if not c:
                mo = "badcase" if mo == "badcase" else mo
            if mo != io:
                diffs += 1
                if first is None:
                    first = (c, mo, io)
                if diffs <= 5:
                    ck.notes.append("diff %r model=%s impl=%s" % (c, mo[:300], io[:300]))
        if diffs:
            c, mo, io = first
            k = 0
            while k < min(len(mo), len(io)) and mo[k] == io[k]:
                k += 1
            ck.violation("correspondence", "model/Geom.v and python-pptx disagree on %d of %d cases, e.g. %r: from character %d "
                         "model=...%s impl=...%s" % (diffs, len(cases), [str(x) for x in c][:30], k, mo[max(0, k - 40):k + 60],
                                                     io[max(0, k - 40):k + 60]),
                         {"theorem_or_correspondence": "correspondence Geom.v ~ shapes/connector.py, oxml/shapes/groupshape.py, "
                          "shapes/freeform.py (theorems C17_* are about the model only)",
                          "input": [str(x) for x in c], "model_outcome": mo, "impl_outcome": io}, concrete=False)
    ck.broken_build(oracle_found_concrete=oracle_concrete > 0)
    return ck.finish(
        rule="connector: every history of depth <= %d over 12 assignments per axis from 9 initial orientations, plus random histories "
             "(0-14 assignments, both axes, steered to cross or meet the other end point, magnitudes 1 to 1e13) and histories at the "
             "edges of the ST_Coordinate ranges; groups: random histories of 2-22 additions of sp/textbox/picture/connector/empty "
             "group/freeform at random existing group paths, nesting to depth %d, negative and zero coordinates, a tenth with "
             "out-of-range or negative sizes; the same interleaved with assignments of left/top/width/height to existing members "
             "(nested groups preferred, 1-4 assignments in a row) each followed by additions to groups containing the member and "
             "inside it; a depth-4 nest with every group and every kind of member moved or resized once followed by an addition "
             "above / inside; start states of other producers: a nest of groups of which some (nested, top-level, side groups) get "
             "a translated / scaled / arbitrary frame (a:off/a:ext != a:chOff/a:chExt) by lxml, four in five saved, schema-validated "
             "and re-opened, then one addition at every depth (inside-out, outside-in or shuffled) and a random tail; freeform: random builders with 0-4 contours, tie / fractional / negative / repeated "
             "vertices, int and float scales (uniform and non-uniform, 4%% extreme), every sixth builder also used once part-way "
             "through the drawing (converted to a shape, or its offsets read) and then drawn on; malformed wire cases by mutation. "
             "non-trivial = a connector history in which a flip changed, a group history adding below a top-level group, a freeform "
             "with a fractional vertex, a move-to or a non-uniform scale" % (2 if tier == "quick" else 3, 4 if tier == "quick" else 5),
        trusted_base=TB, assumptions=ASSUME,
        extra={"correspondence_diffs": diffs, "exhaustive": False, "max_group_depth_reached": depth_seen,
               "additions_on_a_path_holding_a_moved_or_scaled_group": adds_after_assign},
    )


def replay(rec):
    class _Ck:
        def __init__(self):
            self.v = []

        def violation(self, sig, what, record, concrete=True):
            self.v.append((sig, what))
    case = tuple(rec["input"])
    obs = []
    io = impl(case, obs)
    ck = _Ck()
    oracle(ck, case, io, obs)
    mo = run_model("C17", [list(case) if case else [""]])[0]
    print("case ", case)
    print("impl ", io)
    print("model", mo)
    for sig, what in ck.v:
        print("oracle: [%s] %s" % (sig, what))
    return 1 if (ck.v or io != mo) else 0


CLAIM = {
    "tech": "Coq proof over a Gallina model of the connector setters, group extent recalculation and the freeform builder (all histories, "
            "all tree depths, binary64 scale arithmetic) + extracted-model correspondence on real shapes + independent oracle",
    "text": "33 theorems closed under the global context. Connector: add_connector reads back its two points; an end-point assignment "
            "that does not raise changes exactly that coordinate, keeps the other three readings and width/height >= 0, for every prior "
            "state; any history of assignments refines the abstract segment {bx,by,ex,ey} (fold over operations, cross-overs included) "
            "and no assignment raises within half the coordinate range. Groups: after any addition at any path of a shape tree of any "
            "depth every group on the path equals the least bounding box of its members (off, ext, chOff, chExt), everything off the "
            "path is unchanged, and recursive consistency is invariant over every history of additions of every kind from the empty "
            "slide. Once frames can be assigned (left/top/width/height of an existing shape or GROUP through the API: one number of "
            "a:off / a:ext, nothing recalculated; or a group frame of another producer with a:off/a:ext != a:chOff/a:chExt) the invariant "
            "the code keeps is weaker and is proved for all trees and all histories of additions, assignments, foreign frames and "
            "re-opens: a group counts in its parent with its own a:off/a:ext; an addition at path p gives every group on the path "
            "off = chOff, ext = chExt = bounding box of its members' own frames and changes nothing off the path; an assignment at p can "
            "spoil only p and its parent; hence every group outside the dirty set (assigned paths and their parents, minus the prefixes "
            "of later additions) is clean (C17_group_history_assign), of which the additions-only theorem is the instance. Freeform: extents are the min/max of the rounded pen points, position = origin + scaled min, size = scaled "
            "(max-min) (exact for an int scale, within 1/2 + 2^-51 relative for a float scale, one exact half-even rounding when both "
            "operands fit 53 bits), every path point lies in [0,w]x[0,h]. The model is tied to connector.py, groupshape.py, shapetree.py "
            "and freeform.py by ~15.6k (quick) / ~150k (thorough) histories run on real python-pptx shapes and on the extracted model "
            "(raw x/y/cx/cy/flip, chOff/chExt, a:path w/h and a:pt compared), plus a mutated malformed stream.",
    "note": "An assignment refused by ST_Coordinate / ST_PositiveCoordinate validation is not atomic (earlier attribute writes stay; "
            "proved as C17_conn_set_failure_*_refuted, reported as conn-set-raises-partial). Float scales are modelled as IEEE binary64 "
            "(fl53 transcribed, tied to CPython by correspondence only); nan/inf scales, non-integral connector values, add_chart / "
            "add_ole_object inside groups, removal / re-ordering of members and rotated or flipped groups are outside; after an assignment "
            "the groups in the dirty set are NOT the bounding box of their members until the next addition at or below them (that is what "
            "the code does; the property speaks of additions); add_picture with a zero size is driven as an auto "
            "shape; after a ValueError inside a group addition the history stops (partial group state not modelled).",
    "ref": "6/C17",
}
