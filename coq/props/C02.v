(** C02: every saved file is a closed, self-consistent package, after any history.
    Statements only; every proof is [exact] of a lemma of proofs/PkgOps_proofs.v.

    Vocabulary (model/PkgOps.v): [state] the package graph in memory (part objects with name,
    content type, relationships, the r:* references of their XML, link slots; package
    relationships; the lazy caches); [op] the public-API operations that touch parts or
    relationships; [step lz T s o] one operation, [lz = false] the code as it is (target_ref
    an ordinary property), [lz = true] the code before repair 5eaa1dfb (lazyproperty);
    [save_phys T s] the zip that save writes; [Closed s ph] the property's statement about
    that zip (unique member names, one resolvable content type per part equal to the one it
    was created or loaded with, every internal Target names the member holding the part the
    in-memory relationship points to, every r:* value is an Id of the part's rels item, the
    officeDocument relationship leads to the presentation part); [Inv T s] the state
    invariant; [tables_ok T] the side condition on opc/spec.py default_content_types. *)
From V.lib Require Import Prelude.
From V.model Require Import PackUri PkgOps.
From V.model Require Ids Opc.
From V.gen Require GenC01.
From V.proofs Require Import PkgOps_proofs.

(** iter_parts yields exactly the parts the relationship graph reaches, each once *)
Theorem C02_iter_reach : forall s, wfg s ->
  (forall p, In p (iter_pids s) <-> reachP s p) /\ NoDup (iter_pids s) /\
  (forall p, In p (iter_pids s) -> p < length (st_parts s)).
Proof. exact iter_pids_spec. Qed.
Print Assumptions C02_iter_reach.

(** a state that meets the invariant is saved as a Closed package, and saving changes nothing *)
Theorem C02_save_closed : forall T s, tables_ok T -> Inv T s ->
  snd (step false T s Save) = Saved (save_phys T s) /\ fst (step false T s Save) = s /\
  Closed s (save_phys T s).
Proof. exact save_closed. Qed.
Print Assumptions C02_save_closed.

(** every operation keeps the invariant, whether it succeeds, is refused at once or is
    refused after part of its work ([op_ok]: the files handed to the API have a plain
    extension and a content type the default table does not list for bin) *)
Theorem C02_step : forall T s o, tables_ok T -> op_ok T o -> Inv T s -> Inv T (fst (step false T s o)).
Proof. exact step_inv. Qed.
Print Assumptions C02_step.

Theorem C02_reachable : forall T ops, tables_ok T -> Forall (op_ok T) ops ->
  forall s, Inv T s -> Inv T (run false T s ops).
Proof. exact run_inv. Qed.
Print Assumptions C02_reachable.

(** the property: at any point of any history, every package a save writes is Closed *)
Theorem C02_every_save_closed : forall T ops, tables_ok T -> Forall (op_ok T) ops -> forall s, Inv T s ->
  forall s1 ph, In (s1, Saved ph) (trace T s ops) -> Closed s1 ph.
Proof. exact every_save_closed. Qed.
Print Assumptions C02_every_save_closed.

(** the part name add_slide gives the new slide (PresentationPart._next_slide_partname as
    repaired by 086e8ef1), in ANY state, invariant or not, for any number of p:sldId entries:
    the call does not raise, the name is slideK.xml with K at least 1, and no part iter_parts
    yields carries it (the former code needed every reached slide part to be listed) *)
Theorem C02_add_slide_name_fresh : forall s n,
  exists k, (1 <= k)%N /\ Ids.next_slide_partname n (iter_names s) = Ok (Ids.slide_name k) /\
            ~ In (Ids.slide_name k) (iter_names s).
Proof. exact slide_name_fresh. Qed.
Print Assumptions C02_add_slide_name_fresh.

(** the same on the operation, still with no hypothesis on the state: when add_slide returns
    there is exactly one part object more than after the evaluation of prs.slides the call
    begins with, it is called slideK.xml, no part reached at that point carries that name,
    and every other part object keeps its name *)
Theorem C02_add_slide_new_part_fresh : forall T s l,
  snd (step false T s (AddSlide l)) = Done ->
  exists k, (1 <= k)%N /\
    length (st_parts (fst (step false T s (AddSlide l)))) = S (length (st_parts (fst (m_access_slides s)))) /\
    name_of (st_parts (fst (step false T s (AddSlide l)))) (length (st_parts (fst (m_access_slides s)))) = Ids.slide_name k /\
    ~ In (Ids.slide_name k) (iter_names (fst (m_access_slides s))) /\
    forall q, q < length (st_parts (fst (m_access_slides s))) ->
      name_of (st_parts (fst (step false T s (AddSlide l)))) q = name_of (st_parts (fst (m_access_slides s))) q.
Proof. exact add_slide_new_part_fresh. Qed.
Print Assumptions C02_add_slide_new_part_fresh.

(** under the invariant, once prs.slides has been evaluated, the name is the conventional
    slide(n+1).xml (this is what keeps the listed slides called slide1..n, a clause of Inv) *)
Theorem C02_add_slide_name_conventional : forall T s pp,
  Inv T s -> st_slides s = true -> getp s (st_pres s) = Some pp ->
  Ids.next_slide_partname (length (pt_idl pp)) (iter_names s)
  = Ok (Ids.slide_name (N.of_nat (length (pt_idl pp)) + 1)%N).
Proof. exact slide_name_conventional. Qed.
Print Assumptions C02_add_slide_name_conventional.

(** witness outside the invariant: one listed slide slide1.xml, one related but unlisted
    slide part slide2.xml, prs.slides evaluated; add_slide names the new part slide3.xml,
    all reached names stay distinct and the package saved next is Closed *)
Theorem C02_add_slide_unlisted_witness :
  invb wT wdeck_unlisted = false /\
  snd (step false wT wdeck_unlisted (AddSlide 0)) = Done /\
  mem_str (Ids.slide_name 2) (iter_names wdeck_unlisted) = true /\
  iter_names (fst (step false wT wdeck_unlisted (AddSlide 0))) = iter_names wdeck_unlisted ++ [Ids.slide_name 3] /\
  Opc.nodupb (iter_names (fst (step false wT wdeck_unlisted (AddSlide 0)))) = true /\
  saved_closed false wT (fst (step false wT wdeck_unlisted (AddSlide 0))) = true.
Proof. exact add_slide_unlisted_witness. Qed.
Print Assumptions C02_add_slide_unlisted_witness.

(** re-opening: resolving every written Target against the base URI of its source and looking
    the name up among the members (what the loader of C01 does) gives back, for the package
    and for every part, exactly the in-memory relationships (id, type, target part or
    external text); the members are the reached parts, each once, under their names and
    with their content types.  [reload_rel] is that resolution stated on the structural
    package; that pptx.opc.package._PackageLoader performs it is C01's subject. *)
Theorem C02_reopen : forall T s, Inv T s -> tables_ok T ->
  map pm_pid (ph_members (save_phys T s)) = iter_pids s /\ NoDup (iter_pids s) /\
  map (reload_rel (save_phys T s) Opc.root) (ph_prels (save_phys T s))
    = map mem_graph (Opc.sort_by (fun a b => Opc.rid_leb (rr_id a) (rr_id b)) (st_prels s)) /\
  forall m, In m (ph_members (save_phys T s)) ->
    exists x, getp s (pm_pid m) = Some x /\ pm_name m = pt_name x /\
      ct_resolve (ph_cts (save_phys T s)) (pm_name m) = Ok (pt_ct x) /\
      map (reload_rel (save_phys T s) (pm_name m)) (pm_rels m)
        = map mem_graph (Opc.sort_by (fun a b => Opc.rid_leb (rr_id a) (rr_id b)) (pt_rels x)).
Proof. exact reopen_graph. Qed.
Print Assumptions C02_reopen.

(** refused calls: an image format Image.ext refuses, a layout index out of range (on
    removal, on add_slide) leave the state as it is once prs.slides has been evaluated
    (before that, the only effect is that evaluation, C02_step applies) *)
Theorem C02_refused_picture_unchanged : forall T s i, st_slides s = true -> fst (step false T s (AddPictureBad i)) = s.
Proof. exact refused_picture_bad. Qed.
Print Assumptions C02_refused_picture_unchanged.

Theorem C02_refused_remove_index_unchanged : forall T s l, snd (m_layout l s) = Err IndexErr ->
  fst (step false T s (RemoveLayout l)) = s.
Proof. exact refused_layout_index. Qed.
Print Assumptions C02_refused_remove_index_unchanged.

Theorem C02_refused_add_slide_index_unchanged : forall T s l, st_slides s = true -> snd (m_layout l s) = Err IndexErr ->
  fst (step false T s (AddSlide l)) = s.
Proof. exact refused_add_slide_index. Qed.
Print Assumptions C02_refused_add_slide_index_unchanged.

(** the decidable forms of the hypotheses are sound (the check evaluates them on every deck
    and on every state its histories reach) *)
Theorem C02_invb_sound : forall T s, invb T s = true -> Inv T s.
Proof. exact invb_sound. Qed.
Print Assumptions C02_invb_sound.

Theorem C02_tables_okb_sound : forall T, tables_okb T = true -> tables_ok T.
Proof. exact tables_okb_sound. Qed.
Print Assumptions C02_tables_okb_sound.

(** XmlPart.drop_rel: a relationship is removed only when at most one r:id attribute names
    it, and then only that one; everything else about the part stays *)
Theorem C02_drop_rel_refcount : forall p rid p', drop_rel p rid = Ok p' ->
  (2 <= ref_count rid p /\ p' = p) \/
  (ref_count rid p < 2 /\ In rid (map rr_id (pt_rels p)) /\
   p' = with_rels p (filter (fun r => negb (str_eqb (rr_id r) rid)) (pt_rels p))).
Proof. exact drop_rel_spec. Qed.
Print Assumptions C02_drop_rel_refcount.

Theorem C02_drop_rel_keeps_shared : forall p rid, 2 <= ref_count rid p -> drop_rel p rid = Ok p.
Proof. exact drop_rel_keeps_shared. Qed.
Print Assumptions C02_drop_rel_keeps_shared.

Theorem C02_drop_rel_raises : forall p rid e, drop_rel p rid = Err e ->
  e = KeyErr /\ ref_count rid p < 2 /\ ~ In rid (map rr_id (pt_rels p)).
Proof. exact drop_rel_err. Qed.
Print Assumptions C02_drop_rel_raises.

(** the implicit-relationship edge: get_or_add hands back an existing relationship of the
    same type and target whether or not the XML refers to it ... *)
Theorem C02_implicit_rel_reused : forall t g rs r, In r rs -> rr_type r = t -> rr_tgt r = g ->
  exists rid, get_or_add t g rs = Ok (rs, rid) /\ In rid (map rr_id rs).
Proof. exact get_or_add_reuses. Qed.
Print Assumptions C02_implicit_rel_reused.

(** ... and drop_rel removes a relationship that one r:id names even when the relationship
    was there before that reference (reference count 0 then 1) *)
Theorem C02_implicit_rel_dropped : forall p rid, ref_count rid p <= 1 -> In rid (map rr_id (pt_rels p)) ->
  exists p', drop_rel p rid = Ok p' /\ ~ In rid (map rr_id (pt_rels p')).
Proof. exact drop_rel_implicit. Qed.
Print Assumptions C02_implicit_rel_dropped.

(** witness history: notes access, slide jump from the notes placeholder to its own slide,
    jump cleared: the notes slide has lost the relationship to its slide; the invariant and
    Closed still hold (the statement of C02 is not violated) *)
Theorem C02_implicit_rel_witness :
  exists T s, tables_ok T /\ Inv T s /\
    let s1 := run false T s [AccessNotes 0] in
    let s2 := run false T s [AccessNotes 0; SetNotesJump 0 0] in
    let s3 := run false T s [AccessNotes 0; SetNotesJump 0 0; ClearNotesJump 0] in
    length (notes_slide_rels s1 0) = 1 /\
    notes_slide_rels s2 0 = notes_slide_rels s1 0 /\
    notes_slide_rels s3 0 = [] /\
    invb T s3 = true /\ saved_closed false T s3 = true.
Proof. exact implicit_rel_witness. Qed.
Print Assumptions C02_implicit_rel_witness.

(** regression witness of the repaired defect: with target_ref a lazyproperty, on a deck
    whose slide part names are out of presentation order, save / first access of
    prs.slides / save writes a package that is not Closed (stale Targets); with the
    property computed on each access the same history is Closed *)
Theorem C02_stale_target_regression :
  exists T s, tables_ok T /\ Inv T s /\
    saved_closed true T s = true /\
    saved_closed true T (run true T s [Save; AccessSlides]) = false /\
    c_targets (fst (step true T (run true T s [Save; AccessSlides]) Save))
              (save_phys T (fst (step true T (run true T s [Save; AccessSlides]) Save))) = false /\
    saved_closed false T (run false T s [Save; AccessSlides]) = true.
Proof. exact stale_target_regression. Qed.
Print Assumptions C02_stale_target_regression.

(** a call refused after part of its work: add_movie with a poster frame image that
    Image.ext refuses keeps the media part and its two relationships *)
Theorem C02_refused_movie_keeps_media :
  exists T s v, tables_ok T /\ Inv T s /\ blob_ok T v /\
    snd (step false T s (AddMovie 0 v PBad)) = Refused ValueErr /\
    length (st_parts (fst (step false T s (AddMovie 0 v PBad)))) = S (length (st_parts s)) /\
    invb T (fst (step false T s (AddMovie 0 v PBad))) = true.
Proof. exact refused_movie_witness. Qed.
Print Assumptions C02_refused_movie_keeps_media.

(** ---- non-vacuity ---- *)

Example C02_ex_tables_small : tables_ok wT.
Proof. exact wT_ok. Qed.

(* the tables regenerated from the source tree meet the side condition *)
Example C02_ex_tables_live : tables_ok (mkT GenC01.gen_default_table GenC01.gen_init_defaults).
Proof. apply tables_okb_sound. vm_compute. reflexivity. Qed.

Example C02_ex_inv : Inv wT wdeck.
Proof. exact wdeck_inv. Qed.

Example C02_ex_inv_live_tables : Inv (mkT GenC01.gen_default_table GenC01.gen_init_defaults) wdeck.
Proof. apply invb_sound. vm_compute. reflexivity. Qed.

(* the witness deck is saved Closed, with five parts, three of them with a rels item *)
Example C02_ex_saved :
  closedb wdeck (save_phys wT wdeck) = true /\ length (member_names (save_phys wT wdeck)) = 12.
Proof. vm_compute. split; reflexivity. Qed.

(* a history on the witness deck meets the hypotheses of C02_reachable and saves Closed at both saves *)
Example C02_ex_history :
  let ops := [AddSlide 0; AddPlainShape 0; SetLink WClick 0 0 [104; 58]%N; Save; AccessNotes 1; SetJump 0 0 1;
              AddChart 2; RemoveLayout 0; AccessCoreProps; Save] in
  Forall (op_ok wT) ops /\ invb wT (run false wT wdeck ops) = true /\
  forallb (fun so => match snd so with Saved ph => closedb (fst so) ph | _ => true end) (trace wT wdeck ops) = true /\
  length (filter (fun so => match snd so with Saved _ => true | _ => false end) (trace wT wdeck ops)) = 2.
Proof. split; [repeat constructor|]. vm_compute. repeat split. Qed.

(* drop_rel with two r:id references to the same relationship keeps it *)
Example C02_ex_shared :
  let p := mkP [47; 97]%N [47]%N [] 0 [] [] [(Some (rid_ 1), Some (rid_ 1))] 0 false [mkR (rid_ 1) rt_hyperlink (TExt [104]%N) None] in
  ref_count (rid_ 1) p = 2 /\ drop_rel p (rid_ 1) = Ok p.
Proof. vm_compute. split; reflexivity. Qed.

(* the hypotheses of C02_add_slide_name_conventional and of C02_add_slide_new_part_fresh are met
   on the witness deck: prs.slides evaluated, then add_slide *)
Example C02_ex_add_slide_conventional :
  let s := run false wT wdeck [AccessSlides] in
  invb wT s = true /\ st_slides s = true /\
  snd (step false wT s (AddSlide 0)) = Done /\
  iter_names (fst (step false wT s (AddSlide 0))) = iter_names s ++ [Ids.slide_name 3].
Proof. vm_compute. repeat split. Qed.
