(** C13 model: placeholders of a new slide mirror the layout and inherit its geometry.
    Executable definitions only (no proofs).  Mirrors, quirks included:

      slide.py            Slides.add_slide, SlideLayout.iter_cloneable_placeholders,
                          NotesSlide.clone_master_placeholders
      shapes/shapetree.py _BaseShapes.clone_placeholder / _next_ph_name / ph_basename /
                          _next_shape_id, SlideShapes.clone_layout_placeholders,
                          LayoutPlaceholders.get, MasterPlaceholders.get,
                          SlidePlaceholders.__iter__ (sorted by idx), add_textbox
      shapes/placeholder.py _InheritsDimensions (own value, else base placeholder; the setters
                          go through _set_dimension, which writes the inherited values of the
                          dimensions a new a:off / a:ext would displace),
                          _BaseSlidePlaceholder / LayoutPlaceholder / NotesSlidePlaceholder
                          ._base_placeholder, MasterPlaceholder (plain Shape setters)
      oxml/shapes/autoshape.py CT_Shape.new_placeholder_sp
      oxml/shapes/shared.py CT_Placeholder defaults, BaseShapeElement x/y/cx/cy,
                          (validation before anything is added), CT_Transform2D (a:off and a:ext
                          are created independently, with zeros)
      parts/presentation.py add_slide, parts/slide.py NotesSlidePart.new

    Every literal table comes from gen/GenC13.v (regenerated from /repo on every run) through
    the record [cfg]; the functions take the tables as a parameter so that the theorems are
    stated for ANY tables and instantiated on the generated ones.

    A tree (slide, layout, master, notes slide, notes master) is the list of its top-level
    shapes in document order.  The records [ph] and [shape] are declared in GenC13.v because
    the default notes master is generated data. *)
From V.lib Require Import Prelude.
From V.gen Require Import GenC13.

(** * Tables *)
Record cfg := mk_cfg {
  c_latent : list N;              (* types NOT cloned to a slide *)
  c_notes_cloneable : list N;     (* types cloned to a notes slide *)
  c_base_slide : list (N * str);  (* ph_basename of a slide *)
  c_base_notes : list (N * str);  (* ph_basename of a notes slide *)
  c_lmmap : list (N * N);         (* layout type -> master type *)
  c_txbody : list N }.            (* types that get a p:txBody *)

Definition gen_cfg : cfg :=
  mk_cfg latent_types notes_cloneable basename_slide basename_notes layout_master_map txbody_types.

(** Python dict lookup: first (only) entry with that key, KeyError when absent. *)
Fixpoint assoc {B} (k : N) (l : list (N * B)) : option B :=
  match l with
  | [] => None
  | (k', v) :: l' => if N.eqb k' k then Some v else assoc k l'
  end.
Definition dict_get {B} (k : N) (l : list (N * B)) : res B :=
  match assoc k l with Some v => Ok v | None => Err KeyErr end.
Definition has_key {B} (k : N) (l : list (N * B)) : bool :=
  match assoc k l with Some _ => true | None => false end.

(** enum members (with an XML value) that have no key in a table *)
Definition missing {B} (tbl : list (N * B)) : list N :=
  filter (fun t => negb (has_key t tbl)) all_ph_types.

(** * p:ph attributes after defaults (OptionalAttribute getters) *)
Definition ph_type (p : ph) : N := match a_type p with Some v => v | None => default_type end.
Definition ph_idx (p : ph) : N := match a_idx p with Some v => v | None => default_idx end.
Definition ph_orient (p : ph) : N := match a_orient p with Some v => v | None => default_orient end.
Definition ph_sz (p : ph) : N := match a_sz p with Some v => v | None => default_sz end.

(** OptionalAttribute setter: a value equal to the default removes the attribute *)
Definition norm (d v : N) : option N := if N.eqb v d then None else Some v.

Definition key (p : ph) : N * N * N * N := (ph_type p, ph_idx p, ph_orient p, ph_sz p).

Definition is_ph (s : shape) : bool := match s_ph s with Some _ => true | None => false end.
Definition placeholders (t : list shape) : list shape := filter is_ph t.
(** p:ph records of the placeholder shapes, document order *)
Definition phs (t : list shape) : list ph :=
  flat_map (fun s => match s_ph s with Some p => [p] | None => [] end) t.

Definition has_type (ts : list N) (s : shape) : bool :=
  match s_ph s with Some p => memN (ph_type p) ts | None => false end.

(** SlideLayout.iter_cloneable_placeholders *)
Definition cloneable (c : cfg) (L : list shape) : list shape :=
  filter (fun s => is_ph s && negb (has_type (c_latent c) s)) L.
(** NotesSlide.clone_master_placeholders.iter_cloneable_placeholders *)
Definition notes_cloneable_of (c : cfg) (NM : list shape) : list shape :=
  filter (fun s => is_ph s && has_type (c_notes_cloneable c) s) NM.

(** * Names and ids of a tree built from a template *)
Inductive tkind := KSlide | KNotes.
Definition tmpl_ids (k : tkind) : list N := match k with KSlide => slide_tmpl_ids | KNotes => notes_tmpl_ids end.
Definition tmpl_names (k : tkind) : list str := match k with KSlide => slide_tmpl_names | KNotes => notes_tmpl_names end.
Definition base_table (c : cfg) (k : tkind) : list (N * str) :=
  match k with KSlide => c_base_slide c | KNotes => c_base_notes c end.

(** xpath //@id (digit strings) and //p:cNvPr/@name over the whole part *)
Definition tree_ids (k : tkind) (t : list shape) : list N := tmpl_ids k ++ map s_id t.
Definition tree_names (k : tkind) (t : list shape) : list str := tmpl_names k ++ map s_name t.
(** CT_GroupShape.max_shape_id: 0 when there is no id *)
Definition max_id (k : tkind) (t : list shape) : N := fold_left N.max (tree_ids k t) 0%N.

(** * _next_ph_name *)
Definition cand (base : str) (n : N) : str := base ++ name_sep ++ dec_of_N n.

(** the while-loop, with fuel; [None] = fuel exhausted (shown impossible for
    fuel = S (length names)) *)
Fixpoint next_num (fuel : nat) (base : str) (n : N) (names : list str) : option N :=
  match fuel with
  | O => None
  | S f => if mem_str (cand base n) names then next_num f base (n + 1)%N names else Some n
  end.

Definition ph_base (tbl : list (N * str)) (t orient : N) : res str :=
  bind (dict_get t tbl) (fun b =>
    Ok (if N.eqb orient orient_vert then vertical_prefix ++ b else b)).

Definition next_ph_name (tbl : list (N * str)) (t id orient : N) (names : list str) : res str :=
  bind (ph_base tbl t orient) (fun base =>
    match next_num (S (length names)) base (id - numpart_offset)%N names with
    | Some n => Ok (cand base n)
    | None => Err OtherErr
    end).

(** * CT_Shape.new_placeholder_sp *)
Definition new_placeholder_sp (c : cfg) (id : N) (name : str) (t orient sz idx : N) : shape :=
  mk_shape id name
    (Some (mk_ph (norm default_type t) (norm default_idx idx)
                 (norm default_orient orient) (norm default_sz sz)))
    None None (memN t (c_txbody c)).

(** _BaseShapes.clone_placeholder on the tree [t] of kind [k] for the placeholder record [p] *)
Definition clone_placeholder (c : cfg) (k : tkind) (t : list shape) (p : ph) : res (list shape) :=
  let id := (max_id k t + 1)%N in
  bind (next_ph_name (base_table c k) (ph_type p) id (ph_orient p) (tree_names k t)) (fun name =>
    Ok (t ++ [new_placeholder_sp c id name (ph_type p) (ph_orient p) (ph_sz p) (ph_idx p)])).

(** the for-loop of clone_layout_placeholders / clone_master_placeholders: an exception
    leaves the shapes cloned so far in place *)
Fixpoint clone_all (c : cfg) (k : tkind) (t : list shape) (ps : list ph) : list shape * res unit :=
  match ps with
  | [] => (t, Ok tt)
  | p :: ps' =>
      match clone_placeholder c k t p with
      | Ok t' => clone_all c k t' ps'
      | Err e => (t, Err e)
      end
  end.

(** * Geometry *)
Inductive attr := ALeft | ATop | AWidth | AHeight.

(** the directly applied value: a:off / a:ext may be present independently *)
Definition own (a : attr) (s : shape) : option Z :=
  match a with
  | ALeft => option_map fst (s_off s)
  | ATop => option_map snd (s_off s)
  | AWidth => option_map fst (s_ext s)
  | AHeight => option_map snd (s_ext s)
  end.

(** MasterPlaceholders.get(ph_type): first placeholder of that type *)
Definition master_get (M : list shape) (t : N) : option shape :=
  find (fun s => match s_ph s with Some p => N.eqb (ph_type p) t | None => false end) M.
(** LayoutPlaceholders.get(idx): first placeholder with that idx *)
Definition layout_get (L : list shape) (i : N) : option shape :=
  find (fun s => match s_ph s with Some p => N.eqb (ph_idx p) i | None => false end) L.

(** LayoutPlaceholder._inherited_value: _base_placeholder does the dict lookup (KeyError for a
    type without entry) before the master is consulted; the master placeholder is a plain
    MasterPlaceholder and reports its own value *)
Definition layout_inh (c : cfg) (a : attr) (M : list shape) (lp : shape) : res (option Z) :=
  match s_ph lp with
  | None => Ok None
  | Some p =>
      bind (dict_get (ph_type p) (c_lmmap c)) (fun bt =>
        match master_get M bt with
        | None => Ok None
        | Some mp => Ok (own a mp)
        end)
  end.

(** LayoutPlaceholder.left/top/width/height (_effective_value): own value, else inherited *)
Definition layout_eff (c : cfg) (a : attr) (M : list shape) (lp : shape) : res (option Z) :=
  match own a lp with
  | Some v => Ok (Some v)
  | None => layout_inh c a M lp
  end.

(** _BaseSlidePlaceholder._inherited_value on a slide whose layout tree is [L] with master [M]:
    the EFFECTIVE value of the first layout placeholder with the same idx *)
Definition slide_inh (c : cfg) (a : attr) (M L : list shape) (sp : shape) : res (option Z) :=
  match s_ph sp with
  | None => Ok None
  | Some p =>
      match layout_get L (ph_idx p) with
      | None => Ok None
      | Some lp => layout_eff c a M lp
      end
  end.

(** _BaseSlidePlaceholder.left/... *)
Definition slide_eff (c : cfg) (a : attr) (M L : list shape) (sp : shape) : res (option Z) :=
  match own a sp with
  | Some v => Ok (Some v)
  | None => slide_inh c a M L sp
  end.

(** NotesSlidePlaceholder._inherited_value: first notes-master placeholder of the same type, own value *)
Definition notes_inh (a : attr) (NM : list shape) (sp : shape) : option Z :=
  match s_ph sp with
  | None => None
  | Some p => match master_get NM (ph_type p) with None => None | Some mp => own a mp end
  end.

(** NotesSlidePlaceholder.left/... *)
Definition notes_eff (a : attr) (NM : list shape) (sp : shape) : option Z :=
  match own a sp with
  | Some v => Some v
  | None => notes_inh a NM sp
  end.

(** ST_Coordinate / ST_PositiveCoordinate validation *)
Definition coord_ok (a : attr) (v : Z) : bool :=
  match a with
  | ALeft | ATop => (-27273042329600 <=? v)%Z && (v <=? 27273042316900)%Z
  | AWidth | AHeight => (0 <=? v)%Z && (v <=? 27273042316900)%Z
  end.

(** shape.left = v etc. (BaseShapeElement x / y / cx / cy setters): the value is validated
    FIRST (ST_Coordinate.validate / ST_PositiveCoordinate.validate); a rejected value raises
    ValueError and leaves the shape exactly as it was (no a:xfrm / a:off / a:ext is created,
    an inheriting shape keeps inheriting).  An accepted value goes through get_or_add_xfrm and
    get_or_add_off / get_or_add_ext: a new a:off is x=0 y=0 and a new a:ext is cx=0 cy=0, so
    the partner dimension of the pair becomes an own 0. *)
Definition set_attr (a : attr) (v : Z) (s : shape) : shape * res unit :=
  if coord_ok a v then
    let off0 := match s_off s with Some o => o | None => (0, 0)%Z end in
    let ext0 := match s_ext s with Some e => e | None => (0, 0)%Z end in
    let off1 := match a with
                | ALeft => Some (v, snd off0)
                | ATop => Some (fst off0, v)
                | _ => s_off s end in
    let ext1 := match a with
                | AWidth => Some (v, snd ext0)
                | AHeight => Some (fst ext0, v)
                | _ => s_ext s end in
    (mk_shape (s_id s) (s_name s) (s_ph s) off1 ext1 (s_txbody s), Ok tt)
  else (s, Err ValueErr).

Definition attr_eqb (a b : attr) : bool :=
  match a, b with
  | ALeft, ALeft | ATop, ATop | AWidth, AWidth | AHeight, AHeight => true
  | _, _ => false
  end.

(** iteration order of the dict literal in _set_dimension *)
Definition dim_order : list attr := [ALeft; ATop; AWidth; AHeight].

(** the list comprehension of _InheritsDimensions._set_dimension: for every OTHER dimension,
    in dict order, whose directly applied value is None, the inherited value is looked up; the
    first lookup that raises aborts the whole assignment (nothing has been written yet) *)
Fixpoint collect_inh (inh : attr -> res (option Z)) (a : attr) (s : shape) (bs : list attr)
  : res (list (attr * option Z)) :=
  match bs with
  | [] => Ok []
  | b :: bs' =>
      if negb (attr_eqb b a) && (match own b s with None => true | Some _ => false end) then
        bind (inh b) (fun w => bind (collect_inh inh a s bs') (fun r => Ok ((b, w) :: r)))
      else collect_inh inh a s bs'
  end.

(** the final for-loop of _set_dimension: every inherited value that is not None is written
    through the element-level setter (which validates); the first refused one raises and leaves
    the earlier assignments in place *)
Fixpoint apply_inh (l : list (attr * option Z)) (s : shape) : shape * res unit :=
  match l with
  | [] => (s, Ok tt)
  | (_, None) :: l' => apply_inh l' s
  | (b, Some w) :: l' =>
      let '(s1, r) := set_attr b w s in
      match r with
      | Ok _ => apply_inh l' s1
      | Err e => (s1, Err e)
      end
  end.

(** placeholder.left = v etc. on a proxy with _InheritsDimensions (slide, layout and notes-slide
    placeholders), [inh] being its _inherited_value: lookups first, then the assigned dimension
    (validated: a refused value raises ValueError with nothing changed), then the inherited values
    of the dimensions the new a:off / a:ext would otherwise displace *)
Definition set_dim (inh : attr -> res (option Z)) (a : attr) (v : Z) (s : shape) : shape * res unit :=
  match collect_inh inh a s dim_order with
  | Err e => (s, Err e)
  | Ok l =>
      let '(s1, r) := set_attr a v s in
      match r with
      | Ok _ => apply_inh l s1
      | Err e => (s1, Err e)
      end
  end.

(** which setter a shape of a tree gets: the shape factories of slides, layouts and notes slides
    return an _InheritsDimensions proxy for a p:sp with p:ph and a plain Shape otherwise *)
Definition shape_setter (inh : shape -> attr -> res (option Z)) (a : attr) (v : Z) (s : shape)
  : shape * res unit :=
  if is_ph s then set_dim (inh s) a v s else set_attr a v s.

Definition clear_xfrm (s : shape) : shape :=
  mk_shape (s_id s) (s_name s) (s_ph s) None None (s_txbody s).
Definition rename (n : str) (s : shape) : shape :=
  mk_shape (s_id s) n (s_ph s) (s_off s) (s_ext s) (s_txbody s).

(** SlidePlaceholders.__iter__: sorted(..., key=ph_idx), a stable sort *)
Definition sh_idx (s : shape) : N := match s_ph s with Some p => ph_idx p | None => default_idx end.
Fixpoint ins_idx (x : shape) (l : list shape) : list shape :=
  match l with
  | [] => [x]
  | y :: l' => if (sh_idx y <? sh_idx x)%N then y :: ins_idx x l' else x :: l
  end.
Definition slide_placeholders (t : list shape) : list shape :=
  fold_right ins_idx [] (placeholders t).

(** * The deck *)
Record layout := mk_layout { l_master : nat; l_shapes : list shape }.
Record slide := mk_slide { sl_layout : nat; sl_shapes : list shape; sl_notes : option (list shape) }.
Record deck := mk_deck {
  d_masters : list (list shape);
  d_layouts : list layout;
  d_slides : list slide;               (* p:sldIdLst order *)
  d_orphans : list (N * slide);        (* slide parts related to the presentation part but never
                                          listed, with the number in their part name *)
  d_notes_master : option (list shape) (* None: created from the default template on first use *)
}.

Definition set_slides (d : deck) (ss : list slide) : deck :=
  mk_deck (d_masters d) (d_layouts d) ss (d_orphans d) (d_notes_master d).
Definition set_orphans (d : deck) (os : list (N * slide)) : deck :=
  mk_deck (d_masters d) (d_layouts d) (d_slides d) os (d_notes_master d).
Definition set_layouts (d : deck) (ls : list layout) : deck :=
  mk_deck (d_masters d) ls (d_slides d) (d_orphans d) (d_notes_master d).
Definition set_masters (d : deck) (ms : list (list shape)) : deck :=
  mk_deck ms (d_layouts d) (d_slides d) (d_orphans d) (d_notes_master d).
Definition set_notes_master (d : deck) (nm : option (list shape)) : deck :=
  mk_deck (d_masters d) (d_layouts d) (d_slides d) (d_orphans d) nm.

(** the slide built by SlidePart.new + clone_layout_placeholders from layout tree [L] *)
Definition new_slide_tree (c : cfg) (L : list shape) : list shape * res unit :=
  clone_all c KSlide [] (phs (cloneable c L)).

(** Slides.add_slide(prs.slide_layouts...[l]).  PresentationPart.add_slide relates the new
    part BEFORE the placeholders are cloned and the sldId is appended AFTER: an exception
    while cloning leaves a related, unlisted slide part named slide(len+1).xml behind. *)
Definition add_slide (c : cfg) (d : deck) (l : nat) : deck * res unit :=
  match nth_error (d_layouts d) l with
  | None => (d, Err IndexErr)
  | Some L =>
      let '(t, r) := new_slide_tree c (l_shapes L) in
      let s := mk_slide l t None in
      match r with
      | Ok _ => (set_slides d (d_slides d ++ [s]), Ok tt)
      | Err e => (set_orphans d (d_orphans d ++ [(N.of_nat (length (d_slides d)) + 1, s)%N]), Err e)
      end
  end.

Definition the_notes_master (d : deck) : list shape :=
  match d_notes_master d with Some nm => nm | None => default_notes_master end.
(** PresentationPart.notes_master_part creates the default master when there is none *)
Definition ensure_notes_master (d : deck) : deck := set_notes_master d (Some (the_notes_master d)).

Definition new_notes_tree (c : cfg) (NM : list shape) : list shape * res unit :=
  clone_all c KNotes [] (phs (notes_cloneable_of c NM)).

Fixpoint upd_nth {A} (n : nat) (f : A -> A) (l : list A) : list A :=
  match l, n with
  | [], _ => []
  | x :: l', O => f x :: l'
  | x :: l', S n' => x :: upd_nth n' f l'
  end.

Fixpoint remove_nth {A} (n : nat) (l : list A) : list A :=
  match l, n with
  | [], _ => []
  | _ :: l', O => l'
  | x :: l', S n' => x :: remove_nth n' l'
  end.

(** slide.notes_slide: existing one is returned; otherwise NotesSlidePart.new.  The notes
    slide part is related to the slide only after cloning succeeded. *)
Definition notes_slide (c : cfg) (d : deck) (s : nat) : deck * res unit :=
  match nth_error (d_slides d) s with
  | None => (d, Err IndexErr)
  | Some sl =>
      match sl_notes sl with
      | Some _ => (d, Ok tt)
      | None =>
          let d1 := ensure_notes_master d in
          let '(t, r) := new_notes_tree c (the_notes_master d) in
          match r with
          | Ok _ => (set_slides d1 (upd_nth s (fun x => mk_slide (sl_layout x) (sl_shapes x) (Some t)) (d_slides d1)), Ok tt)
          | Err e => (d1, Err e)
          end
      end
  end.

(** * Other edits, interleaved with additions *)
Inductive target :=
| TSlide (s i : nat) | TNotes (s i : nat) | TLayout (l i : nat) | TMaster (m i : nat) | TNotesMaster (i : nat).

Inductive edit := ESet (a : attr) (v : Z) | EClear | ERename (n : str) | EDelete.

Inductive op :=
| AddSlide (l : nat)
| NotesSlide (s : nat)
| Edit (tg : target) (e : edit)
| AddTextbox (s : nat) (x y cx cy : Z)
| ClonePh (s l i : nat).      (* slide.shapes.clone_placeholder(layout.placeholders[i]) on an existing slide *)

(** apply an edit to the i-th shape of a tree; [st] is the geometry setter of its proxy class *)
Definition edit_tree (st : attr -> Z -> shape -> shape * res unit)
                     (t : list shape) (i : nat) (e : edit) : list shape * res unit :=
  match nth_error t i with
  | None => (t, Err IndexErr)
  | Some s =>
      match e with
      | ESet a v => let '(s', r) := st a v s in (upd_nth i (fun _ => s') t, r)
      | EClear => (upd_nth i clear_xfrm t, Ok tt)
      | ERename n => (upd_nth i (rename n) t, Ok tt)
      | EDelete => (remove_nth i t, Ok tt)
      end
  end.

Definition s_textbox : str := [84; 101; 120; 116; 66; 111; 120; 32]%N.  (* TextBox + space *)

(** SlideShapes.add_textbox: id = max + 1, name TextBox (id-1), no uniqueness loop *)
Definition add_textbox (t : list shape) (x y cx cy : Z) : list shape :=
  let id := (max_id KSlide t + 1)%N in
  t ++ [mk_shape id (s_textbox ++ dec_of_N (id - 1)%N) None (Some (x, y)) (Some (cx, cy)) true].

(** layout tree and master tree a slide related to layout [l] of deck [d] inherits through *)
Definition layout_tree (d : deck) (l : nat) : list shape :=
  match nth_error (d_layouts d) l with Some L => l_shapes L | None => [] end.
Definition master_tree (d : deck) (l : nat) : list shape :=
  match nth_error (d_layouts d) l with
  | Some L => nth (l_master L) (d_masters d) []
  | None => []
  end.

(** the geometry setters per tree kind.  list(slide.shapes)[i] is a _BaseSlidePlaceholder subclass
    for a p:sp with p:ph (inherits from the layout placeholder with its idx, effective value),
    list(notes_slide.shapes)[i] a NotesSlidePlaceholder (notes master, by type, own value),
    layout.placeholders[i] a LayoutPlaceholder (master of that layout, by mapped type, own value);
    slide_master.placeholders[i] and notes_master.placeholders[i] are MasterPlaceholder objects
    and every shape without p:ph is a plain Shape: those assign the element attribute directly *)
Definition slide_setter (c : cfg) (d : deck) (sl : slide) : attr -> Z -> shape -> shape * res unit :=
  shape_setter (fun sh b => slide_inh c b (master_tree d (sl_layout sl)) (layout_tree d (sl_layout sl)) sh).
Definition notes_setter (d : deck) : attr -> Z -> shape -> shape * res unit :=
  shape_setter (fun sh b => Ok (notes_inh b (the_notes_master d) sh)).
Definition layout_setter (c : cfg) (d : deck) (L : layout) : attr -> Z -> shape -> shape * res unit :=
  shape_setter (fun sh b => layout_inh c b (nth (l_master L) (d_masters d) []) sh).

Definition step (c : cfg) (d : deck) (o : op) : deck * res unit :=
  match o with
  | AddSlide l => add_slide c d l
  | NotesSlide s => notes_slide c d s
  | AddTextbox s x y cx cy =>
      match nth_error (d_slides d) s with
      | None => (d, Err IndexErr)
      | Some _ =>
          (set_slides d (upd_nth s (fun sl => mk_slide (sl_layout sl) (add_textbox (sl_shapes sl) x y cx cy) (sl_notes sl))
                                 (d_slides d)), Ok tt)
      end
  | ClonePh s l i =>
      match nth_error (d_slides d) s with
      | None => (d, Err IndexErr)
      | Some sl =>
          match nth_error (d_layouts d) l with
          | None => (d, Err IndexErr)
          | Some L =>
              match nth_error (phs (l_shapes L)) i with
              | None => (d, Err IndexErr)
              | Some p =>
                  match clone_placeholder c KSlide (sl_shapes sl) p with
                  | Ok t => (set_slides d (upd_nth s (fun sl => mk_slide (sl_layout sl) t (sl_notes sl)) (d_slides d)), Ok tt)
                  | Err e => (d, Err e)
                  end
              end
          end
      end
  | Edit (TSlide s i) e =>
      match nth_error (d_slides d) s with
      | None => (d, Err IndexErr)
      | Some sl =>
          let '(t, r) := edit_tree (slide_setter c d sl) (sl_shapes sl) i e in
          (set_slides d (upd_nth s (fun sl => mk_slide (sl_layout sl) t (sl_notes sl)) (d_slides d)), r)
      end
  | Edit (TNotes s i) e =>
      match nth_error (d_slides d) s with
      | None => (d, Err IndexErr)
      | Some sl =>
          match sl_notes sl with
          | None => (d, Err IndexErr)    (* the harness only targets existing notes slides *)
          | Some nt =>
              let '(t, r) := edit_tree (notes_setter d) nt i e in
              (set_slides d (upd_nth s (fun sl => mk_slide (sl_layout sl) (sl_shapes sl) (Some t)) (d_slides d)), r)
          end
      end
  | Edit (TLayout l i) e =>
      match nth_error (d_layouts d) l with
      | None => (d, Err IndexErr)
      | Some L =>
          let '(t, r) := edit_tree (layout_setter c d L) (l_shapes L) i e in
          (set_layouts d (upd_nth l (fun L => mk_layout (l_master L) t) (d_layouts d)), r)
      end
  | Edit (TMaster m i) e =>
      match nth_error (d_masters d) m with
      | None => (d, Err IndexErr)
      | Some M =>
          let '(t, r) := edit_tree set_attr M i e in
          (set_masters d (upd_nth m (fun _ => t) (d_masters d)), r)
      end
  | Edit (TNotesMaster i) e =>
      let d1 := ensure_notes_master d in
      let '(t, r) := edit_tree set_attr (the_notes_master d) i e in
      (set_notes_master d1 (Some t), r)
  end.

(** a history: the deck after every operation, results collected *)
Fixpoint run_ops (c : cfg) (d : deck) (ops : list op) : deck * list (res unit) :=
  match ops with
  | [] => (d, [])
  | o :: ops' =>
      let '(d1, r) := step c d o in
      let '(d2, rs) := run_ops c d1 ops' in
      (d2, r :: rs)
  end.

Definition final (c : cfg) (d : deck) (ops : list op) : deck := fst (run_ops c d ops).

(** geometry of the shapes of slide [sl] in deck [d] (through its layout and that layout's master) *)
Definition slide_geom (c : cfg) (d : deck) (sl : slide) (a : attr) (sp : shape) : res (option Z) :=
  slide_eff c a (master_tree d (sl_layout sl)) (layout_tree d (sl_layout sl)) sp.

(** boolean distinctness, for the sanity obligations over the generated tables (a python dict
    literal with a repeated key keeps the LAST value, [assoc] returns the first) *)
Fixpoint distinctN (l : list N) : bool :=
  match l with
  | [] => true
  | x :: l' => negb (memN x l') && distinctN l'
  end.

Definition gen_sane : bool :=
  distinctN (map fst basename_slide) && distinctN (map fst basename_notes) &&
  distinctN (map fst layout_master_map) && distinctN all_ph_types &&
  (numpart_offset <=? 1)%N &&
  forallb (fun t => memN t all_ph_types) (latent_types ++ notes_cloneable ++ txbody_types) &&
  memN default_type all_ph_types && (orient_vert <? n_orients)%N && (default_orient <? n_orients)%N &&
  (default_sz <? n_szs)%N && negb (N.eqb orient_vert default_orient).

(** * Vocabulary of the statements in props/C13.v (specification-level definitions) *)
(** what a freshly cloned shape looks like, relative to the placeholder record it was cloned from *)
Definition cloned (c : cfg) (p : ph) (s : shape) : Prop :=
  (exists p', s_ph s = Some p' /\ key p' = key p) /\
  s_off s = None /\ s_ext s = None /\ s_txbody s = memN (ph_type p) (c_txbody c).

(** [sp] is a fresh clone of the layout (or master) placeholder shape [lp] *)
Definition clone_of (c : cfg) (lp sp : shape) : Prop :=
  exists p, s_ph lp = Some p /\ cloned c p sp.

Definition idx_pred (i : N) (s : shape) : bool :=
  match s_ph s with Some p => N.eqb (ph_idx p) i | None => false end.

(** the layout placeholder a slide placeholder cloned from [lp] inherits from: the FIRST
    placeholder of the layout tree with the idx of [lp] *)
Definition first_with_idx (Ls : list shape) (lp : shape) : shape :=
  match layout_get Ls (sh_idx lp) with Some x => x | None => lp end.

Definition same_pair (a b : attr) : bool :=
  match a, b with
  | ALeft, ALeft | ALeft, ATop | ATop, ALeft | ATop, ATop => true
  | AWidth, AWidth | AWidth, AHeight | AHeight, AWidth | AHeight, AHeight => true
  | _, _ => false
  end.

(** the other dimension carried by the same element (a:off holds left and top, a:ext width and height) *)
Definition partner (a : attr) : attr :=
  match a with ALeft => ATop | ATop => ALeft | AWidth => AHeight | AHeight => AWidth end.

(** what an _InheritsDimensions proxy reports for [b]: own value, else its inherited value [inh b]
    (slide_eff, layout_eff and notes_eff are instances) *)
Definition eff_with (inh : attr -> res (option Z)) (b : attr) (s : shape) : res (option Z) :=
  match own b s with Some x => Ok (Some x) | None => inh b end.

(** the exact guard under which _set_dimension goes through: the assigned value is in range and,
    for every other dimension without own value, the inherited lookup does not raise and what it
    yields (if anything) is in range *)
Definition dim_guard (inh : attr -> res (option Z)) (a : attr) (v : Z) (s : shape) : Prop :=
  coord_ok a v = true /\
  (forall b, b <> a -> own b s = None ->
    exists w, inh b = Ok w /\ forall x, w = Some x -> coord_ok b x = true).

(** the state an accepted assignment of [v] to one dimension produces at element level *)
Definition put (a : attr) (v : Z) (s : shape) : shape :=
  let off0 := match s_off s with Some o => o | None => (0, 0)%Z end in
  let ext0 := match s_ext s with Some e => e | None => (0, 0)%Z end in
  let off1 := match a with
              | ALeft => Some (v, snd off0)
              | ATop => Some (fst off0, v)
              | _ => s_off s end in
  let ext1 := match a with
              | AWidth => Some (v, snd ext0)
              | AHeight => Some (fst ext0, v)
              | _ => s_ext s end in
  mk_shape (s_id s) (s_name s) (s_ph s) off1 ext1 (s_txbody s).

Definition sh_type (s : shape) : N := match s_ph s with Some p => ph_type p | None => default_type end.

Definition type_pred (t : N) (s : shape) : bool :=
  match s_ph s with Some p => N.eqb (ph_type p) t | None => false end.

(** the notes-master placeholder a notes-slide placeholder cloned from [mp] inherits from: the
    FIRST placeholder of the notes master with the type of [mp] *)
Definition first_with_type (NM : list shape) (mp : shape) : shape :=
  match master_get NM (sh_type mp) with Some x => x | None => mp end.

Definition idx_le (a b : shape) : Prop := (sh_idx a <= sh_idx b)%N.

(** a one-placeholder witness deck for a type [t] *)
Definition wit_shape (t : N) : shape := mk_shape 2%N [] (Some (mk_ph (Some t) None None None)) None None false.
Definition wit_deck (t : N) : deck := mk_deck [[]] [mk_layout 0 [wit_shape t]] [] [] None.

(** a small table set for non-vacuity examples that do not depend on the generated tables *)
Definition toy_cfg : cfg :=
  mk_cfg [16%N] [2%N] [(1%N, [84%N]); (3%N, [67%N])] [(2%N, [78%N])] [(1%N, 1%N)] [1%N].

(** witness deck for duplicate idx values: two title placeholders without idx attribute *)
Definition dup_deck : deck :=
  mk_deck [[]]
    [mk_layout 0 [mk_shape 2%N [] (Some (mk_ph (Some 1%N) None None None)) (Some (10, 20)%Z) (Some (30, 40)%Z) true;
                  mk_shape 3%N [] (Some (mk_ph (Some 1%N) None None None)) (Some (50, 60)%Z) (Some (70, 80)%Z) true]]
    [] [] None.

(** a layout with every flavour: missing type and idx, duplicate types, vertical, sizes,
    latent ones in between, a non-placeholder shape *)
Definition ex_layout : layout :=
  mk_layout 0
    [mk_shape 7%N [] (Some (mk_ph (Some 1%N) None None None)) (Some (1, 2)%Z) (Some (3, 4)%Z) true;
     mk_shape 9%N [] None (Some (0, 0)%Z) None false;
     mk_shape 8%N [] (Some (mk_ph (Some 2%N) (Some 1%N) (Some 1%N) (Some 1%N))) None None true;
     mk_shape 3%N [] (Some (mk_ph (Some 16%N) (Some 10%N) None (Some 1%N))) None None true;
     mk_shape 4%N [] (Some (mk_ph None (Some 1%N) None None)) None (Some (5, 6)%Z) false;
     mk_shape 5%N [] (Some (mk_ph (Some 2%N) (Some 4294967295%N) None (Some 2%N))) None None true;
     mk_shape 6%N [] (Some (mk_ph (Some 13%N) (Some 12%N) None None)) None None true].
Definition ex_deck : deck :=
  mk_deck [[mk_shape 2%N [] (Some (mk_ph (Some 2%N) (Some 1%N) None None)) (Some (11, 12)%Z) (Some (13, 14)%Z) true]]
          [ex_layout] [mk_slide 0 [] None] [] None.


(** witness decks for the assignment statements: a master title with a position but no size
    (width and height are inherited as None) ... *)
Definition half_deck : deck :=
  mk_deck [[mk_shape 2%N [] (Some (mk_ph (Some 1%N) None None None)) (Some (10, 20)%Z) None true]]
          [mk_layout 0 [mk_shape 2%N [] (Some (mk_ph (Some 1%N) None None None)) None None true]] [] [] None.
(** ... and a layout title whose a:ext carries a negative width (schema-invalid, yet loadable) *)
Definition neg_deck : deck :=
  mk_deck [[]]
          [mk_layout 0 [mk_shape 2%N [] (Some (mk_ph (Some 1%N) None None None)) (Some (1, 2)%Z) (Some (-5, 7)%Z) true]]
          [] [] None.

(** the four reported dimensions of shape [i] of slide [s], with its own a:off and a:ext *)
Definition reported (c : cfg) (d : deck) (s i : nat)
  : option (option (Z * Z) * option (Z * Z) * list (res (option Z))) :=
  match nth_error (d_slides d) s with
  | Some sl =>
      match nth_error (sl_shapes sl) i with
      | Some sh => Some (s_off sh, s_ext sh, map (fun a => slide_geom c d sl a sh) [ALeft; ATop; AWidth; AHeight])
      | None => None
      end
  | None => None
  end.
