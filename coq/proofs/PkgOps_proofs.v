(** Proofs about model/PkgOps.v (C02). *)
From V.lib Require Import Prelude.
From V.model Require Import PackUri PkgOps.
From V.model Require Ids Opc.
From V.proofs Require Prelude_proofs PackUri_proofs Ids_proofs Opc_proofs.
From Coq Require Import Permutation.

(* ------------------------------------------------------------------------------ *)
(** * Reachability: iter_pids computes the parts the relationship graph reaches *)

Definition wfg (s : state) : Prop :=
  (forall q, In q (int_targets (st_prels s)) -> q < length (st_parts s)) /\
  (forall p x q, getp s p = Some x -> In q (int_targets (pt_rels x)) -> q < length (st_parts s)).

Inductive reachP (s : state) : nat -> Prop :=
| rp0 q : In q (int_targets (st_prels s)) -> reachP s q
| rp1 p q x : reachP s p -> getp s p = Some x -> In q (int_targets (pt_rels x)) -> reachP s q.

Lemma key_inj a b : key a = key b -> a = b.
Proof. unfold key. intros H. inversion H. lia. Qed.

Lemma unkey_key a : unkey (key a) = a.
Proof. unfold unkey, key. lia. Qed.

Definition okk (s : state) (k : str) : Prop := exists p, p < length (st_parts s) /\ k = key p.

Lemma gsucc_key s p : gsucc (st_parts s) (key p) =
  match getp s p with Some x => map key (int_targets (pt_rels x)) | None => [] end.
Proof. unfold gsucc, key, getp. rewrite Nat2N.id. reflexivity. Qed.

Lemma okk_closed s : wfg s -> forall x y, okk s x -> In y (gsucc (st_parts s) x) -> okk s y.
Proof.
  intros [_ Hw] x y (p & Hp & ->) Hy. rewrite gsucc_key in Hy.
  destruct (getp s p) as [px|] eqn:E; [|destruct Hy].
  apply in_map_iff in Hy as (q & <- & Hq). exists q. split; auto. eapply Hw; eauto.
Qed.

Lemma okk_U s x : okk s x -> In x (map key (seq 0 (length (st_parts s)))).
Proof. intros (p & Hp & ->). apply in_map. apply in_seq. lia. Qed.

Lemma reach_keys s : wfg s -> forall y x, okk s y -> Opc.reach (gsucc (st_parts s)) y x -> okk s x.
Proof. intros Hw y x Hy Hr. induction Hr; auto. eapply okk_closed; eauto. Qed.

Lemma reachP_of_key s : forall q p, In q (int_targets (st_prels s)) ->
  Opc.reach (gsucc (st_parts s)) (key q) (key p) -> reachP s p.
Proof.
  intros q p Hq Hr. remember (key p) as kp eqn:Ekp. revert p Ekp.
  induction Hr as [|x y Hr IH Hy]; intros p Ekp.
  - apply key_inj in Ekp. subst. constructor; auto.
  - subst y. (* x is a key *)
    assert (Hx : exists px, x = key px).
    { clear IH Hy. remember (key q) as kq. induction Hr.
      - eauto.
      - destruct IHHr as (pz & ->); auto. rewrite gsucc_key in H.
        destruct (getp s pz); [|destruct H]. apply in_map_iff in H as (w & <- & _). eauto. }
    destruct Hx as (px & ->). specialize (IH px eq_refl).
    rewrite gsucc_key in Hy. destruct (getp s px) as [xx|] eqn:E; [|destruct Hy].
    apply in_map_iff in Hy as (w & Hw & Hin). apply key_inj in Hw. subst w.
    eapply rp1; eauto.
Qed.

Lemma key_of_reachP s p : reachP s p ->
  exists q, In q (int_targets (st_prels s)) /\ Opc.reach (gsucc (st_parts s)) (key q) (key p).
Proof.
  induction 1 as [q Hq|p q x Hp IH Hx Hq].
  - exists q. split; auto. apply Opc.r0.
  - destruct IH as (r & Hr & Hreach). exists r. split; auto.
    eapply Opc.r1; eauto. rewrite gsucc_key, Hx. apply in_map; auto.
Qed.

Lemma iter_pids_spec s : wfg s ->
  (forall p, In p (iter_pids s) <-> reachP s p) /\ NoDup (iter_pids s) /\
  (forall p, In p (iter_pids s) -> p < length (st_parts s)).
Proof.
  intros Hw. unfold iter_pids.
  set (g := gsucc (st_parts s)). set (ys := map key (int_targets (st_prels s))).
  assert (Hys : forall y, In y ys -> okk s y).
  { intros y Hy. apply in_map_iff in Hy as (q & <- & Hq). exists q. split; auto. apply (proj1 Hw); auto. }
  destruct (Opc_proofs.walk_reach g (okk s) (map key (seq 0 (length (st_parts s))))
              (okk_closed s Hw) (okk_U s) ys (S (length (st_parts s))) Hys) as [Hiff Hnd].
  { rewrite map_length, seq_length. lia. }
  assert (Hall : forall k, In k (Opc.walk g (S (S (length (st_parts s)))) [] ys) -> okk s k).
  { intros k Hk. apply Hiff in Hk as (y & Hy & Hr). eapply reach_keys; eauto. }
  split; [|split].
  - intros p. rewrite in_map_iff. split.
    + intros (k & <- & Hk). apply in_rev in Hk. destruct (Hall k Hk) as (q & Hq & ->).
      rewrite unkey_key. apply Hiff in Hk as (y & Hy & Hr).
      apply in_map_iff in Hy as (r & <- & Hrin). eapply reachP_of_key; eauto.
    + intros Hp. exists (key p). split; [apply unkey_key|]. apply -> in_rev.
      apply Hiff. destruct (key_of_reachP s p Hp) as (q & Hq & Hr).
      exists (key q). split; auto. apply in_map; auto.
  - assert (Hnd' : NoDup (rev (Opc.walk g (S (S (length (st_parts s)))) [] ys))).
    { apply NoDup_rev. exact Hnd. }
    revert Hnd'. assert (Hall' : forall k, In k (rev (Opc.walk g (S (S (length (st_parts s)))) [] ys)) -> okk s k).
    { intros k Hk. apply Hall. apply in_rev. exact Hk. }
    revert Hall'. generalize (rev (Opc.walk g (S (S (length (st_parts s)))) [] ys)).
    induction l as [|a l IH]; intros Hok Hn; simpl; constructor.
    + inversion Hn; subst. intros Hin. apply in_map_iff in Hin as (b & Hb & Hbin).
      destruct (Hok a (or_introl eq_refl)) as (pa & _ & ->).
      destruct (Hok b (or_intror Hbin)) as (pb & _ & ->).
      rewrite !unkey_key in Hb. subst. auto.
    + inversion Hn; subst. apply IH; auto. intros k Hk. apply Hok. right; auto.
  - intros p Hp. apply in_map_iff in Hp as (k & <- & Hk). apply in_rev in Hk.
    destruct (Hall k Hk) as (q & Hq & ->). rewrite unkey_key. exact Hq.
Qed.

(* ------------------------------------------------------------------------------ *)
(** * Small facts *)

Lemma NoDup_nodupb l : NoDup l -> Opc.nodupb l = true.
Proof.
  induction 1 as [|x l Hx Hnd IH]; simpl; auto.
  rewrite IH, andb_true_r. apply negb_true_iff. apply Opc_proofs.mem_str_nIn. exact Hx.
Qed.

Lemma getp_lt s p x : getp s p = Some x -> p < length (st_parts s).
Proof. unfold getp. intros H. apply nth_error_Some. congruence. Qed.

Lemma getp_some s p : p < length (st_parts s) -> exists x, getp s p = Some x.
Proof. unfold getp. intros H. destruct (nth_error (st_parts s) p) eqn:E; eauto. apply nth_error_None in E. lia. Qed.

Lemma name_of_getp s p x : getp s p = Some x -> name_of (st_parts s) p = pt_name x.
Proof. unfold getp, name_of. intros ->. reflexivity. Qed.

Lemma inv_wfg T s : Inv T s -> wfg s.
Proof.
  intros I. split; [apply (iv_ptgts T s I)|].
  intros p x q Hx Hq. exact (gp_tgts _ _ (iv_parts T s I p x Hx) q Hq).
Qed.

Lemma find_rel_In rid rs r : find_rel rid rs = Some r -> In r rs /\ rr_id r = rid.
Proof.
  induction rs as [|a rs IH]; simpl; [discriminate|].
  destruct (str_eqb_spec (rr_id a) rid) as [E|E].
  - intros [= <-]. auto.
  - intros H. destruct (IH H). auto.
Qed.

Lemma find_rel_None rid rs : find_rel rid rs = None <-> ~ In rid (map rr_id rs).
Proof.
  induction rs as [|a rs IH]; simpl; [tauto|].
  destruct (str_eqb_spec (rr_id a) rid) as [E|E]; [split; [discriminate|tauto]|].
  rewrite IH. tauto.
Qed.

Lemma find_rel_NoDup rs r : NoDup (map rr_id rs) -> In r rs -> find_rel (rr_id r) rs = Some r.
Proof.
  induction rs as [|a rs IH]; simpl; [tauto|]. intros Hnd [->|Hin].
  - rewrite str_eqb_refl. reflexivity.
  - inversion Hnd; subst. destruct (str_eqb_spec (rr_id a) (rr_id r)) as [E|E]; [|auto].
    exfalso. apply H1. rewrite E. apply in_map. exact Hin.
Qed.

Lemma int_targets_In q rs : In q (int_targets rs) <-> exists r, In r rs /\ rr_tgt r = TInt q.
Proof.
  unfold int_targets. rewrite in_flat_map. split.
  - intros (r & Hr & Hq). exists r. split; auto. destruct (rr_tgt r); simpl in Hq; [destruct Hq as [->|[]]; auto|destruct Hq].
  - intros (r & Hr & E). exists r. split; auto. rewrite E. simpl; auto.
Qed.

(** the parts save writes are the reached ones, each once *)
Definition memf (s : state) (p : nat) : pmember :=
  match getp s p with
  | Some x => mkMem (pt_name x) p (out_rels (st_parts s) (pt_base x) (pt_rels x))
  | None => mkMem [] p []
  end.

Lemma filter_all_true {A} (f : A -> bool) l : (forall x, In x l -> f x = true) -> filter f l = l.
Proof. induction l as [|a l IH]; simpl; auto. intros H. rewrite H by auto. f_equal. apply IH. auto. Qed.

Lemma save_members T s : wfg s -> ph_members (save_phys T s) = map (memf s) (iter_pids s).
Proof.
  intros Hw. destruct (iter_pids_spec s Hw) as (_ & _ & Hlt). unfold save_phys. cbn [ph_members].
  rewrite filter_all_true.
  - revert Hlt. generalize (iter_pids s). induction l as [|p l IH]; intros Hlt; simpl; auto.
    destruct (getp_some s p (Hlt p (or_introl eq_refl))) as (x & Hx).
    unfold memf at 1. rewrite Hx. simpl. f_equal. apply IH. intros; apply Hlt; simpl; auto.
  - intros p Hp. destruct (getp_some s p (Hlt p Hp)) as (x & ->). reflexivity.
Qed.

Lemma save_plist T s : wfg s ->
  ph_cts (save_phys T s) =
  Opc.content_types_item (tenv T)
    (map (fun p => Opc.mkPart (name_of (st_parts s) p)
                              (match getp s p with Some x => pt_ct x | None => [] end) tt []) (iter_pids s)).
Proof.
  intros Hw. destruct (iter_pids_spec s Hw) as (_ & _ & Hlt). unfold save_phys. cbn [ph_cts].
  f_equal. rewrite filter_all_true.
  - revert Hlt. generalize (iter_pids s). induction l as [|p l IH]; intros Hlt; simpl; auto.
    destruct (getp_some s p (Hlt p (or_introl eq_refl))) as (x & Hx).
    rewrite Hx, (name_of_getp s p x Hx). simpl. f_equal. apply IH. intros; apply Hlt; simpl; auto.
  - intros p Hp. destruct (getp_some s p (Hlt p Hp)) as (x & ->). reflexivity.
Qed.

Lemma memf_name s p : pm_name (memf s p) = name_of (st_parts s) p.
Proof. unfold memf, name_of, getp. destruct (nth_error (st_parts s) p); reflexivity. Qed.

Lemma memf_pid s p : pm_pid (memf s p) = p.
Proof. unfold memf. destruct (getp s p); reflexivity. Qed.

(** the writer's content types item offers every part it was computed from exactly the
    content type of that part (generic form of the C01 argument, exact-case Override lookup) *)
Lemma cti_resolve {blob} (E : Opc.env blob) (L : list (Opc.part blob)) :
  Opc.env_ok E -> NoDup (map Opc.p_name L) -> Opc_proofs.clashfree E L ->
  NoDup (map fst (fst (Opc.content_types_item E L))) /\
  NoDup (map fst (snd (Opc.content_types_item E L))) /\
  forall pt, In pt L -> ct_resolve (Opc.content_types_item E L) (Opc.p_name pt) = Ok (Opc.p_ct pt).
Proof.
  intros [Hi1 Hi2] Hnd Hcf. unfold Opc.content_types_item, Opc.defaults_and_overrides.
  destruct (fold_left (Opc.cti_step E) L (Opc.initdefs E, [])) as [D O] eqn:EDO.
  assert (HO : O = map (fun pt => (Opc.p_name pt, Opc.p_ct pt)) (filter (fun pt => negb (Opc_proofs.intab E pt)) L)).
  { change O with (snd (D, O)). rewrite <- EDO. rewrite Opc_proofs.cti_overrides; auto. }
  assert (HD : D = fst (fold_left (Opc.cti_step E) L (Opc.initdefs E, []))) by (rewrite EDO; auto).
  destruct (Opc_proofs.cti_defaults_keys E L (Opc.initdefs E) []) as [HDnd HDlow]; auto.
  { intros k0 Hk. apply in_map_iff in Hk as (kv & <- & Hkv). auto. }
  rewrite <- HD in HDnd, HDlow.
  assert (HOnd : NoDup (map fst O)).
  { rewrite HO, map_map. simpl. clear - Hnd. induction L as [|a l IH]; simpl; [constructor|].
    simpl in Hnd. inversion Hnd; subst. destruct (negb (Opc_proofs.intab E a)); simpl; auto. constructor; auto.
    intros Hin. apply H1. apply in_map_iff in Hin as (pt & He & Hpt). apply filter_In in Hpt as [Hpt _].
    rewrite <- He. apply in_map; auto. }
  cbn [fst snd]. split; [|split].
  - eapply Permutation_NoDup; [apply Permutation_map, Permutation_sym, Opc_proofs.sort_by_perm|auto].
  - eapply Permutation_NoDup; [apply Permutation_map, Permutation_sym, Opc_proofs.sort_by_perm|auto].
  - intros pt Hpt. unfold ct_resolve. cbn [fst snd].
    rewrite Opc_proofs.lookup_sort by auto.
    destruct (Opc_proofs.intab E pt) eqn:Eq.
    + assert (HnO : Opc.lookup (Opc.p_name pt) O = None).
      { apply Opc_proofs.lookup_None. intros Hin. rewrite HO, map_map in Hin. simpl in Hin.
        apply in_map_iff in Hin as (pt' & He & Hpt'). apply filter_In in Hpt' as [Hpt' Hni].
        assert (pt' = pt).
        { clear - Hnd Hpt Hpt' He. induction L as [|a l IH]; [destruct Hpt|]. simpl in Hnd. inversion Hnd; subst.
          destruct Hpt as [->|Hpt], Hpt' as [->|Hpt']; auto.
          - exfalso. apply H1. rewrite <- He. apply in_map; auto.
          - exfalso. apply H1. rewrite He. apply in_map; auto. }
        subst pt'. rewrite Eq in Hni. discriminate. }
      rewrite HnO. rewrite Opc_proofs.lookup_sort by auto.
      change (Opc.lower (ext (Opc.p_name pt))) with (Opc_proofs.pext pt).
      destruct (Opc_proofs.cti_defaults_key E L (Opc.initdefs E) [] _ Hpt Eq) as (v & Hv).
      rewrite <- HD in Hv. rewrite Hv.
      rewrite HD in Hv. apply Opc_proofs.cti_defaults_val in Hv as [(pt' & Hpt' & Hi & He & Hct)|[_ Hno]].
      * rewrite <- Hct. f_equal. apply Hcf; auto.
      * exfalso. apply (Hno _ Hpt Eq). reflexivity.
    + rewrite (Opc_proofs.lookup_NoDup_In (Opc.p_name pt) (Opc.p_ct pt)); auto.
      rewrite HO. apply in_map_iff. exists pt. split; auto.
      apply filter_In. split; auto. rewrite Eq. reflexivity.
Qed.

(* ------------------------------------------------------------------------------ *)
(** * Closed, clause by clause *)

Section SaveClosed.
Variable T : tables.
Variable s : state.
Hypothesis HI : Inv T s.
Hypothesis HT : tables_ok T.

Let Hw : wfg s := inv_wfg T s HI.

Lemma iter_good p : In p (iter_pids s) -> exists x, getp s p = Some x /\ good_part (length (st_parts s)) x.
Proof.
  intros Hp. destruct (iter_pids_spec s Hw) as (_ & _ & Hlt).
  destruct (getp_some s p (Hlt p Hp)) as (x & Hx). exists x. split; auto. exact (iv_parts T s HI p x Hx).
Qed.

Lemma iter_part_name p : In p (iter_pids s) -> Opc.part_name (name_of (st_parts s) p).
Proof. intros Hp. destruct (iter_good p Hp) as (x & Hx & G). rewrite (name_of_getp s p x Hx). apply (gp_name _ _ G). Qed.

(** ** member names are unique *)
Lemma closed_names : c_names (save_phys T s) = true.
Proof.
  unfold c_names. apply NoDup_nodupb. unfold member_names. rewrite save_members by exact Hw.
  pose proof (iv_names T s HI) as Hnd. unfold iter_names in Hnd.
  pose proof iter_part_name as Hpn.
  set (L := iter_pids s) in *.
  set (f := fun m : pmember => pm_name m :: rels_member (pm_name m) (pm_rels m)).
  assert (Hf : forall p z, In p L -> In z (f (memf s p)) ->
                z = name_of (st_parts s) p \/ z = Opc.rels_item_name (name_of (st_parts s) p)).
  { intros p z Hp Hz. unfold f in Hz. rewrite memf_name in Hz. destruct Hz as [<-|Hz]; auto.
    unfold rels_member in Hz. destruct (pm_rels (memf s p)); [destruct Hz|]. destruct Hz as [<-|[]]. auto. }
  assert (Hnot_ct : forall z, In z (flat_map f (map (memf s) L)) -> z <> Opc.ct_uri).
  { intros z Hz. apply in_flat_map in Hz as (m & Hm & Hz). apply in_map_iff in Hm as (p & <- & Hp).
    destruct (Hf p z Hp Hz) as [->| ->].
    - apply Opc_proofs.part_name_ne_ct. auto.
    - intros E. apply Opc_proofs.ct_uri_not_shaped. rewrite <- E. apply Opc_proofs.rels_item_shaped. auto. }
  assert (Hnot_root : forall z, In z (flat_map f (map (memf s) L)) -> z <> Opc.rels_item_name Opc.root).
  { intros z Hz. apply in_flat_map in Hz as (m & Hm & Hz). apply in_map_iff in Hm as (p & <- & Hp).
    destruct (Hf p z Hp Hz) as [->| ->].
    - intros E. apply (Opc_proofs.part_name_not_shaped _ (Hpn p Hp)). rewrite E. apply Opc_proofs.rels_item_root_shaped.
    - apply Opc_proofs.rels_item_not_root. auto. }
  constructor.
  - intros [E|Hin].
    + revert E. vm_compute. discriminate.
    + apply (Hnot_ct _ Hin). reflexivity.
  - constructor.
    + intros Hin. apply (Hnot_root _ Hin). reflexivity.
    + apply Opc_proofs.NoDup_flat_map.
      * apply FinFun.Injective_map_NoDup.
        -- intros a b E. apply (f_equal pm_pid) in E. rewrite !memf_pid in E. exact E.
        -- destruct (iter_pids_spec s Hw) as (_ & H & _). exact H.
      * intros m Hm. apply in_map_iff in Hm as (p & <- & Hp). unfold f. rewrite memf_name.
        unfold rels_member. destruct (pm_rels (memf s p)); [repeat constructor; auto|].
        constructor; [|repeat constructor; auto]. intros [E|[]].
        apply (Opc_proofs.part_name_not_shaped _ (Hpn p Hp)). rewrite <- E.
        apply Opc_proofs.rels_item_shaped. auto.
      * intros m1 m2 z Hm1 Hm2 Hne Hz1 Hz2.
        apply in_map_iff in Hm1 as (p1 & <- & Hp1). apply in_map_iff in Hm2 as (p2 & <- & Hp2).
        assert (Hpne : p1 <> p2) by (intros ->; apply Hne; reflexivity).
        assert (Hnn : name_of (st_parts s) p1 <> name_of (st_parts s) p2).
        { intros E. apply Hpne. clear - Hnd Hp1 Hp2 E. induction L as [|a L IH]; [destruct Hp1|].
          simpl in Hnd. inversion Hnd; subst.
          destruct Hp1 as [->|Hp1], Hp2 as [->|Hp2]; auto.
          - exfalso. apply H1. rewrite E. apply in_map. auto.
          - exfalso. apply H1. rewrite <- E. apply in_map. auto. }
        destruct (Hf p1 z Hp1 Hz1) as [E1|E1], (Hf p2 z Hp2 Hz2) as [E2|E2]; subst z.
        -- apply Hnn; auto.
        -- apply (Opc_proofs.part_name_not_shaped _ (Hpn p1 Hp1)). rewrite E2. apply Opc_proofs.rels_item_shaped. auto.
        -- apply (Opc_proofs.part_name_not_shaped _ (Hpn p2 Hp2)). rewrite <- E2. apply Opc_proofs.rels_item_shaped. auto.
        -- apply Hnn. apply Opc_proofs.rels_item_inj; auto.
Qed.


(** ** every part has exactly one resolvable content type, the one it was created or loaded with *)
Lemma closed_types : c_types s (save_phys T s) = true.
Proof.
  unfold c_types. rewrite save_plist by exact Hw. rewrite save_members by exact Hw.
  set (PL := map (fun p => Opc.mkPart (name_of (st_parts s) p)
                    (match getp s p with Some x => pt_ct x | None => [] end) tt []) (iter_pids s)).
  assert (Hn : map Opc.p_name PL = iter_names s).
  { unfold PL, iter_names. rewrite map_map. reflexivity. }
  destruct (cti_resolve (tenv T) PL) as (H1 & H2 & H3).
  - apply (tk_env T HT).
  - rewrite Hn. apply (iv_names T s HI).
  - intros a b Ha Hb Hia Hib He. unfold PL in Ha, Hb.
    apply in_map_iff in Ha as (p & <- & Hp). apply in_map_iff in Hb as (q & <- & Hq).
    destruct (iter_good p Hp) as (x & Hx & _). destruct (iter_good q Hq) as (y & Hy & _).
    unfold Opc_proofs.intab, Opc_proofs.pext in *. cbn [Opc.p_name Opc.p_ct Opc.deftbl tenv] in *.
    rewrite Hx in *. rewrite Hy in *. rewrite (name_of_getp s p x Hx) in *. rewrite (name_of_getp s q y Hy) in *.
    apply (iv_clash T s HI p q x y); unfold reach_part; auto.
  - rewrite (NoDup_nodupb _ H1), (NoDup_nodupb _ H2). cbn [andb].
    apply forallb_forall. intros m Hm. apply in_map_iff in Hm as (p & <- & Hp).
    rewrite memf_pid, memf_name. destruct (iter_good p Hp) as (x & Hx & _). rewrite Hx.
    specialize (H3 (Opc.mkPart (name_of (st_parts s) p) (pt_ct x) tt [])). cbn [Opc.p_name Opc.p_ct] in H3.
    rewrite H3; [apply str_eqb_refl|].
    unfold PL. apply in_map_iff. exists p. rewrite Hx. auto.
Qed.

Lemma part_name_nonnil t : Opc.part_name t -> t <> [].
Proof. intros (P & _ & _ & -> & _). unfold render. discriminate. Qed.

Lemma from_rel_ref_roundtrip src t : (src = Opc.root \/ Opc.part_name src) -> Opc.part_name t ->
  from_rel_ref (baseURI src) (Opc.rel_ref t (baseURI src)) = Ok t.
Proof.
  intros Hs Ht. pose proof (Opc_proofs.resolve_rel_ref src t Hs Ht) as H. unfold Opc.resolve in H.
  destruct (from_rel_ref (baseURI src) (Opc.rel_ref t (baseURI src))) as [t'|e]; [congruence|].
  exfalso. apply (part_name_nonnil t Ht). auto.
Qed.

Lemma find_member_iter p : In p (iter_pids s) ->
  find_member (save_phys T s) (name_of (st_parts s) p) = Some (memf s p).
Proof.
  intros Hp. unfold find_member. rewrite save_members by exact Hw.
  pose proof (iv_names T s HI) as Hnd. unfold iter_names in Hnd.
  revert Hp Hnd. generalize (iter_pids s). induction l as [|a l IH]; intros Hp Hnd; [destruct Hp|].
  simpl. rewrite memf_name. simpl in Hnd. inversion Hnd; subst.
  destruct (str_eqb_spec (name_of (st_parts s) a) (name_of (st_parts s) p)) as [E|E].
  - destruct Hp as [->|Hp]; auto. exfalso. apply H1. rewrite E. apply in_map; auto.
  - destruct Hp as [->|Hp]; [congruence|]. apply IH; auto.
Qed.

(** one written relationship of a source whose in-memory relationships are [rs] *)
Lemma target_ok_out src base rs r :
  (src = Opc.root \/ Opc.part_name src) -> base = baseURI src ->
  NoDup (map rr_id rs) -> (forall r', In r' rs -> rr_ref r' = None) ->
  (forall q, In q (int_targets rs) -> In q (iter_pids s)) ->
  In r rs -> target_ok (save_phys T s) src rs (out_rel (st_parts s) base r) = true.
Proof.
  intros Hsrc -> Hnd Hnc Hcl Hr. unfold target_ok, out_rel.
  destruct (rr_tgt r) as [q|u] eqn:Et; cbn [Opc.r_mode Opc.r_target Opc.r_id]; auto.
  rewrite (Hnc r Hr).
  assert (Hq : In q (iter_pids s)) by (apply Hcl; apply int_targets_In; eauto).
  rewrite from_rel_ref_roundtrip; auto; [|apply iter_part_name; auto].
  rewrite (find_member_iter q Hq). rewrite (find_rel_NoDup rs r Hnd Hr). rewrite Et.
  rewrite memf_pid. apply Nat.eqb_refl.
Qed.

Lemma forallb_out_rels src base rs :
  (src = Opc.root \/ Opc.part_name src) -> base = baseURI src ->
  NoDup (map rr_id rs) -> (forall r', In r' rs -> rr_ref r' = None) ->
  (forall q, In q (int_targets rs) -> In q (iter_pids s)) ->
  forallb (target_ok (save_phys T s) src rs) (out_rels (st_parts s) base rs) = true.
Proof.
  intros H1 H2 H3 H4 H5. apply forallb_forall. intros o Ho. unfold out_rels in Ho.
  apply in_map_iff in Ho as (r & <- & Hr).
  apply (Permutation_in r (Opc_proofs.sort_by_perm _ rs)) in Hr.
  apply target_ok_out; auto.
Qed.

Lemma iter_closed p x q : In p (iter_pids s) -> getp s p = Some x -> In q (int_targets (pt_rels x)) ->
  In q (iter_pids s).
Proof.
  intros Hp Hx Hq. destruct (iter_pids_spec s Hw) as (Hiff & _). apply Hiff. apply Hiff in Hp.
  eapply rp1; eauto.
Qed.

Lemma iter_roots q : In q (int_targets (st_prels s)) -> In q (iter_pids s).
Proof. intros Hq. destruct (iter_pids_spec s Hw) as (Hiff & _). apply Hiff. constructor. exact Hq. Qed.

(** ** every internal Target names a member, the one holding the part the relationship points to *)
Lemma closed_targets : c_targets s (save_phys T s) = true.
Proof.
  unfold c_targets. apply andb_true_iff. split.
  - unfold save_phys at 2. cbn [ph_prels]. apply forallb_out_rels; auto.
    + apply (iv_pkeys T s HI).
    + apply (iv_pnocache T s HI).
    + apply iter_roots.
  - rewrite save_members by exact Hw. apply forallb_forall. intros m Hm.
    apply in_map_iff in Hm as (p & <- & Hp). rewrite memf_pid.
    destruct (iter_good p Hp) as (x & Hx & G). rewrite Hx. unfold memf. rewrite Hx. cbn [pm_name pm_rels].
    apply forallb_out_rels.
    + right. apply (gp_name _ _ G).
    + apply (gp_base _ _ G).
    + apply (gp_keys _ _ G).
    + apply (gp_nocache _ _ G).
    + intros q Hq. eapply iter_closed; eauto.
Qed.

Lemma out_rels_ids base rs : Permutation (map Opc.r_id (out_rels (st_parts s) base rs)) (map rr_id rs).
Proof.
  unfold out_rels. rewrite map_map.
  assert (E : forall l, map (fun r => Opc.r_id (out_rel (st_parts s) base r)) l = map rr_id l).
  { intros l. apply map_ext. intros r. unfold out_rel. destruct (rr_tgt r); reflexivity. }
  rewrite E. apply Permutation_map. apply Opc_proofs.sort_by_perm.
Qed.

(** ** every relationship id used in a part's XML is defined by its rels item *)
Lemma closed_refs : c_refs s (save_phys T s) = true.
Proof.
  unfold c_refs. rewrite save_members by exact Hw. apply forallb_forall. intros m Hm.
  apply in_map_iff in Hm as (p & <- & Hp). rewrite memf_pid.
  destruct (iter_good p Hp) as (x & Hx & G). rewrite Hx. unfold memf. rewrite Hx. cbn [pm_rels].
  apply forallb_forall. intros kr Hkr. apply mem_str_In.
  eapply Permutation_in; [apply Permutation_sym, out_rels_ids|]. apply (gp_refs _ _ G). exact Hkr.
Qed.

Lemma Permutation_filter' {A} (f : A -> bool) l l' : Permutation l l' -> Permutation (filter f l) (filter f l').
Proof.
  induction 1; simpl; auto.
  - destruct (f x); auto.
  - destruct (f x), (f y); auto. apply perm_swap.
  - eapply perm_trans; eauto.
Qed.

(** ** the officeDocument relationship leads to the presentation part *)
Lemma closed_main : c_main s (save_phys T s) = true.
Proof.
  unfold c_main. destruct (iv_main T s HI) as (r & Hf & Ht).
  unfold save_phys at 1. cbn [ph_prels]. unfold out_rels.
  set (srt := Opc.sort_by (fun a b => Opc.rid_leb (rr_id a) (rr_id b)) (st_prels s)).
  assert (Hfs : filter (fun r0 => str_eqb (rr_type r0) rt_office_document) srt = [r]).
  { assert (HP : Permutation (filter (fun r0 => str_eqb (rr_type r0) rt_office_document) srt) [r]).
    { rewrite <- Hf. apply Permutation_filter'. apply Opc_proofs.sort_by_perm. }
    apply Permutation_sym, Permutation_length_1_inv in HP. exact HP. }
  assert (Hfm : filter (fun o => str_eqb (Opc.r_type o) rt_office_document) (map (out_rel (st_parts s) s_slash) srt)
                = [out_rel (st_parts s) s_slash r]).
  { change [out_rel (st_parts s) s_slash r] with (map (out_rel (st_parts s) s_slash) [r]). rewrite <- Hfs.
    clear. induction srt as [|a l IH]; simpl; auto.
    assert (E : Opc.r_type (out_rel (st_parts s) s_slash a) = rr_type a) by (unfold out_rel; destruct (rr_tgt a); reflexivity).
    rewrite E. destruct (str_eqb (rr_type a) rt_office_document); simpl; rewrite IH; reflexivity. }
  rewrite Hfm.
  assert (Hr : In r (st_prels s)).
  { assert (In r [r]) by (simpl; auto). rewrite <- Hf in H. apply filter_In in H. tauto. }
  unfold out_rel. rewrite Ht. rewrite (iv_pnocache T s HI r Hr). cbn [Opc.r_mode Opc.r_target].
  assert (Hp : In (st_pres s) (iter_pids s)) by (apply iter_roots; apply int_targets_In; eauto).
  change s_slash with (baseURI Opc.root).
  rewrite from_rel_ref_roundtrip; auto; [|apply iter_part_name; auto].
  rewrite (find_member_iter _ Hp). rewrite memf_pid. apply Nat.eqb_refl.
Qed.

Theorem save_closed_aux : Closed s (save_phys T s).
Proof.
  unfold Closed, closedb. rewrite closed_names, closed_types, closed_targets, closed_refs, closed_main. reflexivity.
Qed.

End SaveClosed.

(** Inv gives Closed for the package save writes (the code as it is: no target cache) *)
Theorem save_closed T s : tables_ok T -> Inv T s ->
  snd (step false T s Save) = Saved (save_phys T s) /\ fst (step false T s Save) = s /\
  Closed s (save_phys T s).
Proof.
  intros HT HI. split; [reflexivity|]. split; [reflexivity|]. apply save_closed_aux; auto.
Qed.

(* ------------------------------------------------------------------------------ *)
(** * The decidable forms are sound *)

Lemma memn_In n l : memn n l = true <-> In n l.
Proof.
  unfold memn. rewrite existsb_exists. split.
  - intros (x & Hx & E). apply Nat.eqb_eq in E. subst. auto.
  - intros H. exists n. split; auto. apply Nat.eqb_refl.
Qed.

Lemma nodupn_NoDup l : nodupn l = true -> NoDup l.
Proof.
  induction l as [|a l IH]; simpl; [constructor|]. intros H. apply andb_true_iff in H as [H1 H2].
  constructor; auto. intros Hin. apply memn_In in Hin. rewrite Hin in H1. discriminate.
Qed.

Lemma resolve_all_F2 rs rids tg : resolve_all rs rids = Some tg ->
  Forall2 (fun rid q => related_part rid rs = Ok q) rids tg.
Proof.
  revert tg. induction rids as [|r l IH]; simpl; intros tg H.
  - inversion H. constructor.
  - destruct (related_part r rs) as [q|] eqn:E; [|discriminate].
    destruct (resolve_all rs l) as [t|]; [|discriminate]. inversion H; subst. constructor; auto.
Qed.

Lemma names_from_spec parts tg : forall i, names_from parts i tg = true ->
  forall j q, nth_error tg j = Some q -> name_of parts q = Ids.slide_name (i + N.of_nat j)%N.
Proof.
  induction tg as [|a t IH]; intros i H j q Hj; [destruct j; discriminate|].
  simpl in H. apply andb_true_iff in H as [H1 H2]. destruct j as [|j]; simpl in Hj.
  - inversion Hj; subst. apply str_eqb_eq in H1. rewrite H1. f_equal. lia.
  - rewrite (IH _ H2 j q Hj). f_equal. lia.
Qed.

Lemma good_partb_sound n x : good_partb n x = true -> good_part n x.
Proof.
  unfold good_partb. intros H.
  apply andb_true_iff in H as [H H10]. apply andb_true_iff in H as [H H9].
  apply andb_true_iff in H as [H H8]. apply andb_true_iff in H as [H H7].
  apply andb_true_iff in H as [H H6]. apply andb_true_iff in H as [H H5].
  apply andb_true_iff in H as [H H4]. apply andb_true_iff in H as [H H3].
  apply andb_true_iff in H as [H1 H2].
  constructor.
  - apply Opc_proofs.part_nameb_sound. exact H1.
  - apply str_eqb_eq. exact H2.
  - intros q Hq. rewrite forallb_forall in H3. apply Nat.ltb_lt. apply H3. exact Hq.
  - apply Opc_proofs.nodupb_NoDup. exact H4.
  - intros r Hr. rewrite forallb_forall in H5. specialize (H5 r Hr). destruct (rr_ref r); [discriminate|reflexivity].
  - intros kr Hkr. rewrite forallb_forall in H6. apply mem_str_In. apply H6. exact Hkr.
  - intros k r x' Hin Hk Hf. rewrite forallb_forall in H7. specialize (H7 (k, r) Hin). cbn [fst snd] in H7.
    apply orb_true_iff in H7 as [H7|H7].
    + apply str_eqb_eq in H7. contradiction.
    + rewrite Hf in H7. apply negb_true_iff in H7. intros Hc. apply mem_str_In in Hc. congruence.
  - intros r Hr. rewrite forallb_forall in H8. specialize (H8 r Hr).
    destruct (find_rel r (pt_rels x)) as [x'|]; [|discriminate]. exists x'. split; auto. apply mem_str_In. exact H8.
  - intros Hc. apply orb_true_iff in H9 as [H9|H9].
    + apply negb_true_iff, orb_false_iff in H9 as [Ha Hb].
      destruct Hc as [Hc|Hc]; rewrite Hc, str_eqb_refl in *; discriminate.
    + destruct (pt_idl x); [reflexivity|discriminate].
  - intros Hc. apply orb_true_iff in H10 as [H10|H10].
    + rewrite Hc, str_eqb_refl in H10. discriminate.
    + apply andb_true_iff in H10 as [Ha Hb]. split; [apply Opc_proofs.nodupb_NoDup; exact Ha|].
      intros kr Hkr Hin. rewrite forallb_forall in Hb. specialize (Hb kr Hkr).
      apply negb_true_iff in Hb. apply mem_str_In in Hin. congruence.
Qed.

Lemma reach_iter_parts s p x : reach_part s p x -> In x (iter_parts s).
Proof.
  intros [Hp Hx]. unfold iter_parts. apply in_flat_map. exists p. split; auto. rewrite Hx. simpl; auto.
Qed.

Lemma has_type_ne t rs : has_type t rs = true -> filter (fun r => str_eqb (rr_type r) t) rs <> [].
Proof. unfold has_type. destruct (filter _ rs); [discriminate|discriminate]. Qed.

Theorem invb_sound T s : invb T s = true -> Inv T s.
Proof.
  unfold invb. intros H.
  apply andb_true_iff in H as [H H11]. apply andb_true_iff in H as [H H10].
  apply andb_true_iff in H as [H H9]. apply andb_true_iff in H as [H H8].
  apply andb_true_iff in H as [H H7]. apply andb_true_iff in H as [H H6].
  apply andb_true_iff in H as [H H5]. apply andb_true_iff in H as [H H4].
  apply andb_true_iff in H as [H H3]. apply andb_true_iff in H as [H1 H2].
  constructor.
  - intros p x Hx. apply good_partb_sound. rewrite forallb_forall in H1. apply H1.
    unfold getp in Hx. eapply nth_error_In; eauto.
  - intros q Hq. rewrite forallb_forall in H2. apply Nat.ltb_lt. auto.
  - apply Opc_proofs.nodupb_NoDup. exact H3.
  - intros r Hr. rewrite forallb_forall in H4. specialize (H4 r Hr). destruct (rr_ref r); [discriminate|reflexivity].
  - apply Opc_proofs.nodupb_NoDup. exact H5.
  - destruct (filter (fun r => str_eqb (rr_type r) rt_office_document) (st_prels s)) as [|r [|]]; try discriminate.
    exists r. split; auto. destruct (rr_tgt r); [|discriminate]. apply Nat.eqb_eq in H6. subst. reflexivity.
  - destruct (getp s (st_pres s)) as [pp|]; [|discriminate]. exists pp. split; auto.
    intros Hc. apply mem_str_In in Hc. rewrite Hc in H7. discriminate.
  - intros p q x y Hx Hy He Hix Hiy. unfold clashb in H8. rewrite forallb_forall in H8.
    specialize (H8 x (reach_iter_parts s p x Hx)). rewrite forallb_forall in H8.
    specialize (H8 y (reach_iter_parts s q y Hy)). unfold intabb in H8.
    rewrite He, str_eqb_refl in H8. rewrite <- He in H8 at 1. rewrite Hix, Hiy in H8. simpl in H8.
    apply str_eqb_eq. exact H8.
  - unfold slidesb in H9. destruct (getp s (st_pres s)) as [pp|] eqn:Epp; [|discriminate].
    destruct (resolve_all (pt_rels pp) (pt_idl pp)) as [tg|] eqn:Etg; [|discriminate].
    apply andb_true_iff in H9 as [H9 Hd]. apply andb_true_iff in H9 as [H9 Hc].
    apply andb_true_iff in H9 as [Ha Hb].
    exists pp, tg. split; auto. split; [apply resolve_all_F2; auto|]. split; [apply nodupn_NoDup; auto|].
    split; [|split].
    + intros q Hq. rewrite forallb_forall in Hb. apply str_eqb_eq. auto.
    + intros p x [Hp Hx] Hdir. rewrite forallb_forall in Hc. specialize (Hc p Hp).
      rewrite (name_of_getp s p x Hx), Hdir, str_eqb_refl in Hc. simpl in Hc. apply memn_In. exact Hc.
    + intros Hs j q Hj. rewrite Hs in Hd. simpl in Hd.
      rewrite (names_from_spec _ _ _ Hd j q Hj). f_equal. lia.
  - intros m mx rid lp lx m' Hm Hct Hrid Hlp Hlx Hm'. unfold masterb in H10. rewrite forallb_forall in H10.
    assert (Hin : In m (seq 0 (length (st_parts s)))) by (apply in_seq; pose proof (getp_lt s m mx Hm); lia).
    specialize (H10 m Hin). rewrite Hm, Hct, str_eqb_refl in H10. simpl in H10.
    rewrite forallb_forall in H10. specialize (H10 rid Hrid). rewrite Hlp, Hlx, Hm' in H10.
    apply Nat.eqb_eq. exact H10.
  - unfold fixedb in H11. destruct (getp s (st_pres s)) as [pp|] eqn:Epp; [|discriminate].
    apply andb_true_iff in H11 as [H11 Hc]. apply andb_true_iff in H11 as [Ha Hb].
    split; [|split].
    + intros pp' Hpp' Hin. rewrite Epp in Hpp'; injection Hpp' as <-. apply mem_str_In in Hin. rewrite Hin in Ha. simpl in Ha.
      apply has_type_ne. exact Ha.
    + intros Hin. apply mem_str_In in Hin. rewrite Hin in Hb. simpl in Hb. apply has_type_ne. exact Hb.
    + intros pp' p Hpp' Hnm. rewrite Epp in Hpp'; injection Hpp' as <-. rewrite Hnm in Hc.
      destruct (part_with_reltype rt_notes_master (pt_rels pp)) as [q|]; [|discriminate].
      apply Nat.eqb_eq in Hc. subst. reflexivity.
Qed.

Lemma in_table_In tbl e c : Opc.in_table tbl e c = true <-> In (e, c) tbl.
Proof.
  unfold Opc.in_table. rewrite existsb_exists. split.
  - intros ([a b] & Hin & H). simpl in H. apply andb_true_iff in H as [H1 H2].
    apply str_eqb_eq in H1, H2. subst. exact Hin.
  - intros H. exists (e, c). split; auto. simpl. rewrite !str_eqb_refl. reflexivity.
Qed.

Theorem tables_okb_sound T : tables_okb T = true -> tables_ok T.
Proof.
  unfold tables_okb. intros H.
  apply andb_true_iff in H as [H H4]. apply andb_true_iff in H as [H H3]. apply andb_true_iff in H as [H1 H2].
  constructor.
  - split; cbn.
    + apply Opc_proofs.nodupb_NoDup. exact H1.
    + intros kv Hkv. rewrite forallb_forall in H2. apply str_eqb_eq. auto.
  - intros e c1 c2 Ha Hb Hne. apply in_table_In in Ha, Hb.
    rewrite forallb_forall in H3. specialize (H3 _ Ha). rewrite forallb_forall in H3. specialize (H3 _ Hb).
    cbn [fst snd] in H3. rewrite str_eqb_refl in H3. simpl in H3.
    apply orb_true_iff in H3 as [H3|H3]; apply str_eqb_eq in H3; [contradiction|exact H3].
  - intros c Hc. rewrite forallb_forall in H4. specialize (H4 c Hc). apply negb_true_iff in H4. exact H4.
Qed.

(* ------------------------------------------------------------------------------ *)
(** * drop_rel: reference counting *)

Lemma pop_rel_spec rid rs rs' : pop_rel rid rs = Ok rs' ->
  In rid (map rr_id rs) /\ rs' = filter (fun r => negb (str_eqb (rr_id r) rid)) rs.
Proof. unfold pop_rel. destruct (mem_str rid (map rr_id rs)) eqn:E; [|discriminate]. intros [= <-]. split; auto. apply mem_str_In; auto. Qed.

(** a relationship is removed only when at most one r:id attribute names it; every other
    relationship, and everything else about the part, stays *)
Theorem drop_rel_spec p rid p' : drop_rel p rid = Ok p' ->
  (2 <= ref_count rid p /\ p' = p) \/
  (ref_count rid p < 2 /\ In rid (map rr_id (pt_rels p)) /\
   p' = with_rels p (filter (fun r => negb (str_eqb (rr_id r) rid)) (pt_rels p))).
Proof.
  unfold drop_rel. destruct (Nat.ltb (ref_count rid p) 2) eqn:E.
  - apply Nat.ltb_lt in E. destruct (pop_rel rid (pt_rels p)) as [rs|] eqn:Ep; cbn [bind]; [|discriminate].
    intros [= <-]. right. apply pop_rel_spec in Ep as [H1 ->]. auto.
  - apply Nat.ltb_ge in E. intros [= <-]. left. auto.
Qed.

Theorem drop_rel_keeps_shared p rid : 2 <= ref_count rid p -> drop_rel p rid = Ok p.
Proof. intros H. unfold drop_rel. apply Nat.ltb_ge in H. rewrite H. reflexivity. Qed.

Theorem drop_rel_err p rid e : drop_rel p rid = Err e ->
  e = KeyErr /\ ref_count rid p < 2 /\ ~ In rid (map rr_id (pt_rels p)).
Proof.
  unfold drop_rel. destruct (Nat.ltb (ref_count rid p) 2) eqn:E; [|discriminate].
  apply Nat.ltb_lt in E. unfold pop_rel. destruct (mem_str rid (map rr_id (pt_rels p))) eqn:Em; cbn [bind]; [discriminate|].
  intros [= <-]. split; auto. split; auto. apply Opc_proofs.mem_str_nIn. exact Em.
Qed.

(** the other relationships are untouched by a drop *)
Lemma drop_rel_others p rid p' r : drop_rel p rid = Ok p' -> In r (pt_rels p) -> rr_id r <> rid -> In r (pt_rels p').
Proof.
  intros H Hr Hne. apply drop_rel_spec in H as [[_ ->]|(_ & _ & ->)]; auto.
  cbn [pt_rels with_rels]. apply filter_In. split; auto. apply negb_true_iff. apply Opc_proofs.str_eqb_neq. exact Hne.
Qed.

(** ** the implicit-relationship edge.  get_or_add hands back an existing relationship of
    the same type and target whether or not anything in the XML refers to it ... *)
Theorem get_or_add_reuses t g rs r : In r rs -> rr_type r = t -> rr_tgt r = g ->
  exists rid, get_or_add t g rs = Ok (rs, rid) /\ In rid (map rr_id rs).
Proof.
  intros Hr Ht Hg. unfold get_or_add, get_matching.
  destruct (find (fun r0 => str_eqb (rr_type r0) t && tgt_eqb (rr_tgt r0) g) rs) as [r0|] eqn:E.
  - exists (rr_id r0). split; auto. apply find_some in E as [Hin _]. apply in_map. exact Hin.
  - exfalso. apply (find_none _ _ E) in Hr. rewrite Ht, Hg, str_eqb_refl in Hr. simpl in Hr.
    destruct g; simpl in Hr; [rewrite Nat.eqb_refl in Hr|rewrite str_eqb_refl in Hr]; discriminate.
Qed.

(** ... and drop_rel counts r:id attributes only: a relationship that existed without any
    reference (count 0) and is then named by one link slot (count 1) is removed with it *)
Theorem drop_rel_implicit p rid : ref_count rid p <= 1 -> In rid (map rr_id (pt_rels p)) ->
  exists p', drop_rel p rid = Ok p' /\ ~ In rid (map rr_id (pt_rels p')).
Proof.
  intros Hc Hin. unfold drop_rel. assert (E : Nat.ltb (ref_count rid p) 2 = true) by (apply Nat.ltb_lt; lia).
  rewrite E. unfold pop_rel. apply mem_str_In in Hin. rewrite Hin. cbn [bind].
  eexists. split; [reflexivity|]. cbn [pt_rels with_rels]. intros H. apply in_map_iff in H as (r & Hr & Hf).
  apply filter_In in Hf as [_ Hf]. rewrite Hr, str_eqb_refl in Hf. discriminate.
Qed.

(* ------------------------------------------------------------------------------ *)
(** * A concrete deck: presentation, master, layout and two slides whose part names are out
      of presentation order (the first listed slide is slide2.xml) *)
Import Coq.Strings.String.StringSyntax.

Definition wT : tables :=
  mkT [(asc "png", asc "image/png")]
      [(asc "rels", asc "application/vnd.openxmlformats-package.relationships+xml"); (asc "xml", asc "application/xml")].

Definition w_ct_pres : str := asc "application/vnd.openxmlformats-officedocument.presentationml.presentation.main+xml".
Definition rid_ (n : N) : str := Ids.rId_name n.

Definition w_part (name ct : str) (idl : list str) (refs : list (str * str)) (phs : nat) (rels : list relr) : part :=
  mkP name (baseURI name) ct 0 idl refs [] phs false rels.

Definition wdeck : state :=
  mkS [ w_part (asc "/ppt/presentation.xml") w_ct_pres [rid_ 2; rid_ 3] [(k_id, rid_ 1)] 0
          [mkR (rid_ 1) rt_slide_master (TInt 1) None; mkR (rid_ 2) rt_slide (TInt 3) None; mkR (rid_ 3) rt_slide (TInt 4) None];
        w_part (asc "/ppt/slideMasters/slideMaster1.xml") ct_slide_master [rid_ 1] [] 0
          [mkR (rid_ 1) rt_slide_layout (TInt 2) None];
        w_part (asc "/ppt/slideLayouts/slideLayout1.xml") ct_slide_layout [] [] 1
          [mkR (rid_ 1) rt_slide_master (TInt 1) None];
        w_part (asc "/ppt/slides/slide2.xml") ct_slide [] [] 0 [mkR (rid_ 1) rt_slide_layout (TInt 2) None];
        w_part (asc "/ppt/slides/slide1.xml") ct_slide [] [] 0 [mkR (rid_ 1) rt_slide_layout (TInt 2) None] ]
      [mkR (rid_ 1) rt_office_document (TInt 0) None] 0 (Some (rid_ 1)) false None None.

Lemma wT_ok : tables_ok wT.
Proof. apply tables_okb_sound. vm_compute. reflexivity. Qed.

Lemma wdeck_inv : Inv wT wdeck.
Proof. apply invb_sound. vm_compute. reflexivity. Qed.

Definition saved_closed (lz : bool) (T : tables) (s : state) : bool :=
  match step lz T s Save with
  | (s1, Saved ph) => closedb s1 ph
  | _ => false
  end.

(** with target_ref as a lazyproperty (the code before 5eaa1dfb): save, first access of
    prs.slides, save -- the second package is not Closed (its Targets are the cached ones);
    with the property computed on each access the same history is Closed at both saves *)
Theorem stale_target_regression :
  exists T s, tables_ok T /\ Inv T s /\
    saved_closed true T s = true /\
    saved_closed true T (run true T s [Save; AccessSlides]) = false /\
    c_targets (fst (step true T (run true T s [Save; AccessSlides]) Save))
              (save_phys T (fst (step true T (run true T s [Save; AccessSlides]) Save))) = false /\
    saved_closed false T (run false T s [Save; AccessSlides]) = true.
Proof.
  exists wT, wdeck. split; [exact wT_ok|]. split; [exact wdeck_inv|]. vm_compute. repeat split.
Qed.

(** the notes slide of slide [i]: relationship of type slide from the notes-slide part *)
Definition notes_slide_rels (s : state) (i : nat) : list relr :=
  match getp s (st_pres s) with
  | Some pp =>
      match nth_error (pt_idl pp) i with
      | Some rid =>
          match related_part rid (pt_rels pp) with
          | Ok sp => match getp s sp with
                     | Some x => match part_with_reltype rt_notes_slide (pt_rels x) with
                                 | Ok np => match getp s np with
                                            | Some nx => filter (fun r => str_eqb (rr_type r) rt_slide) (pt_rels nx)
                                            | None => []
                                            end
                                 | Err _ => []
                                 end
                     | None => []
                     end
          | Err _ => []
          end
      | None => []
      end
  | None => []
  end.

(** the implicit relationship notes slide -> slide is reused by a slide jump from the notes
    placeholder to that slide and goes away when the jump is cleared; the package stays
    Closed and the invariant holds, but the notes slide no longer names its slide *)
Theorem implicit_rel_witness :
  exists T s, tables_ok T /\ Inv T s /\
    let s1 := run false T s [AccessNotes 0] in
    let s2 := run false T s [AccessNotes 0; SetNotesJump 0 0] in
    let s3 := run false T s [AccessNotes 0; SetNotesJump 0 0; ClearNotesJump 0] in
    length (notes_slide_rels s1 0) = 1 /\
    notes_slide_rels s2 0 = notes_slide_rels s1 0 /\      (* no second relationship: the implicit one is reused *)
    notes_slide_rels s3 0 = [] /\
    invb T s3 = true /\ saved_closed false T s3 = true.
Proof.
  exists wT, wdeck. split; [exact wT_ok|]. split; [exact wdeck_inv|]. vm_compute. repeat split.
Qed.

(** a jump to another slide goes through a relationship of its own and leaves the implicit one alone *)
Example implicit_rel_other_slide :
  let s3 := run false wT wdeck [AccessNotes 0; SetNotesJump 0 1; ClearNotesJump 0] in
  length (notes_slide_rels s3 0) = 1.
Proof. vm_compute. reflexivity. Qed.

(** add_movie refused because of its poster frame image keeps the media part and both of its
    relationships; nothing in the slide refers to them; the invariant still holds *)
Theorem refused_movie_witness :
  exists T s v, tables_ok T /\ Inv T s /\ blob_ok T v /\
    snd (step false T s (AddMovie 0 v PBad)) = Refused ValueErr /\
    length (st_parts (fst (step false T s (AddMovie 0 v PBad)))) = S (length (st_parts s)) /\
    invb T (fst (step false T s (AddMovie 0 v PBad))) = true.
Proof.
  exists wT, wdeck, (mkB 20 (asc "vid") (asc "video/unknown")).
  split; [exact wT_ok|]. split; [exact wdeck_inv|]. split.
  - unfold blob_ok. split; [vm_compute; reflexivity|]. split; [vm_compute; reflexivity|].
    intros H. vm_compute in H. repeat (destruct H as [H|H]; [discriminate|]). exact H.
  - vm_compute. repeat split.
Qed.

(* ------------------------------------------------------------------------------ *)
(** * Frame facts: how the reached set and the reach-dependent clauses of Inv move *)

Lemma getp_setp_same s p x : p < length (st_parts s) -> getp (setp s p x) p = Some x.
Proof. intros H. unfold getp, setp. cbn. apply Ids_proofs.set_nth_same. exact H. Qed.

Lemma getp_setp_other s p x q : p <> q -> getp (setp s p x) q = getp s q.
Proof. intros H. unfold getp, setp. cbn. apply Ids_proofs.set_nth_other. exact H. Qed.

Lemma length_setp s p x : length (st_parts (setp s p x)) = length (st_parts s).
Proof. unfold setp. cbn. apply Ids_proofs.set_nth_length. Qed.

Lemma getp_app_old s x q : q < length (st_parts s) -> getp (with_parts s (st_parts s ++ [x])) q = getp s q.
Proof. intros H. unfold getp. cbn. apply nth_error_app1. exact H. Qed.

Lemma getp_app_new s x : getp (with_parts s (st_parts s ++ [x])) (length (st_parts s)) = Some x.
Proof. unfold getp. cbn. rewrite nth_error_app2 by lia. rewrite Nat.sub_diag. reflexivity. Qed.

Lemma good_part_mono n n' x : n <= n' -> good_part n x -> good_part n' x.
Proof.
  intros Hle [H1 H2 H3 H4 H5 H6 H7 H8 H9 H10]. constructor; auto. intros q Hq. specialize (H3 q Hq). lia.
Qed.

Lemma reachP_dec s : wfg s -> forall p, reachP s p \/ ~ reachP s p.
Proof.
  intros Hw p. destruct (iter_pids_spec s Hw) as (Hiff & _).
  destruct (in_dec Nat.eq_dec p (iter_pids s)) as [H|H]; [left|right]; rewrite <- Hiff; auto.
Qed.

(** every edge of [s'] from a node that is reached in [s] or lies in [N] leads to such a node *)
Lemma reach_frame s s' (N : nat -> Prop) :
  (forall q, In q (int_targets (st_prels s')) -> reachP s q \/ N q) ->
  (forall p x' q, getp s' p = Some x' -> In q (int_targets (pt_rels x')) ->
                  (reachP s p \/ N p) -> reachP s q \/ N q) ->
  forall p, reachP s' p -> reachP s p \/ N p.
Proof. intros H1 H2 p Hp. induction Hp; eauto. Qed.

Lemma NoDup_map_pairwise {A B} (f : A -> B) l :
  NoDup l -> (forall a b, In a l -> In b l -> a <> b -> f a <> f b) -> NoDup (map f l).
Proof.
  induction 1 as [|x l Hx Hnd IH]; intros Hp; simpl; constructor.
  - intros Hin. apply in_map_iff in Hin as (y & Hy & Hyl). apply (Hp y x); simpl; auto. intros ->. auto.
  - apply IH. intros a b Ha Hb. apply Hp; simpl; auto.
Qed.

Lemma NoDup_map_inj_on {A B} (f : A -> B) l a b :
  NoDup (map f l) -> In a l -> In b l -> f a = f b -> a = b.
Proof.
  induction l as [|x l IH]; simpl; [tauto|]. intros Hnd Ha Hb E. inversion Hnd; subst.
  destruct Ha as [->|Ha], Hb as [->|Hb]; auto.
  - exfalso. apply H1. rewrite E. apply in_map. auto.
  - exfalso. apply H1. rewrite <- E. apply in_map. auto.
Qed.

Lemma reach_part_iff s : wfg s -> forall p x, reach_part s p x <-> (reachP s p /\ getp s p = Some x).
Proof. intros Hw p x. unfold reach_part. destruct (iter_pids_spec s Hw) as (Hiff & _). rewrite Hiff. tauto. Qed.

Lemma in_iter_names s : wfg s -> forall n, In n (iter_names s) <-> exists p x, reach_part s p x /\ pt_name x = n.
Proof.
  intros Hw n. unfold iter_names. rewrite in_map_iff. destruct (iter_pids_spec s Hw) as (_ & _ & Hlt). split.
  - intros (p & <- & Hp). destruct (getp_some s p (Hlt p Hp)) as (x & Hx). exists p, x.
    split; [split; auto|]. symmetry. apply name_of_getp. exact Hx.
  - intros (p & x & [Hp Hx] & <-). exists p. split; auto. apply name_of_getp. exact Hx.
Qed.

(** what a part that becomes reached must satisfy *)
Record new_ok (T : tables) (s : state) (x : part) : Prop := mkNew {
  nw_fresh : ~ In (pt_name x) (iter_names s);
  nw_bin : Opc.in_table (t_def T) s_bin (pt_ct x) = false
}.

(** the reach-dependent clauses of Inv carry over to a state [s'] whose reached parts are
    reached parts of [s], unchanged in name and content type, or members of the list [N] *)
Section Transfer.
Variable T : tables.
Variables s s' : state.
Variable N : list nat.
Hypothesis HT : tables_ok T.
Hypothesis HI : Inv T s.
Hypothesis Hw' : wfg s'.
Hypothesis Hreach : forall p, reachP s' p -> reachP s p \/ In p N.
Hypothesis Hold : forall p x x', reachP s p -> getp s p = Some x -> getp s' p = Some x' ->
                                 pt_name x' = pt_name x /\ pt_ct x' = pt_ct x.
Hypothesis HN : forall n x', In n N -> ~ reachP s n -> getp s' n = Some x' -> new_ok T s x'.
Hypothesis HNd : forall n m x y, In n N -> In m N -> n <> m -> ~ reachP s n -> ~ reachP s m ->
                                 getp s' n = Some x -> getp s' m = Some y -> pt_name x <> pt_name y.

Let Hw : wfg s := inv_wfg T s HI.

Lemma tr_old p x' : reachP s' p -> reachP s p -> getp s' p = Some x' ->
  exists x, getp s p = Some x /\ pt_name x' = pt_name x /\ pt_ct x' = pt_ct x.
Proof.
  intros _ Hp Hx'. destruct (iter_pids_spec s Hw) as (Hiff & _ & Hlt).
  destruct (getp_some s p (Hlt p (proj2 (Hiff p) Hp))) as (x & Hx). exists x. split; auto. eapply Hold; eauto.
Qed.

Lemma tr_names : NoDup (iter_names s').
Proof.
  destruct (iter_pids_spec s' Hw') as (Hiff' & Hnd' & Hlt'). destruct (iter_pids_spec s Hw) as (Hiff & _ & _).
  unfold iter_names. apply NoDup_map_pairwise; auto.
  intros a b Ha Hb Hab E. apply Hiff' in Ha, Hb.
  destruct (getp_some s' a (Hlt' a (proj2 (Hiff' a) Ha))) as (xa & Hxa).
  destruct (getp_some s' b (Hlt' b (proj2 (Hiff' b) Hb))) as (xb & Hxb).
  rewrite (name_of_getp s' a xa Hxa), (name_of_getp s' b xb Hxb) in E.
  assert (Hfresh : forall n m xn xm, reachP s' n -> reachP s' m -> reachP s m -> ~ reachP s n -> getp s' n = Some xn ->
                     getp s' m = Some xm -> pt_name xn <> pt_name xm).
  { intros n m xn xm Hn Hm' Hm Hnn Hxn Hxm E'. destruct (Hreach n Hn) as [|HnN]; [contradiction|].
    destruct (tr_old m xm Hm' Hm Hxm) as (x & Hx & En & _).
    apply (nw_fresh T s xn (HN n xn HnN Hnn Hxn)). rewrite E', En.
    apply (in_iter_names s Hw). exists m, x. split; auto. apply (reach_part_iff s Hw). auto. }
  destruct (reachP_dec s Hw a) as [Ra|Ra], (reachP_dec s Hw b) as [Rb|Rb].
  - destruct (tr_old a xa Ha Ra Hxa) as (ya & Hya & Ena & _). destruct (tr_old b xb Hb Rb Hxb) as (yb & Hyb & Enb & _).
    apply Hab. apply (NoDup_map_inj_on (name_of (st_parts s)) (iter_pids s)).
    + apply (iv_names T s HI).
    + apply Hiff; auto.
    + apply Hiff; auto.
    + rewrite (name_of_getp s a ya Hya), (name_of_getp s b yb Hyb). congruence.
  - apply (Hfresh b a xb xa); auto.
  - apply (Hfresh a b xa xb); auto.
  - destruct (Hreach a Ha) as [|HaN]; [contradiction|]. destruct (Hreach b Hb) as [|HbN]; [contradiction|].
    apply (HNd a b xa xb); auto.
Qed.

Lemma tr_clash : clash_free T s'.
Proof.
  intros p q x y Hx Hy He Hix Hiy.
  apply (reach_part_iff s' Hw') in Hx as [Rp Hx]. apply (reach_part_iff s' Hw') in Hy as [Rq Hy].
  destruct (Opc_proofs.str_eq_dec (pt_ct x) (pt_ct y)) as [|Hne]; auto. exfalso.
  pose proof (tk_fun T HT _ _ _ Hix (eq_ind_r (fun e => Opc.in_table (t_def T) e (pt_ct y) = true) Hiy He) Hne) as Hbin.
  assert (Hnew : forall n xn, reachP s' n -> getp s' n = Some xn -> ~ reachP s n ->
                   Opc.in_table (t_def T) s_bin (pt_ct xn) = true -> False).
  { intros n xn Rn Hxn Hnn Hin. destruct (Hreach n Rn) as [|HnN]; [contradiction|].
    rewrite (nw_bin T s xn (HN n xn HnN Hnn Hxn)) in Hin. discriminate. }
  destruct (reachP_dec s Hw p) as [Ra|Ra], (reachP_dec s Hw q) as [Rb|Rb].
  - destruct (tr_old p x Rp Ra Hx) as (xa & Hxa & Ena & Eca). destruct (tr_old q y Rq Rb Hy) as (yb & Hyb & Enb & Ecb).
    apply Hne. rewrite Eca, Ecb. rewrite Ena, Eca in Hix. rewrite Enb, Ecb in Hiy. rewrite Ena, Enb in He.
    apply (iv_clash T s HI p q xa yb); auto; apply (reach_part_iff s Hw); auto.
  - apply (Hnew q y Rq Hy Rb). rewrite <- Hbin, He. exact Hiy.
  - apply (Hnew p x Rp Hx Ra). rewrite <- Hbin. exact Hix.
  - apply (Hnew p x Rp Hx Ra). rewrite <- Hbin. exact Hix.
Qed.

Lemma tr_dir (tg tg' : list nat) :
  (forall p x, reach_part s p x -> baseURI (pt_name x) = s_slides_dir -> In p tg) -> incl tg tg' ->
  (forall n x', In n N -> ~ reachP s n -> getp s' n = Some x' -> baseURI (pt_name x') = s_slides_dir -> In n tg') ->
  forall p x', reach_part s' p x' -> baseURI (pt_name x') = s_slides_dir -> In p tg'.
Proof.
  intros H1 H2 H3 p x' Hx Hd. apply (reach_part_iff s' Hw') in Hx as [Rp Hx].
  destruct (reachP_dec s Hw p) as [Ra|Ra].
  - destruct (tr_old p x' Rp Ra Hx) as (x & Hxx & En & _). apply H2. apply (H1 p x).
    + apply (reach_part_iff s Hw). auto.
    + rewrite <- En. exact Hd.
  - destruct (Hreach p Rp) as [|HpN]; [contradiction|]. eapply H3; eauto.
Qed.

Lemma tr_name_in nm : In nm (iter_names s') ->
  In nm (iter_names s) \/ exists n x', In n N /\ ~ reachP s n /\ getp s' n = Some x' /\ pt_name x' = nm.
Proof.
  intros H. apply (in_iter_names s' Hw') in H as (p & x' & Hx & En).
  apply (reach_part_iff s' Hw') in Hx as [Rp Hx].
  destruct (reachP_dec s Hw p) as [Ra|Ra].
  - left. destruct (tr_old p x' Rp Ra Hx) as (x & Hxx & En' & _). apply (in_iter_names s Hw).
    exists p, x. split; [apply (reach_part_iff s Hw); auto|congruence].
  - right. destruct (Hreach p Rp) as [|HpN]; [contradiction|]. exists p, x'. auto.
Qed.
End Transfer.
