(** Runner entry point for the C06 correspondence: [run_c06 args], first field = the
    operation name.  Lists of strings travel as a count field followed by that many
    fields; operation sequences as one short field per operation. *)
From V.lib Require Import Prelude Wire.
From V.model Require Import PackUri Ids.

Definition op_int : str := [105; 110; 116]%N.    (* int *)
Definition op_tab : str := [116; 97; 98]%N.      (* tab *)
Definition op_shp : str := [115; 104; 112]%N.    (* shp *)
Definition op_ctn : str := [99; 116; 110]%N.     (* ctn *)
Definition op_sld : str := [115; 108; 100]%N.    (* sld *)
Definition op_rid : str := [114; 105; 100]%N.    (* rid *)
Definition op_pn  : str := [112; 110]%N.         (* pn *)
Definition op_img : str := [105; 109; 103]%N.    (* img *)
Definition op_med : str := [109; 101; 100]%N.    (* med *)
Definition op_ren : str := [114; 101; 110]%N.    (* ren *)
Definition op_phn : str := [112; 104; 110]%N.    (* phn *)

Fixpoint take_n (n : nat) (l : list str) : option (list str * list str) :=
  match n with
  | O => Some ([], l)
  | S k => match l with
           | [] => None
           | x :: r => match take_n k r with
                       | Some (a, b) => Some (x :: a, b)
                       | None => None
                       end
           end
  end.

(** count field then that many fields *)
Definition read_list (l : list str) : option (list str * list str) :=
  match l with
  | c :: r => match parse_nat c with Some n => take_n n r | None => None end
  | [] => None
  end.

Definition c_comma : N := 44%N.
Definition show_strs (l : list str) : str := join_with [c_comma] (map show_str l).
Definition show_results {A} (f : A -> str) (l : list (res A)) : str :=
  join_with [c_comma] (map (show_res f) l).

(* ---- shape operations: m<h> g t<h> u<h> n c<i> ---- *)
Definition parse_sop (s : str) : option sop :=
  match s with
  | c :: r =>
      let num := match r with [] => Some O | _ => parse_nat r end in
      match num with
      | None => None
      | Some k =>
          if N.eqb c 109 then Some (AddMax k)
          else if N.eqb c 103 then Some AddGap
          else if N.eqb c 116 then Some (SetTurbo k true)
          else if N.eqb c 117 then Some (SetTurbo k false)
          else if N.eqb c 110 then Some NewHandle
          else if N.eqb c 99 then Some (Connect k)
          else None
      end
  | [] => None
  end.

Fixpoint parse_all {A} (f : str -> option A) (l : list str) : option (list A) :=
  match l with
  | [] => Some []
  | x :: r => match f x, parse_all f r with
              | Some a, Some b => Some (a :: b)
              | _, _ => None
              end
  end.

(* ---- relationship operations: s<target> d<i> ---- *)
Definition parse_rop (s : str) : option rop :=
  match s with
  | c :: r =>
      if N.eqb c 115 then Some (Relate r)
      else if N.eqb c 100 then match parse_nat r with Some i => Some (DropRef i) | None => None end
      else None
  | [] => None
  end.

(** repeated allocation of a part name, each result joining the population *)
Fixpoint repeat_alloc (n : nat) (f : list str -> res str) (names : list str) : list (res str) :=
  match n with
  | O => []
  | S k => match f names with
           | Ok p => Ok p :: repeat_alloc k f (names ++ [p])
           | Err e => Err e :: repeat_alloc k f names
           end
  end.

Fixpoint read_prels (l : list str) : option (list (str * nat)) :=
  match l with
  | [] => Some []
  | k :: i :: r => match parse_nat i, read_prels r with
                   | Some p, Some rest => Some ((k, p) :: rest)
                   | _, _ => None
                   end
  | _ => None
  end.

Definition flat_ranges (l : list (N * N)) : list N :=
  flat_map (fun r => [fst r; snd r]) l.

Definition run_c06 (args : list str) : str :=
  match args with
  | [] => w_badcase
  | op :: rest =>
    if str_eqb op op_int then
      match rest with
      | [s] => fields [show_bool (py_isdigit s); show_bool (py_isdecimal s); show_res show_Z (py_int s)]
      | _ => w_badcase
      end
    else if str_eqb op op_tab then
      fields [show_str decimal_zeros; show_str (flat_ranges digit_only_ranges);
              show_str (flat_ranges uni_space_ranges)]
    else if str_eqb op op_shp then
      match read_list rest with
      | Some (sids, r1) =>
        match read_list r1 with
        | Some (oids, r2) =>
          match r2 with
          | nh :: opsf =>
            match parse_nat nh, parse_all parse_sop opsf with
            | Some h, Some ops =>
                let st := mkS sids oids (repeat None h) in
                let '(st', outs) := run_ops st ops in
                fields [show_res show_Z (max_shape_id (all_ids st));
                        show_res show_Z (next_shape_id_max (all_ids st));
                        show_res show_Z (next_shape_id_gap (all_ids st));
                        show_results show_Z outs;
                        show_strs (shape_ids st')]
            | _, _ => w_badcase
            end
          | [] => w_badcase
          end
        | None => w_badcase
        end
      | None => w_badcase
      end
    else if str_eqb op op_ctn then show_res show_Z (next_cTn_id rest)
    else if str_eqb op op_sld then
      match rest with
      | n :: ids =>
        match parse_nat n with
        | Some k => let '(f, outs) := add_slides k ids in
                    fields [show_results show_Z outs; show_strs f]
        | None => w_badcase
        end
      | [] => w_badcase
      end
    else if str_eqb op op_rid then
      match read_list rest with
      | Some (xml_ids, r1) =>
        match read_list r1 with
        | Some (rf, opsf) =>
          match parse_all parse_rop opsf with
          | Some ops =>
              let keys := load_keys xml_ids in
              let st := mkR (map (fun k => (k, 105%N :: k)) keys) rf in
              let '(st', outs) := rrun st ops in
              fields [show_res show_str (next_rId keys); show_results show_str outs;
                      show_strs (rkeys st'); show_strs (refs st')]
          | None => w_badcase
          end
        | None => w_badcase
        end
      | None => w_badcase
      end
    else if str_eqb op op_pn then
      match rest with
      | pre :: post :: m :: names =>
        match parse_nat m with
        | Some k => show_results show_str (repeat_alloc k (next_partname pre post) names)
        | None => w_badcase
        end
      | _ => w_badcase
      end
    else if str_eqb op op_img then
      match rest with
      | ext :: m :: names =>
        match parse_nat m with
        | Some k => show_results show_str (repeat_alloc k (next_image_partname ext) names)
        | None => w_badcase
        end
      | _ => w_badcase
      end
    else if str_eqb op op_med then
      match rest with
      | ext :: m :: names =>
        match parse_nat m with
        | Some k => show_results show_str (repeat_alloc k (next_media_partname ext) names)
        | None => w_badcase
        end
      | _ => w_badcase
      end
    else if str_eqb op op_phn then
      match rest with
      | base :: n :: names =>
        match parse_N n with
        | Some k => show_opt show_str (next_ph_name base k names)
        | None => w_badcase
        end
      | _ => w_badcase
      end
    else if str_eqb op op_ren then
      (* others: the names of the reachable parts the presentation part has no slide
         relationship to; names: the targets of its slide relationships, by index *)
      match read_list rest with
      | Some (others, r0) =>
        match read_list r0 with
        | Some (names, r1) =>
          match read_list r1 with
          | Some (pr, rIds) =>
            match read_prels pr with
            | Some prels =>
                fields [show_res show_strs (rename_slide_parts prels rIds names);
                        show_res show_str (next_slide_partname (length rIds)
                                             (others ++ rename_effect prels rIds names))]
            | None => w_badcase
            end
          | None => w_badcase
          end
        | None => w_badcase
        end
      | None => w_badcase
      end
    else w_badcase
  end.
