"""C12 — inspecting a presentation does not change it.

translate (tx/tx_c12.py: every property / lazyproperty of every proxy class, effect predicted by an
AST call graph down to the xmlchemy primitives)
-> prove (props/C12.v: strip / get_or_add / traversal theorems for ALL trees, positions, orders,
   repetitions and saves + instance C12_effects_allowed over gen/GenC12.v by vm_compute)
-> diagnose (diag/Diag_C12.v: judged accessors whose predicted effect is not allowed)
-> observe on the implementation:
   (a) accessor level: the whole object graph of every deck is walked, the canonical state of the
       package (every XML part, every relationship, every binary part) snapshotted around EACH
       accessor evaluation; observed effect vs predicted effect; ORACLE = the property's statement:
       an accessor that hands back plain data or an iteration collection and changes anything other
       than by empty, attribute-less containers is a violation (documented creating accessors excepted);
   (b) deck level: open, traverse in random order with repetition and 0-3 intermediate saves, save;
       compared at ZIP level (zipfile + lxml only) with the deck saved straight after opening:
       same parts, same relationships, XML equal under strip, binary parts byte-identical,
       modulo the documented renaming of slide parts;
   (c) correspondence of model/Access.v with lxml / xmlchemy: strip on every part tree, and
       histories of real get_or_add_x() calls + saves on real elements, against the extracted model.
"""
import collections
import datetime
import enum
import hashlib
import io
import json
import os
import re
import zipfile

from corr.harness import COQ, VERIF, REPO, coq_build, run_model, _run

TB = [
    "tx/tx_c12.py (static effect analysis: AST call graph by name with MRO / annotation / registered-class typing; "
    "metaclass-generated members read from closures) -- its soundness is OBSERVED by the accessor-level walk, not proved",
    "the container whitelist (a:pPr a:rPr a:endParaRPr a:defRPr a:tcPr a:ln a:bodyPr a:lstStyle c:spPr p:spPr p:grpSpPr "
    "p:sldIdLst p:sldMasterIdLst p:sldLayoutIdLst): presence-insensitivity is a reading of ISO/IEC 29500; only the "
    "`every attribute and child optional` half is re-checked against /repo/spec",
    "lxml/libxml2: tostring / c14n are faithful serialisations; find/findall/xpath/get do not modify the tree",
    "the python mirror of strip in this file (tied to model/Access.v by running both on every part tree)",
    "zip-level comparison uses zipfile + lxml only (independent of python-pptx)",
]
ASSUME = [
    "layering of python-pptx (oxml < opc < parts/proxies): code in pptx.oxml / pptx.opc never holds a proxy object "
    "(import discipline re-checked by the translator each run)",
    "part_related_by(RT.X) returns a part of the class python-pptx registers for X (validated on every relationship "
    "of every corpus package by this check)",
    "writer-side classes (chart XML writers, chart data, freeform builder, text fitting, package reader/writer) are "
    "never receivers of an untyped attribute access on the read path",
    "a method called on a loose element built inside the same function changes that element only",
    "formatting gateways (accessors handing back a proxy object that is not an iteration collection) are exercised and "
    "reported, not judged; in the deck-level traversal a creating gateway is entered only where the library's own "
    "non-destructive predicate (has_notes_slide, has_title, has_text_frame of chart titles, txBody present) holds",
    "the effect table is static; an accessor left UNRESOLVED by the analysis is outside the instance theorem and is "
    "judged by observation only (listed in the evidence as observed-pure)",
]

PLAIN = (str, int, float, bool, bytes, type(None), enum.Enum, datetime.datetime, datetime.date)
SIZE_LIMIT_GETITEM = 400


# ============================================================================== corpus
def corpus_paths():
    out = []
    for d, pat in (("src/pptx/templates", None), ("tests/test_files", None), ("features/steps/test_files", None)):
        full = os.path.join(REPO, d)
        if os.path.isdir(full):
            for f in sorted(os.listdir(full)):
                if f.endswith(".pptx"):
                    out.append(os.path.join(d, f))
    return out


def _png(color=(200, 10, 10), size=(8, 6)):
    from PIL import Image
    b = io.BytesIO()
    Image.new("RGB", size, color).save(b, "PNG")
    b.seek(0)
    return b


def gen_shapes():
    from pptx import Presentation
    from pptx.enum.shapes import MSO_SHAPE, MSO_CONNECTOR
    from pptx.util import Emu, Pt
    from pptx.dml.color import RGBColor

    prs = Presentation()
    E = Emu(914400)
    s0 = prs.slides.add_slide(prs.slide_layouts[0])
    s0.shapes.title.text = "Title text"
    s0.placeholders[1].text = "sub\ntitle\vbreak"
    s1 = prs.slides.add_slide(prs.slide_layouts[6])
    sh = s1.shapes
    a = sh.add_shape(MSO_SHAPE.ROUNDED_RECTANGLE, E, E, E, E)
    a.text = "auto"
    a.adjustments[0] = 0.25
    a.fill.solid()
    a.fill.fore_color.rgb = RGBColor(1, 2, 3)
    a.line.width = Pt(2)
    a.click_action.hyperlink.address = "http://example.com/x"
    b = sh.add_shape(MSO_SHAPE.OVAL, E * 2, E, E, E)          # no text set
    b.click_action.target_slide = s0
    tb = sh.add_textbox(E, E * 3, E * 2, E)
    tf = tb.text_frame
    tf.text = "first"
    p = tf.add_paragraph()
    r = p.add_run()
    r.text = "linked"
    r.hyperlink.address = "http://example.com/y"
    r.font.bold = True
    r.font.size = Pt(14)
    p.add_line_break()
    p.add_run().text = "tail"
    p.alignment = 2
    p.level = 1
    sh.add_connector(MSO_CONNECTOR.STRAIGHT, E, E, E * 3, E * 2)
    g = sh.add_group_shape()
    g.shapes.add_shape(MSO_SHAPE.RECTANGLE, E, E, E, E).text = "in group"
    g.shapes.add_textbox(E, E, E, E)
    sh.add_picture(_png(), E * 4, E)
    fb = sh.build_freeform(E, E)
    fb.add_line_segments([(E * 2, E), (E * 2, E * 2)])
    fb.convert_to_shape()
    s2 = prs.slides.add_slide(prs.slide_layouts[5])
    tbl = s2.shapes.add_table(3, 3, E, E, E * 5, E * 2).table
    for i, c in enumerate(tbl.iter_cells()):
        c.text = "c%d" % i
    tbl.cell(0, 0).merge(tbl.cell(1, 1))
    tbl.cell(2, 2).fill.solid()
    tbl.cell(2, 2).fill.fore_color.rgb = RGBColor(9, 9, 9)
    tbl.cell(2, 0).margin_left = Emu(1000)
    s2.notes_slide.notes_text_frame.text = "speaker notes"
    s3 = prs.slides.add_slide(prs.slide_layouts[8])            # picture with caption: unpopulated placeholders
    s3.placeholders[1].insert_picture(_png((0, 0, 200)))
    prs.slides.add_slide(prs.slide_layouts[1])                 # title + content, nothing populated
    s2.shapes.add_movie(io.BytesIO(b"not a movie"), E, E * 4, E, E, poster_frame_image=_png((1, 1, 1)), mime_type="video/mp4")
    s2.background.fill.solid()
    prs.core_properties.title = "generated deck"
    prs.core_properties.revision = 7
    return prs


def gen_charts():
    from pptx import Presentation
    from pptx.chart.data import CategoryChartData, XyChartData, BubbleChartData
    from pptx.enum.chart import XL_CHART_TYPE, XL_LEGEND_POSITION
    from pptx.util import Emu, Pt

    prs = Presentation()
    E = Emu(914400)

    def cat(n=2, multi=False, dates=False):
        cd = CategoryChartData()
        if multi:
            w = cd.add_category("West")
            w.add_sub_category("CA")
            w.add_sub_category("OR")
            e = cd.add_category("East")
            e.add_sub_category("NY")
        elif dates:
            cd.categories = [datetime.date(2016, 12, 27), datetime.date(2016, 12, 28), datetime.date(2016, 12, 29)]
        else:
            cd.categories = ["a", "b", "c"]
        for i in range(n):
            cd.add_series("S%d" % i, (1.5 + i, 2, 3.25))
        return cd
    types = [(XL_CHART_TYPE.COLUMN_CLUSTERED, cat()), (XL_CHART_TYPE.LINE_MARKERS, cat()),
             (XL_CHART_TYPE.PIE, cat(1)), (XL_CHART_TYPE.BAR_STACKED, cat(3, multi=True)),
             (XL_CHART_TYPE.AREA, cat(2, dates=True)), (XL_CHART_TYPE.DOUGHNUT, cat(1)),
             (XL_CHART_TYPE.RADAR_MARKERS, cat()), (XL_CHART_TYPE.BAR_CLUSTERED, cat(1))]
    xy = XyChartData()
    s = xy.add_series("xy")
    for pt in ((1, 2), (2.5, 3), (4, 1)):
        s.add_data_point(*pt)
    types.append((XL_CHART_TYPE.XY_SCATTER_LINES, xy))
    bd = BubbleChartData()
    s = bd.add_series("bub")
    for pt in ((1, 2, 3), (2, 3, 1)):
        s.add_data_point(*pt)
    types.append((XL_CHART_TYPE.BUBBLE, bd))
    for i, (ct, cd) in enumerate(types):
        sl = prs.slides.add_slide(prs.slide_layouts[6])
        ch = sl.shapes.add_chart(ct, E, E, E * 6, E * 4, cd).chart
        if i == 0:
            ch.has_title = True
            ch.chart_title.text_frame.text = "Chart title"
            ch.has_legend = True
            ch.legend.position = XL_LEGEND_POSITION.BOTTOM
            ch.legend.include_in_layout = False
            ch.category_axis.has_title = True
            ch.category_axis.axis_title.text_frame.text = "cats"
            ch.value_axis.has_major_gridlines = True
            ch.value_axis.tick_labels.font.size = Pt(9)
            pl = ch.plots[0]
            pl.has_data_labels = True
            pl.data_labels.show_value = True
            pl.data_labels.number_format = "0.0"
            pl.series[0].points[1].data_label.text_frame.text = "pt"
            pl.gap_width = 120
            ch.chart_style = 10
        if i == 1:
            ser = ch.plots[0].series[0]
            ser.marker.size = 9
            ser.smooth = True
            ser.format.line.width = Pt(1.5)
            ch.font.size = Pt(11)
    return prs


def gen_minimal():
    from pptx import Presentation
    prs = Presentation()
    prs.slides.add_slide(prs.slide_layouts[5]).shapes.title.text = "only a title"
    return prs


def gen_sparse():
    """The generated decks with the optional pieces the three repaired getters used to create taken out
    (hand-edited through lxml; every removal leaves a schema-valid part): keeps the regression oracles
    for Shape.text / _Cell.text / DataLabels.show_* live."""
    from pptx import Presentation
    from pptx.chart.data import CategoryChartData
    from pptx.enum.chart import XL_CHART_TYPE
    from pptx.enum.shapes import MSO_SHAPE
    from pptx.util import Emu

    prs = Presentation()
    E = Emu(914400)
    sl = prs.slides.add_slide(prs.slide_layouts[1])
    for shp in sl.placeholders:
        tx = shp._element.txBody
        if tx is not None:
            shp._element.remove(tx)
    a = sl.shapes.add_shape(MSO_SHAPE.RECTANGLE, E, E, E, E)
    a._element.remove(a._element.txBody)
    tbl = sl.shapes.add_table(2, 2, E, E * 2, E * 3, E).table
    tc = tbl.cell(0, 1)._tc
    tc.remove(tc.txBody)
    tc = tbl.cell(1, 1)._tc
    for ch in list(tc):
        tc.remove(ch)
    cd = CategoryChartData()
    cd.categories = ["a", "b"]
    cd.add_series("s", (1, 2))
    ch = sl.shapes.add_chart(XL_CHART_TYPE.COLUMN_CLUSTERED, E * 4, E, E * 4, E * 3, cd).chart
    pl = ch.plots[0]
    pl.has_data_labels = True
    d = pl.data_labels._element
    for c in list(d):
        if not c.tag.endswith("}showVal"):
            d.remove(c)
    ser = pl.series[0]
    dl = ser.data_labels._element
    for c in list(dl):
        if c.tag.rsplit("}", 1)[-1] in ("showCatName", "showLegendKey", "showVal", "showPercent"):
            dl.remove(c)
    return prs


def gen_reordered():
    """Slides re-ordered the way python-pptx users do it (moving p:sldId): after a save the part names
    no longer follow the slide order, so the first access of prs.slides renames the slide parts."""
    from pptx import Presentation
    from pptx.util import Emu
    prs = Presentation()
    E = Emu(914400)
    for i in range(4):
        sl = prs.slides.add_slide(prs.slide_layouts[5])
        sl.shapes.title.text = "slide made %d" % i
        sl.shapes.add_picture(_png((i * 40, 0, 0)), E, E * 2)
        if i % 2:
            sl.notes_slide.notes_text_frame.text = "notes %d" % i
    lst = prs.part._element.sldIdLst
    ids = list(lst)
    lst.remove(ids[0])
    lst.append(ids[0])          # first slide becomes the last
    lst.remove(ids[2])
    lst.insert(0, ids[2])       # third becomes the first
    sh = prs.slides[0].shapes[0]
    sh.click_action.target_slide = prs.slides[3]
    return prs


def gen_unlisted():
    """A slide 'deleted' the way most recipes do it: its p:sldId is removed from p:sldIdLst while the
    relationship from the presentation part stays, so the slide part (with its notes slide and picture) is
    still a reachable part of the package although no slide collection lists it."""
    from pptx import Presentation
    from pptx.util import Emu
    prs = Presentation()
    E = Emu(914400)
    for i in range(3):
        sl = prs.slides.add_slide(prs.slide_layouts[5])
        sl.shapes.title.text = "slide made %d" % i
        sl.shapes.add_picture(_png((0, i * 60, 0)), E, E * 2)
        sl.notes_slide.notes_text_frame.text = "notes %d" % i
    lst = prs.part._element.sldIdLst
    lst.remove(list(lst)[-1])     # the last one: the first access of prs.slides renames nothing onto its name
    return prs


GENERATORS = [("gen:shapes", gen_shapes), ("gen:charts", gen_charts), ("gen:minimal", gen_minimal),
              ("gen:sparse", gen_sparse), ("gen:reordered", gen_reordered), ("gen:unlisted", gen_unlisted)]


def deck_bytes(deck_id):
    if deck_id.startswith("gen:"):
        prs = dict(GENERATORS)[deck_id]()
        b = io.BytesIO()
        prs.save(b)
        return b.getvalue()
    return open(os.path.join(REPO, deck_id), "rb").read()


# ============================================================================== python trees and strip
def _tagname(el, nsrev):
    from lxml import etree
    q = etree.QName(el)
    p = nsrev.get(q.namespace)
    return "%s:%s" % (p, q.localname) if p else ("{%s}%s" % (q.namespace, q.localname) if q.namespace else q.localname)


_NSREV = None


def nsrev():
    global _NSREV
    if _NSREV is None:
        from pptx.oxml.ns import _nsmap
        _NSREV = {v: k for k, v in _nsmap.items()}
        _NSREV.setdefault("http://schemas.openxmlformats.org/package/2006/relationships", "pr")
        _NSREV.setdefault("http://schemas.openxmlformats.org/package/2006/content-types", "ct")
    return _NSREV


def pytree(el):
    """(tag, attrs, children, text) of an lxml element; whitespace-only text of element content is
    not content; a non-blank tail is kept as a pseudo attribute of the element it follows."""
    rev = nsrev()
    attrs = sorted((k, v) for k, v in el.attrib.items())
    if el.tail and el.tail.strip():
        attrs.append(("#tail", el.tail))
    kids = [pytree(c) for c in el if isinstance(c.tag, str)]
    text = el.text if (el.text and (el.text.strip() or not kids)) else ""
    return (_tagname(el, rev), tuple(attrs), tuple(kids), text or "")


def py_removable(n, cs):
    return n[0] in cs and not n[1] and not n[2] and not n[3]


def py_strip(n, cs):
    kids = tuple(k for k in (py_strip(c, cs) for c in n[2]) if not py_removable(k, cs))
    return (n[0], n[1], kids, n[3])


class Interner:
    def __init__(self, containers):
        self.ids = {}
        for t in containers:
            self(t)

    def __call__(self, s):
        if s not in self.ids:
            self.ids[s] = len(self.ids) + 1
        return self.ids[s]


def enc_tree(n, it, out):
    out.append(it(n[0]))
    out.append(len(n[1]))
    for k, v in n[1]:
        out.append(it("@" + k))
        out.append(len(v))
        out.extend(ord(c) for c in v)
    out.append(len(n[3]))
    out.extend(ord(c) for c in n[3])
    out.append(len(n[2]))
    for c in n[2]:
        enc_tree(c, it, out)
    return out


def field(nums):
    return "".join(chr(x) for x in nums)


def show_nums(nums):
    return " ".join(str(x) for x in nums)


def py_parse(nums):
    """mirror of AccessRun.parse_tree: the tree, or None when the numbers are not one well-formed tree"""
    pos = [0]

    def take(n):
        if pos[0] + n > len(nums):
            raise ValueError
        out = nums[pos[0]:pos[0] + n]
        pos[0] += n
        return out

    def node():
        t, na = take(2)
        attrs = []
        for _ in range(na):
            nm, vl = take(2)
            attrs.append((nm, tuple(take(vl))))
        (nt,) = take(1)
        text = tuple(take(nt))
        (nc,) = take(1)
        kids = tuple(node() for _ in range(nc))
        return (t, tuple(attrs), kids, text)
    try:
        n = node()
    except (ValueError, RecursionError):
        return None
    return n if pos[0] == len(nums) else None


def enc_num_tree(n, out):
    out += [n[0], len(n[1])]
    for k, v in n[1]:
        out += [k, len(v)] + list(v)
    out += [len(n[3])] + list(n[3]) + [len(n[2])]
    for c in n[2]:
        enc_num_tree(c, out)
    return out


def synthetic_tree(rng, cs_ids, depth=0):
    """random tree over numeric tags, dense in containers so that strip collapses bottom-up"""
    tag = rng.choice(cs_ids) if rng.random() < 0.6 else rng.randrange(50, 60)
    attrs = tuple((rng.randrange(100, 104), tuple(rng.randrange(48, 58) for _ in range(rng.randrange(3))))
                  for _ in range(rng.choice((0, 0, 0, 1, 2))))
    text = tuple(rng.randrange(97, 100) for _ in range(rng.choice((0, 0, 0, 1, 3))))
    kids = ()
    if depth < 5:
        kids = tuple(synthetic_tree(rng, cs_ids, depth + 1) for _ in range(rng.choice((0, 0, 1, 2, 3))))
    return (tag, attrs, kids, text)


def synthetic_cases(rng, it, containers, n_valid, n_malformed):
    """(fields, expected output) for the model runner: random trees, and a malformed stream obtained by
    mutating valid encodings (expected: the strip of whatever still parses, else badcase)"""
    cs_ids = [it(t) for t in containers]
    cs = set(cs_ids)
    csfield = field(cs_ids)
    out = []
    for _ in range(n_valid):
        t = synthetic_tree(rng, cs_ids)
        out.append((["strip", csfield, field(enc_num_tree(t, []))], show_nums(enc_num_tree(py_strip(t, cs), [])), "synthetic"))
    for _ in range(n_malformed):
        nums = enc_num_tree(synthetic_tree(rng, cs_ids), [])
        for _k in range(rng.randrange(1, 4)):
            r = rng.random()
            i = rng.randrange(len(nums) + 1)
            if r < 0.4 and nums:
                del nums[min(i, len(nums) - 1)]
            elif r < 0.7:
                nums.insert(i, rng.choice((0, 1, 2, 3, rng.choice(cs_ids), 55, 300)))
            elif nums:
                nums[min(i, len(nums) - 1)] = rng.choice((0, 1, 2, 5, 40))
        t = py_parse(nums) if nums else None
        exp = "badcase" if t is None else show_nums(enc_num_tree(py_strip(t, cs), []))
        out.append((["strip", csfield, field(nums)], exp, "malformed" if t is None else "mutated-valid"))
    return out


# ============================================================================== package snapshots
class Snap:
    """Canonical state of a loaded package: XML of every XmlPart, identity of every blob, every
    relationship, every part name.  Reads private fields only (no lazyproperty is triggered)."""

    def __init__(self, prs):
        self.pkg = prs.part.package

    def parts(self):
        seen, order, stack = set(), [], [self.pkg]
        rels = []
        while stack:
            src = stack.pop()
            rr = src._rels._rels
            for rid in sorted(rr):
                rel = rr[rid]
                if rel._target_mode == "External":
                    rels.append((id(src), rid, rel._reltype, "ext", rel._target))
                else:
                    t = rel._target
                    rels.append((id(src), rid, rel._reltype, "int", id(t)))
                    if id(t) not in seen:
                        seen.add(id(t))
                        order.append(t)
                        stack.append(t)
        return order, tuple(rels)

    def take(self):
        from lxml import etree
        from pptx.opc.package import XmlPart
        order, rels = self.parts()
        xml, names = {}, {}
        for p in order:
            names[id(p)] = str(p._partname)
            if isinstance(p, XmlPart):
                xml[id(p)] = etree.tostring(p._element)
            else:
                b = p._blob
                xml[id(p)] = ("blob", id(b), len(b) if b is not None else -1)
        return rels, xml, names, order


def classify(before, after, containers):
    """('none',) | ('empty', tags, where) | ('other', what)"""
    from lxml import etree
    if before[0] == after[0] and before[1] == after[1] and before[2] == after[2]:
        return ("none",)
    what = []
    if before[0] != after[0]:
        what.append("relationships changed")
    for k in after[1]:
        if k not in before[1]:
            what.append("new part " + after[2][k])
    for k in before[1]:
        if k not in after[1]:
            what.append("part gone " + before[2][k])
    renamed = []
    if before[2] != after[2]:
        for k in before[2]:
            if k in after[2] and before[2][k] != after[2][k]:
                renamed.append("%s -> %s" % (before[2][k], after[2][k]))
    tags, where = [], []
    for k in after[1]:
        if k in before[1] and before[1][k] != after[1][k]:
            if isinstance(after[1][k], tuple) or isinstance(before[1][k], tuple):
                what.append("binary part changed " + after[2][k])
                continue
            ta, tb = pytree(etree.fromstring(before[1][k])), pytree(etree.fromstring(after[1][k]))
            added = []
            if not only_empty_added(ta, tb, added):
                what.append("xml of %s changed: %s" % (after[2][k], xml_delta(before[1][k], after[1][k])))
            else:
                tags += added
                where.append(after[2][k])
    if what:
        return ("other", "; ".join(what)[:1500], None, renamed)
    if not tags:
        return ("none", None, None, renamed) if renamed else ("none",)
    return ("empty", sorted(set(tags)), where, renamed)


def all_empty(n, acc):
    if n[1] or n[3]:
        return False
    acc.append(n[0])
    return all(all_empty(c, acc) for c in n[2])


def only_empty_added(x, y, added):
    """y is x plus attribute-less, text-less elements (possibly nested in each other)"""
    if x[0] != y[0] or x[1] != y[1] or x[3] != y[3]:
        return False
    cx, cy = x[2], y[2]
    i = 0
    for c in cy:
        if i < len(cx):
            n = len(added)
            if only_empty_added(cx[i], c, added):
                i += 1
                continue
            del added[n:]
        acc = []
        if all_empty(c, acc):
            added += acc
        else:
            return False
    return i == len(cx)


def xml_delta(a, b):
    import difflib
    from lxml import etree
    pa = etree.tostring(etree.fromstring(a), pretty_print=True).decode().split("\n")
    pb = etree.tostring(etree.fromstring(b), pretty_print=True).decode().split("\n")
    d = [l for l in difflib.unified_diff(pa, pb, lineterm="", n=0) if not l.startswith(("---", "+++", "@@"))]
    return " | ".join(x.strip() for x in d[:8])[:700]


# ============================================================================== the accessor table
class Table:
    def __init__(self, meta):
        self.meta = meta
        self.rows = {}
        self.by_cls = collections.defaultdict(list)
        for r in meta["rows"]:
            self.rows[(r["module"], r["cls"], r["name"])] = r
            self.by_cls[(r["module"], r["cls"])].append(r)
        self.containers = set(meta["containers"])

    def for_class(self, cls):
        return self.by_cls.get((cls.__module__, cls.__name__))

    def allowed_static(self, r):
        if r["unres"]:
            return False
        if r["level"] == "Pure":
            return True
        if r["level"] == "AddsEmpty":
            return set(r["tags"]) <= self.containers
        return False


def is_plain(v):
    if isinstance(v, PLAIN):
        return True
    if isinstance(v, (tuple, frozenset)):
        return all(is_plain(x) for x in v)
    return False


def is_pptx_obj(v):
    m = type(v).__module__ or ""
    return m.startswith("pptx.") and not m.startswith("pptx.oxml") and not m.startswith("pptx.opc.oxml")


def kind_of(v):
    from lxml import etree
    if is_plain(v):
        return "plain"
    if isinstance(v, etree._Element):
        return "element"
    if isinstance(v, (tuple, list)):
        return "coll"
    t = type(v)
    if is_pptx_obj(v):
        if hasattr(t, "__iter__") or (hasattr(t, "__getitem__") and hasattr(t, "__len__")):
            return "coll"
        return "proxy"
    if hasattr(t, "__iter__") and hasattr(t, "__next__"):
        return "coll"
    return "other"


GUARDS = {
    # (defining class, accessor) -> the library's own non-destructive test that the content exists
    ("Shape", "text_frame"): lambda o: o._element.txBody is not None,
    ("_Cell", "text_frame"): lambda o: o._tc.txBody is not None,
    ("NotesSlide", "notes_text_frame"): lambda o: o.notes_placeholder is not None
    and o.notes_placeholder._element.txBody is not None,
    ("Slide", "notes_slide"): lambda o: o.has_notes_slide,
    ("SlidePart", "notes_slide"): lambda o: o.has_notes_slide,
    ("Chart", "chart_title"): lambda o: o.has_title,
    ("ChartTitle", "text_frame"): lambda o: o.has_text_frame,
    ("_BaseAxis", "axis_title"): lambda o: o.has_title,
    ("AxisTitle", "text_frame"): lambda o: o.has_text_frame,
    ("_BaseCategorySeries", "data_labels"): lambda o: o._element.dLbls is not None,
    ("Presentation", "core_properties"): lambda o: _has_rel(o.part.package, "core-properties"),
    ("PresentationPart", "core_properties"): lambda o: _has_rel(o.package, "core-properties"),
    ("Package", "core_properties"): lambda o: _has_rel(o, "core-properties"),
    ("Presentation", "notes_master"): lambda o: _has_rel(o.part, "notesMaster"),
    ("PresentationPart", "notes_master"): lambda o: _has_rel(o, "notesMaster"),
    ("PresentationPart", "notes_master_part"): lambda o: _has_rel(o, "notesMaster"),
}


def _has_rel(src, suffix):
    return any(r._reltype.endswith("/" + suffix) for r in src._rels._rels.values())


RT_SUFFIX = {"NOTES_MASTER": "notesMaster", "NOTES_SLIDE": "notesSlide", "SLIDE_LAYOUT": "slideLayout",
             "SLIDE_MASTER": "slideMaster", "CORE_PROPERTIES": "core-properties", "OFFICE_DOCUMENT": "officeDocument",
             "SLIDE": "slide", "CHART": "chart", "IMAGE": "image"}


# ============================================================================== (a) accessor-level walk
class Walk:
    def __init__(self, prs, table, deck_id, mode, rng=None, observed_pure=None, max_saves=0, est_calls=1000):
        self.prs, self.table, self.deck, self.mode, self.rng = prs, table, deck_id, mode, rng
        self.by_class = {}      # objects met so far, by class name: arguments for look-ups by element
        self.snap = Snap(prs)
        self.visited = set()
        self.keep = []
        self.obs = collections.defaultdict(collections.Counter)   # (module, cls, name) -> Counter[(kind, effclass)]
        self.findings = []      # dicts
        self.mismatch = []      # prediction mismatches
        self.outside = set()    # proxy classes not in the table
        self.evals = 0
        self.nontrivial = set()
        self.dist = collections.Counter()
        self.gateway_effects = collections.Counter()
        self.gateway_first = {}
        self.renames = []
        self.observed_pure = observed_pure or set()
        self.cur = self.snap.take() if mode == "a" else None
        self.save_at = sorted(rng.randrange(max(1, est_calls)) for _ in range(max_saves)) if rng else []
        self.saved = []
        self.calls = 0
        self.log = []

    # -- identity of an object: class + the elements it wraps
    def key(self, obj):
        from lxml import etree
        ks = []
        d = getattr(obj, "__dict__", None)
        if d:
            for n in sorted(d):
                v = d[n]
                if isinstance(v, etree._Element):
                    try:
                        ks.append((id(v.getroottree().getroot()), v.getroottree().getpath(v)))
                    except Exception:  # noqa
                        ks.append((0, str(id(v))))
        if ks:
            return (type(obj).__name__, tuple(ks))
        return ("id", id(obj))

    def observe(self, row, cls, name, kind, path, steps):
        """mode a: classify what the evaluation just done changed, judge it"""
        new = self.snap.take()
        eff = classify(self.cur, new, self.table.containers)
        self.cur = new
        ec = eff[0]
        rk = (cls.__module__, cls.__name__, name)
        self.obs[rk][(kind, ec if ec != "empty" else "empty:" + ",".join(eff[1]))] += 1
        self.evals += 1
        self.dist[kind] += 1
        if kind not in ("exc",) and not kind.startswith("exc"):
            self.nontrivial.add(hashlib.sha1(("%s|%s|%s" % (self.deck, path, name)).encode()).hexdigest()[:16])
        renamed = eff[3] if len(eff) > 3 else []
        if renamed:
            # the documented exception: names change, relationships (by identity) and content do not
            self.renames.append({"deck": self.deck, "accessor": "%s.%s" % (cls.__name__, name), "renamed": renamed[:6],
                                 "predicted": bool(row and "renames a part" in row.get("flags", []))})
        if ec == "none":
            return
        owner = row["owner"] if row else cls.__name__
        sig = "%s.%s" % (owner, name)
        judged = kind in ("plain", "coll") or kind.startswith("exc")
        bad = ec == "other" or (ec == "empty" and not set(eff[1]) <= self.table.containers)
        rec = {"deck": self.deck, "object": path, "steps": steps, "accessor": name, "class": cls.__name__,
               "defined_in": owner, "returned": kind, "effect": ec,
               "detail": eff[1] if ec == "other" else "added empty elements %s in %s" % (eff[1], eff[2])}
        # prediction vs observation
        if row is not None and not row["unres"]:
            ok = row["level"] == "Creates" or (row["level"] == "AddsEmpty" and ec == "empty" and set(eff[1]) <= set(row["tags"]))
            if not ok:
                self.mismatch.append(dict(rec, predicted=row["level"], predicted_tags=row["tags"]))
        if not judged:
            self.gateway_effects[(sig, ec if ec == "other" else "empty:" + ",".join(eff[1]))] += 1
            if ec == "other" and sig not in self.gateway_first:
                self.gateway_first[sig] = rec
            return
        if row is not None and row["documented"]:
            self.gateway_effects[(sig + " (documented creating)", ec)] += 1
            return
        if bad:
            self.findings.append(dict(rec, sig="accessor:" + sig, file=row["file"] if row else "", line=row["line"] if row else 0))

    def call(self, obj, cls, row, name, fn, path, steps):
        """evaluate one accessor in the current mode; returns (kind, value)"""
        try:
            v = fn()
            kind = kind_of(v)
        except Exception as e:  # noqa
            v, kind = None, "exc:" + type(e).__name__
        self.calls += 1
        if self.mode == "a":
            self.observe(row, cls, name, kind, path, steps)
        else:
            self.evals += 1
            self.maybe_save()
        return kind, v

    def maybe_save(self):
        while self.save_at and self.save_at[0] <= self.calls:
            self.save_at.pop(0)
            b = io.BytesIO()
            self.prs.save(b)
            self.saved.append((self.calls, b.getvalue()))

    def eligible(self, obj, row):
        """mode b: may this accessor be evaluated in a read-only traversal"""
        if self.table.allowed_static(row):
            return True
        g = GUARDS.get((row["owner"], row["name"]))
        if g is not None:
            try:
                return bool(g(obj))
            except Exception:  # noqa
                return False
        if row["unres"] and (row["module"], row["cls"], row["name"]) in self.observed_pure:
            return True
        return False

    def rec(self, obj, path, steps, depth):
        if depth > 16:
            return
        k = self.key(obj)
        self.keep.append(obj)
        lst = self.by_class.setdefault(type(obj).__name__, [])
        if len(lst) < 40 and all(obj is not y for y in lst):
            lst.append(obj)
        if k in self.visited:
            return
        self.visited.add(k)
        cls = type(obj)
        rows = self.table.for_class(cls)
        if rows is None:
            if is_pptx_obj(obj) and not is_plain(obj):
                self.outside.add(cls.__module__ + "." + cls.__name__)
            return
        todo = list(rows)
        if self.mode == "b":
            self.rng.shuffle(todo)
            todo = todo + [r for r in todo if self.rng.random() < 0.3]     # repetition
        else:
            # navigation-heavy accessors last: natural paths first (cosmetic: shorter object paths)
            todo.sort(key=lambda r: (r["name"] in ("part", "package", "parent", "slide_layout", "slide_master",
                                                   "used_by_slides", "main_document_part", "presentation_part",
                                                   "chart_workbook", "xlsx_part"), r["name"]))
        children = []
        for row in todo:
            name = row["name"]
            if self.mode == "b" and not self.eligible(obj, row):
                continue
            if row["kind"] == "seq":
                children += self.seq(obj, cls, row, name, path, steps)
                continue
            if row["kind"] == "method":
                children += self.read_method(obj, cls, row, name, path, steps)
                continue
            kind, v = self.call(obj, cls, row, name, lambda: getattr(obj, name), path, steps)
            st = steps + [["attr", name]]
            if kind == "proxy":
                children.append((v, path + "." + name, st))
            elif kind == "coll":
                if is_pptx_obj(v) and not isinstance(v, (tuple, list)):
                    children.append((v, path + "." + name, st))
                else:
                    try:
                        items = list(v)
                    except Exception:  # noqa
                        items = []
                    for i, x in enumerate(items):
                        if is_pptx_obj(x) and not is_plain(x):
                            children.append((x, "%s.%s[%d]" % (path, name, i), st + [["idx", i]]))
        if self.mode == "b":
            self.rng.shuffle(children)
        for v, p, st in children:
            self.rec(v, p, st, depth + 1)

    def seq(self, obj, cls, row, name, path, steps):
        out = []
        if name == "__len__":
            self.call(obj, cls, row, name, lambda: len(obj), path, steps)
        elif name == "__iter__":
            kind, v = self.call(obj, cls, row, name, lambda: tuple(iter(obj)), path, steps)
            if v:
                for i, x in enumerate(v):
                    if is_pptx_obj(x) and not is_plain(x):
                        out.append((x, "%s[%d]" % (path, i), steps + [["iter", i]]))
        elif name == "__getitem__":
            import collections.abc as cabc
            if isinstance(obj, cabc.Mapping):
                return out
            try:
                n = len(obj)
            except Exception:  # noqa
                return out
            idxs = list(range(min(n, SIZE_LIMIT_GETITEM)))
            if self.mode == "b":
                idxs = [i for i in idxs if self.rng.random() < 0.5]
            for i in idxs:
                kind, v = self.call(obj, cls, row, name, lambda i=i: obj[i], path, steps)
                if v is not None and is_pptx_obj(v) and not is_plain(v):
                    out.append((v, "%s[%d]" % (path, i), steps + [["idx", i]]))
        return out

    def read_method(self, obj, cls, row, name, path, steps):
        out = []
        if name == "iter_cells":
            kind, v = self.call(obj, cls, row, name, lambda: tuple(obj.iter_cells()), path, steps)
            for i, x in enumerate(v or ()):
                out.append((x, "%s.iter_cells()[%d]" % (path, i), steps + [["call", "iter_cells"], ["idx", i]]))
        elif name == "cell":
            try:
                nr, nc = len(obj.rows), len(obj.columns)
            except Exception:  # noqa
                return out
            for r in range(min(nr, 12)):
                for c in range(min(nc, 12)):
                    kind, v = self.call(obj, cls, row, name, lambda r=r, c=c: obj.cell(r, c), path, steps)
                    if v is not None:
                        out.append((v, "%s.cell(%d,%d)" % (path, r, c), steps + [["call", "cell", r, c]]))
        elif name in ("index", "get", "get_by_name"):
            # look-ups by element / key / name: with the collection's own items, with objects of the same class met elsewhere
            # in the deck (a layout of ANOTHER master, a shape of another slide), and with keys that are not there
            try:
                items = list(obj)[:6]
            except Exception:  # noqa
                items = []
            args = []
            if name == "index":
                args = list(items)
                for it in items[:1]:
                    pool = [x for x in self.by_class.get(type(it).__name__, []) if all(x is not y for y in items)]
                    args += pool[:3]
                args.append(object())
            elif name == "get":
                for it in items:
                    for probe in (lambda x: x.slide_id, lambda x: x.placeholder_format.idx, lambda x: x.shape_id):
                        try:
                            args.append(int(probe(it)))
                            break
                        except Exception:  # noqa
                            continue
                args += [0, 1, 999999]
            else:
                for it in items:
                    try:
                        args.append(str(it.name))
                    except Exception:  # noqa
                        pass
                args.append("no such name")
            for a in args[:10]:
                self.call(obj, cls, row, name, lambda a=a: getattr(obj, name)(a), path, steps)
        return out


def navigate(prs, steps):
    o = prs
    for st in steps:
        if st[0] == "attr":
            o = getattr(o, st[1])
        elif st[0] == "idx":
            o = o[st[1]] if not hasattr(o, "__next__") else list(o)[st[1]]
        elif st[0] == "iter":
            o = tuple(iter(o))[st[1]]
        elif st[0] == "call":
            o = getattr(o, st[1])(*st[2:])
            if st[1] == "iter_cells":
                o = tuple(o)
    return o


def check_rt_hints(prs, hints):
    """the translator's assumption about part_related_by(RT.X), on every relationship of this package"""
    bad = []
    snap = Snap(prs)
    order, _ = snap.parts()
    for src in [snap.pkg] + order:
        for rid, rel in src._rels._rels.items():
            if rel._target_mode == "External":
                continue
            for k, clsname in hints.items():
                if rel._reltype.endswith("/" + RT_SUFFIX.get(k, "?")):
                    if clsname not in [c.__name__ for c in type(rel._target).__mro__]:
                        bad.append("%s --%s--> %s is a %s, not a %s" % (
                            getattr(src, "_partname", "/"), k, rel._target._partname, type(rel._target).__name__, clsname))
    return bad


# ============================================================================== (b) zip-level comparison
def read_zip(data):
    """independent reading of a saved package: {partname: bytes}, content types, relationships"""
    from lxml import etree
    z = zipfile.ZipFile(io.BytesIO(data))
    members = {("/" + n): z.read(n) for n in z.namelist() if not n.endswith("/")}
    ct = etree.fromstring(members["/[Content_Types].xml"])
    defaults, overrides = {}, {}
    for e in ct:
        if not isinstance(e.tag, str):
            continue
        if e.tag.endswith("}Default"):
            defaults[e.get("Extension").lower()] = e.get("ContentType")
        elif e.tag.endswith("}Override"):
            overrides[e.get("PartName")] = e.get("ContentType")
    rels = {}
    import posixpath
    for name, blob in members.items():
        if name.endswith(".rels"):
            d, f = posixpath.split(name)
            base = posixpath.dirname(d)                      # directory of the source part
            src = posixpath.join(base, f[:-5]) if f != ".rels" else "/"
            lst = []
            for r in etree.fromstring(blob):
                if not isinstance(r.tag, str):
                    continue
                tgt = r.get("Target")
                mode = r.get("TargetMode", "Internal")
                if mode != "External":
                    tgt = posixpath.normpath(posixpath.join(base if src != "/" else "/", tgt))
                lst.append((r.get("Id"), r.get("Type"), tgt, mode))
            rels[src] = lst
    parts = {n: b for n, b in members.items() if not n.endswith(".rels") and n != "/[Content_Types].xml"}
    ctype = {}
    for n in parts:
        ctype[n] = overrides.get(n) or defaults.get(n.rsplit(".", 1)[-1].lower())
    return parts, ctype, rels


def slide_renaming(parts, rels):
    """the renaming python-pptx applies on first access of prs.slides: slide parts become slide1..n in the
    order of p:sldIdLst"""
    from lxml import etree
    main = [t for (_i, ty, t, m) in rels.get("/", []) if ty.endswith("/officeDocument")]
    if not main or main[0] not in parts:
        return {}
    pres = etree.fromstring(parts[main[0]])
    R = "{http://schemas.openxmlformats.org/officeDocument/2006/relationships}id"
    rid2t = {i: t for (i, ty, t, m) in rels.get(main[0], [])}
    ren = {}
    k = 0
    for sld in pres.iter("{http://schemas.openxmlformats.org/presentationml/2006/main}sldId"):
        k += 1
        t = rid2t.get(sld.get(R))
        if t:
            ren[t] = "/ppt/slides/slide%d.xml" % k
    return ren


def canon_package(data, containers):
    from lxml import etree
    parts, ctype, rels = read_zip(data)
    ren = slide_renaming(parts, rels)
    # a renaming is a bijection on names only if the targets are free: python-pptx assumes it; so do we
    f = lambda n: ren.get(n, n)   # noqa
    out_parts = {}
    for n, b in parts.items():
        ct = ctype[n] or ""
        if ct.endswith("xml"):
            try:
                out_parts[f(n)] = ("xml", ct, py_strip(pytree(etree.fromstring(b)), containers), pytree(etree.fromstring(b)))
            except etree.XMLSyntaxError:
                out_parts[f(n)] = ("bin", ct, hashlib.sha1(b).hexdigest(), None)
        else:
            out_parts[f(n)] = ("bin", ct, hashlib.sha1(b).hexdigest(), None)
    out_rels = {}
    for s, lst in rels.items():
        out_rels[f(s)] = sorted((i, ty, f(t) if m != "External" else t, m) for (i, ty, t, m) in lst)
    return out_parts, out_rels


def tree_delta(a, b, path=""):
    """first difference between two python trees"""
    if a[0] != b[0]:
        return "%s: tag %s vs %s" % (path, a[0], b[0])
    if a[1] != b[1]:
        return "%s/%s: attributes %s vs %s" % (path, a[0], dict(a[1]), dict(b[1]))
    if a[3] != b[3]:
        return "%s/%s: text %r vs %r" % (path, a[0], a[3][:40], b[3][:40])
    for i, (x, y) in enumerate(zip(a[2], b[2])):
        d = tree_delta(x, y, "%s/%s[%d]" % (path, a[0], i))
        if d:
            return d
    if len(a[2]) != len(b[2]):
        extra = (a[2] if len(a[2]) > len(b[2]) else b[2])[min(len(a[2]), len(b[2]))]
        return "%s/%s: %d vs %d children (first extra: <%s>)" % (path, a[0], len(a[2]), len(b[2]), extra[0])
    return None


def compare_packages(base, test, containers):
    """the property's deck-level statement; returns list of differences"""
    bp, br = canon_package(base, containers)
    tp, tr = canon_package(test, containers)
    diffs = []
    if set(bp) != set(tp):
        diffs.append("part names differ: only in baseline %s, only after traversal %s" % (
            sorted(set(bp) - set(tp))[:5], sorted(set(tp) - set(bp))[:5]))
    for n in sorted(set(bp) & set(tp)):
        x, y = bp[n], tp[n]
        if x[1] != y[1]:
            diffs.append("content type of %s: %s vs %s" % (n, x[1], y[1]))
        if x[0] != y[0] or x[2] != y[2]:
            if x[0] == "xml" and y[0] == "xml":
                diffs.append("XML of %s differs under strip: %s" % (n, tree_delta(x[2], y[2])))
            else:
                diffs.append("binary part %s differs" % n)
    sl = lambda d: {n: v[2] for n, v in d.items() if re.fullmatch(r"/ppt/slides/slide\d+\.xml", n)}   # noqa
    bs, ts = sl(bp), sl(tp)
    if bs != ts and sorted(map(repr, bs.values())) == sorted(map(repr, ts.values())):
        pos = {}
        for n, v in bs.items():
            pos.setdefault(repr(v), []).append(n)
        moved = ["%s now holds what was %s" % (n, "/".join(pos[repr(v)])) for n, v in sorted(ts.items()) if bs.get(n) != v]
        diffs.insert(0, "the same slides in a DIFFERENT ORDER: " + "; ".join(moved[:6]))
    for s in sorted(set(br) | set(tr)):
        if br.get(s) != tr.get(s):
            a, b = set(br.get(s, [])), set(tr.get(s, []))
            diffs.append("relationships of %s differ: baseline-only %s, traversal-only %s" % (
                s, sorted(a - b)[:3], sorted(b - a)[:3]))
    return diffs, bp, tp


# ============================================================================== per-deck work (runs in a worker)
_TABLE = None


def _load_table():
    global _TABLE
    if _TABLE is None:
        _TABLE = Table(json.load(open(os.path.join(COQ, "gen", "c12_meta.json"))))
    return _TABLE


def deck_job(args):
    import random
    from pptx import Presentation

    deck_id, seed, n_trav, want_model = args
    table = _load_table()
    res = {"deck": deck_id, "findings": [], "mismatch": [], "outside": [], "obs": {}, "evals": 0, "nontrivial": [],
           "dist": {}, "gateways": {}, "deck_diffs": [], "hint_bad": [], "model_cases": [], "error": None,
           "renamed": False, "traversals": 0, "trav_calls": 0, "saves": 0}
    try:
        data = deck_bytes(deck_id)
        prs = Presentation(io.BytesIO(data))
    except Exception as e:  # noqa
        res["error"] = "cannot open: %r" % e
        return res
    res["hint_bad"] = check_rt_hints(prs, table.meta.get("rt_hints", {}))
    # ---- (a)
    w = Walk(prs, table, deck_id, "a")
    w.rec(prs, "prs", [], 0)
    res["findings"], res["mismatch"], res["outside"] = w.findings, w.mismatch[:50], sorted(w.outside)
    res["obs"] = {"|".join(k): {"%s/%s" % kk: n for kk, n in c.items()} for k, c in w.obs.items()}
    res["evals"], res["nontrivial"], res["dist"] = w.evals, sorted(w.nontrivial), dict(w.dist)
    res["gateways"] = {"%s -> %s" % k: n for k, n in w.gateway_effects.items()}
    res["gateway_first"] = w.gateway_first
    res["renames"] = w.renames
    observed_pure = {k for k, c in w.obs.items() if all(e == "none" for (_kd, e) in c)}
    # ---- (b)
    base_prs = Presentation(io.BytesIO(data))
    b0 = io.BytesIO()
    base_prs.save(b0)
    base = b0.getvalue()
    parts0, _ct, rels0 = read_zip(base)
    res["renamed"] = any(k != v for k, v in slide_renaming(parts0, rels0).items())
    rng = random.Random("%s|%s" % (seed, deck_id))
    est = max(w.evals, 50)
    for t in range(n_trav):
        nsaves = rng.randrange(4)
        tseed = rng.randrange(1 << 30)
        est_used = est if t else 1          # the first history saves before anything is read
        if t == 0:
            nsaves = max(nsaves, 1)
            est = 1
        diffs, saves, calls = traverse_once(data, table, deck_id, tseed, nsaves, observed_pure, base, est)
        est = max(calls, 50)
        res["traversals"] += 1
        res["trav_calls"] += calls
        res["saves"] += saves
        order = [d for d in diffs if "DIFFERENT ORDER" in d]
        if order:
            diffs = [order[0] + "  (and %d consequential differences of parts / relationships)" % (len(diffs) - 1)]
        for d in diffs:
            res["deck_diffs"].append({"deck": deck_id, "traversal_seed": tseed, "saves": nsaves, "difference": d,
                                      "est": est_used})
    # ---- (c) data for the model: part trees before / after the accessor-level walk
    if want_model:
        from pptx.opc.package import XmlPart
        trees = []
        p0 = Presentation(io.BytesIO(data))
        order, _ = Snap(p0).parts()
        for p in order:
            if isinstance(p, XmlPart):
                trees.append((str(p._partname), pytree(p._element)))
        order, _ = Snap(prs).parts()
        for p in order:
            if isinstance(p, XmlPart):
                trees.append((str(p._partname) + " (after walk)", pytree(p._element)))
        res["model_cases"] = trees
        res["goa_cases"] = goa_histories(p0, table, random.Random("%s|goa|%s" % (seed, deck_id)))
    return res


def traverse_once(data, table, deck_id, tseed, nsaves, observed_pure, base, est=1000):
    import random
    from pptx import Presentation
    prs = Presentation(io.BytesIO(data))
    w = Walk(prs, table, deck_id, "b", rng=random.Random(tseed), observed_pure=observed_pure, max_saves=nsaves,
             est_calls=est)
    if est == 1:
        b = io.BytesIO()
        prs.save(b)                      # a save before anything is read
        w.saved.append((0, b.getvalue()))
        w.save_at = w.save_at[1:]
    w.rec(prs, "prs", [], 0)
    b = io.BytesIO()
    prs.save(b)
    diffs = []
    outs = [("final save", b.getvalue())] + [("intermediate save after %d evaluations" % c, d) for c, d in w.saved]
    for label, out in outs:
        ds, _bp, _tp = compare_packages(base, out, table.containers)
        diffs += ["%s: %s" % (label, d) for d in ds[:4]]
    return diffs, len(w.saved), w.evals


# ============================================================================== (c) xmlchemy histories on real elements
def zero_or_one_decls(cls):
    """{prop: (tag, successors)} for ZeroOrOne children whose get_or_add uses the default creator and inserter"""
    from pptx.oxml.xmlchemy import ZeroOrOne
    out = {}
    for k in cls.__mro__:
        for name, val in vars(k).items():
            if not name.startswith("get_or_add_") or name[11:] in out:
                continue
            clo = getattr(val, "__closure__", None) or ()
            decl = None
            for cell in clo:
                try:
                    c = cell.cell_contents
                except ValueError:
                    continue
                if isinstance(c, ZeroOrOne):
                    decl = c
            if decl is None:
                continue
            prop = decl._prop_name
            ok = True
            for piece in ("_new_" + prop, "_insert_" + prop, "_add_" + prop):
                f = getattr(cls, piece, None)
                if f is None or "<locals>" not in getattr(f, "__qualname__", ""):
                    ok = False
            if ok:
                out[prop] = (decl._nsptagname, tuple(decl._successors))
    return out


def goa_histories(prs, table, rng):
    """sequences of real get_or_add_x() calls (default creator) and saves on elements of one real part
    tree, against the model's GoA / Save steps on the same tree"""
    import copy
    from pptx.opc.package import XmlPart
    order, _ = Snap(prs).parts()
    xparts = [p for p in order if isinstance(p, XmlPart) and len(p._element) > 0]
    cases = []
    rng.shuffle(xparts)
    for part in (xparts[:6] + xparts[:6]):
        root = copy.deepcopy(part._element)
        before = pytree(root)
        elems = [e for e in root.iter() if isinstance(e.tag, str) and zero_or_one_decls(type(e))]
        if not elems:
            continue
        steps, log = [], []
        for _ in range(rng.randrange(2, 9)):
            r = rng.random()
            if r < 0.15:
                steps.append(("save",))
                continue
            if r < 0.25:
                steps.append(("read",))
                continue
            e = rng.choice(elems)
            decls = zero_or_one_decls(type(e))
            prop = rng.choice(sorted(decls))
            tag, succ = decls[prop]
            # path of child indices (elements only) from the root
            path, cur = [], e
            while cur is not root:
                par = cur.getparent()
                path.append([c for c in par if isinstance(c.tag, str)].index(cur))
                cur = par
            path.reverse()
            getattr(e, "get_or_add_" + prop)()
            steps.append(("goa", path, tag, succ))
            log.append("%s.get_or_add_%s()" % (type(e).__name__, prop))
        cases.append({"part": str(part._partname), "before": before, "after": pytree(root), "steps": steps, "log": log})
    return cases


# ============================================================================== the check
def judged_by_observation(r):
    """an accessor the static table cannot resolve (a call through a base class with several implementations) and does
    not predict to create content: it is judged by what reading it does, so it is read in the foreign states too"""
    return bool(r["unres"]) and r.get("surface") and r["level"] in ("Pure", "AddsEmpty") and not r.get("documented")


def foreign_reads(ck, rng, quick, containers, new_creating=()):
    stats = {"properties": 0, "pre_states": 0, "reads": 0, "getter_raised": 0, "unavailable": None}
    try:
        import checks.c09 as c9
        xsd = c9.Xsd()
        if not xsd.validators:
            raise RuntimeError("the XSDs of /repo/spec did not compile")
        kinds = c9.make_kinds(rng)
    except Exception as e:  # noqa
        stats["unavailable"] = repr(e)[:200]
        return stats
    for k in kinds:
        if k.anchor is None:
            continue
        for p in k.props:
            try:
                akeys, elems = c9.observed_keys(k, p)
                eds = c9.foreign_edits(xsd, k, p, akeys, elems, rng, quick)
                plan = c9.select_edits(eds, rng, quick, cap=6 if quick else 14)
            except Exception:  # noqa
                continue
            if not plan:
                continue
            stats["properties"] += 1
            for desc, edits in plan:
                try:
                    prs, ok = c9.prepared(xsd, k, edits)
                    if not ok:
                        continue
                    obj = k.nav(prs)
                    part = c9.part_of(k, prs, obj)
                    if part is None:
                        continue
                except Exception:  # noqa
                    continue
                stats["pre_states"] += 1
                before = py_strip(pytree(part._element), containers)
                try:
                    for _ in range(2):
                        getattr(obj, p.attr)
                    stats["reads"] += 1
                except Exception:  # noqa  (a getter that raises in a foreign state is not this property's business)
                    stats["getter_raised"] += 1
                after = py_strip(pytree(part._element), containers)
                ck.count(("foreign-read", k.name, p.attr, desc), True, "foreign-read")
                if before != after:
                    ck.violation("foreign-read:%s.%s" % (p.cls, p.attr),
                                 "reading %s.%s changed the document when the object is in a state only other producers write (%s): %s" % (
                                     p.cls, p.attr, desc, str(tree_delta(before, after))[:400]),
                                 {"entry_point": "%s.%s (getter)" % (p.cls, p.attr), "input": {"kind": k.name, "pre_state": [list(e) for e in edits], "what": desc},
                                  "impl_outcome": str(tree_delta(before, after))[:800]})
    # ---- the same for EVERY statically allowed accessor of the object (gateways that hand back formatting proxies
    #      included), from pre-states that vary the object's CONTEXT: the other children its parent element may have
    #      (a:endParaRPr with a language beside a run, ...) and their attributes
    import copy
    table = _load_table()
    stats.update(context_pre_states=0, context_reads=0)
    for k in kinds:
        if k.anchor is None:
            continue
        try:
            prs0 = k.build()
            obj0 = k.nav(prs0)
            anc = k.anchor(obj0)
            parent = anc.getparent()
            if parent is None:
                continue
            pq = xsd.type_of(parent)
            tags = [t for t in (xsd.kids(pq) if pq else {}) if ":" in t and t != c9.ptag(anc.tag)]
            k2 = copy.copy(k)
            k2.anchor = (lambda o, a=k.anchor: a(o).getparent())
            k2.nv = False
            k2.props = []
            eds = c9.foreign_edits(xsd, k2, None, [], tags, rng, quick)
            core = [(d, [e]) for pr, d, e in eds if pr in (2, 3)]
            attrs = [(d, [e]) for pr, d, e in eds if pr in (0, 4)]
            sibs = [(d, [e]) for pr, d, e in eds if pr == 5]
            plan = (core if len(core) <= 10 or not quick else rng.sample(core, 10)) \
                + rng.sample(attrs, min(len(attrs), 40 if quick else 200)) + rng.sample(sibs, min(len(sibs), 4 if quick else 20))
            rows = [r for r in (table.for_class(type(obj0)) or []) if r["kind"] in ("property", "lazyproperty")
                    and (table.allowed_static(r) or r["sig"] in new_creating or judged_by_observation(r))]
        except Exception:  # noqa
            continue
        for desc, edits in plan:
            try:
                prs, ok = c9.prepared(xsd, k2, edits)
                if not ok:
                    continue
                obj = k.nav(prs)
                part = c9.part_of(k, prs, obj)
                if part is None:
                    continue
            except Exception:  # noqa
                continue
            stats["context_pre_states"] += 1
            # the object as another producer leaves it: without the empty containers python-pptx's own accessors created
            # while the object was built (an a:r without a:rPr, ...)
            try:
                for ch in list(k.anchor(obj)):
                    if isinstance(ch.tag, str) and c9.ptag(ch.tag) in containers and not ch.attrib and len(ch) == 0 and not (ch.text or "").strip():
                        ch.getparent().remove(ch)
            except Exception:  # noqa
                pass
            for r in rows:
                before = py_strip(pytree(part._element), containers)
                try:
                    getattr(obj, r["name"])
                except Exception:  # noqa
                    continue
                stats["context_reads"] += 1
                after = py_strip(pytree(part._element), containers)
                if before != after:
                    ck.violation("foreign-read:%s.%s" % (r["cls"], r["name"]),
                                 "reading %s.%s changed the document (more than empty containers) when the object's surroundings are in a "
                                 "state only other producers write (%s): %s" % (r["cls"], r["name"], desc, str(tree_delta(before, after))[:400]),
                                 {"entry_point": "%s.%s (accessor)" % (r["cls"], r["name"]), "input": {"kind": k.name, "context": [list(e) for e in edits], "what": desc},
                                  "impl_outcome": str(tree_delta(before, after))[:800]})
    # ---- ... and from the object's own content in ANOTHER ORDER: wherever an element below the object (or the object's
    #      element itself) holds two or more children of the same tag (gradient stops, paragraphs, runs, rows, cells, series,
    #      points ...), those children are reversed in place (each stays in a slot the schema gives that tag), as a document
    #      whose producer did not sort them would have them; every allowed accessor is then read
    stats.update(order_pre_states=0, order_reads=0)
    for k in kinds:
        if k.anchor is None:
            continue
        try:
            prs = k.build()
            obj = k.nav(prs)
            anc = k.anchor(obj)
            swapped = 0
            for el in [anc] + [d for d in anc.iterdescendants() if isinstance(d.tag, str)]:
                groups = {}
                for ch in el:
                    if isinstance(ch.tag, str):
                        groups.setdefault(ch.tag, []).append(ch)
                for tag, chs in groups.items():
                    if len(chs) < 2:
                        continue
                    slots = [el.index(c) for c in chs]
                    for c in chs:
                        el.remove(c)
                    for pos, c in zip(slots, reversed(chs)):
                        el.insert(pos, c)
                    swapped += 1
            if not swapped:
                continue
            obj = k.nav(prs)
            part = c9.part_of(k, prs, obj)
            if part is None:
                continue
            rows = [r for r in (table.for_class(type(obj)) or []) if r["kind"] in ("property", "lazyproperty")
                    and (table.allowed_static(r) or r["sig"] in new_creating or judged_by_observation(r))]
        except Exception:  # noqa
            continue
        stats["order_pre_states"] += 1
        ck.count(("order-read", k.name), True, "foreign-read")
        for r in rows:
            before = py_strip(pytree(part._element), containers)
            try:
                v = getattr(obj, r["name"])
                if hasattr(v, "__len__") and hasattr(v, "__getitem__") and not isinstance(v, (str, bytes)):
                    for i in range(min(len(v), 4)):     # a collection handed back is walked as a reader would walk it
                        v[i]
            except Exception:  # noqa
                continue
            stats["order_reads"] += 1
            after = py_strip(pytree(part._element), containers)
            if before != after:
                ck.violation("foreign-read:%s.%s" % (r["cls"], r["name"]),
                             "reading %s.%s changed the document (more than empty containers) when the repeated children below the object "
                             "are in another order than python-pptx writes them (%d groups reversed): %s"
                             % (r["cls"], r["name"], swapped, str(tree_delta(before, after))[:400]),
                             {"entry_point": "%s.%s (accessor)" % (r["cls"], r["name"]), "input": {"kind": k.name, "context": "repeated children reversed"},
                              "impl_outcome": str(tree_delta(before, after))[:800]})
    return stats


def diag_rows():
    rc, out = _run(["timeout", "600", "coqc", "-Q", ".", "V", "diag/Diag_C12.v"], cwd=COQ)
    if rc != 0:
        return None, out
    rows = {}
    for m in re.finditer(r"\[([^\[\]]*)\]", out):
        nums = [int(x) for x in re.findall(r"(\d+)%N", m.group(1))]
        if nums and nums[0] in (7001, 7002):
            rows[nums[0]] = nums[1:]
    return rows, out


def ensure_runner():
    import fcntl
    exe = os.path.join(COQ, "extract", "run_c12")
    ml = os.path.join(COQ, "extract", "c12.ml")
    if os.path.exists(ml) and (not os.path.exists(exe) or os.path.getmtime(exe) < os.path.getmtime(ml)):
        lock = open(os.path.join(VERIF, ".build.lock"), "w")
        fcntl.flock(lock, fcntl.LOCK_EX)
        try:
            _run(["./extract/build.sh", "c12"], cwd=COQ)
        finally:
            fcntl.flock(lock, fcntl.LOCK_UN)
            lock.close()
    return os.path.exists(exe)


def choose_decks(tier, rng):
    corpus = corpus_paths()
    gens = [g for g, _f in GENERATORS]
    if tier == "thorough":
        return corpus + gens
    must = [p for p in corpus if os.path.basename(p) in ("default.pptx", "ph-unpopulated-placeholders.pptx", "prs-slide-masters.pptx")]
    rest = [p for p in corpus if p not in must]
    charts = [p for p in rest if os.path.basename(p).startswith("cht-")]
    others = [p for p in rest if p not in charts]
    pick = must + rng.sample(charts, min(2, len(charts))) + rng.sample(others, min(2, len(others)))
    return pick + gens


def run(ck, tier, rng):
    import multiprocessing

    # 1. translate from the current tree
    rc, out = _run(["/venv/bin/python", os.path.join(VERIF, "tx", "tx_c12.py")], cwd=VERIF)
    if rc != 0:
        ck.violation("translator", "tx_c12 failed on the current tree: " + out[-600:],
                     {"theorem_or_correspondence": "translator tx_c12 (effect table regeneration)"}, concrete=False)
        return ck.finish("translator failed", TB, ASSUME)
    ck.notes.append(out.strip().split("\n")[-1])
    global _TABLE
    _TABLE = None
    table = _load_table()
    meta = table.meta
    by_id = {r["id"]: r for r in meta["rows"] if r["id"] is not None}
    # 2. prove
    ck.build = coq_build("C12", extra_targets=["proofs/Access_proofs.vo", "gen/GenC12.vo"])
    have_runner = ensure_runner()
    # 3. diagnose
    rows, dout = diag_rows()
    if rows is None:
        ck.notes.append("diagnostics did not compile: " + dout[-300:])
        rows = {}
    failing = [by_id[i] for i in rows.get(7001, []) if i in by_id]
    # 4. unmodelled constructs
    for u in meta["unmodelled"]:
        ck.violation("unmodelled:" + u[:100], "translator met a construct outside the model: " + u,
                     {"theorem_or_correspondence": "C12_no_unmodelled", "construct": u}, concrete=False)
    # 5. observe
    decks = choose_decks(tier, rng)
    n_trav = 10 if tier == "quick" else 24
    jobs = [(d, ck.seed, n_trav, True) for d in decks]
    nproc = max(1, min(8, (os.cpu_count() or 2) - 2, len(jobs)))
    if nproc > 1:
        with multiprocessing.get_context("fork").Pool(nproc) as pool:
            results = pool.map(deck_job, jobs, chunksize=1)
    else:
        results = [deck_job(j) for j in jobs]
    obs = collections.defaultdict(collections.Counter)
    gate = collections.Counter()
    gate_first = {}
    reported = {}
    n_mismatch, n_deckdiff, opened, renamed, saves, trav, trav_calls = 0, 0, 0, 0, 0, 0, 0
    model_cases, model_expect, goa_cases = [], [], []
    cs = table.containers
    it = Interner(meta["containers"])
    csfield = field([it(t) for t in meta["containers"]])
    for res in results:
        if res["error"]:
            ck.notes.append("%s: %s" % (res["deck"], res["error"]))
            if res["deck"].startswith("gen:"):
                ck.violation("generator:" + res["deck"], "generated deck %s could not be built / opened: %s" % (
                    res["deck"], res["error"]), {"theorem_or_correspondence": "corpus generator of checks/c12.py",
                                                 "deck": res["deck"]}, concrete=False)
            continue
        opened += 1
        renamed += bool(res["renamed"])
        saves += res["saves"]
        trav += res["traversals"]
        trav_calls += res["trav_calls"]
        ck.evaluations += res["evals"] + res["trav_calls"]
        ck.nontrivial.update(res["nontrivial"])
        for k, n in res["dist"].items():
            ck.dist[k] = ck.dist.get(k, 0) + n
        for k, c in res["obs"].items():
            for kk, n in c.items():
                obs[tuple(k.split("|"))][kk] += n
        for k, n in res["gateways"].items():
            gate[k] += n
        for k, rec in res.get("gateway_first", {}).items():
            gate_first.setdefault(k, rec)
        for cname in res["outside"]:
            ck.violation("unmodelled-class:" + cname, "an object of class %s was reached by the walk of %s but the class is "
                         "not in the accessor table" % (cname, res["deck"]),
                         {"theorem_or_correspondence": "coverage of the accessor table (tx_c12 PROXY_MODULES)", "class": cname},
                         concrete=False)
        for hb in res["hint_bad"]:
            ck.violation("rt-hint", "assumption of the static analysis contradicted by %s: %s" % (res["deck"], hb),
                         {"theorem_or_correspondence": "tx_c12 RT_HINT (class of the part a relationship type targets)",
                          "deck": res["deck"], "relationship": hb}, concrete=False)
        for f in res["findings"]:
            if f["sig"] in reported:
                reported[f["sig"]] += 1
                continue
            reported[f["sig"]] = 1
            ck.violation(f["sig"], "reading %s.%s (%s, returns %s) changed the document: %s  [deck %s, object %s]" % (
                f["defined_in"], f["accessor"], f["class"], f["returned"], f["detail"][:500], f["deck"], f["object"]),
                {"entry_point": "%s.%s (%s:%s)" % (f["defined_in"], f["accessor"], f["file"], f["line"]),
                 "input": {"deck": f["deck"], "steps": f["steps"], "accessor": f["accessor"], "object": f["object"]},
                 "observed": f["detail"], "expected": "no change of any part other than empty attribute-less containers %s"
                 % sorted(cs)})
        for mm in res["mismatch"]:
            n_mismatch += 1
            ck.violation("prediction:%s.%s" % (mm["defined_in"], mm["accessor"]),
                         "static effect table says %s %s for %s.%s but evaluating it on %s (%s) %s" % (
                             mm["predicted"], mm["predicted_tags"], mm["defined_in"], mm["accessor"], mm["deck"],
                             mm["object"], mm["detail"][:300]),
                         {"theorem_or_correspondence": "correspondence effect table (tx_c12) ~ observed effect",
                          "input": {"deck": mm["deck"], "steps": mm["steps"], "accessor": mm["accessor"], "object": mm["object"]},
                          "model_outcome": mm["predicted"], "impl_outcome": mm["detail"]}, concrete=False)
        for dd in res["deck_diffs"]:
            n_deckdiff += 1
            kind = ("slide-order" if "DIFFERENT ORDER" in dd["difference"] else
                    "relationships" if "relationships of" in dd["difference"] else
                    "parts" if "part names" in dd["difference"] else "xml")
            if res["renamed"]:
                kind = "renamed-slides-relationships"     # one signature for every consequence of the renaming
            ck.violation("deck:" + kind,
                         "deck %s saved after a read-only traversal (seed %d, %d intermediate saves) differs from the deck saved "
                         "straight after opening: %s" % (dd["deck"], dd["traversal_seed"], dd["saves"], dd["difference"][:600]),
                         {"entry_point": "Presentation(...) ; read-only traversal ; Presentation.save",
                          "input": {"deck": dd["deck"], "traversal_seed": dd["traversal_seed"], "saves": dd["saves"],
                                    "est": dd["est"]},
                          "observed": dd["difference"], "expected": "same parts, same relationships, XML equal under strip"})
        for name, tree in res.get("model_cases", []):
            model_cases.append(["strip", csfield, field(enc_tree(tree, it, []))])
            model_expect.append(("strip", res["deck"], name, show_nums(enc_tree(py_strip(tree, cs), it, []))))
        for g in res.get("goa_cases", []):
            goa_cases.append((res["deck"], g))
    # the recorded diagnostics must each be witnessed on the implementation
    for r in failing:
        sig = "accessor:" + r["sig"]
        if sig in reported or any(sig == s for s, _ in ck.known_hits):
            continue
        ck.violation("accessor-unreplayed:" + r["sig"],
                     "%s.%s is judged (returns %s) and its predicted effect is %s (%s) but no deck of this run shows it changing a "
                     "document" % (r["owner"], r["name"], r["ret"], r["level"], "; ".join(r["whats"])[:200]),
                     {"theorem_or_correspondence": "C12_effects_allowed (entry %s of gen/GenC12.v)" % r["id"],
                      "accessor": r["sig"], "why": r["why"]}, concrete=False)
    # unresolved accessors: observation decides
    observed_pure, unexercised = [], []
    for r in meta["rows"]:
        if not r["unres"]:
            continue
        c = obs.get((r["module"], r["cls"], r["name"]))
        if not c:
            if r["surface"]:
                unexercised.append("%s.%s" % (r["cls"], r["name"]))
            continue
        if all(k.endswith("/none") for k in c):
            observed_pure.append("%s.%s" % (r["cls"], r["name"]))
    for u in sorted(set(unexercised)):
        ck.violation("unresolved-unexercised:" + u,
                     "accessor %s is outside the instance theorem (the static analysis could not resolve it) and no deck of this "
                     "run evaluates it" % u, {"theorem_or_correspondence": "fail-closed rule for unresolved accessors", "accessor": u},
                     concrete=False)
    # (c) model correspondence
    diffs = 0
    n_goa = 0
    if have_runner and (model_cases or goa_cases):
        for deck, g in goa_cases:
            sts = []
            for st in g["steps"]:
                if st[0] == "read":
                    sts.append(0)
                elif st[0] == "save":
                    sts.append(4)
                else:
                    _k, path, tag, succ = st
                    sts += [1, len(path)] + list(path) + [it(tag), len(succ)] + [it(s) for s in succ]
            model_cases.append(["run", csfield, field(enc_tree(g["before"], it, [])), field(sts)])
            exp_after = show_nums(enc_tree(g["after"], it, []))
            all_cont = all(st[0] != "goa" or st[2] in cs for st in g["steps"])
            model_expect.append(("run", deck, g, exp_after, all_cont))
            n_goa += 1
            ck.count(("goa", deck, g["part"], tuple(g["log"])), bool(g["log"]), "xmlchemy-history")
            # oracle on the implementation: C12_get_or_add_strip
            if all_cont and py_strip(g["after"], cs) != py_strip(g["before"], cs):
                ck.violation("goa-visible", "real get_or_add calls of container children changed %s of %s under strip: %s" % (
                    g["part"], deck, g["log"]), {"entry_point": "xmlchemy get_or_add_x", "input": {"deck": deck, "part": g["part"],
                                                                                                  "calls": g["log"]},
                                                 "observed": tree_delta(py_strip(g["before"], cs), py_strip(g["after"], cs))})
        for fields_, exp_, klass in synthetic_cases(rng, it, meta["containers"], 300 if tier == "quick" else 3000,
                                                    300 if tier == "quick" else 3000):
            model_cases.append(fields_)
            model_expect.append(("synthetic", klass, fields_[2], exp_))
            ck.count(("syn", fields_[2]), klass != "malformed", "model-" + klass)
        try:
            outs = run_model("C12", model_cases)
        except Exception as e:  # noqa
            outs = None
            ck.notes.append("model runner unavailable: %r" % e)
        if outs is not None:
            first = None
            for exp, mo in zip(model_expect, outs):
                if exp[0] == "strip":
                    ok = mo.strip() == exp[3]
                    ck.count(("strip", exp[1], exp[2]), True, "strip-correspondence")
                elif exp[0] == "synthetic":
                    ok = mo.strip() == exp[3]
                else:
                    f = mo.split("|")
                    ok = len(f) == 5 and f[0].strip() == exp[3] and (not exp[4] or (f[2] == "True" and f[4] == "True"))
                if not ok:
                    diffs += 1
                    if first is None:
                        first = (exp, mo)
            if diffs:
                exp, mo = first
                ck.violation("correspondence",
                             "model/Access.v and lxml/xmlchemy disagree on %d cases, e.g. %s of %s in %s" % (
                                 diffs, exp[0], exp[2]["log"] if exp[0] == "run" else str(exp[2])[:80], exp[1]),
                             {"theorem_or_correspondence": "correspondence Access.v (strip, goa_children at a path, Save) ~ lxml / "
                              "oxml/xmlchemy.py on real part trees", "input": {"deck": exp[1], "case": str(exp[2])[:300]},
                              "model_outcome": mo[:300], "impl_outcome": str(exp[3])[:300]}, concrete=False)
    # ---- reads from FOREIGN pre-states: the corpus cannot hold every schema-valid state an accessor may meet.  For every
    #      property of the C09 catalogue kinds (the plain-data accessors that have a setter) the object is put into the
    #      schema-derived pre-states of checks/c09.py (every enumeration value / optional sibling / choice member of what
    #      the property touches, validated) and the property is READ: the part must not change except by empty containers.
    # accessors the static table NOW predicts to create content although they did not on the tree the baseline
    # (tx/c12_creates_known.json) was recorded on: a gateway that only added an empty container before must not start to
    # write attributes or children.  They are read from the foreign contexts below (search for a failing input); if none of
    # those shows the document changing, the changed prediction itself is reported.
    try:
        creates_known = set(json.load(open(os.path.join(VERIF, "tx", "c12_creates_known.json"))))
    except Exception:  # noqa
        creates_known = None
    # ... and WHAT a gateway writes is tied the same way: an accessor that hands back a proxy (text_frame, font, fill ...) and
    # only added empty, attribute-less elements on the tree tx/c12_gateway_content_known.json was recorded on must not
    # start to write attributes, text or other content when it is merely read
    try:
        content_known = set(json.load(open(os.path.join(VERIF, "tx", "c12_gateway_content_known.json"))))
    except Exception:  # noqa
        content_known = None
    if content_known is not None:
        for sig, rec in sorted(gate_first.items()):
            if sig in content_known or sig.endswith("(documented creating)"):
                continue
            ck.violation("gateway-writes-content:" + sig,
                         "reading %s (it hands back a proxy object) now writes more than empty, attribute-less elements into the document "
                         "(%s, object %s): %s" % (sig, rec.get("deck"), rec.get("object"), str(rec.get("detail"))[:500]),
                         {"entry_point": sig + " (accessor)", "input": {"deck": rec.get("deck"), "object": rec.get("object"), "steps": rec.get("steps")},
                          "impl_outcome": str(rec.get("detail"))[:1200]})
    new_creating = sorted({r["sig"] for r in meta["rows"] if r["level"] == "Creates" and not r["unres"]} - creates_known) if creates_known is not None else []
    fstats = foreign_reads(ck, rng, tier == "quick", set(meta["containers"]), set(new_creating))
    for sig in new_creating:
        if not any(v["sig"] == "foreign-read:" + sig for v in ck.violations):
            ck.violation("new-creating-accessor:" + sig,
                         "the effect table regenerated from the source predicts that reading %s creates content (more than an empty container); it "
                         "did not on the tree tx/c12_creates_known.json was recorded on, and it is not one of the accessors documented as "
                         "creating content; no deck or foreign context of this run showed the document changing" % sig,
                         {"theorem_or_correspondence": "tie tx_c12: accessors predicted Creates = tx/c12_creates_known.json", "accessor": sig}, concrete=False)
    for f in list(reported)[:3]:
        ck.sample({"finding": f})
    for res in results[:4]:
        if not res["error"]:
            ck.sample({"deck": res["deck"], "accessor_evaluations": res["evals"], "traversals": res["traversals"],
                       "traversal_evaluations": res["trav_calls"], "intermediate_saves": res["saves"]})
    any_concrete = any(v["concrete"] for v in ck.violations)
    ck.broken_build(oracle_found_concrete=any_concrete)
    exercised = sum(1 for r in meta["rows"] if obs.get((r["module"], r["cls"], r["name"])))
    lv = collections.Counter("unresolved" if r["unres"] else r["level"] for r in meta["rows"])
    return ck.finish(
        rule="every deck of the tier (quick: default + ph-unpopulated-placeholders + 2 chart decks + 2 other decks drawn by the "
             "seed + 4 generated decks; thorough: all decks under /repo + generated) x every object reachable from the "
             "Presentation through the accessor table x every accessor of its class (snapshot of the whole package around each "
             "evaluation); then per deck 10 (quick) / 24 (thorough) random-order traversals with repetition and 0-3 intermediate "
             "saves compared at ZIP level; non-trivial = the evaluation returned a value (did not raise)",
        trusted_base=TB, assumptions=ASSUME,
        extra={"decks": len(decks), "decks_opened": opened, "decks_with_slide_renaming": renamed,
               "accessor_rows": len(meta["rows"]), "accessor_rows_exercised": exercised, "classes_in_table": len(meta["classes"]),
               "predicted_levels": dict(lv), "containers": meta["containers"], "container_schema_types": meta["container_types"],
               "documented_creating_accepted": meta["documented"],
               "judged_not_allowed_by_diag": [r["sig"] for r in failing],
               "unresolved_observed_pure": sorted(set(observed_pure)),
               "unresolved_rows": sorted({"%s.%s: %s" % (r["cls"], r["name"], r["unres"][0][:90]) for r in meta["rows"] if r["unres"]}),
               "gateway_effects_observed": dict(sorted(gate.items())),
               "prediction_mismatches": n_mismatch, "deck_level_differences": n_deckdiff, "foreign_pre_state_reads": fstats,
               "traversals": trav, "traversal_evaluations": trav_calls, "intermediate_saves": saves,
               "strip_correspondence_cases": len([1 for e in model_expect if e[0] == "strip"]), "xmlchemy_histories": n_goa,
               "correspondence_diffs": diffs, "rt_hints": meta.get("rt_hints", {}), "exhaustive": False},
    )


def replay(rec):
    from pptx import Presentation
    inp = rec["input"]
    table = _load_table()
    data = deck_bytes(inp["deck"])
    if "traversal_seed" in inp:
        prs0 = Presentation(io.BytesIO(data))
        b0 = io.BytesIO()
        prs0.save(b0)
        w = Walk(Presentation(io.BytesIO(data)), table, inp["deck"], "a")
        w.rec(w.prs, "prs", [], 0)
        pure = {k for k, c in w.obs.items() if all(e == "none" for (_kd, e) in c)}
        diffs, saves, calls = traverse_once(data, table, inp["deck"], inp["traversal_seed"], inp["saves"], pure, b0.getvalue(),
                                            inp.get("est", 1000))
        print("deck", inp["deck"], "traversal seed", inp["traversal_seed"], "evaluations", calls, "saves", saves)
        for d in diffs:
            print("DIFFERENCE:", d)
        return 1 if diffs else 0
    prs = Presentation(io.BytesIO(data))
    obj = navigate(prs, inp["steps"])
    snap = Snap(prs)
    before = snap.take()
    try:
        v = getattr(obj, inp["accessor"])
        print("value:", repr(v)[:200])
    except Exception as e:  # noqa
        print("raised:", repr(e))
    after = snap.take()
    eff = classify(before, after, table.containers)
    print("deck:", inp["deck"], " object:", inp["object"], " accessor:", inp["accessor"])
    print("observed effect:", eff)
    return 0 if eff[0] == "none" else 1


CLAIM = {
    "tech": "Coq proof over a Gallina model of XML trees, strip and accessor effects (all trees, positions, orders, repetitions, "
            "saves) + instance theorem by vm_compute over an effect table regenerated from /repo each run by a static call-graph "
            "analysis + dynamic observation of every accessor on every deck + reads of every settable plain-data property from "
            "schema-derived foreign pre-states (states only other producers write) + ZIP-level deck comparison + extracted-model "
            "correspondence of strip / get_or_add on real part trees",
    "text": "Generic theorems (closed under the global context): an attribute-less, child-less element of a container tag added "
            "anywhere in any tree is invisible under strip (C12_get_or_add_strip, C12_add_anywhere_strip); any list of accessor "
            "evaluations with effects Pure / AddsEmpty of containers, in any order and repetition, realised by any xmlchemy "
            "steps, with any interleaved saves, leaves every part strip-equal, keeps part names, and every intermediate save "
            "writes a strip-equal package (C12_traversal); strip is idempotent and removes exactly the subtrees in which "
            "nothing carries meaning (C12_strip_idempotent, C12_strip_preserves_meaning); an element carrying meaning is never "
            "invisible (C12_creates_visible). Instance C12_effects_allowed: every accessor of the 144 proxy classes (1164 "
            "rows re-extracted from the source) is a gateway, a documented creating accessor, or Pure / AddsEmpty of the "
            "audited containers. Tie: the whole object graph of every deck is walked with the package snapshotted around "
            "each evaluation (observed effect must be within the predicted one; a plain-data or collection accessor that "
            "changes anything but empty containers is a violation), random-order traversals with saves are compared at ZIP "
            "level with a deck saved straight after opening, and model strip / get_or_add run against lxml / xmlchemy on every "
            "part tree.",
    "note": "PARTIAL: the effect table is a static analysis by name/type whose soundness is observed, not proved; accessors it "
            "cannot resolve (listed in the evidence) are judged by observation only; formatting gateways are exercised and "
            "reported, not judged; the container whitelist is an audited reading of the schema; Font.color and "
            "Presentation.core_properties are NOT accepted as documented-creating (their docstrings are silent) -- they are "
            "gateways.",
    "ref": "6/C12",
}
