(** C07 lemmas over model/ChartData.v. *)
From Coq Require Import Permutation Sorted.
From V.lib Require Import Prelude Wire Calendar.
From V.model Require Import ChartData.
Local Open Scope Z_scope.

(* ================================================================== generic list facts *)

Lemma map_seq_eq {A} (f : nat -> A) (l : list A) s :
  (forall i x, nth_error l i = Some x -> f (s + i)%nat = x) ->
  map f (seq s (length l)) = l.
Proof.
  revert s; induction l as [|a l IH]; intros s H; simpl; auto.
  f_equal.
  - specialize (H 0%nat a eq_refl). now rewrite Nat.add_0_r in H.
  - apply IH. intros i x Hi. specialize (H (S i) x Hi). now rewrite Nat.add_succ_r in H.
Qed.

Lemma find_app {A} (f : A -> bool) a b :
  find f (a ++ b) = match find f a with Some x => Some x | None => find f b end.
Proof. induction a as [|x a IH]; simpl; auto. destruct (f x); auto. Qed.

Lemma first_some_app {A B} (f : A -> option B) a b :
  first_some f (a ++ b) = match first_some f a with Some x => Some x | None => first_some f b end.
Proof. induction a as [|x a IH]; simpl; auto. destruct (f x); auto. Qed.

Lemma first_some_none {A B} (f : A -> option B) l :
  (forall x, In x l -> f x = None) -> first_some f l = None.
Proof.
  induction l as [|x l IH]; simpl; intros H; auto.
  rewrite (H x) by auto. apply IH; auto.
Qed.

(* ================================================================== numeric caches *)

Lemma find_pt_below vals : forall k j, j < k -> find_pt j (pts_from k vals) = None.
Proof.
  induction vals as [|o r IH]; intros k j Hj; simpl; auto.
  destruct o as [v|]; simpl.
  - destruct (Z.eqb_spec k j); [lia|]. apply IH; lia.
  - apply IH; lia.
Qed.

Lemma find_pt_pts_from vals : forall k (i : nat),
  find_pt (k + Z.of_nat i) (pts_from k vals) =
  match nth_error vals i with
  | Some (Some v) => Some (mkPt (k + Z.of_nat i) v)
  | _ => None
  end.
Proof.
  induction vals as [|o r IH]; intros k i; simpl.
  - destruct i; reflexivity.
  - destruct i as [|i].
    + simpl. rewrite Z.add_0_r. destruct o as [v|]; simpl.
      * rewrite Z.eqb_refl. reflexivity.
      * apply find_pt_below; lia.
    + replace (k + Z.of_nat (S i)) with ((k + 1) + Z.of_nat i) by lia. simpl nth_error.
      destruct o as [v|]; simpl.
      * destruct (Z.eqb_spec k (k + 1 + Z.of_nat i)); [lia|]. apply IH.
      * apply IH.
Qed.

(** Reading back the cache the writers build gives the values, None where None was. *)
Lemma read_num_cache fmt vals : read_cache (num_cache fmt vals) = vals.
Proof.
  unfold read_cache, num_cache, cache_count; cbn [ca_pts ca_counts hd].
  rewrite Nat2Z.id. apply map_seq_eq. intros i x Hi.
  pose proof (find_pt_pts_from vals 0 i) as H. rewrite Z.add_0_l in H.
  rewrite Nat.add_0_l, H, Hi. destruct x; reflexivity.
Qed.

Definition num_ok (vals : list (option num)) : Prop := forall v, In (Some v) vals -> v <> [].

Lemma values_res_ok vals : num_ok vals -> values_res vals = Ok vals.
Proof.
  unfold values_res, num_ok; intros H.
  match goal with |- (if ?b then _ else _) = _ => destruct b eqn:E end; auto.
  apply existsb_exists in E. destruct E as [o [Hin Ho]].
  destruct o as [[|c v]|]; try discriminate. exfalso. now apply (H [] Hin).
Qed.

(* ================================================================== names *)

Lemma hd_tx_names name : hd [] (tx_names name) = name.
Proof. unfold tx_names. destruct name; reflexivity. Qed.

(* ================================================================== category trees *)

Section tree_ind.
  Variable P : cat_tree -> Prop.
  Hypothesis H : forall l subs, Forall P subs -> P (CatNode l subs).
  Fixpoint cat_tree_ind' (t : cat_tree) : P t :=
    match t with
    | CatNode l subs =>
        H l subs ((fix go (f : list cat_tree) : Forall P f :=
                     match f with
                     | [] => Forall_nil P
                     | s :: f' => Forall_cons s (cat_tree_ind' s) (go f')
                     end) subs)
    end.
End tree_ind.

(** Specification side: root-to-leaf label paths of a category forest. *)
Fixpoint paths_t (t : cat_tree) : list (list label) :=
  match t with
  | CatNode l subs =>
      match subs with
      | [] => [[l]]
      | _ => map (cons l) ((fix go (f : list cat_tree) : list (list label) :=
                              match f with [] => [] | s :: f' => paths_t s ++ go f' end) subs)
      end
  end.
Fixpoint paths_f (f : list cat_tree) : list (list label) :=
  match f with [] => [] | s :: f' => paths_t s ++ paths_f f' end.

(** The categories at depth [k] with their leaf counts. *)
Fixpoint segs_t (k : nat) (t : cat_tree) : list (label * Z) :=
  match t with
  | CatNode l subs =>
      match k with
      | O => [(l, leaves t)]
      | S k' => (fix go (f : list cat_tree) : list (label * Z) :=
                   match f with [] => [] | s :: f' => segs_t k' s ++ go f' end) subs
      end
  end.
Fixpoint segs_f (k : nat) (f : list cat_tree) : list (label * Z) :=
  match f with [] => [] | s :: f' => segs_t k s ++ segs_f k f' end.

Fixpoint idxs (off : Z) (sg : list (label * Z)) : list (Z * label) :=
  match sg with [] => [] | (l, c) :: r => (off, l) :: idxs (off + c) r end.
Fixpoint total (sg : list (label * Z)) : Z :=
  match sg with [] => 0 | x :: r => snd x + total r end.
Fixpoint expand (sg : list (label * Z)) : list label :=
  match sg with [] => [] | x :: r => repeat (fst x) (Z.to_nat (snd x)) ++ expand r end.

Lemma leaves_node l subs :
  leaves (CatNode l subs) = match subs with [] => 1 | _ => leaves_f subs end.
Proof.
  destruct subs as [|s subs]; [reflexivity|].
  change (leaves (CatNode l (s :: subs))) with
    (leaves s + (fix go (l : list cat_tree) : Z :=
                   match l with [] => 0 | s :: l' => leaves s + go l' end) subs).
  simpl leaves_f. f_equal.
Qed.

Lemma level_t_S k off l subs : level_t (S k) off (CatNode l subs) = level_f k off subs.
Proof.
  simpl. revert off. induction subs as [|a subs IH]; intros off; simpl; [reflexivity|].
  f_equal. apply IH.
Qed.

Lemma height_node l subs : height (CatNode l subs) = S (height_f subs).
Proof. simpl. f_equal. Qed.

Lemma paths_node l subs :
  paths_t (CatNode l subs) = match subs with [] => [[l]] | _ => map (cons l) (paths_f subs) end.
Proof.
  destruct subs as [|s subs]; [reflexivity|].
  change (paths_t (CatNode l (s :: subs))) with
    (map (cons l) (paths_t s ++ (fix go (f : list cat_tree) : list (list label) :=
                                   match f with [] => [] | s :: f' => paths_t s ++ go f' end) subs)).
  simpl paths_f. reflexivity.
Qed.

Lemma segs_t_S k l subs : segs_t (S k) (CatNode l subs) = segs_f k subs.
Proof. simpl. induction subs as [|a subs IH]; simpl; try congruence; reflexivity. Qed.

Lemma leaves_pos t : 1 <= leaves t.
Proof.
  induction t as [l subs IH] using cat_tree_ind'.
  rewrite leaves_node. destruct subs as [|s subs]; [lia|].
  inversion IH as [|? ? Hs Hr]; subst. simpl.
  assert (0 <= leaves_f subs).
  { clear -Hr. induction Hr; simpl; lia. }
  lia.
Qed.

Lemma leaves_f_nonneg f : 0 <= leaves_f f.
Proof. induction f as [|s f IH]; simpl; [lia|]. pose proof (leaves_pos s). lia. Qed.

Definition all_depth (d : nat) (f : list cat_tree) : Prop :=
  Forall (fun s => tree_depth s = Some d) f.

Lemma forallb_depth d0 rest :
  forallb (fun s => match tree_depth s with Some d => Nat.eqb d d0 | None => false end) rest = true
  <-> all_depth d0 rest.
Proof.
  unfold all_depth. rewrite forallb_forall, Forall_forall. split; intros H x Hx; specialize (H x Hx).
  - destruct (tree_depth x); [|discriminate]. apply Nat.eqb_eq in H. now subst.
  - rewrite H. apply Nat.eqb_refl.
Qed.

Lemma tree_depth_node l subs D :
  tree_depth (CatNode l subs) = Some D <->
  (subs = [] /\ D = 1%nat) \/ (subs <> [] /\ exists D', D = S D' /\ all_depth D' subs).
Proof.
  destruct subs as [|s0 rest].
  - simpl. split.
    + intros H; inversion H; auto.
    + intros [[_ ->]|[H _]]; [reflexivity|congruence].
  - cbn [tree_depth]. fold tree_depth. split.
    + intros H. right. split; [discriminate|].
      destruct (tree_depth s0) as [d0|] eqn:E0; [|discriminate].
      destruct (forallb _ rest) eqn:Ef; [|discriminate].
      inversion H; subst. exists d0. split; auto.
      constructor; auto. now apply forallb_depth.
    + intros [[H _]|[_ [D' [-> Hall]]]]; [discriminate|].
      inversion Hall as [|? ? H0 Hr]; subst. rewrite H0.
      apply forallb_depth in Hr. now rewrite Hr.
Qed.

Lemma forest_depth_all f D : f <> [] -> (forest_depth f = Some D <-> all_depth D f).
Proof.
  destruct f as [|t0 rest]; [congruence|]. intros _. cbn [forest_depth]. split.
  - intros H. destruct (tree_depth t0) as [d0|] eqn:E0; [|discriminate].
    destruct (forallb _ rest) eqn:Ef; [|discriminate]. inversion H; subst.
    constructor; auto. now apply forallb_depth.
  - intros Hall. inversion Hall as [|? ? H0 Hr]; subst. rewrite H0.
    apply forallb_depth in Hr. now rewrite Hr.
Qed.

Lemma tree_depth_pos t D : tree_depth t = Some D -> (1 <= D)%nat.
Proof.
  destruct t as [l subs]. rewrite tree_depth_node.
  intros [[_ ->]|[_ [D' [-> _]]]]; lia.
Qed.

Lemma height_f_all f D : f <> [] -> Forall (fun s => height s = D) f -> height_f f = D.
Proof.
  induction f as [|a f IH]; [congruence|]. intros _ Hall.
  inversion Hall as [|? ? Ha Hf]; subst. simpl.
  destruct f as [|b f]; [simpl; lia|]. rewrite IH by (auto; discriminate). lia.
Qed.

Lemma height_depth t : forall D, tree_depth t = Some D -> height t = D.
Proof.
  induction t as [l subs IH] using cat_tree_ind'. intros D HD.
  rewrite height_node. apply tree_depth_node in HD.
  destruct HD as [[-> ->]|[Hne [D' [-> Hall]]]]; [reflexivity|].
  f_equal. apply height_f_all; auto.
  unfold all_depth in Hall. rewrite Forall_forall in *. intros s Hs. apply IH; auto.
Qed.

(* ---- levels: idx = first-leaf offset ---- *)

Lemma idxs_app off a b : idxs off (a ++ b) = idxs off a ++ idxs (off + total a) b.
Proof.
  revert off; induction a as [|[l c] a IH]; intros off; simpl.
  - now rewrite Z.add_0_r.
  - f_equal. rewrite IH. do 2 f_equal. lia.
Qed.
Lemma total_app a b : total (a ++ b) = total a + total b.
Proof. induction a as [|x a IH]; simpl; lia. Qed.
Lemma expand_app a b : expand (a ++ b) = expand a ++ expand b.
Proof. induction a as [|x a IH]; simpl; [reflexivity|]. now rewrite IH, app_assoc. Qed.

Definition counts_pos (sg : list (label * Z)) : Prop := Forall (fun x => 1 <= snd x) sg.

(** In a forest of uniform depth D, for every level k below D: the (idx, label) pairs the
    data classes yield are the level's categories laid end to end, each covering its leaf
    count, and together they cover all leaves. *)
Lemma level_t_segs t : forall D k off, tree_depth t = Some D -> (k < D)%nat ->
  level_t k off t = idxs off (segs_t k t) /\ total (segs_t k t) = leaves t /\ counts_pos (segs_t k t).
Proof.
  induction t as [l subs IH] using cat_tree_ind'. intros D k off HD Hk.
  destruct k as [|k].
  - cbn [level_t segs_t idxs total snd]. repeat split; try lia.
    constructor; [|constructor]. apply leaves_pos.
  - rewrite level_t_S, segs_t_S, leaves_node.
    apply tree_depth_node in HD. destruct HD as [[-> ->]|[Hne [D' [-> Hall]]]]; [lia|].
    assert (Hk' : (k < D')%nat) by lia.
    assert (level_f k off subs = idxs off (segs_f k subs) /\ total (segs_f k subs) = leaves_f subs
            /\ counts_pos (segs_f k subs)) as Hf.
    { clear Hne. revert off. induction subs as [|s subs IHs]; intros off.
      - simpl. repeat split; constructor.
      - inversion IH as [|? ? Hs Hr]; inversion Hall as [|? ? Ds Dr]; subst.
        destruct (Hs D' k off Ds Hk') as [E1 [E2 E3]].
        destruct (IHs Hr Dr (off + leaves s)) as [F1 [F2 F3]].
        simpl. rewrite idxs_app, total_app, E1, E2, F1, F2. repeat split.
        apply Forall_app; auto. }
    destruct subs; [congruence|]. exact Hf.
Qed.

Lemma level_f_segs f : forall D k off, all_depth D f -> (k < D)%nat ->
  level_f k off f = idxs off (segs_f k f) /\ total (segs_f k f) = leaves_f f /\ counts_pos (segs_f k f).
Proof.
  induction f as [|s f IH]; intros D k off Hall Hk.
  - simpl. repeat split; constructor.
  - inversion Hall as [|? ? Ds Dr]; subst.
    destruct (level_t_segs s D k off Ds Hk) as [E1 [E2 E3]].
    destruct (IH D k (off + leaves s) Dr Hk) as [F1 [F2 F3]].
    simpl. rewrite idxs_app, total_app, E1, E2, F1, F2. repeat split. apply Forall_app; auto.
Qed.

(* ---- the label at level k above each leaf = k-th label of the leaf's path ---- *)

Definition dlabel : label := LStr [].

Lemma length_paths_t t : Z.of_nat (length (paths_t t)) = leaves t.
Proof.
  induction t as [l subs IH] using cat_tree_ind'.
  rewrite paths_node, leaves_node. destruct subs as [|s subs]; [reflexivity|].
  rewrite map_length. revert IH. generalize (s :: subs) as f. clear. intros f IH.
  induction IH as [|a f Ha Hf IHf]; simpl; [reflexivity|].
  rewrite app_length, Nat2Z.inj_add. lia.
Qed.
Lemma length_paths_f f : Z.of_nat (length (paths_f f)) = leaves_f f.
Proof.
  induction f as [|a f IH]; simpl; [reflexivity|].
  rewrite app_length, Nat2Z.inj_add, length_paths_t. lia.
Qed.

Lemma expand_segs_t t : forall D k, tree_depth t = Some D -> (k < D)%nat ->
  expand (segs_t k t) = map (fun p => nth k p dlabel) (paths_t t).
Proof.
  induction t as [l subs IH] using cat_tree_ind'. intros D k HD Hk.
  destruct k as [|k].
  - cbn [segs_t expand fst snd]. rewrite app_nil_r, <- length_paths_t, Nat2Z.id.
    rewrite paths_node. destruct subs as [|s subs]; [reflexivity|].
    rewrite map_length, map_map. cbn [nth].
    generalize (paths_f (s :: subs)). intros ps. induction ps; simpl; congruence.
  - rewrite segs_t_S, paths_node.
    apply tree_depth_node in HD. destruct HD as [[-> ->]|[Hne [D' [-> Hall]]]]; [lia|].
    assert (Hk' : (k < D')%nat) by lia.
    destruct subs as [|s subs]; [congruence|]. clear Hne.
    rewrite map_map. cbn [nth]. revert IH Hall. generalize (s :: subs) as f. intros f IH Hall.
    induction f as [|a f IHf]; [reflexivity|].
    inversion IH; inversion Hall; subst. simpl.
    rewrite expand_app, map_app. f_equal; eauto.
Qed.
Lemma expand_segs_f f : forall D k, all_depth D f -> (k < D)%nat ->
  expand (segs_f k f) = map (fun p => nth k p dlabel) (paths_f f).
Proof.
  induction f as [|a f IH]; intros D k Hall Hk; [reflexivity|].
  inversion Hall; subst. simpl. rewrite expand_app, map_app. f_equal; eauto using expand_segs_t.
Qed.

Lemma paths_t_length t : forall D, tree_depth t = Some D -> Forall (fun p => length p = D) (paths_t t).
Proof.
  induction t as [l subs IH] using cat_tree_ind'. intros D HD.
  rewrite paths_node. apply tree_depth_node in HD.
  destruct HD as [[-> ->]|[Hne [D' [-> Hall]]]]; [repeat constructor|].
  destruct subs as [|s subs]; [congruence|]. clear Hne.
  revert IH Hall. generalize (s :: subs) as f. intros f IH Hall.
  apply Forall_forall. intros p Hp. apply in_map_iff in Hp. destruct Hp as [q [<- Hq]]. simpl. f_equal.
  induction f as [|a f IHf]; [destruct Hq|].
  inversion IH; inversion Hall; subst. simpl in Hq. apply in_app_or in Hq. destruct Hq as [Hq|Hq].
  - specialize (H1 D' H5). rewrite Forall_forall in H1. now apply H1.
  - now apply IHf.
Qed.
Lemma paths_f_length f D : all_depth D f -> Forall (fun p => length p = D) (paths_f f).
Proof.
  induction f as [|a f IH]; intros Hall; [constructor|].
  inversion Hall; subst. simpl. apply Forall_app. split; auto using paths_t_length.
Qed.

(* ---- the parent scan of Categories._parentage finds the enclosing category ---- *)

Section scan.
  Variable tau : label -> str.
  Definition tau' (il : Z * label) : Z * str := (fst il, tau (snd il)).

  Lemma scan_parent_segs sg : forall off (j : nat) cur, counts_pos sg ->
    Z.of_nat j < total sg ->
    snd (scan_parent (off + Z.of_nat j) (map tau' (idxs off sg)) cur) = tau (nth j (expand sg) dlabel).
  Proof.
    induction sg as [|[l c] sg IH]; intros off j cur Hpos Hj; simpl in Hj; [lia|].
    inversion Hpos as [|? ? Hc Hr]; subst. simpl in Hc.
    cbn [idxs map scan_parent tau' fst snd expand].
    destruct (Z.ltb_spec (off + Z.of_nat j) off) as [Hlt|_]; [lia|].
    destruct (Z.ltb_spec (Z.of_nat j) c) as [Hin|Hout].
    - (* the leaf is under this category: the scan stops at the next one *)
      rewrite app_nth1 by (rewrite repeat_length; lia).
      rewrite (nth_indep _ _ l) by (rewrite repeat_length; lia).
      rewrite nth_repeat.
      destruct sg as [|[l2 c2] sg]; [reflexivity|].
      cbn [idxs map scan_parent tau' fst snd].
      destruct (Z.ltb_spec (off + Z.of_nat j) (off + c)); [reflexivity|lia].
    - rewrite app_nth2 by (rewrite repeat_length; lia). rewrite repeat_length.
      replace (off + Z.of_nat j) with ((off + c) + Z.of_nat (j - Z.to_nat c)) by lia.
      apply IH; auto. lia.
  Qed.

  (** [parentage] over a stack of levels, each given by its segments. *)
  Lemma parentage_segs (sgs : list (list (label * Z))) : forall (j : nat) acc,
    Forall (fun sg => counts_pos sg /\ Z.of_nat j < total sg) sgs ->
    parentage (Z.of_nat j) acc (map (fun sg => map tau' (idxs 0 sg)) sgs)
    = acc ++ map (fun sg => tau (nth j (expand sg) dlabel)) sgs.
  Proof.
    induction sgs as [|sg sgs IH]; intros j acc Hall; simpl; [now rewrite app_nil_r|].
    inversion Hall as [|? ? [Hpos Hj] Hr]; subst.
    destruct sg as [|[l c] sg]; [simpl in Hj; lia|].
    change (map tau' (idxs 0 ((l, c) :: sg))) with (tau' (0, l) :: map tau' (idxs (0 + c) sg)).
    cbn [parentage].
    change (tau' (0, l) :: map tau' (idxs (0 + c) sg)) with (map tau' (idxs 0 ((l, c) :: sg))).
    pose proof (scan_parent_segs ((l, c) :: sg) 0 j (tau' (0, l)) Hpos Hj) as Hs.
    rewrite Z.add_0_l in Hs. rewrite Hs, IH by auto. now rewrite <- app_assoc.
  Qed.
End scan.

(* ---- flattened labels of written levels = root-to-leaf paths ---- *)

Lemma leaf_segs_t t : forall k, tree_depth t = Some (S k) -> Forall (fun x => snd x = 1) (segs_t k t).
Proof.
  induction t as [l subs IH] using cat_tree_ind'. intros k HD.
  apply tree_depth_node in HD. destruct k as [|k].
  - destruct HD as [[-> _]|[Hne [D' [E Hall]]]].
    + repeat constructor.
    + injection E as <-. destruct subs as [|s subs]; [congruence|].
      inversion Hall as [|? ? Hs _]; subst. apply tree_depth_pos in Hs. lia.
  - destruct HD as [[_ E]|[Hne [D' [E Hall]]]]; [discriminate|]. injection E as <-.
    rewrite segs_t_S. clear Hne. induction subs as [|s subs IHs]; [constructor|].
    inversion IH; inversion Hall; subst. simpl. apply Forall_app. split; auto.
Qed.
Lemma leaf_segs_f f k : all_depth (S k) f -> Forall (fun x => snd x = 1) (segs_f k f).
Proof.
  induction f as [|s f IH]; intros Hall; [constructor|].
  inversion Hall; subst. simpl. apply Forall_app. split; auto using leaf_segs_t.
Qed.

Lemma idxs_ones sg : forall off, Forall (fun x => snd x = 1) sg ->
  idxs off sg = map (fun j => (off + Z.of_nat j, nth j (expand sg) dlabel)) (seq 0 (length sg))
  /\ total sg = Z.of_nat (length sg).
Proof.
  induction sg as [|[l c] sg IH]; intros off Hall; [split; reflexivity|].
  inversion Hall as [|? ? Hc Hr]; subst. simpl in Hc. subst c.
  destruct (IH (off + 1) Hr) as [E1 E2].
  cbn [idxs length seq map total snd expand fst]. rewrite E1, E2. split; [|lia].
  rewrite Z.add_0_r. f_equal. rewrite <- seq_shift, map_map. apply map_ext. intros j.
  f_equal. lia.
Qed.

Lemma rev_seq_S n : rev (seq 0 (S n)) = n :: rev (seq 0 n).
Proof. rewrite seq_S, rev_app_distr. reflexivity. Qed.

Lemma nth_map_in {A B} (g : A -> B) l j dA dB : (j < length l)%nat -> nth j (map g l) dB = g (nth j l dA).
Proof. intros H. rewrite (nth_indep _ dB (g dA)) by (now rewrite map_length). apply map_nth. Qed.

Lemma map_nth_seq {A} (p : list A) d : map (fun k => nth k p d) (seq 0 (length p)) = p.
Proof. apply map_seq_eq. intros i x Hi. simpl. now apply nth_error_nth. Qed.

Lemma levels_uniform f D : f <> [] -> all_depth D f ->
  levels f = map (fun k => level_f k 0 f) (rev (seq 0 D)).
Proof.
  intros Hne Hall. unfold levels. destruct f as [|t f]; [congruence|].
  rewrite (height_f_all (t :: f) D); auto.
  unfold all_depth in Hall. rewrite Forall_forall in *. intros s Hs. apply height_depth; auto.
Qed.

Theorem flattened_levels tau f D : f <> [] -> all_depth D f ->
  flattened_of_levels (map (map (tau' tau)) (levels f)) = map (map tau) (paths_f f).
Proof.
  intros Hne Hall. rewrite (levels_uniform f D) by auto.
  destruct D as [|D1].
  { destruct f as [|t f]; [congruence|]. inversion Hall as [|? ? Ht _]; subst.
    apply tree_depth_pos in Ht. lia. }
  rewrite rev_seq_S. cbn [map flattened_of_levels].
  destruct (level_f_segs f (S D1) D1 0 Hall ltac:(lia)) as [EL [ET EP]].
  pose proof (leaf_segs_f f D1 Hall) as Hones.
  destruct (idxs_ones (segs_f D1 f) 0 Hones) as [EI EN].
  set (n := length (segs_f D1 f)) in *.
  assert (Hn : n = length (paths_f f)).
  { apply Nat2Z.inj. rewrite length_paths_f, <- ET. lia. }
  (* the parent levels, as segments *)
  assert (Hrest : map (map (tau' tau)) (map (fun k => level_f k 0 f) (rev (seq 0 D1)))
          = map (fun sg => map (tau' tau) (idxs 0 sg)) (map (fun k => segs_f k f) (rev (seq 0 D1)))).
  { rewrite !map_map. apply map_ext_in. intros k Hk. apply in_rev, in_seq in Hk.
    destruct (level_f_segs f (S D1) k 0 Hall ltac:(lia)) as [E _]. now rewrite E. }
  rewrite Hrest, EL, EI, !map_map. rewrite Hn.
  rewrite <- (map_length (map tau) (paths_f f)).
  apply map_seq_eq. intros j p' Hj. rewrite Nat.add_0_l. cbn [tau' fst snd].
  rewrite Z.add_0_l.
  rewrite nth_error_map in Hj. destruct (nth_error (paths_f f) j) as [p|] eqn:Hp; [|discriminate].
  injection Hj as <-.
  assert (Hjl : (j < length (paths_f f))%nat) by (apply nth_error_Some; congruence).
  rewrite <- (map_map (fun k => segs_f k f) (fun sg => map (tau' tau) (idxs 0 sg))).
  rewrite parentage_segs.
  2:{ apply Forall_forall. intros sg Hsg. apply in_map_iff in Hsg. destruct Hsg as [k [<- Hk]].
      apply in_rev, in_seq in Hk.
      destruct (level_f_segs f (S D1) k 0 Hall ltac:(lia)) as [_ [T P]]. split; auto.
      rewrite T, <- length_paths_f. lia. }
  (* every label of the tuple is the path's label at that depth *)
  rewrite map_map.
  assert (Hlab : forall k, (k < S D1)%nat ->
            tau (nth j (expand (segs_f k f)) dlabel) = tau (nth k p dlabel)).
  { intros k Hk. rewrite (expand_segs_f f (S D1) k) by auto.
    rewrite (nth_map_in _ _ _ [] dlabel) by auto. f_equal. f_equal.
    now apply nth_error_nth. }
  rewrite Hlab by lia.
  rewrite (map_ext_in _ (fun k => tau (nth k p dlabel))).
  2:{ intros k Hk. apply in_rev, in_seq in Hk. apply Hlab. lia. }
  change ([tau (nth D1 p dlabel)] ++ map (fun k => tau (nth k p dlabel)) (rev (seq 0 D1)))
    with (map (fun k => tau (nth k p dlabel)) (D1 :: rev (seq 0 D1))).
  rewrite <- rev_seq_S, map_rev, rev_involutive.
  assert (Hlen : length p = S D1).
  { pose proof (paths_f_length f (S D1) Hall) as HF. rewrite Forall_forall in HF.
    apply HF. eapply nth_error_In; eauto. }
  rewrite <- Hlen, <- map_map, map_nth_seq. reflexivity.
Qed.

(* ================================================================== stable sort by a key *)

Section sorting.
  Context {A : Type} (key : A -> Z).
  Definition le_key (a b : A) : Prop := key a <= key b.

  Lemma insert_by_perm x l : Permutation (insert_by key x l) (x :: l).
  Proof.
    induction l as [|y l IH]; simpl; auto.
    destruct (key x <=? key y); auto.
    eapply perm_trans; [apply perm_skip, IH|apply perm_swap].
  Qed.
  Lemma sort_by_perm l : Permutation (sort_by key l) l.
  Proof.
    induction l as [|x l IH]; simpl; auto.
    eapply perm_trans; [apply insert_by_perm|]. now apply perm_skip.
  Qed.
  Lemma sort_by_length l : length (sort_by key l) = length l.
  Proof. apply Permutation_length, sort_by_perm. Qed.
  Lemma sort_by_in x l : In x (sort_by key l) <-> In x l.
  Proof. split; apply Permutation_in; [|symmetry]; apply sort_by_perm. Qed.

  Lemma insert_by_sorted x l : StronglySorted le_key l -> StronglySorted le_key (insert_by key x l).
  Proof.
    induction l as [|y l IH]; intros Hs; simpl.
    - repeat constructor.
    - inversion Hs as [|? ? Hl Hy]; subst.
      destruct (Z.leb_spec (key x) (key y)) as [Hle|Hgt].
      + constructor; auto. constructor; [exact Hle|].
        rewrite Forall_forall in *. intros z Hz. specialize (Hy z Hz). unfold le_key in *. lia.
      + constructor; auto. rewrite Forall_forall in *. intros z Hz.
        apply (Permutation_in _ (insert_by_perm x l)) in Hz. destruct Hz as [<-|Hz].
        * unfold le_key; lia.
        * now apply Hy.
  Qed.
  Lemma sort_by_sorted l : StronglySorted le_key (sort_by key l).
  Proof. induction l as [|x l IH]; simpl; [constructor|]. now apply insert_by_sorted. Qed.

  Lemma insert_by_first x l : (forall y, In y l -> key x <= key y) -> insert_by key x l = x :: l.
  Proof.
    destruct l as [|y l]; simpl; auto. intros H.
    destruct (Z.leb_spec (key x) (key y)); auto. specialize (H y (or_introl eq_refl)). lia.
  Qed.
  Lemma sort_by_id l : StronglySorted le_key l -> sort_by key l = l.
  Proof.
    induction l as [|x l IH]; intros Hs; simpl; auto.
    inversion Hs as [|? ? Hl Hx]; subst. rewrite IH by auto.
    apply insert_by_first. rewrite Forall_forall in Hx. exact Hx.
  Qed.

  Lemma insert_by_filter f x s : StronglySorted le_key s ->
    filter f (insert_by key x s) = if f x then insert_by key x (filter f s) else filter f s.
  Proof.
    induction s as [|y s IH]; intros Hs; simpl.
    - destruct (f x); reflexivity.
    - inversion Hs as [|? ? Hl Hy]; subst.
      destruct (Z.leb_spec (key x) (key y)) as [Hle|Hgt]; simpl.
      + destruct (f x) eqn:Fx; auto.
        symmetry. apply insert_by_first. intros z Hz.
        assert (In z (y :: s)) as Hz'.
        { destruct (f y); [destruct Hz as [<-|Hz]; [now left|right]|right];
            apply filter_In in Hz; tauto. }
        destruct Hz' as [<-|Hz']; [exact Hle|].
        rewrite Forall_forall in Hy. specialize (Hy z Hz'). unfold le_key in Hy. lia.
      + rewrite IH by auto. destruct (f y) eqn:Fy, (f x) eqn:Fx; simpl; auto.
        destruct (Z.leb_spec (key x) (key y)); [lia|reflexivity].
  Qed.
  Lemma sort_by_filter f l : sort_by key (filter f l) = filter f (sort_by key l).
  Proof.
    induction l as [|x l IH]; simpl; auto.
    rewrite insert_by_filter by apply sort_by_sorted.
    destruct (f x); simpl; now rewrite IH.
  Qed.

  Lemma insert_by_last x s : (forall y, In y s -> key y < key x) -> insert_by key x s = s ++ [x].
  Proof.
    induction s as [|y s IH]; intros H; simpl; auto.
    destruct (Z.leb_spec (key x) (key y)) as [Hle|_].
    - specialize (H y (or_introl eq_refl)). lia.
    - f_equal. apply IH. intros z Hz. apply H. now right.
  Qed.
  Lemma insert_by_snoc y s x : key y < key x -> insert_by key y (s ++ [x]) = insert_by key y s ++ [x].
  Proof.
    intros H. induction s as [|a s IH]; simpl.
    - destruct (Z.leb_spec (key y) (key x)); [reflexivity|lia].
    - destruct (key y <=? key a); [reflexivity|]. now rewrite IH.
  Qed.
  Lemma sort_by_max l1 l2 x : (forall y, In y (l1 ++ l2) -> key y < key x) ->
    sort_by key (l1 ++ x :: l2) = sort_by key (l1 ++ l2) ++ [x].
  Proof.
    induction l1 as [|a l1 IH]; intros H; simpl.
    - apply insert_by_last. intros y Hy. apply H. simpl. exact (proj1 (sort_by_in y l2) Hy).
    - rewrite IH by (intros y Hy; apply H; now right).
      apply insert_by_snoc. apply H. now left.
  Qed.
End sorting.

Lemma sort_by_map {A B} (k1 : A -> Z) (k2 : B -> Z) (h : A -> B) l :
  (forall x, k2 (h x) = k1 x) -> sort_by k2 (map h l) = map h (sort_by k1 l).
Proof.
  intros Hk. induction l as [|x l IH]; simpl; auto. rewrite IH.
  generalize (sort_by k1 l) as s. induction s as [|y s IHs]; simpl; auto.
  rewrite !Hk. destruct (k1 x <=? k1 y); simpl; congruence.
Qed.

(* ================================================================== children of c:ser *)

Definition proj {X} (g : child -> list X) (kids : list child) : list X := concat (map g kids).
Definition olist {X} (o : option X) : list X := match o with Some x => [x] | None => [] end.

Lemma proj_app {X} (g : child -> list X) a b : proj g (a ++ b) = proj g a ++ proj g b.
Proof. unfold proj. now rewrite map_app, concat_app. Qed.

Lemma first_some_proj {X} (f : child -> option X) kids :
  first_some f kids = hd_error (proj (fun k => olist (f k)) kids).
Proof.
  induction kids as [|k kids IH]; simpl; auto. unfold proj in *. simpl.
  destruct (f k); simpl; auto.
Qed.

(** [g] only looks at children with tag [t]. *)
Definition supported {X} (g : child -> list X) (t : N) : Prop :=
  forall k, g k <> [] -> child_tag k = t.
Definition clean (t : N) (kids : list child) : Prop := forall k, In k kids -> child_tag k <> t.

Lemma proj_clean {X} (g : child -> list X) t kids : supported g t -> clean t kids -> proj g kids = [].
Proof.
  intros Hs Hc. induction kids as [|k kids IH]; auto. unfold proj in *. simpl.
  rewrite IH by (intros k' Hk'; apply Hc; now right).
  destruct (g k) eqn:E; auto. exfalso. apply (Hc k (or_introl eq_refl)). apply Hs. congruence.
Qed.

Lemma clean_remove t kids : clean t (remove_tag t kids).
Proof.
  intros k Hk. apply filter_In in Hk. destruct Hk as [_ Hk].
  apply negb_true_iff in Hk. now apply N.eqb_neq in Hk.
Qed.
Lemma clean_remove_other t t' kids : clean t kids -> clean t (remove_tag t' kids).
Proof. intros H k Hk. apply filter_In in Hk. apply H. tauto. Qed.

Lemma insert_before_tag_split t new kids :
  exists l1 l2, kids = l1 ++ l2 /\ insert_before_tag t new kids = l1 ++ new :: l2.
Proof.
  induction kids as [|k kids [l1 [l2 [E1 E2]]]]; simpl.
  - exists [], []. auto.
  - destruct (N.eqb (child_tag k) t).
    + exists [], (k :: kids). auto.
    + exists (k :: l1), l2. simpl. split; congruence.
Qed.
Lemma insert_before_split sc new kids :
  exists l1 l2, kids = l1 ++ l2 /\ insert_before sc new kids = l1 ++ new :: l2.
Proof.
  unfold insert_before. destruct (first_found sc kids).
  - apply insert_before_tag_split.
  - exists kids, []. rewrite app_nil_r. auto.
Qed.

Lemma clean_insert t sc new kids : clean t kids -> child_tag new <> t -> clean t (insert_before sc new kids).
Proof.
  intros Hc Hn. destruct (insert_before_split sc new kids) as [l1 [l2 [E1 E2]]].
  rewrite E2. subst kids. intros k Hk. apply in_app_or in Hk. destruct Hk as [Hk|[<-|Hk]]; auto.
  - apply Hc, in_or_app; auto.
  - apply Hc, in_or_app; auto.
Qed.

Lemma proj_insert_clean {X} (g : child -> list X) t sc new kids :
  supported g t -> clean t kids -> proj g (insert_before sc new kids) = g new.
Proof.
  intros Hs Hc. destruct (insert_before_split sc new kids) as [l1 [l2 [E1 E2]]].
  rewrite E2. subst kids. change (new :: l2) with ([new] ++ l2). rewrite !proj_app.
  rewrite (proj_clean g t l1), (proj_clean g t l2); auto.
  - unfold proj; simpl. now rewrite !app_nil_r.
  - intros k Hk. apply Hc, in_or_app; auto.
  - intros k Hk. apply Hc, in_or_app; auto.
Qed.
Lemma proj_insert_nil {X} (g : child -> list X) sc new kids :
  g new = [] -> proj g (insert_before sc new kids) = proj g kids.
Proof.
  intros Hn. destruct (insert_before_split sc new kids) as [l1 [l2 [E1 E2]]].
  rewrite E2. subst kids. change (new :: l2) with ([new] ++ l2). rewrite !proj_app.
  unfold proj at 2; simpl. now rewrite Hn.
Qed.

Lemma filter_insert P sc new kids : P new = false ->
  filter P (insert_before sc new kids) = filter P kids.
Proof.
  intros Hn. destruct (insert_before_split sc new kids) as [l1 [l2 [E1 E2]]].
  rewrite E2. subst kids. rewrite !filter_app. simpl. now rewrite Hn.
Qed.
Lemma filter_remove P t kids : (forall k, P k = true -> child_tag k <> t) ->
  filter P (remove_tag t kids) = filter P kids.
Proof.
  intros H. unfold remove_tag. induction kids as [|k kids IH]; simpl; auto.
  destruct (N.eqb_spec (child_tag k) t) as [E|E]; simpl.
  - destruct (P k) eqn:Pk; auto. exfalso. now apply (H k Pk).
  - now rewrite IH.
Qed.

Lemma sup_names : supported kid_names tg_tx.
Proof. intros [] H; simpl in *; congruence. Qed.
Lemma sup_cat : supported (fun k => olist (kid_cat k)) tg_cat.
Proof. intros [] H; simpl in *; congruence. Qed.
Lemma sup_cat_counts : supported kid_cat_counts tg_cat.
Proof. intros [] H; simpl in *; congruence. Qed.
Lemma sup_val : supported (fun k => olist (kid_val k)) tg_val.
Proof. intros [] H; simpl in *; congruence. Qed.
Lemma sup_xval : supported (fun k => olist (kid_xval k)) tg_xVal.
Proof. intros [] H; simpl in *; congruence. Qed.
Lemma sup_yval : supported (fun k => olist (kid_yval k)) tg_yVal.
Proof. intros [] H; simpl in *; congruence. Qed.
Lemma sup_bub : supported (fun k => olist (kid_bub k)) tg_bubbleSize.
Proof. intros [] H; simpl in *; congruence. Qed.

(** What it means for a c:ser to carry the data of one series (as the readers see it). *)
Definition kids_reflect (kids : list child) (sd : ser_data) : Prop :=
  proj kid_names kids = tx_names (sd_name sd) /\
  match sd with
  | SDCat cx cs =>
      proj (fun k => olist (kid_cat k)) kids = [cx] /\
      proj kid_cat_counts kids = cx_counts cx /\
      proj (fun k => olist (kid_val k)) kids = [num_cache (cs_fmt cs) (cs_vals cs)]
  | SDXy _ fmt xs ys =>
      proj (fun k => olist (kid_xval k)) kids = [num_cache fmt xs] /\
      proj (fun k => olist (kid_yval k)) kids = [num_cache fmt ys]
  | SDBub _ fmt xs ys zs =>
      proj (fun k => olist (kid_xval k)) kids = [num_cache fmt xs] /\
      proj (fun k => olist (kid_yval k)) kids = [num_cache fmt ys] /\
      proj (fun k => olist (kid_bub k)) kids = [num_cache fmt zs]
  end.

Ltac tag_neq := let H := fresh in intros H; vm_compute in H; discriminate.

Lemma rewrite_reflects sc s sd : kids_reflect (s_kids (rewrite_ser sc s sd)) sd.
Proof.
  destruct sd as [cx cs|name fmt xs ys|name fmt xs ys zs]; unfold rewrite_ser; cbn [s_kids].
  - set (k3 := remove_tag tg_val (remove_tag tg_cat (remove_tag tg_tx (s_kids s)))).
    assert (C1 : clean tg_tx k3) by (unfold k3; auto using clean_remove, clean_remove_other).
    assert (C2 : clean tg_cat k3) by (unfold k3; auto using clean_remove, clean_remove_other).
    assert (C3 : clean tg_val k3) by (unfold k3; auto using clean_remove, clean_remove_other).
    set (k4 := insert_before (sc_tx sc) (KTx (tx_names (cs_name cs))) k3).
    assert (D2 : clean tg_cat k4) by (apply clean_insert; auto; tag_neq).
    assert (D3 : clean tg_val k4) by (apply clean_insert; auto; tag_neq).
    set (k5 := insert_before (sc_cat sc) (KCat cx) k4).
    assert (E3 : clean tg_val k5) by (apply clean_insert; auto; tag_neq).
    split; [|split; [|split]].
    + rewrite proj_insert_nil by reflexivity. unfold k5. rewrite proj_insert_nil by reflexivity.
      unfold k4. now rewrite (proj_insert_clean _ tg_tx) by auto using sup_names.
    + rewrite proj_insert_nil by reflexivity. unfold k5.
      now rewrite (proj_insert_clean _ tg_cat) by auto using sup_cat.
    + rewrite proj_insert_nil by reflexivity. unfold k5.
      now rewrite (proj_insert_clean _ tg_cat) by auto using sup_cat_counts.
    + now rewrite (proj_insert_clean _ tg_val) by auto using sup_val.
  - set (k3 := remove_tag tg_yVal (remove_tag tg_xVal (remove_tag tg_tx (s_kids s)))).
    assert (C1 : clean tg_tx k3) by (unfold k3; auto using clean_remove, clean_remove_other).
    assert (C2 : clean tg_xVal k3) by (unfold k3; auto using clean_remove, clean_remove_other).
    assert (C3 : clean tg_yVal k3) by (unfold k3; auto using clean_remove, clean_remove_other).
    set (k4 := insert_before (sc_tx sc) (KTx (tx_names name)) k3).
    assert (D2 : clean tg_xVal k4) by (apply clean_insert; auto; tag_neq).
    assert (D3 : clean tg_yVal k4) by (apply clean_insert; auto; tag_neq).
    set (k5 := insert_before (sc_xVal sc) (KXVal (num_cache fmt xs)) k4).
    assert (E3 : clean tg_yVal k5) by (apply clean_insert; auto; tag_neq).
    split; [|split].
    + rewrite proj_insert_nil by reflexivity. unfold k5. rewrite proj_insert_nil by reflexivity.
      unfold k4. now rewrite (proj_insert_clean _ tg_tx) by auto using sup_names.
    + rewrite proj_insert_nil by reflexivity. unfold k5.
      now rewrite (proj_insert_clean _ tg_xVal) by auto using sup_xval.
    + now rewrite (proj_insert_clean _ tg_yVal) by auto using sup_yval.
  - set (k3 := remove_tag tg_bubbleSize (remove_tag tg_yVal (remove_tag tg_xVal (remove_tag tg_tx (s_kids s))))).
    assert (C1 : clean tg_tx k3) by (unfold k3; auto using clean_remove, clean_remove_other).
    assert (C2 : clean tg_xVal k3) by (unfold k3; auto using clean_remove, clean_remove_other).
    assert (C3 : clean tg_yVal k3) by (unfold k3; auto using clean_remove, clean_remove_other).
    assert (C4 : clean tg_bubbleSize k3) by (unfold k3; auto using clean_remove, clean_remove_other).
    set (k4 := insert_before (sc_tx sc) (KTx (tx_names name)) k3).
    assert (D2 : clean tg_xVal k4) by (apply clean_insert; auto; tag_neq).
    assert (D3 : clean tg_yVal k4) by (apply clean_insert; auto; tag_neq).
    assert (D4 : clean tg_bubbleSize k4) by (apply clean_insert; auto; tag_neq).
    set (k5 := insert_before (sc_xVal sc) (KXVal (num_cache fmt xs)) k4).
    assert (E3 : clean tg_yVal k5) by (apply clean_insert; auto; tag_neq).
    assert (E4 : clean tg_bubbleSize k5) by (apply clean_insert; auto; tag_neq).
    set (k6 := insert_before (sc_yVal sc) (KYVal (num_cache fmt ys)) k5).
    assert (F4 : clean tg_bubbleSize k6) by (apply clean_insert; auto; tag_neq).
    split; [|split; [|split]].
    + rewrite proj_insert_nil by reflexivity. unfold k6. rewrite proj_insert_nil by reflexivity.
      unfold k5. rewrite proj_insert_nil by reflexivity.
      unfold k4. now rewrite (proj_insert_clean _ tg_tx) by auto using sup_names.
    + rewrite proj_insert_nil by reflexivity. unfold k6. rewrite proj_insert_nil by reflexivity.
      unfold k5. now rewrite (proj_insert_clean _ tg_xVal) by auto using sup_xval.
    + rewrite proj_insert_nil by reflexivity. unfold k6.
      now rewrite (proj_insert_clean _ tg_yVal) by auto using sup_yval.
    + now rewrite (proj_insert_clean _ tg_bubbleSize) by auto using sup_bub.
Qed.

Lemma proj_others {X} (g : child -> list X) tags : (forall t p, g (KOther t p) = []) -> proj g (others tags) = [].
Proof. intros H. unfold proj, others. induction tags; simpl; auto. now rewrite H. Qed.

Lemma cat_kids_reflect pre post cx s : kids_reflect (cat_ser_kids pre post cx s) (SDCat cx s).
Proof.
  unfold kids_reflect, cat_ser_kids. cbn [sd_name].
  change (KTx (tx_names (cs_name s)) :: others pre ++ [KCat cx; KVal (num_cache (cs_fmt s) (cs_vals s))] ++ others post)
    with ([KTx (tx_names (cs_name s))] ++ others pre ++ [KCat cx; KVal (num_cache (cs_fmt s) (cs_vals s))] ++ others post).
  repeat split; rewrite !proj_app, !proj_others by reflexivity; unfold proj; simpl;
    now rewrite ?app_nil_r.
Qed.
Lemma xy_kids_reflect pre post name fmt xs ys : kids_reflect (xy_ser_kids pre post name fmt xs ys) (SDXy name fmt xs ys).
Proof.
  unfold kids_reflect, xy_ser_kids. cbn [sd_name].
  change (KTx (tx_names name) :: others pre ++ [KXVal (num_cache fmt xs); KYVal (num_cache fmt ys)] ++ others post)
    with ([KTx (tx_names name)] ++ others pre ++ [KXVal (num_cache fmt xs); KYVal (num_cache fmt ys)] ++ others post).
  repeat split; rewrite !proj_app, !proj_others by reflexivity; unfold proj; simpl;
    now rewrite ?app_nil_r.
Qed.
Lemma bub_kids_reflect name fmt xs ys zs : kids_reflect (bub_ser_kids name fmt xs ys zs) (SDBub name fmt xs ys zs).
Proof.
  unfold kids_reflect, bub_ser_kids. cbn [sd_name].
  change (KTx (tx_names name) :: others [tg_invert] ++ [KXVal (num_cache fmt xs); KYVal (num_cache fmt ys); KBub (num_cache fmt zs)] ++ others [tg_bubble3D])
    with ([KTx (tx_names name)] ++ others [tg_invert] ++ [KXVal (num_cache fmt xs); KYVal (num_cache fmt ys); KBub (num_cache fmt zs)] ++ others [tg_bubble3D]).
  repeat split; rewrite !proj_app, !proj_others by reflexivity; unfold proj; simpl;
    now rewrite ?app_nil_r.
Qed.

(* ---- reading a series that reflects its data ---- *)

Definition sd_is_xy (sd : ser_data) : bool := match sd with SDCat _ _ => false | _ => true end.
Definition sd_values (sd : ser_data) : list (option num) :=
  match sd with SDCat _ cs => cs_vals cs | SDXy _ _ _ ys => ys | SDBub _ _ _ ys _ => ys end.
Definition sd_xvalues (sd : ser_data) : option (list (option num)) :=
  match sd with SDCat _ _ => None | SDXy _ _ xs _ => Some xs | SDBub _ _ xs _ _ => Some xs end.
Definition sd_sizes (sd : ser_data) : option (list (option num)) :=
  match sd with SDBub _ _ _ _ zs => Some zs | _ => None end.

Definition ser_cache (f : child -> option cache) (s : ser) : option (list (option str)) :=
  option_map read_cache (first_some f (s_kids s)).

Lemma reflect_name s sd : kids_reflect (s_kids s) sd -> ser_name s = (sd_name sd).
Proof. intros [H _]. unfold ser_name. fold (proj kid_names (s_kids s)). rewrite H. apply hd_tx_names. Qed.

Lemma reflect_values ptag s sd : kids_reflect (s_kids s) sd -> is_xy_plot ptag = sd_is_xy sd ->
  ser_values_raw ptag s = sd_values sd.
Proof.
  intros [_ H] Hx. unfold ser_values_raw. rewrite Hx.
  destruct sd as [cx cs|name fmt xs ys|name fmt xs ys zs]; cbn [sd_is_xy sd_values];
    rewrite first_some_proj.
  - destruct H as [_ [_ H]]. rewrite H. simpl. apply read_num_cache.
  - destruct H as [_ H]. rewrite H. simpl. apply read_num_cache.
  - destruct H as [_ [H _]]. rewrite H. simpl. apply read_num_cache.
Qed.

Lemma reflect_xvalues s sd : kids_reflect (s_kids s) sd -> sd_is_xy sd = true ->
  ser_cache kid_xval s = sd_xvalues sd.
Proof.
  intros [_ H] Hx. unfold ser_cache. rewrite first_some_proj.
  destruct sd as [cx cs|name fmt xs ys|name fmt xs ys zs]; [discriminate| |].
  - destruct H as [H _]. rewrite H. simpl. now rewrite read_num_cache.
  - destruct H as [H _]. rewrite H. simpl. now rewrite read_num_cache.
Qed.
Lemma reflect_sizes s name fmt xs ys zs : kids_reflect (s_kids s) (SDBub name fmt xs ys zs) ->
  ser_cache kid_bub s = Some zs.
Proof.
  intros [_ [_ [_ H]]]. unfold ser_cache. rewrite first_some_proj, H. simpl. now rewrite read_num_cache.
Qed.

Lemma reflect_cat s cx cs : kids_reflect (s_kids s) (SDCat cx cs) ->
  first_some kid_cat (s_kids s) = Some cx /\ proj kid_cat_counts (s_kids s) = cx_counts cx.
Proof. intros [_ [H1 [H2 _]]]. rewrite first_some_proj, H1. auto. Qed.

(* ---- what a rewrite leaves alone ---- *)

Definition data_tags (sd : ser_data) : list N :=
  match sd with
  | SDCat _ _ => [tg_tx; tg_cat; tg_val]
  | SDXy _ _ _ _ => [tg_tx; tg_xVal; tg_yVal]
  | SDBub _ _ _ _ _ => [tg_tx; tg_xVal; tg_yVal; tg_bubbleSize]
  end.
(** The children of c:ser whose tag is not among [tags], in document order. *)
Definition other_kids (tags : list N) (kids : list child) : list child :=
  filter (fun k => negb (memN (child_tag k) tags)) kids.

Lemma other_remove tags t kids : memN t tags = true -> other_kids tags (remove_tag t kids) = other_kids tags kids.
Proof.
  intros Ht. apply filter_remove. intros k Hk E. apply negb_true_iff in Hk. congruence.
Qed.

Lemma rewrite_others sc s sd :
  s_idx (rewrite_ser sc s sd) = s_idx s /\ s_order (rewrite_ser sc s sd) = s_order s /\
  other_kids (data_tags sd) (s_kids (rewrite_ser sc s sd)) = other_kids (data_tags sd) (s_kids s).
Proof.
  split; [reflexivity|split; [reflexivity|]].
  destruct sd as [cx cs|name fmt xs ys|name fmt xs ys zs]; unfold rewrite_ser; cbn [s_kids data_tags];
    unfold other_kids at 1; rewrite !filter_insert by reflexivity.
  - change (other_kids [tg_tx; tg_cat; tg_val] (remove_tag tg_val (remove_tag tg_cat (remove_tag tg_tx (s_kids s))))
            = other_kids [tg_tx; tg_cat; tg_val] (s_kids s)).
    now rewrite !other_remove by reflexivity.
  - change (other_kids [tg_tx; tg_xVal; tg_yVal] (remove_tag tg_yVal (remove_tag tg_xVal (remove_tag tg_tx (s_kids s))))
            = other_kids [tg_tx; tg_xVal; tg_yVal] (s_kids s)).
    now rewrite !other_remove by reflexivity.
  - change (other_kids [tg_tx; tg_xVal; tg_yVal; tg_bubbleSize]
              (remove_tag tg_bubbleSize (remove_tag tg_yVal (remove_tag tg_xVal (remove_tag tg_tx (s_kids s)))))
            = other_kids [tg_tx; tg_xVal; tg_yVal; tg_bubbleSize] (s_kids s)).
    now rewrite !other_remove by reflexivity.
Qed.

(* ================================================================== plots: series order and rewriting *)

Lemma combine_seq_snd {A} (l : list A) a : map snd (combine (seq a (length l)) l) = l.
Proof. revert a; induction l as [|x l IH]; intros a; simpl; auto. now rewrite IH. Qed.
Lemma combine_seq_fst {A} (l : list A) a : map fst (combine (seq a (length l)) l) = seq a (length l).
Proof. revert a; induction l as [|x l IH]; intros a; simpl; auto. now rewrite IH. Qed.

Lemma decorate_snd l : map snd (decorate l) = l.
Proof. apply combine_seq_snd. Qed.
Lemma decorate_fst l : map fst (decorate l) = seq 0 (length l).
Proof. apply combine_seq_fst. Qed.

Lemma sorted_decorate l : map snd (sort_by dkey (decorate l)) = sort_by s_order l.
Proof. rewrite <- (sort_by_map dkey s_order snd) by reflexivity. now rewrite decorate_snd. Qed.

Lemma order_positions_nodup l : NoDup (order_positions l).
Proof.
  unfold order_positions.
  eapply Permutation_NoDup.
  - apply Permutation_map. symmetry. apply sort_by_perm.
  - rewrite decorate_fst. apply seq_NoDup.
Qed.

Fixpoint zip_rw (sc : succs) (l : list ser) (ds : list ser_data) : list ser :=
  match l, ds with
  | s :: l', d :: ds' => rewrite_ser sc s d :: zip_rw sc l' ds'
  | _, _ => l
  end.

Lemma zip_rw_nil sc l : zip_rw sc l [] = l.
Proof. destruct l; reflexivity. Qed.
Lemma zip_rw_length sc l ds : length (zip_rw sc l ds) = length l.
Proof. revert ds; induction l as [|s l IH]; intros [|d ds]; simpl; auto. Qed.
Lemma zip_rw_app sc a b ds : zip_rw sc (a ++ b) ds = zip_rw sc a ds ++ zip_rw sc b (skipn (length a) ds).
Proof.
  revert ds; induction a as [|s a IH]; intros ds; simpl; auto.
  destruct ds as [|d ds]; simpl.
  - now rewrite zip_rw_nil.
  - now rewrite IH.
Qed.

Lemma index_of_mid q pre post : ~ In q pre -> index_of q (pre ++ q :: post) = Some (length pre).
Proof.
  induction pre as [|x pre IH]; intros Hn; simpl.
  - now rewrite Nat.eqb_refl.
  - destruct (Nat.eqb_spec x q) as [->|_]; [exfalso; apply Hn; now left|].
    rewrite IH; auto. intros H; apply Hn; now right.
Qed.

Lemma skipn_nth {A} n : forall (l : list A),
  skipn n l = match nth_error l n with Some x => x :: skipn (S n) l | None => [] end.
Proof.
  induction n as [|n IH]; intros [|x l]; simpl; auto. apply IH.
Qed.

Section rewrite_plot.
  Variables (sc : succs) (data : list ser_data).

  Definition rw_at (ord : list nat) (qs : nat * ser) : ser :=
    match index_of (fst qs) ord with
    | Some r => match nth_error data r with
                | Some sd => rewrite_ser sc (snd qs) sd
                | None => snd qs
                end
    | None => snd qs
    end.

  Lemma rw_at_order ord qs : s_order (rw_at ord qs) = dkey qs.
  Proof. unfold rw_at, dkey. destruct (index_of _ _); auto. destruct (nth_error _ _); auto. Qed.

  Lemma map_rw_sorted S2 : forall S1, NoDup (map fst (S1 ++ S2)) ->
    map (rw_at (map fst (S1 ++ S2))) S2 = zip_rw sc (map snd S2) (skipn (length S1) data).
  Proof.
    induction S2 as [|[q s] S2 IH]; intros S1 Hnd; [reflexivity|].
    pose proof (IH (S1 ++ [(q, s)])) as IH'. rewrite <- app_assoc in IH'. cbn [app] in IH'.
    specialize (IH' Hnd).
    cbn [map]. rewrite IH'. clear IH IH'.
    unfold rw_at. cbn [fst snd].
    assert (Hi : index_of q (map fst (S1 ++ (q, s) :: S2)) = Some (length S1)).
    { rewrite map_app. cbn [map fst]. rewrite index_of_mid, map_length; auto.
      rewrite map_app in Hnd. cbn [map fst] in Hnd. apply NoDup_remove_2 in Hnd.
      intros H; apply Hnd, in_or_app; now left. }
    rewrite Hi, app_length. cbn [length]. rewrite Nat.add_1_r.
    rewrite (skipn_nth (length S1) data).
    destruct (nth_error data (length S1)) eqn:En; [reflexivity|].
    apply nth_error_None in En. rewrite skipn_all2 by lia. now rewrite zip_rw_nil.
  Qed.

  Lemma plot_sers_rewrite p : plot_sers (rewrite_plot sc data p) = zip_rw sc (plot_sers p) data.
  Proof.
    unfold plot_sers, rewrite_plot. cbn [p_sers set_sers].
    fold (rw_at (order_positions (p_sers p))).
    rewrite (sort_by_map dkey s_order) by apply rw_at_order.
    unfold order_positions.
    pose proof (map_rw_sorted (sort_by dkey (decorate (p_sers p))) [] (order_positions_nodup (p_sers p))) as H.
    cbn [app length skipn] in H. rewrite H, sorted_decorate. reflexivity.
  Qed.
End rewrite_plot.

Lemma length_plot_sers p : length (plot_sers p) = length (p_sers p).
Proof. apply sort_by_length. Qed.

Lemma area_sers_app a b : area_sers_of (a ++ b) = area_sers_of a ++ area_sers_of b.
Proof. unfold area_sers_of. now rewrite map_app, concat_app. Qed.

Lemma area_rewrite_plots sc ps : forall data,
  area_sers_of (rewrite_plots sc data ps) = zip_rw sc (area_sers_of ps) data.
Proof.
  induction ps as [|p ps IH]; intros data; [reflexivity|].
  cbn [rewrite_plots]. change (area_sers_of (?x :: ?r)) with (plot_sers x ++ area_sers_of r).
  rewrite plot_sers_rewrite, IH, zip_rw_app, length_plot_sers. reflexivity.
Qed.

Definition frame (p : plot) : N * N := (p_tag p, p_payload p).

Lemma frames_rewrite_plots sc ps : forall data, map frame (rewrite_plots sc data ps) = map frame ps.
Proof. induction ps as [|p ps IH]; intros data; simpl; auto. now rewrite IH. Qed.

(* ================================================================== trimming *)

Lemma filter_all_true {A} (f : A -> bool) l : (forall x, In x l -> f x = true) -> filter f l = l.
Proof.
  induction l as [|x l IH]; intros H; simpl; auto.
  rewrite (H x) by now left. f_equal. apply IH. intros y Hy. apply H. now right.
Qed.

Lemma remove_nth_filter {A} (l : list A) : forall a pos,
  remove_nth pos l = map snd (filter (fun d => negb (Nat.eqb (fst d) (a + pos))) (combine (seq a (length l)) l)).
Proof.
  induction l as [|x l IH]; intros a pos; [destruct pos; reflexivity|].
  destruct pos as [|pos]; simpl.
  - rewrite Nat.add_0_r, Nat.eqb_refl. simpl.
    rewrite filter_all_true; [now rewrite combine_seq_snd|].
    intros [q s] Hin. apply in_combine_l in Hin. apply in_seq in Hin. simpl.
    apply negb_true_iff, Nat.eqb_neq. lia.
  - destruct (Nat.eqb_spec a (a + S pos)); [lia|]. simpl. f_equal.
    rewrite (IH (S a) pos). f_equal. apply filter_ext. intros d. do 2 f_equal. lia.
Qed.

Lemma filter_last_nodup {A} (S' : list (nat * A)) q x :
  NoDup (map fst (S' ++ [(q, x)])) ->
  filter (fun d => negb (Nat.eqb (fst d) q)) (S' ++ [(q, x)]) = S'.
Proof.
  intros Hnd. rewrite filter_app. simpl. rewrite Nat.eqb_refl. simpl. rewrite app_nil_r.
  rewrite map_app in Hnd. simpl in Hnd. apply NoDup_remove_2 in Hnd. rewrite app_nil_r in Hnd.
  apply filter_all_true. intros [q' x'] Hin. simpl.
  apply negb_true_iff, Nat.eqb_neq. intros ->. apply Hnd. apply in_map_iff. exists (q, x'). auto.
Qed.

Lemma rev_cons_inv {A} (l : list A) x r : rev l = x :: r -> l = rev r ++ [x].
Proof. intros H. rewrite <- (rev_involutive l), H. reflexivity. Qed.

Lemma plot_sers_drop_last p : plot_sers (drop_last_ser p) = removelast (plot_sers p).
Proof.
  unfold drop_last_ser, plot_sers.
  destruct (rev (order_positions (p_sers p))) as [|pos r] eqn:E.
  - assert (order_positions (p_sers p) = []) as E0.
    { rewrite <- (rev_involutive (order_positions _)), E. reflexivity. }
    assert (p_sers p = []) as ->.
    { apply length_zero_iff_nil. unfold order_positions in E0.
      apply (f_equal (@length nat)) in E0. rewrite map_length, sort_by_length in E0.
      unfold decorate in E0. rewrite combine_length, seq_length, Nat.min_id in E0. exact E0. }
    reflexivity.
  - cbn [set_sers p_sers].
    rewrite (remove_nth_filter (p_sers p) 0 pos). fold (decorate (p_sers p)). rewrite Nat.add_0_l.
    rewrite (sort_by_map dkey s_order snd) by reflexivity.
    rewrite sort_by_filter.
    apply rev_cons_inv in E. unfold order_positions in E.
    remember (sort_by dkey (decorate (p_sers p))) as S eqn:ES.
    assert (exists S' x, S = S' ++ [(pos, x)]) as [S' [x HS]].
    { destruct (rev S) as [|[q x] S'r] eqn:ER.
      - assert (S = []) as -> by (rewrite <- (rev_involutive S), ER; reflexivity).
        destruct (rev r); discriminate.
      - apply rev_cons_inv in ER. exists (rev S'r), x. rewrite ER in E.
        rewrite map_app in E. simpl in E. apply app_inj_tail in E. destruct E as [_ ->]. exact ER. }
    rewrite HS, filter_last_nodup.
    2:{ rewrite <- HS, ES. apply order_positions_nodup. }
    rewrite <- sorted_decorate, <- ES, HS, map_app. simpl. now rewrite removelast_last.
Qed.

Lemma has_sers_area ps : has_sers ps = false -> area_sers_of ps = [].
Proof.
  induction ps as [|p ps IH]; simpl; auto.
  destruct (p_sers p) eqn:E; simpl; [|discriminate]. intros H.
  change (area_sers_of (p :: ps)) with (plot_sers p ++ area_sers_of ps).
  rewrite IH by auto. unfold plot_sers. now rewrite E.
Qed.
Lemma has_sers_area_ne ps : has_sers ps = true -> area_sers_of ps <> [].
Proof.
  induction ps as [|p ps IH]; simpl; [discriminate|].
  change (area_sers_of (p :: ps)) with (plot_sers p ++ area_sers_of ps).
  destruct (p_sers p) eqn:E; simpl.
  - intros H. apply IH in H. intros H2. apply app_eq_nil in H2. tauto.
  - intros _ H2. apply app_eq_nil in H2. destruct H2 as [H2 _].
    apply (f_equal (@length ser)) in H2. rewrite length_plot_sers, E in H2. discriminate.
Qed.

Lemma area_remove_last ps : area_sers_of (remove_last_ser ps) = removelast (area_sers_of ps).
Proof.
  induction ps as [|p ps IH]; [reflexivity|]. cbn [remove_last_ser].
  destruct (has_sers ps) eqn:Hs.
  - change (area_sers_of (?x :: ?r)) with (plot_sers x ++ area_sers_of r).
    rewrite IH. symmetry. apply removelast_app. now apply has_sers_area_ne.
  - change (area_sers_of (?x :: ?r)) with (plot_sers x ++ area_sers_of r).
    rewrite has_sers_area, !app_nil_r by auto. apply plot_sers_drop_last.
Qed.

Lemma removelast_firstn_len {A} (l : list A) : removelast l = firstn (length l - 1) l.
Proof.
  destruct l as [|x l] using rev_ind; [reflexivity|].
  rewrite removelast_last, app_length. simpl. rewrite Nat.add_sub.
  now rewrite firstn_app, Nat.sub_diag, firstn_all, app_nil_r.
Qed.

Lemma area_iter_remove k : forall ps,
  area_sers_of (Nat.iter k remove_last_ser ps) = firstn (length (area_sers_of ps) - k) (area_sers_of ps).
Proof.
  induction k as [|k IH]; intros ps.
  - simpl. now rewrite Nat.sub_0_r, firstn_all.
  - simpl. rewrite area_remove_last, IH, removelast_firstn_len, firstn_length.
    rewrite firstn_firstn. f_equal. lia.
Qed.

Lemma area_filter_nonempty ps :
  area_sers_of (filter (fun p => match p_sers p with [] => false | _ => true end) ps) = area_sers_of ps.
Proof.
  induction ps as [|p ps IH]; [reflexivity|]. simpl.
  change (area_sers_of (p :: ps)) with (plot_sers p ++ area_sers_of ps).
  destruct (p_sers p) eqn:E.
  - rewrite IH. unfold plot_sers. now rewrite E.
  - change (area_sers_of (p :: ?r)) with (plot_sers p ++ area_sers_of r). now rewrite IH.
Qed.

Theorem area_sers_trim k ps :
  area_sers_of (trim k ps) = firstn (length (area_sers_of ps) - k) (area_sers_of ps).
Proof. unfold trim. now rewrite area_filter_nonempty, area_iter_remove. Qed.

(* ================================================================== cloning *)

Lemma fold_max_ge r : forall v, v <= fold_left Z.max r v /\ forall y, In y r -> y <= fold_left Z.max r v.
Proof.
  induction r as [|a r IH]; intros v; simpl; [split; [lia|intros y []]|].
  destruct (IH (Z.max v a)) as [H1 H2]. split; [lia|].
  intros y [<-|Hy]; [lia|auto].
Qed.
Lemma next_val_gt vals v : In v vals -> v < next_val vals.
Proof.
  destruct vals as [|a r]; [intros []|]. unfold next_val.
  destruct (fold_max_ge r a) as [H1 H2]. intros [<-|Hv]; [lia|]. specialize (H2 v Hv). lia.
Qed.

Lemma clone_at_split pos i o : forall l, (pos < length l)%nat ->
  exists l1 x l2, l = l1 ++ x :: l2 /\ length l1 = pos /\
                  clone_at pos i o l = l1 ++ x :: mkSer i o (s_kids x) :: l2.
Proof.
  induction pos as [|pos IH]; intros [|y l] Hl; simpl in Hl; try lia.
  - exists [], y, l. auto.
  - destruct (IH l ltac:(lia)) as [l1 [x [l2 [E1 [E2 E3]]]]].
    exists (y :: l1), x, l2. simpl. rewrite E3, E2. subst l. auto.
Qed.

Lemma upd_last_snoc {A} (f : A -> A) l x : upd_last f (l ++ [x]) = l ++ [f x].
Proof.
  induction l as [|a l IH]; [reflexivity|]. simpl. rewrite IH.
  destruct (l ++ [x]) eqn:E; [destruct l; discriminate|reflexivity].
Qed.

Definition dser : ser := mkSer 0 0 [].
Definition uniq (l : list ser) : Prop := NoDup (map s_idx l) /\ NoDup (map s_order l).

Lemma NoDup_snoc {A} (l : list A) x : NoDup l -> ~ In x l -> NoDup (l ++ [x]).
Proof.
  intros Hl Hx. apply (Permutation_NoDup (l := x :: l)); [|now constructor].
  apply Permutation_cons_append.
Qed.

Lemma area_in_plot ps0 pl y : In y (p_sers pl) -> In y (area_sers_of (ps0 ++ [pl])).
Proof.
  intros Hy. rewrite area_sers_app. apply in_or_app. right.
  change (area_sers_of [pl]) with (plot_sers pl ++ []). rewrite app_nil_r.
  unfold plot_sers. now apply sort_by_in.
Qed.

Lemma add_one_clone ps0 pl pos :
  (pos < length (p_sers pl))%nat ->
  let ps := ps0 ++ [pl] in
  let new := mkSer (next_idx ps) (next_order ps) (s_kids (nth pos (p_sers pl) dser)) in
  let pl' := set_sers pl (clone_at pos (next_idx ps) (next_order ps) (p_sers pl)) in
  upd_last (fun p => set_sers p (clone_at pos (next_idx ps) (next_order ps) (p_sers p))) ps = ps0 ++ [pl'] /\
  area_sers_of (ps0 ++ [pl']) = area_sers_of ps ++ [new] /\
  (S pos < length (p_sers pl'))%nat /\
  s_kids (nth (S pos) (p_sers pl') dser) = s_kids (nth pos (p_sers pl) dser).
Proof.
  intros Hpos ps new pl'. split; [apply upd_last_snoc|].
  destruct (clone_at_split pos (next_idx ps) (next_order ps) (p_sers pl) Hpos) as [l1 [x [l2 [E1 [E2 E3]]]]].
  assert (Hx : nth pos (p_sers pl) dser = x).
  { rewrite E1, app_nth2, E2, Nat.sub_diag by lia. reflexivity. }
  split; [|split].
  - assert (Hone : forall p, area_sers_of [p] = plot_sers p).
    { intros p. change (area_sers_of [p]) with (plot_sers p ++ []). apply app_nil_r. }
    assert (Hps : area_sers_of ps = area_sers_of ps0 ++ plot_sers pl).
    { unfold ps. now rewrite area_sers_app, Hone. }
    rewrite Hps, area_sers_app, Hone, <- app_assoc. f_equal.
    unfold plot_sers, pl'. cbn [p_sers set_sers]. rewrite E3.
    change (l1 ++ x :: mkSer (next_idx ps) (next_order ps) (s_kids x) :: l2)
      with (l1 ++ [x] ++ mkSer (next_idx ps) (next_order ps) (s_kids x) :: l2).
    rewrite app_assoc, sort_by_max.
    + rewrite <- app_assoc. cbn [app]. rewrite <- E1. unfold new. now rewrite Hx.
    + intros y Hy. cbn [s_order]. apply next_val_gt. apply in_map.
      apply area_in_plot. rewrite E1. rewrite <- app_assoc in Hy. exact Hy.
  - unfold pl'. cbn [p_sers set_sers]. rewrite E3, app_length. simpl. rewrite E1, app_length in Hpos.
    simpl in Hpos. lia.
  - unfold pl'. cbn [p_sers set_sers]. rewrite E3, Hx.
    rewrite app_nth2 by lia. rewrite E2. replace (S pos - pos)%nat with 1%nat by lia. reflexivity.
Qed.

Lemma uniq_snoc l i o kids : uniq l ->
  i = next_val (map s_idx l) -> o = next_val (map s_order l) -> uniq (l ++ [mkSer i o kids]).
Proof.
  intros [H1 H2] -> ->. split; rewrite map_app; simpl; apply NoDup_snoc; auto;
    intros H; apply next_val_gt in H; lia.
Qed.

Lemma frames_snoc ps0 pl l : map frame (ps0 ++ [set_sers pl l]) = map frame (ps0 ++ [pl]).
Proof. rewrite !map_app. reflexivity. Qed.

Lemma add_cloned_spec k : forall pos ps0 pl, (pos < length (p_sers pl))%nat ->
  exists news,
    area_sers_of (add_cloned k pos (ps0 ++ [pl])) = area_sers_of (ps0 ++ [pl]) ++ news /\
    length news = k /\
    (forall s, In s news -> s_kids s = s_kids (nth pos (p_sers pl) dser)) /\
    map frame (add_cloned k pos (ps0 ++ [pl])) = map frame (ps0 ++ [pl]) /\
    (uniq (area_sers_of (ps0 ++ [pl])) -> uniq (area_sers_of (ps0 ++ [pl]) ++ news)).
Proof.
  induction k as [|k IH]; intros pos ps0 pl Hpos.
  - exists []. rewrite app_nil_r. simpl.
    split; [reflexivity|]. split; [reflexivity|]. split; [intros s []|]. split; [reflexivity|auto].
  - cbn [add_cloned].
    destruct (add_one_clone ps0 pl pos Hpos) as [E1 [E2 [E3 E4]]].
    rewrite E1.
    destruct (IH (S pos) ps0 _ E3) as [news [F1 [F2 [F3 [F4 F5]]]]].
    eexists (_ :: news). rewrite F1, E2, <- app_assoc. cbn [app].
    split; [reflexivity|]. split; [simpl; congruence|]. split; [|split].
    + intros s [<-|Hs]; [reflexivity|]. rewrite (F3 s Hs). exact E4.
    + rewrite F4. apply frames_snoc.
    + intros Hu.
      change (area_sers_of (ps0 ++ [pl]) ++ ?n :: news) with (area_sers_of (ps0 ++ [pl]) ++ [n] ++ news).
      rewrite app_assoc. rewrite <- E2. apply F5. rewrite E2.
      apply uniq_snoc; auto.
Qed.

(* ================================================================== _adjust_ser_count *)

Lemma last_pos_lt l pos r : rev (order_positions l) = pos :: r -> (pos < length l)%nat.
Proof.
  intros E. assert (In pos (order_positions l)) as Hin.
  { apply in_rev. rewrite E. now left. }
  unfold order_positions in Hin.
  apply (Permutation_in _ (Permutation_map fst (sort_by_perm dkey (decorate l)))) in Hin.
  rewrite decorate_fst in Hin. apply in_seq in Hin. lia.
Qed.

Lemma frames_remove_last ps : map frame (remove_last_ser ps) = map frame ps.
Proof.
  induction ps as [|p ps IH]; [reflexivity|]. cbn [remove_last_ser].
  destruct (has_sers ps); simpl; [now rewrite IH|].
  f_equal. unfold drop_last_ser. destruct (rev _); reflexivity.
Qed.
Lemma frames_iter_remove k ps : map frame (Nat.iter k remove_last_ser ps) = map frame ps.
Proof. induction k; simpl; auto. now rewrite frames_remove_last. Qed.

Lemma NoDup_app_l {A} (a b : list A) : NoDup (a ++ b) -> NoDup a.
Proof.
  induction a as [|x a IH]; intros H; [constructor|].
  inversion H as [|? ? Hx Hr]; subst. constructor; auto. intros Hi. apply Hx, in_or_app. now left.
Qed.

Lemma uniq_firstn n l : uniq l -> uniq (firstn n l).
Proof.
  intros [H1 H2]. unfold uniq. rewrite <- !firstn_map.
  rewrite <- (firstn_skipn n (map s_idx l)) in H1. rewrite <- (firstn_skipn n (map s_order l)) in H2.
  split; eapply NoDup_app_l; eauto.
Qed.

Definition tags_within (ps' ps : list plot) : Prop :=
  forall p', In p' ps' -> exists p, In p ps /\ frame p' = frame p.

Lemma tags_within_frames ps' ps : map frame ps' = map frame ps -> tags_within ps' ps.
Proof.
  intros E p' Hp'. apply (in_map frame) in Hp'. rewrite E in Hp'. apply in_map_iff in Hp'.
  destruct Hp' as [p [Hf Hp]]. eauto.
Qed.

Theorem adjust_spec ps n ps' : adjust ps n = Ok ps' ->
  length (area_sers_of ps') = n /\
  (uniq (area_sers_of ps) -> uniq (area_sers_of ps')) /\
  tags_within ps' ps /\
  ( ((length (area_sers_of ps) <= n)%nat /\ map frame ps' = map frame ps /\
     exists news, area_sers_of ps' = area_sers_of ps ++ news /\
                  forall s, In s news -> exists src, In src (area_sers_of ps) /\ s_kids s = s_kids src)
    \/ ((n < length (area_sers_of ps))%nat /\ ps' = trim (length (area_sers_of ps) - n) ps /\
        area_sers_of ps' = firstn n (area_sers_of ps)) ).
Proof.
  unfold adjust. set (cur := length (area_sers_of ps)).
  destruct (Nat.ltb_spec cur n) as [Hlt|Hge].
  - destruct (rev ps) as [|lastp rps] eqn:Er; [discriminate|].
    destruct (rev (order_positions (p_sers lastp))) as [|pos r] eqn:Eo; [discriminate|].
    intros H; injection H as <-.
    apply rev_cons_inv in Er. subst cur. subst ps.
    pose proof (last_pos_lt _ _ _ Eo) as Hpos.
    destruct (add_cloned_spec (n - length (area_sers_of (rev rps ++ [lastp]))) pos (rev rps) lastp Hpos)
      as [news [F1 [F2 [F3 [F4 F5]]]]].
    split; [rewrite F1, app_length, F2; lia|].
    split; [intros Hu; rewrite F1; auto|].
    split; [now apply tags_within_frames|].
    left. split; [lia|]. split; [exact F4|]. exists news. split; [exact F1|].
    intros s Hs. exists (nth pos (p_sers lastp) dser). split; [|now apply F3].
    apply area_in_plot, nth_In, Hpos.
  - destruct (Nat.ltb_spec n cur) as [Hlt|Hge2]; intros H; injection H as <-.
    + assert (E : area_sers_of (trim (cur - n) ps) = firstn n (area_sers_of ps)).
      { rewrite area_sers_trim. fold cur. f_equal. lia. }
      split; [rewrite E, firstn_length; fold cur; lia|].
      split; [intros Hu; rewrite E; now apply uniq_firstn|].
      split.
      { intros p' Hp'. unfold trim in Hp'. apply filter_In in Hp'. destruct Hp' as [Hp' _].
        apply (tags_within_frames _ _ (frames_iter_remove (cur - n) ps)); auto. }
      right. auto.
    + split; [fold cur; lia|]. split; [auto|]. split; [now apply tags_within_frames|].
      left. split; [lia|]. split; [reflexivity|]. exists []. rewrite app_nil_r. split; [reflexivity|intros s []].
Qed.

(* ================================================================== charts made by the writers *)

Section mapi.
  Context {X : Type} (K : X -> list child).
  Let mk := fun (i : Z) (x : X) => mkSer i i (K x).

  Lemma mapi_ge l : forall i s, In s (mapi_from i mk l) -> i <= s_idx s /\ i <= s_order s.
  Proof.
    induction l as [|x l IH]; intros i s; simpl; [tauto|].
    intros [<-|H]; [simpl; lia|]. apply IH in H. lia.
  Qed.
  Lemma mapi_sorted l : forall i, StronglySorted (le_key s_order) (mapi_from i mk l).
  Proof.
    induction l as [|x l IH]; intros i; simpl; constructor; auto.
    apply Forall_forall. intros s Hs. apply mapi_ge in Hs. unfold le_key. simpl. lia.
  Qed.
  Lemma mapi_uniq l : forall i, uniq (mapi_from i mk l).
  Proof.
    induction l as [|x l IH]; intros i; simpl; [split; constructor|].
    destruct (IH (i + 1)) as [H1 H2]. split; simpl; constructor; auto;
      intros Hin; apply in_map_iff in Hin; destruct Hin as [s [Es Hs]]; apply mapi_ge in Hs; lia.
  Qed.
  Lemma mapi_forall2 (R : ser -> X -> Prop) l : (forall i x, R (mk i x) x) ->
    forall i, Forall2 R (mapi_from i mk l) l.
  Proof. intros H. induction l as [|x l IH]; intros i; simpl; constructor; auto. Qed.
End mapi.

Definition reflects (s : ser) (sd : ser_data) : Prop := kids_reflect (s_kids s) sd.

Definition rk_xy (rk : rkind) : bool := match rk with RCat => false | _ => true end.
Definition is_pie (ct : Z) : bool :=
  match writer_of ct with Some (WPie, _, _, _) => true | _ => false end.
Definition kept {X} (ct : Z) (l : list X) : list X := if is_pie ct then firstn 1 l else l.

Lemma writer_of_tag ct wk ptag pre post : writer_of ct = Some (wk, ptag, pre, post) ->
  is_xy_plot ptag = match wk with WXy | WBubble => true | _ => false end.
Proof.
  unfold writer_of.
  repeat match goal with |- context [if ?b then _ else _] => destruct b end;
    intros H; inversion H; subst; reflexivity.
Qed.

Lemma area_one_plot ptag pl l : StronglySorted (le_key s_order) l ->
  area_sers (mkChart false 0 [mkPlot ptag pl l]) = l.
Proof.
  intros Hs. unfold area_sers, area_sers_of, plot_sers. simpl. now rewrite app_nil_r, sort_by_id.
Qed.

Lemma Forall2_map_r {A B C} (R : A -> C -> Prop) (g : B -> C) l1 l2 :
  Forall2 (fun a b => R a (g b)) l1 l2 -> Forall2 R l1 (map g l2).
Proof. induction 1; simpl; constructor; auto. Qed.

Definition rk_of (wk : wkind) (d : chart_data) : rkind :=
  match wk, d with
  | WBubble, DBub _ => RBub
  | WXy, _ | WBubble, _ => RXy
  | _, _ => RCat
  end.

Lemma reflects_nil_chart ptag :
  area_sers (mkChart false 0 [mkPlot ptag 0 []]) = [] /\ uniq [].
Proof. split; [reflexivity|split; constructor]. Qed.

(** A chart made by a writer: one plot whose tag fits the rewriter kind [rk] of its family;
    its series, in series order, carry the series of the data ([kept]: the pie writer
    keeps the first only); idx and order values are unique. *)
Theorem write_reflects ct d c : write ct d = Ok c ->
  exists rk sds ptag sers,
    c = mkChart false 0 [mkPlot ptag 0 sers] /\ area_sers c = sers /\
    is_xy_plot ptag = rk_xy rk /\
    ser_datas rk false d = Ok sds /\
    Forall2 reflects sers (kept ct sds) /\
    uniq sers.
Proof.
  intros Hw. rename c into c0. unfold write in Hw. unfold kept, is_pie.
  destruct (writer_of ct) as [[[[wk ptag] pre] post]|] eqn:W; [|discriminate].
  pose proof (writer_of_tag _ _ _ _ _ W) as Htag.
  assert (Hnil : forall rk, is_xy_plot ptag = rk_xy rk -> ser_datas rk false d = Ok [] ->
            c0 = mkChart false 0 [mkPlot ptag 0 []] ->
            exists rk sds ptag' sers, c0 = mkChart false 0 [mkPlot ptag' 0 sers] /\ area_sers c0 = sers /\
              is_xy_plot ptag' = rk_xy rk /\ ser_datas rk false d = Ok sds /\
              Forall2 reflects sers (match wk with WPie => firstn 1 sds | _ => sds end) /\ uniq sers).
  { intros rk H1 H2 ->. exists rk, [], ptag, []. destruct (reflects_nil_chart ptag) as [A B].
    repeat split; auto; try apply B. destruct wk; constructor. }
  destruct wk; destruct d as [f fmt sers|sers|sers]; destruct sers as [|s0 sers'];
    cbn [bind] in Hw; try discriminate.
  - (* category writer, category data, no series *)
    destruct (write_cat false f fmt) as [cx0|] eqn:Hc0; [|discriminate]. cbn [bind] in Hw.
    apply (Hnil RCat); [exact Htag|cbn [ser_datas]; rewrite Hc0; reflexivity|congruence].
  - destruct (write_cat false f fmt) as [cx|e] eqn:Hc; [|discriminate]. cbn [bind] in Hw.
    injection Hw as <-.
    exists RCat, (map (SDCat cx) (s0 :: sers')), ptag,
      (mapi_from 0 (fun i s => mkSer i i (cat_ser_kids pre post cx s)) (s0 :: sers')).
    split; [reflexivity|].
    split; [exact (area_one_plot ptag 0 _ (mapi_sorted (cat_ser_kids pre post cx) (s0 :: sers') 0))|].
    split; [exact Htag|]. split; [cbn [ser_datas]; rewrite Hc; reflexivity|].
    split; [|exact (mapi_uniq (cat_ser_kids pre post cx) (s0 :: sers') 0)].
    apply Forall2_map_r.
    exact (mapi_forall2 (cat_ser_kids pre post cx) (fun s x => reflects s (SDCat cx x)) (s0 :: sers')
             (fun i x => cat_kids_reflect pre post cx x) 0).
  - apply (Hnil RCat); auto. destruct (has_cat_axis ptag); congruence.
  - apply (Hnil RCat); auto. destruct (has_cat_axis ptag); congruence.
  - (* pie *)
    destruct (write_cat false f fmt) as [cx|e] eqn:Hc; [|discriminate]. cbn [bind] in Hw.
    injection Hw as <-.
    exists RCat, (map (SDCat cx) (s0 :: sers')), ptag, [mkSer 0 0 (cat_ser_kids pre post cx s0)].
    split; [reflexivity|].
    split; [apply area_one_plot; repeat constructor|]. split; [exact Htag|].
    split; [cbn [ser_datas]; rewrite Hc; reflexivity|].
    split; [|split; repeat constructor; simpl; tauto].
    cbn [map firstn]. constructor; [apply cat_kids_reflect|constructor].
  - apply (Hnil RXy); [exact Htag|reflexivity|now inversion Hw].
  - apply (Hnil RXy); [exact Htag|reflexivity|now inversion Hw].
  - injection Hw as <-.
    exists RXy, (map (fun s => SDXy (xs_name s) (xs_fmt s) (map fst (xs_pts s)) (map snd (xs_pts s))) (s0 :: sers')), ptag,
      (mapi_from 0 (fun i s => mkSer i i (xy_ser_kids pre post (xs_name s) (xs_fmt s) (map fst (xs_pts s)) (map snd (xs_pts s)))) (s0 :: sers')).
    split; [reflexivity|].
    split; [exact (area_one_plot ptag 0 _ (mapi_sorted (fun s => xy_ser_kids pre post (xs_name s) (xs_fmt s) (map fst (xs_pts s)) (map snd (xs_pts s))) (s0 :: sers') 0))|].
    split; [exact Htag|]. split; [reflexivity|].
    split; [|exact (mapi_uniq (fun s => xy_ser_kids pre post (xs_name s) (xs_fmt s) (map fst (xs_pts s)) (map snd (xs_pts s))) (s0 :: sers') 0)].
    apply Forall2_map_r.
    exact (mapi_forall2 (fun s => xy_ser_kids pre post (xs_name s) (xs_fmt s) (map fst (xs_pts s)) (map snd (xs_pts s)))
             (fun s x => reflects s (SDXy (xs_name x) (xs_fmt x) (map fst (xs_pts x)) (map snd (xs_pts x)))) (s0 :: sers')
             (fun i x => xy_kids_reflect pre post _ _ _ _) 0).
  - apply (Hnil RXy); [exact Htag|reflexivity|now inversion Hw].
  - injection Hw as <-.
    exists RXy, (map (fun s => SDXy (bs_name s) (bs_fmt s) (map (fun p => fst (fst p)) (bs_pts s)) (map (fun p => snd (fst p)) (bs_pts s))) (s0 :: sers')), ptag,
      (mapi_from 0 (fun i s => mkSer i i (xy_ser_kids pre post (bs_name s) (bs_fmt s) (map (fun p => fst (fst p)) (bs_pts s)) (map (fun p => snd (fst p)) (bs_pts s)))) (s0 :: sers')).
    split; [reflexivity|].
    split; [exact (area_one_plot ptag 0 _ (mapi_sorted (fun s => xy_ser_kids pre post (bs_name s) (bs_fmt s) (map (fun p => fst (fst p)) (bs_pts s)) (map (fun p => snd (fst p)) (bs_pts s))) (s0 :: sers') 0))|].
    split; [exact Htag|]. split; [reflexivity|].
    split; [|exact (mapi_uniq (fun s => xy_ser_kids pre post (bs_name s) (bs_fmt s) (map (fun p => fst (fst p)) (bs_pts s)) (map (fun p => snd (fst p)) (bs_pts s))) (s0 :: sers') 0)].
    apply Forall2_map_r.
    exact (mapi_forall2 (fun s => xy_ser_kids pre post (bs_name s) (bs_fmt s) (map (fun p => fst (fst p)) (bs_pts s)) (map (fun p => snd (fst p)) (bs_pts s)))
             (fun s x => reflects s (SDXy (bs_name x) (bs_fmt x) (map (fun p => fst (fst p)) (bs_pts x)) (map (fun p => snd (fst p)) (bs_pts x)))) (s0 :: sers')
             (fun i x => xy_kids_reflect pre post _ _ _ _) 0).
  - apply (Hnil RXy); [exact Htag|reflexivity|now inversion Hw].
  - apply (Hnil RXy); [exact Htag|reflexivity|now inversion Hw].
  - apply (Hnil RBub); [exact Htag|reflexivity|now inversion Hw].
  - injection Hw as <-.
    exists RBub, (map (fun s => SDBub (bs_name s) (bs_fmt s) (map (fun p => fst (fst p)) (bs_pts s)) (map (fun p => snd (fst p)) (bs_pts s)) (map snd (bs_pts s))) (s0 :: sers')), ptag,
      (mapi_from 0 (fun i s => mkSer i i (bub_ser_kids (bs_name s) (bs_fmt s) (map (fun p => fst (fst p)) (bs_pts s)) (map (fun p => snd (fst p)) (bs_pts s)) (map snd (bs_pts s)))) (s0 :: sers')).
    split; [reflexivity|].
    split; [exact (area_one_plot ptag 0 _ (mapi_sorted (fun s => bub_ser_kids (bs_name s) (bs_fmt s) (map (fun p => fst (fst p)) (bs_pts s)) (map (fun p => snd (fst p)) (bs_pts s)) (map snd (bs_pts s))) (s0 :: sers') 0))|].
    split; [exact Htag|]. split; [reflexivity|].
    split; [|exact (mapi_uniq (fun s => bub_ser_kids (bs_name s) (bs_fmt s) (map (fun p => fst (fst p)) (bs_pts s)) (map (fun p => snd (fst p)) (bs_pts s)) (map snd (bs_pts s))) (s0 :: sers') 0)].
    apply Forall2_map_r.
    exact (mapi_forall2 (fun s => bub_ser_kids (bs_name s) (bs_fmt s) (map (fun p => fst (fst p)) (bs_pts s)) (map (fun p => snd (fst p)) (bs_pts s)) (map snd (bs_pts s)))
             (fun s x => reflects s (SDBub (bs_name x) (bs_fmt x) (map (fun p => fst (fst p)) (bs_pts x)) (map (fun p => snd (fst p)) (bs_pts x)) (map snd (bs_pts x)))) (s0 :: sers')
             (fun i x => bub_kids_reflect _ _ _ _ _) 0).
Qed.

(* ================================================================== reading categories back *)

Lemma pt_label_seen q : pt_label q = pt_v q.
Proof. reflexivity. Qed.

Definition cat_numeric (f : list cat_tree) (D : nat) : bool :=
  Nat.eqb D 1 && match f with t :: _ => is_numeric_label (tree_label t) | [] => false end.
(** The text python-pptx reports for a category label of chart data with categories [f]
    of depth [D]: what the writer puts into c:v, line ends normalised by the XML parser. *)
Definition cat_text (d1904 : bool) (f : list cat_tree) (D : nat) (l : label) : str :=
  (if cat_numeric f D then label_numstr d1904 l else label_str l).

Lemma find_pt_enum_below l : forall k j, j < k -> find_pt j (rev (enum_pts k l)) = None.
Proof.
  induction l as [|x l IH]; intros k j Hj; simpl; auto.
  unfold find_pt in *. rewrite find_app, IH by lia. simpl.
  destruct (Z.eqb_spec k j); [lia|reflexivity].
Qed.
Lemma find_last_enum l : forall k (i : nat), (i < length l)%nat ->
  find_last_pt (k + Z.of_nat i) (enum_pts k l) = Some (mkPt (k + Z.of_nat i) (nth i l [])).
Proof.
  unfold find_last_pt.
  induction l as [|x l IH]; intros k i Hi; simpl in Hi; [lia|].
  simpl. unfold find_pt in *. rewrite find_app. destruct i as [|i].
  - rewrite Z.add_0_r. fold (find_pt k (rev (enum_pts (k + 1) l))).
    rewrite find_pt_enum_below by lia. simpl. now rewrite Z.eqb_refl.
  - replace (k + Z.of_nat (S i)) with ((k + 1) + Z.of_nat i) by lia.
    rewrite IH by lia. reflexivity.
Qed.

Lemma depth1_leaf t : tree_depth t = Some 1%nat -> tree_subs t = [].
Proof.
  destruct t as [l subs]. rewrite tree_depth_node. intros [[-> _]|[Hne [D' [E Hall]]]]; [reflexivity|].
  injection E as <-. destruct subs as [|s subs]; [congruence|].
  inversion Hall as [|? ? Hs _]; subst. apply tree_depth_pos in Hs. lia.
Qed.
Lemma depth1_forest f : all_depth 1 f ->
  leaves_f f = Z.of_nat (length f) /\ paths_f f = map (fun t => [tree_label t]) f.
Proof.
  induction f as [|t f IH]; intros Hall; [split; reflexivity|].
  inversion Hall as [|? ? Ht Hr]; subst. destruct (IH Hr) as [E1 E2].
  pose proof (depth1_leaf t Ht) as Hs. destruct t as [l subs]. simpl in Hs. subst subs.
  cbn [leaves_f paths_f length]. rewrite leaves_node, paths_node, E1, E2. split; [lia|reflexivity].
Qed.

Lemma enum_pts_length l : forall k, length (enum_pts k l) = length l.
Proof. induction l; intros k; simpl; auto. Qed.

Lemma enum_pts_seq l : forall k,
  enum_pts k l = map (fun j => mkPt (k + Z.of_nat j) (nth j l [])) (seq 0 (length l)).
Proof.
  induction l as [|x l IH]; intros k; [reflexivity|].
  cbn [enum_pts length seq map nth]. rewrite Z.add_0_r. f_equal.
  rewrite IH, <- seq_shift, map_map. apply map_ext. intros j. cbn [nth]. f_equal. lia.
Qed.

(** Reading the categories of a plot whose first series carries [cx] and whose category
    count is that of the chart data. *)
Theorem write_cat_read d1904 f fmt cx p :
  write_cat d1904 f fmt = Ok cx -> f <> [] ->
  plot_cat p = Some cx -> plot_cat_count p = leaves_f f ->
  exists D, forest_depth f = Some D /\ (1 <= D)%nat /\
    let tau := cat_text d1904 f D in
    plot_cat_depth p = Z.of_nat D /\
    plot_flattened p = map (map tau) (paths_f f) /\
    plot_cat_labels p = map (fun path => tau (last path dlabel)) (paths_f f) /\
    plot_cat_levels p = if Nat.eqb D 1 then [] else map (map (tau' tau)) (levels f).
Proof.
  intros Hw Hne Hcat Hcount. unfold write_cat in Hw.
  destruct (forest_depth f) as [D|] eqn:HD; [|discriminate].
  exists D. split; [reflexivity|].
  pose proof (proj1 (forest_depth_all f D Hne) HD) as Hall.
  assert (HD1 : (1 <= D)%nat).
  { destruct f as [|t f]; [congruence|]. inversion Hall as [|? ? Ht _]; subst. eapply tree_depth_pos; eauto. }
  split; [exact HD1|]. intros tau.
  unfold plot_cat_depth, plot_flattened, plot_cat_labels, plot_cat_levels. rewrite Hcat, Hcount.
  destruct (Nat.eqb_spec D 1) as [->|HDn].
  - (* one level: strRef or numRef *)
    destruct (depth1_forest f Hall) as [EL EP].
    set (g := fun l => if cat_numeric f 1 then label_numstr d1904 l else label_str l).
    set (texts := map (fun t => (g (tree_label t))) f).
    assert (Hcx : cx_kind cx <> 2%N /\ cx_lvls cx = [] /\ cx_flat cx = enum_pts 0 texts).
    { unfold texts, g, cat_numeric. cbn [Nat.eqb andb] in *.
      destruct (match f with t :: _ => is_numeric_label (tree_label t) | [] => false end);
        cbn [andb] in Hw; injection Hw as <-; cbn [cx_kind cx_lvls cx_flat]; repeat split; discriminate. }
    destruct Hcx as [Hk [Hl Hf]].
    destruct (N.eqb_spec (cx_kind cx) 2) as [E|_]; [contradiction|].
    rewrite Hl. cbn [map].
    assert (Hlab : map (fun i => match find_last_pt (Z.of_nat i) (cat_pts_src cx) with
                                | Some q => pt_label q | None => [] end) (seq 0 (Z.to_nat (leaves_f f)))
                   = map (fun path => tau (last path dlabel)) (paths_f f)).
    { unfold cat_pts_src, all_cat_pts. rewrite Hl, Hf. cbn [concat]. rewrite app_nil_r.
      rewrite EL, Nat2Z.id, EP, map_map. cbn [last].
      rewrite <- (map_length (fun t => tau (tree_label t)) f) at 1.
      apply map_seq_eq. intros i x Hi. rewrite Nat.add_0_l.
      assert (i < length f)%nat as Hlt.
      { apply nth_error_Some. rewrite nth_error_map in Hi. destruct (nth_error f i); [discriminate|]. discriminate. }
      pose proof (find_last_enum texts 0 i) as Hfl. rewrite Z.add_0_l in Hfl.
      rewrite Hfl by (unfold texts; now rewrite map_length).
      rewrite pt_label_seen. cbn [pt_v]. unfold texts.
      rewrite nth_error_map in Hi. destruct (nth_error f i) as [t|] eqn:Et; [|discriminate].
      injection Hi as <-.
      rewrite (nth_map_in (fun t0 => (g (tree_label t0))) f i (CatNode dlabel []) (@nil N)) by exact Hlt.
      rewrite (nth_error_nth _ _ _ Et). reflexivity. }
    split; [reflexivity|]. split; [|split; [exact Hlab|reflexivity]].
    rewrite Hlab, EP, !map_map. reflexivity.
  - (* several levels: multiLvlStrRef *)
    assert (Hnum : cat_numeric f D = false).
    { unfold cat_numeric. destruct (Nat.eqb_spec D 1); [contradiction|reflexivity]. }
    assert (Hcx : cx = mkCatx 2 None [leaves_f f] []
              (map (map (fun il => mkPt (fst il) ((label_str (snd il))))) (levels f))).
    { destruct (Nat.eqb_spec D 1) as [|_]; [contradiction|]. cbn [andb] in Hw. injection Hw as <-. reflexivity. }
    subst cx. cbn [cx_kind cx_lvls N.eqb Pos.eqb].
    assert (Hlv : map (map (fun q => (pt_idx q, pt_label q)))
                    (map (map (fun il => mkPt (fst il) ((label_str (snd il))))) (levels f))
                  = map (map (tau' tau)) (levels f)).
    { rewrite map_map. apply map_ext. intros lv. rewrite map_map. apply map_ext. intros [i l].
      unfold tau', tau, cat_text. rewrite Hnum, pt_label_seen. reflexivity. }
    rewrite Hlv, map_length.
    destruct D as [|[|D2]]; try lia.
    rewrite (flattened_levels tau f (S (S D2))) by auto.
    split.
    { rewrite (levels_uniform f (S (S D2))) by auto. now rewrite map_length, rev_length, seq_length. }
    split; [reflexivity|]. split; [|reflexivity].
    (* list(categories): the leaf level *)
    rewrite (levels_uniform f (S (S D2))) by auto. rewrite rev_seq_S. cbn [map].
    destruct (level_f_segs f (S (S D2)) (S D2) 0 Hall ltac:(lia)) as [EL [ET EP]].
    pose proof (leaf_segs_f f (S D2) Hall) as Hones.
    destruct (idxs_ones (segs_f (S D2) f) 0 Hones) as [EI EN].
    set (sg := segs_f (S D2) f) in *.
    set (texts := map (fun l => (label_str l)) (expand sg)).
    assert (Hlen : length (expand sg) = length sg).
    { clear -Hones. induction sg as [|[l c] sg IH]; [reflexivity|].
      inversion Hones as [|? ? Hc Hr]; subst. simpl in Hc. subst c. simpl. now rewrite IH. }
    assert (Hleaf : map (fun il => mkPt (fst il) ((label_str (snd il)))) (level_f (S D2) 0 f)
                    = enum_pts 0 texts).
    { rewrite EL, EI, enum_pts_seq, map_map. unfold texts. rewrite map_length, Hlen.
      apply map_ext_in. intros j Hj. apply in_seq in Hj. cbn [fst snd].
      now rewrite (nth_map_in (fun l => (label_str l)) (expand sg) j dlabel (@nil N)) by lia. }
    assert (Hn : Z.to_nat (leaves_f f) = length texts).
    { unfold texts. rewrite map_length, Hlen, <- ET, EN. now rewrite Nat2Z.id. }
    assert (Hsrc : cat_pts_src (mkCatx 2 None [leaves_f f] []
               (map (fun il => mkPt (fst il) ((label_str (snd il)))) (level_f (S D2) 0 f)
                :: map (map (fun il => mkPt (fst il) ((label_str (snd il)))))
                     (map (fun k => level_f k 0 f) (rev (seq 0 (S D2)))))) = enum_pts 0 texts).
    { unfold cat_pts_src. cbn [cx_lvls]. rewrite Hleaf.
      destruct (enum_pts 0 texts) eqn:E; [|reflexivity].
      exfalso. apply (f_equal (@length pt)) in E. rewrite enum_pts_length, <- Hn in E. simpl in E.
      assert (1 <= leaves_f f).
      { destruct f as [|t f]; [congruence|]. simpl. pose proof (leaves_pos t). pose proof (leaves_f_nonneg f). lia. }
      lia. }
    rewrite Hsrc, Hn.
    assert (Hp : map (fun path => tau (last path dlabel)) (paths_f f) = map (fun v : str => v) texts).
    { unfold texts, sg. rewrite (expand_segs_f f (S (S D2)) (S D2)) by auto. rewrite !map_map.
      apply map_ext_in. intros path Hpath.
      pose proof (paths_f_length f (S (S D2)) Hall) as HF. rewrite Forall_forall in HF.
      specialize (HF path Hpath). unfold tau, cat_text. rewrite Hnum. do 3 f_equal.
      clear -HF. rewrite <- (rev_involutive path) at 1. 
      assert (length (rev path) = S (S D2)) by now rewrite rev_length.
      destruct (rev path) as [|x r] eqn:E; [discriminate|]. simpl. rewrite last_last.
      replace path with (rev r ++ [x]) by (rewrite <- (rev_involutive path), E; reflexivity).
      simpl in H. rewrite app_nth2; rewrite rev_length; [|lia].
      replace (S D2 - length r)%nat with 0%nat by lia. reflexivity. }
    rewrite Hp. rewrite <- (map_length (fun v : str => v) texts) at 1.
    apply map_seq_eq. intros i x Hi. rewrite Nat.add_0_l.
    rewrite nth_error_map in Hi. destruct (nth_error texts i) as [v|] eqn:Ev; [|discriminate].
    injection Hi as <-.
    assert (i < length texts)%nat by (apply nth_error_Some; congruence).
    pose proof (find_last_enum texts 0 i H) as Hfl. rewrite Z.add_0_l in Hfl. rewrite Hfl.
    rewrite pt_label_seen. cbn [pt_v]. now rewrite (nth_error_nth _ _ _ Ev).
Qed.

(* ================================================================== replace_data *)

Definition data_names (d : chart_data) : list str :=
  match d with DCat _ _ s => map cs_name s | DXy s => map xs_name s | DBub s => map bs_name s end.
(** The values series.values reports: Y values for XY and bubble data. *)
Definition data_values (d : chart_data) : list (list (option num)) :=
  match d with
  | DCat _ _ s => map cs_vals s
  | DXy s => map (fun x => map snd (xs_pts x)) s
  | DBub s => map (fun x => map (fun p => snd (fst p)) (bs_pts x)) s
  end.
Definition data_xvalues (d : chart_data) : list (option (list (option num))) :=
  match d with
  | DCat _ _ s => map (fun _ => None) s
  | DXy s => map (fun x => Some (map fst (xs_pts x))) s
  | DBub s => map (fun x => Some (map (fun p => fst (fst p)) (bs_pts x))) s
  end.
Definition data_sizes (d : chart_data) : list (option (list (option num))) :=
  match d with
  | DBub s => map (fun x => Some (map snd (bs_pts x))) s
  | _ => map (fun _ => None) (data_names d)
  end.

Definition rk_tags (rk : rkind) : list N :=
  match rk with
  | RCat => [tg_tx; tg_cat; tg_val]
  | RXy => [tg_tx; tg_xVal; tg_yVal]
  | RBub => [tg_tx; tg_xVal; tg_yVal; tg_bubbleSize]
  end.

Lemma ser_datas_facts rk b d sds : ser_datas rk b d = Ok sds ->
  length sds = data_len d /\
  map sd_name sds = data_names d /\ map sd_values sds = data_values d /\
  map sd_xvalues sds = data_xvalues d /\
  (rk = RBub \/ rk = RCat -> map sd_sizes sds = data_sizes d) /\
  Forall (fun sd => sd_is_xy sd = rk_xy rk /\ data_tags sd = rk_tags rk) sds.
Proof.
  assert (Hnil : forall d, data_len d = O ->
            0%nat = data_len d /\ @nil str = data_names d /\ @nil (list (option str)) = data_values d /\
            @nil (option (list (option str))) = data_xvalues d /\ @nil (option (list (option str))) = data_sizes d).
  { intros [f fmt [|]|[|]|[|]]; simpl; intros; try discriminate; repeat split. }
  destruct rk, d as [f fmt sers|sers|sers]; cbn [ser_datas];
    try (destruct (data_len _) eqn:El; [|discriminate]; intros H; injection H as <-;
         destruct (Hnil _ El) as [A [B [C [D E]]]]; simpl;
         repeat split; auto; constructor).
  - destruct (write_cat b f fmt) as [cx|]; [|discriminate]. cbn [bind]. intros H; injection H as <-.
    cbn [data_len data_names data_values data_xvalues data_sizes].
    rewrite map_length, !map_map. repeat split; auto.
    apply Forall_forall. intros sd Hsd. apply in_map_iff in Hsd. destruct Hsd as [x [<- _]]. auto.
  - intros H; injection H as <-. rewrite map_length, !map_map. repeat split; auto.
    + intros [E|E]; discriminate.
    + apply Forall_forall. intros sd Hsd. apply in_map_iff in Hsd. destruct Hsd as [x [<- _]]. auto.
  - intros H; injection H as <-. rewrite map_length, !map_map. repeat split; auto.
    + intros [E|E]; discriminate.
    + apply Forall_forall. intros sd Hsd. apply in_map_iff in Hsd. destruct Hsd as [x [<- _]]. auto.
  - intros H; injection H as <-. rewrite map_length, !map_map. repeat split; auto.
    apply Forall_forall. intros sd Hsd. apply in_map_iff in Hsd. destruct Hsd as [x [<- _]]. auto.
Qed.

Lemma zip_rw_reflects sc l : forall ds, length l = length ds -> Forall2 reflects (zip_rw sc l ds) ds.
Proof.
  induction l as [|s l IH]; intros [|d ds] Hl; simpl in *; try discriminate; constructor.
  - apply rewrite_reflects.
  - apply IH. lia.
Qed.

(** Each rewritten series keeps idx, order and every child that is not a data child. *)
Lemma zip_rw_keeps sc tags l : forall ds, Forall (fun sd => data_tags sd = tags) ds ->
  Forall2 (fun s' s => s_idx s' = s_idx s /\ s_order s' = s_order s /\
                       other_kids tags (s_kids s') = other_kids tags (s_kids s))
          (zip_rw sc l ds) l.
Proof.
  assert (Hid : forall l : list ser, Forall2 (fun s' s => s_idx s' = s_idx s /\ s_order s' = s_order s /\
                       other_kids tags (s_kids s') = other_kids tags (s_kids s)) l l).
  { intros l0. induction l0; constructor; auto. }
  induction l as [|s l IH]; intros [|d ds] Hf; simpl.
  - constructor.
  - constructor.
  - apply Hid.
  - inversion Hf; subst. destruct (rewrite_others sc s d) as [A [B C]]. constructor; auto.
Qed.

Theorem replace_spec sc d c c' : replace sc d c = Ok c' ->
  exists rk ps sds,
    rewriter_kind c = Ok rk /\ adjust (ch_plots c) (data_len d) = Ok ps /\
    ser_datas rk (ch_1904 c) d = Ok sds /\
    length (area_sers_of ps) = length sds /\
    ch_1904 c' = ch_1904 c /\ ch_rest c' = ch_rest c /\
    ch_plots c' = rewrite_plots sc sds ps /\
    area_sers c' = zip_rw sc (area_sers_of ps) sds.
Proof.
  unfold replace. destruct (rewriter_kind c) as [rk|] eqn:Hk; [|discriminate]. cbn [bind].
  destruct (adjust (ch_plots c) (data_len d)) as [ps|] eqn:Ha; [|discriminate]. cbn [bind].
  destruct (ser_datas rk (ch_1904 c) d) as [sds|] eqn:Hs; [|discriminate]. cbn [bind].
  intros H; injection H as <-. exists rk, ps, sds.
  destruct (adjust_spec _ _ _ Ha) as [Hlen _].
  destruct (ser_datas_facts _ _ _ _ Hs) as [Hl _].
  repeat split; auto; try congruence.
  unfold area_sers. cbn [ch_plots]. apply area_rewrite_plots.
Qed.

Lemma Forall2_map_eq {A B C} (R : A -> B -> Prop) (g : A -> C) (h : B -> C) l1 l2 :
  Forall2 R l1 l2 -> (forall a b, R a b -> g a = h b) -> map g l1 = map h l2.
Proof. induction 1; intros Hgh; simpl; auto. f_equal; auto. Qed.

Lemma Forall2_Forall_r {A B} (R : A -> B -> Prop) (P : B -> Prop) l1 l2 :
  Forall2 R l1 l2 -> Forall P l2 -> Forall2 (fun a b => R a b /\ P b) l1 l2.
Proof. induction 1; intros HP; inversion HP; subst; constructor; auto. Qed.

Lemma Forall2_in_l {A B} (R : A -> B -> Prop) l1 l2 a :
  Forall2 R l1 l2 -> In a l1 -> exists b, In b l2 /\ R a b.
Proof.
  induction 1; intros Ha; [destruct Ha|]. destruct Ha as [<-|Ha].
  - eexists; split; [now left|eauto].
  - destruct (IHForall2 Ha) as [b [Hb Hr]]. exists b. split; [now right|auto].
Qed.

(* ---- what the read API reports for a whole chart ---- *)
Definition chart_names (c : chart) : list str := map ser_name (area_sers c).
Definition chart_values (c : chart) : list (list (option str)) :=
  concat (map (fun p => map (ser_values_raw (p_tag p)) (plot_sers p)) (ch_plots c)).
Definition chart_xvalues (c : chart) := map (ser_cache kid_xval) (area_sers c).
Definition chart_sizes (c : chart) := map (ser_cache kid_bub) (area_sers c).

(** Every plot is of the kind (XY-like or category-like) of the first one. *)
Definition homog (ps : list plot) : Prop :=
  forall p, In p ps -> is_xy_plot (p_tag p) = match ps with p0 :: _ => is_xy_plot (p_tag p0) | [] => false end.

Lemma ser_values_raw_flag t1 t2 s : is_xy_plot t1 = is_xy_plot t2 -> ser_values_raw t1 s = ser_values_raw t2 s.
Proof. intros H. unfold ser_values_raw. now rewrite H. Qed.

Lemma chart_values_flag (ps : list plot) t :
  (forall p, In p ps -> is_xy_plot (p_tag p) = is_xy_plot t) ->
  concat (map (fun p => map (ser_values_raw (p_tag p)) (plot_sers p)) ps)
  = map (ser_values_raw t) (area_sers_of ps).
Proof.
  intros H. induction ps as [|p ps IH]; [reflexivity|]. simpl.
  change (area_sers_of (p :: ps)) with (plot_sers p ++ area_sers_of ps).
  rewrite map_app, IH by (intros q Hq; apply H; now right). f_equal.
  apply map_ext. intros s. apply ser_values_raw_flag. apply H. now left.
Qed.

Lemma rewriter_kind_flag c rk : rewriter_kind c = Ok rk ->
  match ch_plots c with p0 :: _ => is_xy_plot (p_tag p0) = rk_xy rk | [] => False end.
Proof.
  unfold rewriter_kind. destruct (ch_plots c) as [|p0 ps]; [discriminate|].
  destruct (negb (plot_factory_ok (p_tag p0))); [discriminate|].
  unfold is_xy_plot.
  destruct (N.eqb (p_tag p0) pt_bubble); [intros H; injection H as <-; reflexivity|].
  destruct (N.eqb (p_tag p0) pt_scatter); intros H; injection H as <-; reflexivity.
Qed.

Lemma tags_within_rewrite sc sds ps : tags_within (rewrite_plots sc sds ps) ps.
Proof. apply tags_within_frames, frames_rewrite_plots. Qed.

Lemma reports_of_reflects t sers sds rk :
  Forall2 reflects sers sds ->
  Forall (fun sd => sd_is_xy sd = rk_xy rk /\ data_tags sd = rk_tags rk) sds ->
  is_xy_plot t = rk_xy rk ->
  map ser_name sers = map sd_name sds /\
  map (ser_values_raw t) sers = map sd_values sds /\
  (rk_xy rk = true -> map (ser_cache kid_xval) sers = map sd_xvalues sds) /\
  (rk = RBub -> map (ser_cache kid_bub) sers = map sd_sizes sds).
Proof.
  intros HR HF Ht. pose proof (Forall2_Forall_r _ _ _ _ HR HF) as H2.
  split; [|split; [|split]].
  - eapply Forall2_map_eq; [exact HR|]. intros a b Hab. now apply reflect_name.
  - eapply Forall2_map_eq; [exact H2|]. intros a b [Hab [Hx _]]. apply reflect_values; auto. congruence.
  - intros Hxy. eapply Forall2_map_eq; [exact H2|]. intros a b [Hab [Hx _]]. apply reflect_xvalues; auto. congruence.
  - intros ->. eapply Forall2_map_eq; [exact H2|]. intros a b [Hab [Hx Hd]].
    destruct b; try discriminate. simpl. eapply reflect_sizes; eauto.
Qed.

(* ================================================================== theorems about the writers *)

Lemma kept_map {X Y} ct (g : X -> Y) l : kept ct (map g l) = map g (kept ct l).
Proof. unfold kept. destruct (is_pie ct); [now rewrite firstn_map|reflexivity]. Qed.

Lemma kept_forall {X} ct (P : X -> Prop) l : Forall P l -> Forall P (kept ct l).
Proof.
  unfold kept. destruct (is_pie ct); auto. intros H. rewrite <- (firstn_skipn 1 l) in H.
  apply Forall_app in H. tauto.
Qed.

Lemma one_plot_values ptag pl sers : StronglySorted (le_key s_order) sers \/ True ->
  area_sers (mkChart false 0 [mkPlot ptag pl sers]) = sers ->
  chart_values (mkChart false 0 [mkPlot ptag pl sers]) = map (ser_values_raw ptag) sers.
Proof.
  intros _ H. unfold chart_values. cbn [ch_plots map concat p_tag]. rewrite app_nil_r.
  unfold area_sers, area_sers_of in H. cbn [ch_plots map concat] in H. rewrite app_nil_r in H. now rewrite H.
Qed.

(** What the read API reports for a chart made by a writer. *)
Theorem write_reports ct d c : write ct d = Ok c ->
  chart_names c = kept ct (data_names d) /\
  chart_values c = kept ct (data_values d) /\
  uniq (area_sers c) /\
  match d with DCat _ _ _ => True | _ => chart_xvalues c = kept ct (data_xvalues d) end.
Proof.
  intros Hw. destruct (write_reflects ct d c Hw) as [rk [sds [ptag [sers [-> [Ha [Ht [Hs [HR Hu]]]]]]]]].
  destruct (ser_datas_facts _ _ _ _ Hs) as [Hl [Hn [Hv [Hx [_ HF]]]]].
  destruct (reports_of_reflects ptag sers (kept ct sds) rk HR (kept_forall ct _ _ HF) Ht) as [R1 [R2 [R3 _]]].
  unfold chart_names, chart_xvalues. rewrite (one_plot_values ptag 0 sers (or_intror I) Ha), Ha.
  split; [|split; [|split; [exact Hu|]]].
  - rewrite R1, <- Hn, <- kept_map. reflexivity.
  - rewrite R2, <- Hv, <- kept_map. reflexivity.
  - destruct d as [f fmt l|l|l]; [exact I| |]; rewrite <- Hx, kept_map.
    + destruct rk; [|apply R3; reflexivity|apply R3; reflexivity].
      simpl in Hs. destruct l; [|discriminate]. injection Hs as <-.
      unfold kept in *. destruct (is_pie ct); simpl in *; inversion HR; reflexivity.
    + destruct rk; [|apply R3; reflexivity|apply R3; reflexivity].
      simpl in Hs. destruct l; [|discriminate]. injection Hs as <-.
      unfold kept in *. destruct (is_pie ct); simpl in *; inversion HR; reflexivity.
Qed.

(** Bubble sizes of a chart made by a bubble writer. *)
Theorem write_bubble_sizes ct sers c : ct = 15 \/ ct = 87 -> write ct (DBub sers) = Ok c ->
  chart_sizes c = data_sizes (DBub sers).
Proof.
  intros Hct Hw.
  assert (Hc : c = mkChart false 0 [mkPlot pt_bubble 0
                 (mapi_from 0 (fun i s => mkSer i i (bub_ser_kids (bs_name s) (bs_fmt s)
                    (map (fun p => fst (fst p)) (bs_pts s)) (map (fun p => snd (fst p)) (bs_pts s))
                    (map snd (bs_pts s)))) sers)]).
  { destruct Hct as [-> | ->]; unfold write in Hw; cbn in Hw; now injection Hw as <-. }
  subst c. unfold chart_sizes.
  rewrite (area_one_plot pt_bubble 0 _ (mapi_sorted _ sers 0)). cbn [data_sizes].
  pose proof (mapi_forall2 (fun s => bub_ser_kids (bs_name s) (bs_fmt s)
                    (map (fun p => fst (fst p)) (bs_pts s)) (map (fun p => snd (fst p)) (bs_pts s))
                    (map snd (bs_pts s)))
               (fun s x => ser_cache kid_bub s = Some (map snd (bs_pts x))) sers) as H.
  eapply Forall2_map_eq; [apply H|].
  - intros i x. eapply reflect_sizes. apply bub_kids_reflect.
  - auto.
Qed.

Lemma write_cat_counts b f fmt cx : write_cat b f fmt = Ok cx -> cx_counts cx = [leaves_f f].
Proof.
  unfold write_cat. destruct (forest_depth f); [|discriminate].
  repeat match goal with |- context [if ?b then _ else _] => destruct b end;
    intros H; injection H as <-; reflexivity.
Qed.

Lemma plot_cat_of_first p s rest cx cs n : p_sers p = s :: rest -> reflects s (SDCat cx cs) ->
  cx_counts cx = [n] -> plot_cat p = Some cx /\ plot_cat_count p = n.
Proof.
  intros Hp Hr Hn. destruct (reflect_cat s cx cs Hr) as [H1 H2].
  unfold plot_cat, plot_cat_count. rewrite Hp. split; [exact H1|].
  cbn [map concat]. fold (proj kid_cat_counts (s_kids s)). rewrite H2, Hn. reflexivity.
Qed.

(** The categories a chart made by a writer reports. *)
Theorem write_categories ct f fmt sers c : write ct (DCat f fmt sers) = Ok c -> sers <> [] -> f <> [] ->
  exists p, ch_plots c = [p] /\
  exists D, forest_depth f = Some D /\ (1 <= D)%nat /\
    let tau := cat_text false f D in
    plot_cat_count p = leaves_f f /\
    plot_cat_depth p = Z.of_nat D /\
    plot_flattened p = map (map tau) (paths_f f) /\
    plot_cat_labels p = map (fun path => tau (last path dlabel)) (paths_f f) /\
    plot_cat_levels p = if Nat.eqb D 1 then [] else map (map (tau' tau)) (levels f).
Proof.
  intros Hw Hs Hf. destruct (write_reflects _ _ _ Hw) as [rk [sds [ptag [sers' [-> [Ha [Ht [Hsd [HR Hu]]]]]]]]].
  eexists. split; [reflexivity|].
  destruct rk; cbn [ser_datas] in Hsd;
    try (destruct sers; [congruence|discriminate]).
  destruct sers as [|s0 sers0]; [congruence|].
  destruct (write_cat false f fmt) as [cx|] eqn:Hc; [|discriminate]. cbn [bind] in Hsd. injection Hsd as <-.
  assert (exists s rest cs, sers' = s :: rest /\ reflects s (SDCat cx cs)) as [s [rest [cs [-> Hrs]]]].
  { unfold kept in HR. destruct (is_pie ct); cbn [map firstn] in HR; inversion HR; subst; eauto. }
  destruct (plot_cat_of_first (mkPlot ptag 0 (s :: rest)) s rest cx cs _ eq_refl Hrs
              (write_cat_counts _ _ _ _ Hc)) as [P1 P2].
  destruct (write_cat_read false f fmt cx _ Hc Hf P1 P2) as [D [HD [HD1 H]]].
  exists D. split; [exact HD|]. split; [exact HD1|]. split; [exact P2|]. exact H.
Qed.

(* ================================================================== theorems about replace_data *)

Lemma Forall2_firstn {A B} (R : A -> B -> Prop) k : forall l1 l2,
  Forall2 R l1 l2 -> Forall2 R (firstn k l1) (firstn k l2).
Proof. induction k; intros l1 l2 H; [constructor|]. destruct H; simpl; constructor; auto. Qed.
Lemma Forall2_skipn {A B} (R : A -> B -> Prop) k : forall l1 l2,
  Forall2 R l1 l2 -> Forall2 R (skipn k l1) (skipn k l2).
Proof. induction k; intros l1 l2 H; [exact H|]. destruct H; simpl; [constructor|auto]. Qed.
Lemma Forall2_length {A B} (R : A -> B -> Prop) l1 l2 : Forall2 R l1 l2 -> length l1 = length l2.
Proof. induction 1; simpl; auto. Qed.

Definition keeps (tags : list N) (s' s : ser) : Prop :=
  s_idx s' = s_idx s /\ s_order s' = s_order s /\
  other_kids tags (s_kids s') = other_kids tags (s_kids s).

Lemma keeps_uniq tags l' l : Forall2 (keeps tags) l' l -> uniq l -> uniq l'.
Proof.
  intros H [U1 U2].
  assert (map s_idx l' = map s_idx l) as E1 by (eapply Forall2_map_eq; [exact H|]; intros a b K; apply K).
  assert (map s_order l' = map s_order l) as E2 by (eapply Forall2_map_eq; [exact H|]; intros a b K; apply K).
  unfold uniq. now rewrite E1, E2.
Qed.

(** replace_data keeps c:idx and c:order values unique. *)
Theorem replace_uniq sc d c c' : replace sc d c = Ok c' -> uniq (area_sers c) -> uniq (area_sers c').
Proof.
  intros Hr Hu. destruct (replace_spec _ _ _ _ Hr) as [rk [ps [sds [Hk [Ha [Hs [Hl [_ [_ [_ Harea]]]]]]]]]].
  destruct (adjust_spec _ _ _ Ha) as [_ [Hu' _]].
  destruct (ser_datas_facts _ _ _ _ Hs) as [_ [_ [_ [_ [_ HF]]]]].
  rewrite Harea. eapply keeps_uniq; [|apply Hu', Hu].
  apply (zip_rw_keeps sc (rk_tags rk)). eapply Forall_impl; [|exact HF]. intros sd [_ H]. exact H.
Qed.

Definition replace_all (sc : succs) (ops : list chart_data) (c : chart) : res chart :=
  fold_left (fun r d => bind r (replace sc d)) ops (Ok c).

Lemma fold_bind_err sc ops e : fold_left (fun r d => bind r (replace sc d)) ops (Err e) = Err e.
Proof. induction ops; simpl; auto. Qed.

Theorem history_uniq sc ops : forall c c', uniq (area_sers c) -> replace_all sc ops c = Ok c' -> uniq (area_sers c').
Proof.
  unfold replace_all. induction ops as [|d ops IH]; intros c c' Hu H; simpl in H.
  - now injection H as <-.
  - destruct (replace sc d c) as [c1|e] eqn:E.
    + eapply IH; [|exact H]. eapply replace_uniq; eauto.
    + rewrite fold_bind_err in H. discriminate.
Qed.

Lemma homog_within ps' ps flag : tags_within ps' ps ->
  (forall p, In p ps -> is_xy_plot (p_tag p) = flag) -> forall p', In p' ps' -> is_xy_plot (p_tag p') = flag.
Proof.
  intros Hw H p' Hp'. destruct (Hw p' Hp') as [p [Hp Hf]]. unfold frame in Hf.
  injection Hf as Ht _. rewrite Ht. auto.
Qed.

Lemma tags_within_trans a b c : tags_within a b -> tags_within b c -> tags_within a c.
Proof.
  intros H1 H2 p Hp. destruct (H1 p Hp) as [q [Hq E1]]. destruct (H2 q Hq) as [r [Hr E2]].
  exists r. split; auto. congruence.
Qed.

(** After replace_data the read API reports the names and values of the new data. *)
Theorem replace_reports sc d c c' : replace sc d c = Ok c' -> homog (ch_plots c) ->
  length (area_sers c') = data_len d /\
  chart_names c' = data_names d /\
  chart_values c' = data_values d /\
  (forall p0 r, ch_plots c = p0 :: r -> is_xy_plot (p_tag p0) = true -> chart_xvalues c' = data_xvalues d) /\
  (forall p0 r, ch_plots c = p0 :: r -> p_tag p0 = pt_bubble -> chart_sizes c' = data_sizes d).
Proof.
  intros Hr Hh. destruct (replace_spec _ _ _ _ Hr) as [rk [ps [sds [Hk [Ha [Hs [Hl [_ [_ [Hps Harea]]]]]]]]]].
  destruct (adjust_spec _ _ _ Ha) as [Hn [_ [Hw _]]].
  destruct (ser_datas_facts _ _ _ _ Hs) as [Hlen [Hnm [Hv [Hx [Hz HF]]]]].
  pose proof (rewriter_kind_flag _ _ Hk) as Hflag.
  destruct (ch_plots c) as [|p0 r] eqn:Ec; [contradiction|].
  assert (Hall : forall p', In p' (ch_plots c') -> is_xy_plot (p_tag p') = is_xy_plot (p_tag p0)).
  { rewrite Hps. eapply homog_within.
    - eapply tags_within_trans; [apply tags_within_rewrite|exact Hw].
    - intros p Hp. apply (Hh p Hp). }
  pose proof (zip_rw_reflects sc (area_sers_of ps) sds Hl) as HR. rewrite <- Harea in HR.
  destruct (reports_of_reflects (p_tag p0) _ _ rk HR HF Hflag) as [R1 [R2 [R3 R4]]].
  split; [rewrite (Forall2_length _ _ _ HR); exact Hlen|].
  split; [unfold chart_names; rewrite R1, <- Hnm; reflexivity|].
  split.
  { unfold chart_values. rewrite (chart_values_flag (ch_plots c') (p_tag p0) Hall).
    fold (area_sers c'). now rewrite R2. }
  split.
  - intros p1 r1 E Hxy. injection E as <- <-. unfold chart_xvalues. rewrite R3, Hx; congruence.
  - intros p1 r1 E Hb. injection E as <- <-.
    assert (rk = RBub) as ->.
    { unfold rewriter_kind in Hk. rewrite Ec, Hb in Hk. cbn in Hk. now injection Hk as <-. }
    unfold chart_sizes. rewrite R4, Hz; auto.
Qed.

(** After replace_data with category data every plot that has series reports the new
    categories (dates in the date system of the chart). *)
Theorem replace_categories sc f fmt sers c c' :
  replace sc (DCat f fmt sers) c = Ok c' -> sers <> [] -> f <> [] ->
  forall p, In p (ch_plots c') -> p_sers p <> [] ->
  exists D, forest_depth f = Some D /\ (1 <= D)%nat /\
    let tau := cat_text (ch_1904 c) f D in
    plot_cat_count p = leaves_f f /\
    plot_cat_depth p = Z.of_nat D /\
    plot_flattened p = map (map tau) (paths_f f) /\
    plot_cat_labels p = map (fun path => tau (last path dlabel)) (paths_f f) /\
    plot_cat_levels p = if Nat.eqb D 1 then [] else map (map (tau' tau)) (levels f).
Proof.
  intros Hr Hs Hf p Hp Hne.
  destruct (replace_spec _ _ _ _ Hr) as [rk [ps [sds [Hk [Ha [Hsd [Hl [_ [_ [Hps Harea]]]]]]]]]].
  destruct rk; cbn [ser_datas] in Hsd; try (destruct sers; [congruence|discriminate]).
  destruct sers as [|s0 sers0]; [congruence|].
  destruct (write_cat (ch_1904 c) f fmt) as [cx|] eqn:Hc; [|discriminate]. cbn [bind] in Hsd. injection Hsd as <-.
  pose proof (zip_rw_reflects sc (area_sers_of ps) _ Hl) as HR. rewrite <- Harea in HR.
  destruct (p_sers p) as [|s rest] eqn:Eps; [congruence|].
  assert (In s (area_sers c')) as Hin.
  { unfold area_sers, area_sers_of. apply in_concat. exists (plot_sers p). split; [now apply in_map|].
    unfold plot_sers. apply sort_by_in. rewrite Eps. now left. }
  destruct (Forall2_in_l _ _ _ _ HR Hin) as [sd [Hsd Hrs]].
  change (SDCat cx s0 :: map (SDCat cx) sers0) with (map (SDCat cx) (s0 :: sers0)) in Hsd.
  apply in_map_iff in Hsd. destruct Hsd as [cs [<- _]].
  destruct (plot_cat_of_first p s rest cx cs _ Eps Hrs (write_cat_counts _ _ _ _ Hc)) as [P1 P2].
  destruct (write_cat_read _ f fmt cx p Hc Hf P1 P2) as [D [HD [HD1 H]]].
  exists D. split; [exact HD|]. split; [exact HD1|]. split; [exact P2|]. exact H.
Qed.

(* ---- which plots are left: those that keep one of the first n series ---- *)

Fixpoint surviving (n : nat) (ps : list plot) : list (N * N) :=
  match ps with
  | [] => []
  | p :: ps' =>
      let m := length (p_sers p) in
      (if Nat.ltb 0 (Nat.min n m) then [frame p] else []) ++ surviving (n - m) ps'
  end.

Fixpoint keep_counts (n : nat) (lens : list nat) : list nat :=
  match lens with [] => [] | m :: r => Nat.min n m :: keep_counts (n - m) r end.
Fixpoint dec_last (l : list nat) : list nat :=
  match l with
  | [] => []
  | m :: r => if existsb (fun x => negb (Nat.eqb x 0)) r then m :: dec_last r else pred m :: r
  end.
Definition lens (ps : list plot) : list nat := map (fun p => length (p_sers p)) ps.

Lemma has_sers_lens ps : has_sers ps = existsb (fun x => negb (Nat.eqb x 0)) (lens ps).
Proof.
  induction ps as [|p ps IH]; [reflexivity|]. simpl. rewrite IH. destruct (p_sers p); reflexivity.
Qed.

Lemma remove_nth_length {A} (l : list A) : forall n, (n < length l)%nat -> length (remove_nth n l) = pred (length l).
Proof.
  induction l as [|x l IH]; intros n Hn; simpl in Hn; [lia|]. destruct n; simpl; [reflexivity|].
  rewrite IH by lia. destruct l; simpl in *; lia.
Qed.

Lemma lens_remove_last ps : lens (remove_last_ser ps) = dec_last (lens ps).
Proof.
  induction ps as [|p ps IH]; [reflexivity|]. cbn [remove_last_ser lens map dec_last].
  fold (lens ps). rewrite <- has_sers_lens. destruct (has_sers ps).
  - cbn [map]. f_equal. exact IH.
  - cbn [map]. f_equal. unfold drop_last_ser.
    destruct (rev (order_positions (p_sers p))) as [|pos r] eqn:E.
    + assert (order_positions (p_sers p) = []) as E0.
      { rewrite <- (rev_involutive (order_positions _)), E. reflexivity. }
      apply (f_equal (@length nat)) in E0. unfold order_positions in E0.
      rewrite map_length, sort_by_length in E0. unfold decorate in E0.
      rewrite combine_length, seq_length, Nat.min_id in E0. simpl in E0. now rewrite E0.
    + cbn [p_sers set_sers]. apply remove_nth_length. eapply last_pos_lt; eauto.
Qed.

Definition sum_nat (l : list nat) : nat := fold_right Nat.add 0%nat l.

Lemma keep_counts_zero l : keep_counts 0 l = map (fun _ => 0%nat) l.
Proof. induction l as [|m r IH]; simpl; auto. now rewrite IH. Qed.
Lemma exists_nonzero_zero (l : list nat) : existsb (fun x => negb (Nat.eqb x 0)) (map (fun _ => 0%nat) l) = false.
Proof. induction l; simpl; auto. Qed.

Lemma keep_counts_all l : forall n, (sum_nat l <= n)%nat -> keep_counts n l = l.
Proof.
  induction l as [|m r IH]; intros n Hn; simpl in *; auto. rewrite Nat.min_r by lia. f_equal. apply IH. lia.
Qed.

Lemma exists_nonzero_keep l : forall n, (1 <= n)%nat -> (n <= sum_nat l)%nat ->
  existsb (fun x => negb (Nat.eqb x 0)) (keep_counts n l) = true.
Proof.
  induction l as [|m r IH]; intros n H1 H2; simpl in *; [lia|].
  destruct (Nat.min n m) eqn:E; simpl; auto.
  apply IH; lia.
Qed.

Lemma dec_last_keep l : forall n, (S n <= sum_nat l)%nat -> dec_last (keep_counts (S n) l) = keep_counts n l.
Proof.
  induction l as [|m r IH]; intros n Hn; [simpl in Hn; lia|].
  cbn [keep_counts dec_last]. cbn [sum_nat fold_right] in Hn. fold (sum_nat r) in Hn.
  destruct (Nat.le_gt_cases (S n) m) as [Hle|Hgt].
  - replace (S n - m)%nat with 0%nat by lia. replace (n - m)%nat with 0%nat by lia.
    rewrite keep_counts_zero, exists_nonzero_zero. rewrite !Nat.min_l by lia. reflexivity.
  - replace (S n - m)%nat with (S (n - m)) by lia.
    rewrite exists_nonzero_keep by lia. rewrite IH by lia. f_equal. lia.
Qed.

Lemma lens_iter_remove k : forall ps, (k <= sum_nat (lens ps))%nat ->
  lens (Nat.iter k remove_last_ser ps) = keep_counts (sum_nat (lens ps) - k) (lens ps).
Proof.
  induction k as [|k IH]; intros ps Hk.
  - simpl. rewrite Nat.sub_0_r. symmetry. apply keep_counts_all. lia.
  - change (Nat.iter (S k) remove_last_ser ps) with (remove_last_ser (Nat.iter k remove_last_ser ps)).
    rewrite lens_remove_last, IH by lia.
    replace (sum_nat (lens ps) - k)%nat with (S (sum_nat (lens ps) - S k)) by lia.
    apply dec_last_keep. lia.
Qed.

Lemma surviving_filter ps : forall Q n, map frame Q = map frame ps -> lens Q = keep_counts n (lens ps) ->
  map frame (filter (fun p => match p_sers p with [] => false | _ => true end) Q) = surviving n ps.
Proof.
  induction ps as [|p ps IH]; intros [|q Q] n Hf Hl; simpl in *; try discriminate; auto.
  assert (Hq : frame q = frame p) by congruence.
  assert (HQ : map frame Q = map frame ps) by congruence.
  injection Hl as Lq LQ.
  rewrite <- (IH Q (n - length (p_sers p))%nat HQ LQ).
  destruct (p_sers q) eqn:Eq; simpl in Lq.
  - rewrite <- Lq. reflexivity.
  - rewrite <- Lq. simpl. now rewrite Hq.
Qed.

Lemma sum_lens_area ps : sum_nat (lens ps) = length (area_sers_of ps).
Proof.
  induction ps as [|p ps IH]; [reflexivity|]. simpl.
  change (area_sers_of (p :: ps)) with (plot_sers p ++ area_sers_of ps).
  rewrite app_length, length_plot_sers. now rewrite IH.
Qed.

Theorem frames_trim ps n : (n <= length (area_sers_of ps))%nat ->
  map frame (trim (length (area_sers_of ps) - n) ps) = surviving n ps.
Proof.
  intros Hn. unfold trim. apply surviving_filter.
  - apply frames_iter_remove.
  - rewrite lens_iter_remove by (rewrite sum_lens_area; lia).
    rewrite sum_lens_area. f_equal. lia.
Qed.

(** replace_data changes nothing but the data children of the series: the date system
    and everything outside the xChart elements stay; a series that survives keeps idx,
    order and every other child; an added series has the other children of an existing
    one; the xChart elements (series aside) stay, except that when series are removed the
    plots left are exactly those that keep one of the first n series. *)
Theorem replace_keeps sc d c c' : replace sc d c = Ok c' ->
  exists rk, rewriter_kind c = Ok rk /\
  let old := area_sers c in
  let new := area_sers c' in
  let n := data_len d in
  ch_1904 c' = ch_1904 c /\ ch_rest c' = ch_rest c /\ length new = n /\
  Forall2 (keeps (rk_tags rk)) (firstn (length old) new) (firstn n old) /\
  (forall s, In s (skipn (length old) new) ->
     exists src, In src old /\ other_kids (rk_tags rk) (s_kids s) = other_kids (rk_tags rk) (s_kids src)) /\
  map frame (ch_plots c') = (if Nat.ltb n (length old) then surviving n (ch_plots c) else map frame (ch_plots c)).
Proof.
  intros Hr. destruct (replace_spec _ _ _ _ Hr) as [rk [ps [sds [Hk [Ha [Hs [Hl [H19 [Hrest [Hps Harea]]]]]]]]]].
  exists rk. split; [exact Hk|]. cbv zeta.
  destruct (adjust_spec _ _ _ Ha) as [Hn [_ [_ Hcase]]].
  destruct (ser_datas_facts _ _ _ _ Hs) as [Hlen [_ [_ [_ [_ HF]]]]].
  assert (HK : Forall2 (keeps (rk_tags rk)) (area_sers c') (area_sers_of ps)).
  { rewrite Harea. apply zip_rw_keeps. eapply Forall_impl; [|exact HF]. intros sd [_ H]. exact H. }
  assert (Hnew : length (area_sers c') = data_len d).
  { rewrite (Forall2_length _ _ _ HK). exact Hn. }
  split; [exact H19|]. split; [exact Hrest|]. split; [exact Hnew|].
  rewrite Hps, frames_rewrite_plots.
  fold (area_sers c) in Hcase.
  destruct Hcase as [[Hle [Hfr [news [Harea2 Hnews]]]]|[Hlt [Htrim Harea2]]].
  - destruct (Nat.ltb_spec (data_len d) (length (area_sers c))) as [|_]; [lia|].
    split; [|split; [|exact Hfr]].
    + rewrite (firstn_all2 (n := data_len d)) by lia.
      pose proof (Forall2_firstn _ (length (area_sers c)) _ _ HK) as H. rewrite Harea2 in H.
      rewrite firstn_app, firstn_all, Nat.sub_diag in H. simpl in H. now rewrite app_nil_r in H.
    + intros s Hsk.
      pose proof (Forall2_skipn _ (length (area_sers c)) _ _ HK) as H. rewrite Harea2 in H.
      rewrite skipn_app, skipn_all, Nat.sub_diag in H. simpl in H.
      destruct (Forall2_in_l _ _ _ _ H Hsk) as [s0 [Hs0 [_ [_ Ko]]]].
      destruct (Hnews s0 Hs0) as [src [Hsrc Hkids]]. exists src. split; [exact Hsrc|].
      now rewrite Ko, Hkids.
  - destruct (Nat.ltb_spec (data_len d) (length (area_sers c))) as [_|]; [|lia].
    split; [|split].
    + rewrite firstn_all2 by lia. now rewrite <- Harea2.
    + intros s Hsk. rewrite skipn_all2 in Hsk by lia. destruct Hsk.
    + rewrite Htrim. apply frames_trim. unfold area_sers in Hlt. lia.
Qed.

(* ================================================================== label texts *)

(** A string label is reported verbatim (the empty string too, carriage returns too). *)
Lemma cat_text_str b f D s : cat_numeric f D = false -> cat_text b f D (LStr s) = s.
Proof. intros Hn. unfold cat_text. now rewrite Hn. Qed.
(** A number label is reported as the text Python gives for the number. *)
Lemma cat_text_num b f t : cat_numeric f 1 = true -> cat_text b f 1 (LNum t) = t.
Proof. intros Hn. unfold cat_text. now rewrite Hn. Qed.
(** A date label is reported as its serial number with one decimal. *)
Lemma cat_text_date b f y m d : cat_numeric f 1 = true ->
  cat_text b f 1 (LDate y m d) = show_Z (excel_serial b y m d) ++ s_dot0.
Proof. intros Hn. unfold cat_text. now rewrite Hn. Qed.

(** The serial date number: days since 1899-12-31, plus one after 1900-02-28 (day 59), so
    that 60 (the 29th of February 1900 of Excel) is never produced and order is kept; in
    the 1904 system days since 1904-01-01. *)
Lemma excel_serial_spec y m d :
  let n := ordinal (y, m, d) - ordinal (1899, 12, 31) in
  excel_serial false y m d = (if n <=? 59 then n else n + 1) /\
  excel_serial true y m d = ordinal (y, m, d) - ordinal (1904, 1, 1) /\
  excel_serial false y m d <> 60.
Proof.
  cbv zeta. unfold excel_serial.
  destruct (Z.ltb_spec 59 (ordinal (y, m, d) - ordinal (1899, 12, 31)));
    destruct (Z.leb_spec (ordinal (y, m, d) - ordinal (1899, 12, 31)) 59); repeat split; lia.
Qed.
Lemma excel_serial_mono b y1 m1 d1 y2 m2 d2 : ordinal (y1, m1, d1) < ordinal (y2, m2, d2) ->
  excel_serial b y1 m1 d1 < excel_serial b y2 m2 d2.
Proof.
  unfold excel_serial. destruct b; [lia|].
  destruct (Z.ltb_spec 59 (ordinal (y1, m1, d1) - ordinal (1899, 12, 31)));
    destruct (Z.ltb_spec 59 (ordinal (y2, m2, d2) - ordinal (1899, 12, 31))); lia.
Qed.

(* ================================================================== witnesses and examples *)

Definition w_ser (name : str) (vals : list (option str)) : cat_series := mkCS name s_general vals.
Definition w_cats : list cat_tree := [CatNode (LStr [97%N]) []; CatNode (LStr [98%N]) []].
Definition w_two : chart_data :=
  DCat w_cats None [w_ser [115%N] [Some [49%N]; Some [50%N]]; w_ser [116%N] [Some [51%N]; None]].
Definition w_one : chart_data := DCat w_cats None [w_ser [115%N] [Some [49%N]; None]].
Definition w_none : chart_data := DCat w_cats None [].

(** A pie chart made from two series reports one. *)
Lemma pie_refuted : exists ct d c, write ct d = Ok c /\
  chart_values c <> data_values d /\ chart_names c <> data_names d.
Proof.
  exists 5, w_two. eexists. split; [vm_compute; reflexivity|]. split; vm_compute; discriminate.
Qed.

(** Regression (fixed in python-pptx d4e5a870): a carriage return in a series name, a
    category label or a number format used to come back as a line feed; all three come back
    verbatim. *)
Definition w_cr : str := [110; 13; 109; 13; 10]%N.
Definition w_cr_data : chart_data :=
  DCat [CatNode (LStr w_cr) []; CatNode (LStr [13%N]) []] None [mkCS w_cr w_cr [Some [49%N]]].
Lemma cr_regression : exists c p s vc, write 57 w_cr_data = Ok c /\ ch_plots c = [p] /\ p_sers p = [s] /\
  chart_names c = data_names w_cr_data /\ chart_names c = [w_cr] /\
  plot_cat_labels p = [w_cr; [13%N]] /\
  first_some kid_val (s_kids s) = Some vc /\ ca_fmt vc = Some w_cr.
Proof. do 4 eexists. split; [vm_compute; reflexivity|]. repeat split. Qed.

(** Regression (fixed in python-pptx fc4e9fce): a category whose label is the empty string
    used to be reported as the word None; it is reported as the empty string. *)
Lemma empty_label_regression : exists ct f sers c p, write ct (DCat f None sers) = Ok c /\ ch_plots c = [p] /\
  f = [CatNode (LStr []) []; CatNode (LStr [98%N]) []] /\
  plot_cat_labels p = map (fun t => label_str (tree_label t)) f /\ plot_cat_labels p = [[]; [98%N]] /\
  plot_flattened p = [[[]]; [[98%N]]].
Proof.
  exists 57, [CatNode (LStr []) []; CatNode (LStr [98%N]) []], [w_ser [115%N] [Some [49%N]]].
  eexists. eexists. split; [vm_compute; reflexivity|]. repeat split.
Qed.

(** replace_data fails on a chart made without series, and on a chart all of whose series
    (hence plots) were removed by a replace_data without series. *)
Lemma replace_no_series_refuted :
  (exists ct d0 d c0, write ct d0 = Ok c0 /\ data_len d = 1%nat /\ replace std_succs d c0 = Err OtherErr) /\
  (exists ct d0 d c0 c1, write ct d0 = Ok c0 /\ data_len d = 1%nat /\ replace std_succs w_none c0 = Ok c1 /\
                         ch_plots c1 = [] /\ replace std_succs d c1 = Err IndexErr).
Proof.
  split.
  - exists 57, w_none, w_one. eexists. split; [vm_compute; reflexivity|]. split; reflexivity.
  - exists 57, w_two, w_one. eexists. eexists. split; [vm_compute; reflexivity|].
    split; [reflexivity|]. split; [vm_compute; reflexivity|]. split; reflexivity.
Qed.

(** Regression (fixed in python-pptx db8d5348): date categories with a number format
    containing a double quote used to make the area, bar and line writers fail; the chart is
    written and the format code is kept. *)
Definition w_quote_fmt : str := [34; 36; 34; 48]%N.
Definition w_date_quote : chart_data :=
  DCat [CatNode (LDate 2020 1 1) []] (Some w_quote_fmt) [mkCS [115%N] w_quote_fmt [Some [49%N]]].
Lemma date_quote_regression : exists c p s cx vc, write 57 w_date_quote = Ok c /\ ch_plots c = [p] /\
  p_sers p = [s] /\ first_some kid_cat (s_kids s) = Some cx /\ first_some kid_val (s_kids s) = Some vc /\
  cx_fmt cx = Some w_quote_fmt /\ ca_fmt vc = Some w_quote_fmt /\
  plot_cat_labels p = [[52; 51; 56; 51; 49; 46; 48]%N].
Proof. do 5 eexists. split; [vm_compute; reflexivity|]. repeat split. Qed.

(** The number formats are kept as given (line ends normalised), whatever they contain. *)
Lemma number_format_kept :
  (forall fmt vals, ca_fmt (num_cache fmt vals) = Some fmt) /\
  (forall b f fmt cx, write_cat b f (Some fmt) = Ok cx -> cx_kind cx = 1%N -> cx_fmt cx = Some fmt).
Proof.
  split; [reflexivity|]. intros b f fmt cx. unfold write_cat.
  destruct (forest_depth f) as [D|]; [|discriminate].
  repeat match goal with |- context [if ?b then _ else _] => destruct b end;
    intros H; injection H as <-; cbn [cx_kind cx_fmt]; try discriminate. reflexivity.
Qed.

(** A category writer succeeds on every category data of uniform depth with a series,
    whatever the strings and number formats are. *)
Lemma write_cat_total ct ptag pre post f fmt sers D :
  writer_of ct = Some (WCatPlain, ptag, pre, post) -> forest_depth f = Some D -> sers <> [] ->
  exists c, write ct (DCat f fmt sers) = Ok c.
Proof.
  intros W HD Hs. unfold write. rewrite W. destruct sers as [|s0 sers']; [congruence|].
  unfold write_cat. rewrite HD.
  repeat match goal with |- context [if ?b then _ else _] => destruct b end; cbn [bind]; eauto.
Qed.

(** flattened_labels on levels python-pptx did not write: a leaf that lies before the
    first category of the parent level is given that category as its parent. *)
Lemma foreign_levels_refuted : exists leaf parent : Z * str,
  fst leaf < fst parent /\ flattened_of_levels [[leaf]; [parent]] = [[snd parent; snd leaf]].
Proof. exists (0, [97%N]), (1, [80%N]). split; [simpl; lia|reflexivity]. Qed.

(* ---- non-vacuity ---- *)
Definition ex_forest : list cat_tree :=
  [CatNode (LStr [65%N]) [CatNode (LStr [97; 49]%N) [CatNode (LStr [120%N]) []; CatNode (LStr [121%N]) []];
                          CatNode (LStr [97; 50]%N) [CatNode (LStr [122%N]) []]];
   CatNode (LStr [66%N]) [CatNode (LStr [98; 49]%N) [CatNode (LStr [119%N]) []]]].
Definition ex_multi : chart_data := DCat ex_forest None [w_ser [115%N] [Some [49%N]; None; Some [51%N]; Some [52%N]]].

Example ex_write_multi : exists c p, write 4 ex_multi = Ok c /\ ch_plots c = [p] /\
  forest_depth ex_forest = Some 3%nat /\
  plot_flattened p = [[[65]; [97; 49]; [120]]; [[65]; [97; 49]; [121]]; [[65]; [97; 50]; [122]]; [[66]; [98; 49]; [119]]]%N /\
  map (map fst) (plot_cat_levels p) = [[0; 1; 2; 3]; [0; 2; 3]; [0; 3]] /\
  chart_values c = [[Some [49%N]; None; Some [51%N]; Some [52%N]]].
Proof. eexists. eexists. split; [vm_compute; reflexivity|]. repeat split. Qed.

Definition ex_xy : chart_data := DXy [mkXS [120%N] s_general [(Some [49%N], Some [50%N]); (None, Some [51%N])]].
Example ex_write_xy : exists c, write 74 ex_xy = Ok c /\ chart_values c = [[Some [50%N]; Some [51%N]]] /\
  chart_xvalues c = [Some [Some [49%N]; None]].
Proof. eexists. split; [vm_compute; reflexivity|]. split; reflexivity. Qed.

(** A history: three series are added to one, then two removed, then everything replaced
    by multi-level data; homogeneity holds for charts made by the writers. *)
Example ex_history : exists c0 c, write 57 w_one = Ok c0 /\ homog (ch_plots c0) /\
  replace_all std_succs [DCat w_cats None [w_ser [97%N] []; w_ser [98%N] [None]; w_ser [99%N] []; w_ser [100%N] []];
                         w_two; ex_multi] c0 = Ok c /\
  map s_idx (area_sers c) = [0] /\ chart_names c = [[115%N]] /\
  chart_values c = [[Some [49%N]; None; Some [51%N]; Some [52%N]]].
Proof.
  eexists. eexists. split; [vm_compute; reflexivity|]. split.
  - intros p [<-|[]]. reflexivity.
  - split; [vm_compute; reflexivity|]. repeat split.
Qed.

Lemma homog_written ct d c : write ct d = Ok c -> homog (ch_plots c).
Proof.
  intros Hw. destruct (write_reflects _ _ _ Hw) as [rk [sds [ptag [sers [-> _]]]]].
  intros p [<-|[]]. reflexivity.
Qed.

