(** Proofs about model/XmlValid.v:
    1. the diagnostic twin reports no error exactly when the validator accepts;
    2. the children of an accepted element form a word of its content model (through
       proofs/SchemaMatch_proofs.cm_match_correct);
    3. the xmlchemy operation language preserves the order invariant at any path, for any
       sequence of admissible operations; a refused attribute write changes nothing. *)
From V.lib Require Import Prelude PyFloat PyVal.
From V.model Require Import Schema SchemaMatch Xmlchemy SimpleTypeLib XmlValid.
From V.proofs Require Import Schema_proofs Xmlchemy_proofs SchemaMatch_proofs SimpleTypeLib_proofs.

(** * Nested induction on trees *)
Fixpoint node_ind' (P : node -> Prop)
  (H : forall t a ks, Forall P ks -> P (Elem t a ks)) (n : node) {struct n} : P n :=
  match n with
  | Elem t a ks =>
      H t a ks ((fix go (ks : list node) : Forall P ks :=
                   match ks with
                   | [] => Forall_nil P
                   | k :: ks' => Forall_cons k (node_ind' P H k) (go ks')
                   end) ks)
  end.

(** * 1. validator and diagnostics agree *)
Definition kid_valid (s : schema) (ex : list (tag * aname)) (T : ctype) (k : node) : bool :=
  match kid_type s T (tag_of k) with Some ty' => valid_node s ex ty' k | None => true end.
Definition kid_errs (s : schema) (ex : list (tag * aname)) (T : ctype) (k : node) : list verr :=
  match kid_type s T (tag_of k) with Some ty' => errs_node s ex ty' k | None => [] end.

Lemma valid_node_eq s ex ty t a ks :
  valid_node s ex ty (Elem t a ks) =
  match lookup_type s ty with
  | None => false
  | Some T => local_ok ex T t a (ktags ks) && forallb (kid_valid s ex T) ks
  end.
Proof.
  cbn [valid_node]. destruct (lookup_type s ty) as [T|]; reflexivity.
Qed.

Lemma errs_node_eq s ex ty t a ks :
  errs_node s ex ty (Elem t a ks) =
  match lookup_type s ty with
  | None => [{| ve_kind := 6%N; ve_elem := t; ve_what := ty; ve_pos := 0%N |}]
  | Some T => local_errs ex T t a (ktags ks) ++ flat_map (kid_errs s ex T) ks
  end.
Proof.
  cbn [errs_node]. destruct (lookup_type s ty) as [T|]; reflexivity.
Qed.

Lemma flat_map_nil_iff {A B} (f : A -> list B) l : flat_map f l = [] <-> forall x, In x l -> f x = [].
Proof.
  induction l as [|a l IH]; simpl; [tauto|]. split.
  - intros H. apply app_eq_nil in H as [H1 H2]. intros x [<-|Hx]; auto. apply IH; auto.
  - intros H. rewrite (H a (or_introl eq_refl)). simpl. apply IH. intros; apply H; auto.
Qed.

Lemma local_errs_nil ex T t a kts : local_errs ex T t a kts = [] <-> local_ok ex T t a kts = true.
Proof.
  unfold local_errs, local_ok.
  assert (HA : attr_errs ex T t a = [] <-> forallb (attr_ok ex T t) a = true).
  { unfold attr_errs. rewrite flat_map_nil_iff, forallb_forall. split; intros H x Hx; specialize (H x Hx).
    - destruct (attr_ok ex T t x); [reflexivity|discriminate].
    - rewrite H; reflexivity. }
  assert (HR : req_errs T t a = [] <-> req_ok T a = true).
  { unfold req_errs, req_ok. rewrite flat_map_nil_iff, forallb_forall. split; intros H x Hx; specialize (H x Hx).
    - destruct (negb (ad_req x) || has_attr (ad_name x) a); [reflexivity|discriminate].
    - rewrite H; reflexivity. }
  destruct (cm_match (ct_cm T) (map (norm_tag (ct_cm T)) (kept ex t kts))) eqn:Ec.
  - cbn [app andb]. destruct (text_present_ok T a).
    + rewrite app_nil_r, !andb_true_r. split.
      * intros H. apply app_eq_nil in H as [H1 H2]. apply andb_true_iff. split; [apply HA|apply HR]; auto.
      * intros H. apply andb_true_iff in H as [H1 H2]. apply HA in H1. apply HR in H2. rewrite H1, H2. reflexivity.
    + rewrite !andb_false_r. split; [|discriminate]. intros H.
      apply app_eq_nil in H as [_ H]. apply app_eq_nil in H as [_ H]. discriminate.
  - cbn [andb]. split; [|discriminate].
    destruct (cm_first_bad (ct_cm T) (map (norm_tag (ct_cm T)) (kept ex t kts)) 0%N). discriminate.
Qed.

Theorem errs_valid s ex : forall n ty, errs_node s ex ty n = [] <-> valid_node s ex ty n = true.
Proof.
  induction n as [t a ks IH] using node_ind'. intros ty.
  rewrite errs_node_eq, valid_node_eq. destruct (lookup_type s ty) as [T|]; [|split; discriminate].
  rewrite Forall_forall in IH.
  assert (HK : flat_map (kid_errs s ex T) ks = [] <-> forallb (kid_valid s ex T) ks = true).
  { rewrite flat_map_nil_iff, forallb_forall. split; intros H k Hk; specialize (H k Hk);
      unfold kid_errs, kid_valid in *; destruct (kid_type s T (tag_of k)) as [ty'|]; auto; apply (IH k Hk ty'); auto. }
  split.
  - intros H. apply app_eq_nil in H as [H1 H2]. apply andb_true_iff. split; [apply local_errs_nil|apply HK]; auto.
  - intros H. apply andb_true_iff in H as [H1 H2]. apply local_errs_nil in H1. apply HK in H2. rewrite H1, H2. reflexivity.
Qed.

Corollary errs_root_valid s ex n : errs_root s ex n = [] <-> valid_root s ex n = true.
Proof.
  unfold errs_root, valid_root. destruct (assocN (tag_of n) (sc_globals s)); [apply errs_valid|split; discriminate].
Qed.

(** * 2. what acceptance means *)
Theorem valid_node_children_in_language s ex ty t a ks T :
  lookup_type s ty = Some T -> wf_cm (ct_cm T) = true ->
  valid_node s ex ty (Elem t a ks) = true ->
  lang (ct_cm T) (map (norm_tag (ct_cm T)) (kept ex t (ktags ks)))
  /\ (forall av, In av a -> attr_ok ex T t av = true)
  /\ (forall d, In d (ct_attrs T) -> ad_req d = true -> has_attr (ad_name d) a = true)
  /\ (forall k ty', In k ks -> kid_type s T (tag_of k) = Some ty' -> valid_node s ex ty' k = true).
Proof.
  intros HT Hwf H. rewrite valid_node_eq, HT in H. apply andb_true_iff in H as [H Hk].
  unfold local_ok in H. apply andb_true_iff in H as [H _]. apply andb_true_iff in H as [H Hr].
  apply andb_true_iff in H as [Hc Ha]. repeat split.
  - apply cm_match_correct; auto.
  - apply forallb_forall; auto.
  - intros d Hd Hq. unfold req_ok in Hr. rewrite forallb_forall in Hr. specialize (Hr d Hd). rewrite Hq in Hr. exact Hr.
  - intros k ty' Hin Hty. rewrite forallb_forall in Hk. specialize (Hk k Hin). unfold kid_valid in Hk. rewrite Hty in Hk; auto.
Qed.

(** * 3. the operation language preserves the order invariant *)

Definition kid_ord (s : schema) (T : ctype) (k : node) : bool :=
  match kid_type s T (tag_of k) with Some ty' => order_valid s ty' k | None => true end.

Lemma order_valid_eq s ty t a ks :
  order_valid s ty (Elem t a ks) =
  match lookup_type s ty with
  | None => true
  | Some T => order_local T a (ktags ks) && forallb (kid_ord s T) ks
  end.
Proof. cbn [order_valid]. destruct (lookup_type s ty); reflexivity. Qed.

Lemma order_valid_untyped s ty n : lookup_type s ty = None -> order_valid s ty n = true.
Proof. intros H. destruct n. rewrite order_valid_eq, H. reflexivity. Qed.

(** ** children lists: node level = tag level *)
Lemma ktags_ins_node_at s x ks : ktags (ins_node_at s x ks) = ins_at s (tag_of x) (ktags ks).
Proof.
  induction ks as [|c ks IH]; [reflexivity|]. cbn [ins_node_at ktags map ins_at].
  destruct (N.eqb (tag_of c) s); cbn [map]; [reflexivity|]. f_equal. exact IH.
Qed.

Lemma ktags_insert_node x Sx ks : ktags (insert_node x Sx ks) = insert_before (tag_of x) Sx (ktags ks).
Proof.
  unfold insert_node, insert_before. destruct (first_found Sx (ktags ks)).
  - apply ktags_ins_node_at.
  - unfold ktags. rewrite map_app. reflexivity.
Qed.

Lemma ktags_remove_nodes ts ks : ktags (remove_nodes ts ks) = remove_all ts (ktags ks).
Proof.
  unfold remove_nodes, remove_all, ktags. induction ks as [|c ks IH]; [reflexivity|].
  cbn [filter map]. destruct (negb (memt (tag_of c) ts)); cbn [map]; rewrite IH; reflexivity.
Qed.

Lemma ins_node_at_split s x ks : exists l1 l2, ks = l1 ++ l2 /\ ins_node_at s x ks = l1 ++ x :: l2.
Proof.
  induction ks as [|c ks IH]; [exists [], []; auto|]. cbn [ins_node_at].
  destruct (N.eqb (tag_of c) s).
  - exists [], (c :: ks). auto.
  - destruct IH as (l1 & l2 & E1 & E2). exists (c :: l1), l2. rewrite E2. split; [rewrite E1 at 1|]; reflexivity.
Qed.

Lemma insert_node_split x Sx ks : exists l1 l2, ks = l1 ++ l2 /\ insert_node x Sx ks = l1 ++ x :: l2.
Proof.
  unfold insert_node. destruct (first_found Sx (ktags ks)).
  - apply ins_node_at_split.
  - exists ks, []. rewrite app_nil_r. auto.
Qed.

(** ** the exclusivity part of the invariant, as a proposition *)
Definition amo_P (f : flat) (l : list tag) : Prop :=
  forall a b, In a l -> In b l -> a = b \/ rank f a <> rank f b \/ multi f (rank f a) = true.

Lemma amo_b_P f l : amo_b f l = true <-> amo_P f l.
Proof.
  unfold amo_b, amo_P. rewrite forallb_forall. split.
  - intros H a b Ha Hb. specialize (H a Ha). rewrite forallb_forall in H. specialize (H b Hb).
    apply orb_true_iff in H as [H|H]; auto. apply orb_true_iff in H as [H|H].
    + left. apply N.eqb_eq; auto.
    + right; left. apply negb_true_iff in H. apply Nat.eqb_neq; auto.
  - intros H a Ha. apply forallb_forall. intros b Hb. destruct (H a b Ha Hb) as [E|[E|E]].
    + subst. rewrite N.eqb_refl. reflexivity.
    + apply Nat.eqb_neq in E. rewrite E. cbn [negb]. rewrite orb_true_r. reflexivity.
    + rewrite E. rewrite !orb_true_r. reflexivity.
Qed.

Lemma addable_P f x l : addable f x l = true <->
  forall b, In b l -> x = b \/ rank f x <> rank f b \/ multi f (rank f x) = true.
Proof.
  unfold addable. rewrite forallb_forall. split; intros H b Hb; specialize (H b Hb).
  - apply orb_true_iff in H as [H|H]; auto. apply orb_true_iff in H as [H|H].
    + left. apply N.eqb_eq; auto.
    + right; left. apply negb_true_iff in H. apply Nat.eqb_neq; auto.
  - destruct H as [E|[E|E]].
    + subst. rewrite N.eqb_refl. reflexivity.
    + apply Nat.eqb_neq in E. rewrite E. cbn [negb]. rewrite orb_true_r. reflexivity.
    + rewrite E. rewrite !orb_true_r. reflexivity.
Qed.

Lemma amo_P_insert f x l1 l2 : amo_P f (l1 ++ l2) ->
  (forall b, In b (l1 ++ l2) -> x = b \/ rank f x <> rank f b \/ multi f (rank f x) = true) ->
  amo_P f (l1 ++ x :: l2).
Proof.
  intros Ha Hx a b Hia Hib.
  assert (Hin : forall u, In u (l1 ++ x :: l2) -> u = x \/ In u (l1 ++ l2)).
  { intros u Hu. apply in_app_or in Hu as [Hu|[Hu|Hu]]; [right; apply in_or_app; auto|left; auto|right; apply in_or_app; auto]. }
  destruct (Hin a Hia) as [->|Ha']; destruct (Hin b Hib) as [->|Hb']; auto.
  - destruct (Hx a Ha') as [E|[E|E]]; auto.
    destruct (Nat.eq_dec (rank f a) (rank f x)) as [Er|Er]; [|auto]. right; right. rewrite Er; auto.
Qed.

Lemma amo_P_sub f l l' : (forall u, In u l' -> In u l) -> amo_P f l -> amo_P f l'.
Proof. intros Hs H a b Ha Hb. apply H; auto. Qed.

Lemma ord_filter rk (p : tag -> bool) l : ord rk l -> ord rk (filter p l).
Proof.
  induction l as [|a l IH]; [auto|]. cbn [ord filter]. intros [H1 H2]. destruct (p a); [|auto].
  cbn [ord]. split; auto. intros b Hb. apply filter_In in Hb as [Hb _]. auto.
Qed.

(** ** the children part of order_local *)
Definition kids_inv (f : flat) (kts : list tag) : Prop :=
  (forall u, In u kts -> known f u = true) /\ ord (rank f) kts /\ amo_P f kts.

Lemma kids_inv_b f kts :
  forallb (known f) kts && ordb (rank f) kts && amo_b f kts = true <-> kids_inv f kts.
Proof.
  unfold kids_inv. rewrite !andb_true_iff, forallb_forall, ordb_ord, amo_b_P. tauto.
Qed.

Lemma kids_inv_insert f x Sx kts : decl_ok f x Sx = true -> addable f x kts = true ->
  kids_inv f kts -> kids_inv f (insert_before x Sx kts).
Proof.
  intros Hd Ha (Hk & Ho & Hm).
  assert (Kx : known f x = true).
  { unfold decl_ok in Hd. apply andb_true_iff in Hd as [Hd _]. apply andb_true_iff in Hd as [Hd _]. exact Hd. }
  destruct (insert_before_split x Sx kts) as (l1 & l2 & E & E2).
  split; [|split].
  - rewrite E2. intros u Hu. apply in_app_or in Hu as [Hu|[<-|Hu]]; auto; apply Hk; rewrite E; apply in_or_app; auto.
  - apply decl_ok_sound; auto.
    intros a b Hia Hib Hne Hr. destruct (Hm a b Hia Hib) as [E0|[E0|E0]]; [contradiction|contradiction|exact E0].
  - rewrite E2. apply amo_P_insert; [rewrite <- E; exact Hm|]. rewrite <- E. apply addable_P; auto.
Qed.

Lemma kids_inv_remove f ts kts : kids_inv f kts -> kids_inv f (remove_all ts kts).
Proof.
  intros (Hk & Ho & Hm). unfold remove_all. split; [|split].
  - intros u Hu. apply filter_In in Hu as [Hu _]. auto.
  - apply ord_filter; auto.
  - eapply amo_P_sub; [|exact Hm]. intros u Hu. apply filter_In in Hu as [Hu _]. auto.
Qed.

(** ** attributes *)
Lemma attr_lex_set T a v attrs :
  (forall ad, find_adecl a (ct_attrs T) = Some ad -> lex_ok (ad_lex ad) v = true) ->
  forallb (attr_lex_ok T) attrs = true -> forallb (attr_lex_ok T) (set_assoc a v attrs) = true.
Proof.
  intros Hv0. assert (Hv : forall ad, find_adecl a (ct_attrs T) = Some ad -> has_unknown (ad_lex ad) || lex_ok (ad_lex ad) v = true)
    by (intros ad Had; rewrite (Hv0 ad Had); apply orb_true_r). clear Hv0. induction attrs as [|[a' v'] attrs IH]; cbn [set_assoc forallb].
  - intros _. rewrite andb_true_r. unfold attr_lex_ok. cbn [fst snd].
    destruct (find_adecl a (ct_attrs T)) as [ad|] eqn:E; auto.
  - intros H. apply andb_true_iff in H as [H1 H2]. destruct (N.eqb a a'); cbn [forallb].
    + rewrite H2, andb_true_r. unfold attr_lex_ok. cbn [fst snd].
      destruct (find_adecl a (ct_attrs T)) as [ad|] eqn:E; auto.
    + rewrite H1. cbn. apply IH; auto.
Qed.

Lemma attr_lex_del T a attrs :
  forallb (attr_lex_ok T) attrs = true -> forallb (attr_lex_ok T) (del_assoc a attrs) = true.
Proof.
  intros H. apply forallb_forall. intros x Hx. apply filter_In in Hx as [Hx _].
  rewrite forallb_forall in H. auto.
Qed.

(** ** children validity under list surgery *)
Lemma kid_ord_insert s T x Sx ks : kid_ord s T x = true ->
  forallb (kid_ord s T) ks = true -> forallb (kid_ord s T) (insert_node x Sx ks) = true.
Proof.
  intros Hx H. destruct (insert_node_split x Sx ks) as (l1 & l2 & E & ->).
  rewrite E, forallb_app in H. apply andb_true_iff in H as [H1 H2].
  rewrite forallb_app. cbn [forallb]. rewrite H1, Hx, H2. reflexivity.
Qed.

Lemma kid_ord_remove s T ts ks :
  forallb (kid_ord s T) ks = true -> forallb (kid_ord s T) (remove_nodes ts ks) = true.
Proof.
  intros H. apply forallb_forall. intros x Hx. apply filter_In in Hx as [Hx _].
  rewrite forallb_forall in H. auto.
Qed.

(** ** one operation at one element *)
Lemma order_local_split T a kts : order_local T a kts = true <->
  (order_checked T = true -> kids_inv (flatten (ct_cm T)) kts) /\ forallb (attr_lex_ok T) a = true.
Proof.
  unfold order_local. rewrite andb_true_iff. destruct (order_checked T); cbn [negb orb].
  - rewrite kids_inv_b. tauto.
  - split; intros [_ H]; split; auto. discriminate.
Qed.

Theorem apply_lop_preserves s ty T o n :
  lookup_type s ty = Some T -> adm_lop s T o n = true ->
  order_valid s ty n = true -> order_valid s ty (apply_lop o n) = true.
Proof.
  intros HT Hadm Hov. destruct n as [t a ks]. rewrite order_valid_eq, HT in Hov.
  apply andb_true_iff in Hov as [Hl Hk]. apply order_local_split in Hl as [Hkids Hat].
  destruct o as [x Sx|x Sx|ts|x members Sx|an d v|an]; cbn [apply_lop adm_lop kids_of] in *.
  - (* InsertChild *)
    apply andb_true_iff in Hadm as [Hadm Hc]. apply andb_true_iff in Hadm as [Hadm Ha].
    apply andb_true_iff in Hadm as [Hoc Hd].
    rewrite order_valid_eq, HT. apply andb_true_iff. split.
    + apply order_local_split. split; auto. intros _. rewrite ktags_insert_node.
      apply kids_inv_insert; auto.
    + apply kid_ord_insert; auto.
  - (* GetOrAdd *)
    destruct (memt (tag_of x) (ktags ks)).
    + rewrite order_valid_eq, HT. apply andb_true_iff. split; auto. apply order_local_split. auto.
    + apply andb_true_iff in Hadm as [Hadm Hc]. apply andb_true_iff in Hadm as [Hadm Ha].
      apply andb_true_iff in Hadm as [Hoc Hd].
      rewrite order_valid_eq, HT. apply andb_true_iff. split.
      * apply order_local_split. split; auto. intros _. rewrite ktags_insert_node.
        apply kids_inv_insert; auto.
      * apply kid_ord_insert; auto.
  - (* Remove *)
    rewrite order_valid_eq, HT. apply andb_true_iff. split.
    + apply order_local_split. split; auto. intros Hoc. rewrite ktags_remove_nodes.
      apply kids_inv_remove; auto.
    + apply kid_ord_remove; auto.
  - (* ChangeTo *)
    destruct (memt (tag_of x) (ktags ks)).
    + rewrite order_valid_eq, HT. apply andb_true_iff. split; auto. apply order_local_split. auto.
    + apply andb_true_iff in Hadm as [Hadm Hc]. apply andb_true_iff in Hadm as [Hadm Ha].
      apply andb_true_iff in Hadm as [Hoc Hd].
      rewrite order_valid_eq, HT. apply andb_true_iff. split.
      * apply order_local_split. split; auto. intros _. rewrite ktags_insert_node, ktags_remove_nodes.
        apply kids_inv_insert; auto. apply kids_inv_remove; auto.
      * apply kid_ord_insert; auto. apply kid_ord_remove; auto.
  - (* SetAttr *)
    destruct (desc_to_xml d v) as [[| | |sv| | |]|e] eqn:Ev;
      try (rewrite order_valid_eq, HT; apply andb_true_iff; split; auto; apply order_local_split; auto; fail).
    rewrite order_valid_eq, HT. apply andb_true_iff. split; auto. apply order_local_split. split; auto.
    apply attr_lex_set; auto. intros ad Had. rewrite Had in Hadm.
    eapply write_ok_sound; eauto.
  - (* DelAttr *)
    rewrite order_valid_eq, HT. apply andb_true_iff. split; auto. apply order_local_split. split; auto.
    apply attr_lex_del; auto.
Qed.

(** ** lifting along the path *)
Lemma apply_lop_tag o n : tag_of (apply_lop o n) = tag_of n.
Proof.
  destruct n as [t a ks]. destruct o; cbn [apply_lop]; try reflexivity.
  - destruct (memt (tag_of x) (ktags ks)); reflexivity.
  - destruct (memt (tag_of x) (ktags ks)); reflexivity.
  - destruct (desc_to_xml d v) as [[| | | | | |]|]; reflexivity.
Qed.

Lemma at_path_tag f p n : (forall m, tag_of (f m) = tag_of m) -> tag_of (at_path f p n) = tag_of n.
Proof. intros Hf. destruct p; cbn [at_path]; [apply Hf|destruct n; reflexivity]. Qed.

Lemma ktags_upd_nth i g ks : (forall m, tag_of (g m) = tag_of m) -> ktags (upd_nth i g ks) = ktags ks.
Proof.
  intros Hg. revert i. induction ks as [|k ks IH]; intros i; [destruct i; reflexivity|].
  destruct i; cbn [upd_nth ktags map]; [rewrite Hg; reflexivity|]. f_equal. apply IH.
Qed.

Lemma forallb_upd_nth {A} (p : A -> bool) i g l :
  forallb p l = true -> (forall k, nth_error l i = Some k -> p k = true -> p (g k) = true) ->
  forallb p (upd_nth i g l) = true.
Proof.
  revert i. induction l as [|x l IH]; intros i H Hg; [destruct i; reflexivity|].
  cbn [forallb] in H. apply andb_true_iff in H as [H1 H2].
  destruct i; cbn [upd_nth forallb].
  - rewrite H2, (Hg x eq_refl H1). reflexivity.
  - rewrite H1. cbn [andb]. apply IH; auto.
Qed.

Theorem at_path_preserves s o : forall p n ty,
  adm_at s ty n p o = true -> order_valid s ty n = true ->
  order_valid s ty (at_path (apply_lop o) p n) = true.
Proof.
  induction p as [|i p IH]; intros n ty Hadm Hov.
  - cbn [at_path]. destruct (lookup_type s ty) as [T|] eqn:HT.
    + cbn [adm_at] in Hadm. rewrite HT in Hadm. eapply apply_lop_preserves; eauto.
    + apply order_valid_untyped; auto.
  - destruct n as [t a ks]. cbn [at_path].
    destruct (lookup_type s ty) as [T|] eqn:HT; [|apply order_valid_untyped; auto].
    cbn [adm_at kids_of] in Hadm. rewrite HT in Hadm.
    rewrite order_valid_eq, HT in Hov |- *. apply andb_true_iff in Hov as [Hl Hk].
    assert (Htag : forall m, tag_of (at_path (apply_lop o) p m) = tag_of m).
    { intros m. apply at_path_tag. apply apply_lop_tag. }
    rewrite ktags_upd_nth by exact Htag. rewrite Hl. cbn [andb].
    apply forallb_upd_nth; auto. intros k Hnth Hko.
    rewrite Hnth in Hadm. unfold kid_ord in *. rewrite Htag.
    destruct (kid_type s T (tag_of k)) as [ty'|]; auto.
Qed.

Theorem ops_preserve_order s ty : forall ops n,
  order_valid s ty n = true -> all_adm s ty n ops -> order_valid s ty (run_ops n ops) = true.
Proof.
  unfold run_ops. induction ops as [|o ops IH]; intros n Hov Hadm; [exact Hov|].
  cbn [fold_left]. destruct Hadm as [Ha Hrest]. apply IH; auto.
  unfold apply_op. apply at_path_preserves; auto.
Qed.

(** ** a refused attribute write changes nothing, anywhere in the tree *)
Lemma upd_nth_id {A} i (g : A -> A) l : (forall x, g x = x) -> upd_nth i g l = l.
Proof.
  intros Hg. revert i. induction l as [|x l IH]; intros i; destruct i; cbn [upd_nth]; auto.
  - rewrite Hg; reflexivity.
  - rewrite IH; reflexivity.
Qed.

Lemma at_path_id f : (forall m, f m = m) -> forall p n, at_path f p n = n.
Proof.
  intros Hf. induction p as [|i p IH]; intros n; cbn [at_path]; [apply Hf|].
  destruct n as [t a ks]. rewrite upd_nth_id; auto.
Qed.

Theorem rejected_noop a d v e : desc_to_xml d v = Err e ->
  forall n p, apply_op n {| xo_path := p; xo_op := SetAttr a d v |} = n.
Proof.
  intros He n p. unfold apply_op. cbn [xo_path xo_op]. apply at_path_id.
  intros [t at_ ks]. cbn [apply_lop]. rewrite He. reflexivity.
Qed.

(** everything outside the target element is untouched by any operation *)
Theorem apply_op_frame o : forall p n, tag_of (apply_op n {| xo_path := p; xo_op := o |}) = tag_of n
  /\ (p <> [] -> attrs_of (apply_op n {| xo_path := p; xo_op := o |}) = attrs_of n
                 /\ length (kids_of (apply_op n {| xo_path := p; xo_op := o |})) = length (kids_of n)).
Proof.
  intros p n. unfold apply_op. cbn [xo_path xo_op]. split.
  - apply at_path_tag. apply apply_lop_tag.
  - intros Hp. destruct p as [|i p]; [congruence|]. destruct n as [t a ks]. cbn [at_path attrs_of kids_of].
    split; auto. clear Hp. revert i. induction ks as [|k ks IH]; intros i; destruct i; cbn [upd_nth length]; auto.
Qed.
