(** Instance obligations of C09 over the data regenerated from /repo (gen/GenC09.v, gen/GenC11.v)
    and the hand-written catalogue (model/PropCatalogue.v). *)
From V.lib Require Import Prelude PyFloat PyVal.
From V.model Require Import SimpleTypeLib Props PropCatalogue.
From V.proofs Require Import PyFloat_proofs SimpleTypeLib_proofs C11_instance Props_proofs.
From V.gen Require Import GenC11 GenC09.

Lemma no_unmodelled : n_unmodelled = 0%nat.
Proof. vm_compute. reflexivity. Qed.

(** every settable property found in /repo is in the catalogue or on the oracle-only list *)
Lemma catalogue_complete : uncovered = [].
Proof. vm_compute. reflexivity. Qed.

(** the codecs of the attribute declarations are the functions of the C11 rows *)
Definition row_dummy : attr_row :=
  {| ar_id := 0%N; ar_desc := DCustom; ar_rdesc := RCustom; ar_lex := LUnknown;
     ar_to_xml := fun _ => Err OtherErr; ar_from_xml := fun _ => Err OtherErr |}.
Definition row_at (i : N) : attr_row := nth (N.to_nat i) rows row_dummy.
Definition tie_ok (t : N * (pyval -> res pyval) * (pyval -> res pyval)) : Prop :=
  ar_to_xml (row_at (fst (fst t))) = snd (fst t) /\ ar_from_xml (row_at (fst (fst t))) = snd t
  /\ In (row_at (fst (fst t))) rows.
Lemma row_at_in i : (N.to_nat i < length rows)%nat -> In (row_at i) rows.
Proof. intros H. apply nth_In; auto. Qed.
Lemma row_ties_ok : Forall tie_ok row_ties.
Proof.
  unfold row_ties.
  repeat (constructor; [ unfold tie_ok; cbn [fst snd]; split; [reflexivity | split; [reflexivity | apply row_at_in; vm_compute; lia ] ] | ]).
  constructor.
Qed.

(** * codec laws from the C11 theorems *)
Lemma desc_to_xml_str d v x : desc_to_xml d v = Ok x -> exists s, x = PStr s.
Proof.
  destruct d; simpl; unfold charset_upper_to_xml, bool_to_xml, enum_tokens_to_xml, int_range_to_xml, int_range_to_xml_b,
    int_any_to_xml, int_any_to_xml_b, str_any_to_xml, str_enum_to_xml; intros H;
  repeat match type of H with
         | context [match ?t with _ => _ end] => destruct t; try discriminate
         | context [if ?t then _ else _] => destruct t; try discriminate
         end; try discriminate; injection H as <-; eauto.
Qed.

Section RowCodec.
Variable r : attr_row.
Hypothesis r_in : In r rows.
Let c := row_codec (ar_to_xml r) (ar_from_xml r).

(** exact read-back (quantum 0) for the rows C11_RT covers *)
Lemma row_stored_exact kd w : rt_ok (ar_desc r) (ar_rdesc r) = true -> accepts c kd w = true ->
  exists v', stored c kd w = Ok v' /\ (py_eqb v' w = true \/ py_eqb w v' = true).
Proof.
  intros Hrt Hacc. unfold accepts, stored in *. unfold c, row_codec in *. cbn [enc dec] in *.
  assert (G : forall t, match ar_to_xml r w with Ok (PStr s) => Ok s | Ok _ => Err OtherErr | Err e => Err e end = Ok t ->
              exists v', ar_from_xml r (PStr t) = Ok v' /\ py_eqb v' w = true).
  { intros t Ht. destruct (ar_to_xml r w) as [[]|] eqn:E; try discriminate. injection Ht as <-.
    eapply RT_rows; eauto. }
  destruct kd as [d|].
  - destruct (py_eqb w d) eqn:Ed; [exists d; auto|]. simpl in Hacc.
    destruct (match ar_to_xml r w with Ok (PStr s) => Ok s | Ok _ => Err OtherErr | Err e => Err e end) as [t|] eqn:E; [|discriminate].
    destruct (G t eq_refl) as [v' [A B]]. exists v'. rewrite A. auto.
  - destruct (match ar_to_xml r w with Ok (PStr s) => Ok s | Ok _ => Err OtherErr | Err e => Err e end) as [t|] eqn:E; [|discriminate].
    destruct (G t eq_refl) as [v' [A B]]. exists v'. rewrite A. auto.
Qed.

(** a refusal is a TypeError or a ValueError for the rows C11_Rej covers *)
Lemma row_reject_kind w e : is_custom_w (ar_desc r) = false -> enc c w = Err e -> e = TypeErr \/ e = ValueErr.
Proof.
  intros Hc H. unfold c, row_codec in H. cbn [enc] in H.
  pose proof (proj1 (Forall_forall _ _) rows_write_desc r r_in Hc w) as E.
  destruct (ar_to_xml r w) as [x|e'] eqn:Ex.
  - symmetry in E. destruct (desc_to_xml_str _ _ _ E) as [s ->]. discriminate.
  - injection H as <-. eapply Rej_rows; eauto.
Qed.
End RowCodec.

(** * the font family: bold, italic, size, underline, language_id on one a:rPr *)
Definition ap (pre : aval -> res aval) (post : pyval -> res pyval) (ch : list level) (p : path) (d : attr_decl) : aprop :=
  {| ap_pre := pre; ap_post := post; ap_ch := ch; ap_p := p; ap_d := d |}.
Definition font_family : list aprop :=
  [ ap pre_id post_id [] [] A_CT_TextCharacterProperties__b;
    ap pre_id post_id [] [] A_CT_TextCharacterProperties__i;
    ap pre_font_size post_font_size [] [] A_CT_TextCharacterProperties__sz;
    ap pre_underline post_underline [] [] A_CT_TextCharacterProperties__u;
    ap pre_language post_language [] [] A_CT_TextCharacterProperties__lang ].
Definition font_labels : list str :=
  [ s2l "Font.bold"; s2l "Font.italic"; s2l "Font.size"; s2l "Font.underline"; s2l "Font.language_id" ]%lit.

Definition fam_of_catalogue (fam : list aprop) (labels : list str) : Prop :=
  map (fun a => Some (ap_get a, ap_set a)) fam
  = map (fun l => match find_entry l with Some e => Some (e_get e, e_set e) | None => None end) labels.
Lemma font_family_in_catalogue : fam_of_catalogue font_family font_labels.
Proof. reflexivity. Qed.

Definition fam_indep_b (fam : list aprop) (d : aprop) : bool :=
  forallb (fun i => forallb (fun j => Nat.eqb i j || indep (ap_set (nth i fam d)) (simplify (ap_get (nth j fam d))))
                            (seq 0 (length fam))) (seq 0 (length fam)).
Lemma fam_indep_spec fam d : fam_indep_b fam d = true ->
  forall i j, i <> j -> (i < length fam)%nat -> (j < length fam)%nat ->
  indep (ap_set (nth i fam d)) (simplify (ap_get (nth j fam d))) = true.
Proof.
  intros H i j Hne Hi Hj. unfold fam_indep_b in H. rewrite forallb_forall in H.
  specialize (H i ltac:(apply in_seq; lia)). rewrite forallb_forall in H.
  specialize (H j ltac:(apply in_seq; lia)). apply orb_true_iff in H as [H|H]; auto.
  apply Nat.eqb_eq in H. contradiction.
Qed.
Definition ap_dummy : aprop := ap pre_id post_id [] [] A_CT_TextCharacterProperties__b.
Lemma font_family_indep : fam_indep_b font_family ap_dummy = true.
Proof. vm_compute. reflexivity. Qed.

(** the text-frame family: four margins, vertical anchor, word wrap on one a:bodyPr *)
Definition tf_family : list aprop :=
  [ ap pre_id post_id bodyPr (pth "a:bodyPr") A_CT_TextBodyProperties__lIns;
    ap pre_id post_id bodyPr (pth "a:bodyPr") A_CT_TextBodyProperties__tIns;
    ap pre_id post_id bodyPr (pth "a:bodyPr") A_CT_TextBodyProperties__rIns;
    ap pre_id post_id bodyPr (pth "a:bodyPr") A_CT_TextBodyProperties__bIns;
    ap pre_id post_id bodyPr (pth "a:bodyPr") A_CT_TextBodyProperties__anchor;
    ap pre_word_wrap post_word_wrap bodyPr (pth "a:bodyPr") A_CT_TextBodyProperties__wrap ]%lit.
Definition tf_labels : list str :=
  [ s2l "TextFrame.margin_left"; s2l "TextFrame.margin_top"; s2l "TextFrame.margin_right"; s2l "TextFrame.margin_bottom";
    s2l "TextFrame.vertical_anchor"; s2l "TextFrame.word_wrap" ]%lit.
Lemma tf_family_in_catalogue : fam_of_catalogue tf_family tf_labels.
Proof. reflexivity. Qed.
Lemma tf_family_indep : fam_indep_b tf_family ap_dummy = true.
Proof. vm_compute. reflexivity. Qed.

Theorem font_history j ops s : fam_inv font_family s ->
  match last_accepted (fam_set font_family) j ops s None with
  | Some v => fam_get font_family j (hist (fam_set font_family) ops s) = fam_quant font_family j v
  | None => fam_get font_family j (hist (fam_set font_family) ops s) = fam_get font_family j s
  end.
Proof. apply (family_history font_family ap_dummy (fam_indep_spec _ _ font_family_indep)). Qed.
Theorem tf_history j ops s : fam_inv tf_family s ->
  match last_accepted (fam_set tf_family) j ops s None with
  | Some v => fam_get tf_family j (hist (fam_set tf_family) ops s) = fam_quant tf_family j v
  | None => fam_get tf_family j (hist (fam_set tf_family) ops s) = fam_get tf_family j s
  end.
Proof. apply (family_history tf_family ap_dummy (fam_indep_spec _ _ tf_family_indep)). Qed.

(** * quantum of Font.size: emu // 127 centipoints, read back as 127 * centipoints *)
Definition font_size_prop : aprop := ap pre_font_size post_font_size [] [] A_CT_TextCharacterProperties__sz.
Theorem font_size_quant emu : (12700 <= emu <= 50800126)%Z ->
  ap_quant font_size_prop (plain (PInt emu)) = Ok (PInt (emu / 127 * 127)).
Proof.
  intros H. unfold ap_quant, font_size_prop, ap. cbn [ap_pre ap_post ap_d].
  unfold pre_font_size, plain. cbn [av_val py_Emu py_int py_centipoints_attr py_floordiv arith as_num].
  change (Z.eqb 127 0) with false. cbn iota.
  cbn [ad_codec ad_kind A_CT_TextCharacterProperties__sz stored av_val].
  change (py_eqb (PInt (emu / 127)) PNone) with false. cbn iota.
  unfold row_codec. cbn [enc dec].
  rewrite desc_ST_TextFontSize_ok. unfold desc_ST_TextFontSize. cbn [desc_to_xml int_range_to_xml].
  assert (Hr : in_range 100 400000 (emu / 127) = true).
  { apply in_range_spec. split.
    - apply Z.div_le_lower_bound; lia.
    - assert (emu / 127 < 400001)%Z by (apply Z.div_lt_upper_bound; lia). lia. }
  rewrite Hr. rewrite rdesc_ST_TextFontSize_ok. unfold rdesc_ST_TextFontSize. cbn [rdesc_from_xml py_int].
  rewrite int_of_str_of_Z.
  - cbn [bind bindr]. unfold post_font_size, py_Centipoints. cbn [py_mul arith as_num bind py_int]. reflexivity.
  - apply in_range_spec in Hr. apply big_small. unfold big. lia.
Qed.
Lemma font_size_within_quantum emu : (0 <= emu - emu / 127 * 127 < 127)%Z.
Proof. pose proof (Z.div_mod emu 127 ltac:(lia)). pose proof (Z.mod_pos_bound emu 127 ltac:(lia)). lia. Qed.

(** * model-level witnesses of refused assignments that change the element *)
Lemma nonatomic_witness_sound e s v : nonatomic_witness e = Some (s, v) ->
  exists s' err, run (e_set e) v s = (s', Err err) /\ st_same s s' = false.
Proof.
  unfold nonatomic_witness. intros H. apply find_some in H as [_ H]. unfold nonatomic_on in H. cbn [fst snd] in H.
  destruct (run (e_set e) v s) as [s' [u|err]]; [discriminate|]. apply negb_true_iff in H. eauto.
Qed.

(** recorded findings are real: every recorded Class.name has a model witness *)
Definition nonatomic_cns : list str :=
  map entry_cn (filter (fun e => match nonatomic_witness e with Some _ => true | None => false end) catalogue).
Lemma known_are_real : forallb (fun l => mem_str l nonatomic_cns) known_nonatomic = true.
Proof. vm_compute. reflexivity. Qed.

(** * the faithful model refutes parts of the statement: witnesses *)
Local Open Scope lit_scope.
Definition entry_named (l : lit) : entry :=
  match find_entry (s2l l) with Some e => e | None => mk "" "" "" (GConst (Err OtherErr)) Done end.
Definition res_differs (a b : res pyval) : bool :=
  match a, b with
  | Ok x, Ok y => negb (py_eqb x y)
  | Err e, Err e' => negb (pyerr_eqb e e')
  | _, _ => true
  end.

(** ValueAxis.major_unit: the old c:majorUnit is removed before the new value is validated *)
Definition w_major_unit : st := fst (run (e_set (entry_named "ValueAxis.major_unit")) (plain (PInt 5)) []).
Lemma major_unit_reject_refuted :
  let e := entry_named "ValueAxis.major_unit" in
  wf w_major_unit = true
  /\ eval (e_get e) w_major_unit = Ok (PFloat (Fin 5 0))
  /\ run (e_set e) (plain (PFloat (Fin (-1) 0))) w_major_unit = ([], Err ValueErr)
  /\ eval (e_get e) [] = Ok PNone.
Proof. vm_compute. auto. Qed.

(** Font.name: a:latin is added before the typeface is validated; afterwards the getter fails *)
Lemma font_name_reject_refuted :
  let e := entry_named "Font.name" in
  eval (e_get e) [] = Ok PNone
  /\ snd (run (e_set e) (plain (PInt 5)) []) = Err TypeErr
  /\ eval (e_get e) (fst (run (e_set e) (plain (PInt 5)) [])) = Err OtherErr.
Proof. vm_compute. auto. Qed.

(** placeholder: assigning left creates a:off with y = 0, so top no longer reads the inherited value *)
Definition w_placeholder : st :=
  [ ((pth "p:spPr", None), []); ((pth "~base", None), []); ((pth "~base", Some (s2l "top")), s2l "1600200");
    ((pth "~base", Some (s2l "left")), s2l "457200") ]%lit.
Lemma placeholder_frame_refuted :
  let l := entry_named "_InheritsDimensions.left@sp" in
  let t := entry_named "_InheritsDimensions.top@sp" in
  wf w_placeholder = true
  /\ eval (e_get t) w_placeholder = Ok (PInt 1600200)
  /\ snd (run (e_set l) (plain (PInt 914400)) w_placeholder) = Ok tt
  /\ eval (e_get t) (fst (run (e_set l) (plain (PInt 914400)) w_placeholder)) = Ok (PInt 0)
  /\ e_indep l t = false.
Proof. vm_compute. auto. Qed.

(** ColorFormat.theme_color: the srgbClr is replaced by an empty schemeClr before the member is validated *)
Definition w_rgb : st := [ ((pth "a:srgbClr", None), []); ((pth "a:srgbClr", Some (s2l "val")), s2l "123456") ]%lit.
Lemma theme_color_reject_refuted :
  let e := entry_named "ColorFormat.theme_color" in
  let r := entry_named "ColorFormat.rgb" in
  eval (e_get r) w_rgb = Ok (PStr (s2l "123456"))
  /\ snd (run (e_set e) (plain (PInt 987654)) w_rgb) = Err ValueErr
  /\ eval (e_get r) (fst (run (e_set e) (plain (PInt 987654)) w_rgb)) = Err OtherErr.
Proof. vm_compute. auto. Qed.

(** non-vacuity: concrete accepted assignments and independent pairs *)
Lemma ex_rotation :
  let e := entry_named "BaseShape.rotation@sp" in
  let s0 : st := [ ((pth "p:spPr", None), []) ]%lit in
  snd (run (e_set e) (plain (PFloat (Fin 91 (-1)))) s0) = Ok tt
  /\ res_differs (eval (e_get e) (fst (run (e_set e) (plain (PFloat (Fin 91 (-1)))) s0))) (Ok (PFloat (Fin 91 (-1)))) = false
  /\ lookup (pth "p:spPr/a:xfrm", Some (s2l "rot")) (fst (run (e_set e) (plain (PFloat (Fin 91 (-1)))) s0)) = Some (s2l "2730000")
  /\ snd (run (e_set e) (plain (PInt 0)) (fst (run (e_set e) (plain (PFloat (Fin 91 (-1)))) s0))) = Ok tt
  /\ lookup (pth "p:spPr/a:xfrm", Some (s2l "rot")) (fst (run (e_set e) (plain (PInt 0)) (fst (run (e_set e) (plain (PFloat (Fin 91 (-1)))) s0)))) = None.
Proof. vm_compute. auto 10. Qed.
Lemma ex_indep :
  e_indep (entry_named "BaseShape.left@sp") (entry_named "BaseShape.rotation@sp") = true
  /\ e_indep (entry_named "BaseShape.rotation@sp") (entry_named "BaseShape.left@sp") = true
  /\ e_indep (entry_named "Font.size") (entry_named "Font.bold") = true
  /\ e_indep (entry_named "_Paragraph.line_spacing") (entry_named "_Paragraph.space_before") = true
  /\ e_indep (entry_named "BaseShape.left@sp") (entry_named "BaseShape.top@sp") = false.
Proof. vm_compute. auto 10. Qed.
Lemma ex_font_size :
  ap_quant font_size_prop (AV TLength (PInt 152400)) = Ok (PInt 152400)
  /\ ap_quant font_size_prop (plain (PInt 152500)) = Ok (PInt 152400)
  /\ ap_quant font_size_prop (plain (PInt 12699)) = Err ValueErr
  /\ ap_quant font_size_prop (plain (PStr (s2l "x"))) = Err ValueErr.
Proof. vm_compute. auto. Qed.

(** * exact read-back (quantum 0: 1 EMU) for the coordinate types whose reader also accepts
      universal measures (outside C11_RT): position, margins *)
Close Scope lit_scope.
Definition emu_char (x : N) : bool := is_digit x || N.eqb x 45.
Lemma str_of_Z_chars z : forallb emu_char (str_of_Z z) = true.
Proof.
  destruct (str_of_Z_digits z) as [A B]. destruct (Z.ltb_spec z 0) as [Hn|Hp].
  - destruct (B Hn) as [ds [-> Hd]]. cbn [forallb]. unfold emu_char at 1. simpl.
    unfold all_digits in Hd. destruct ds; [discriminate|]. apply forallb_forall. intros x Hx.
    unfold emu_char. rewrite (proj1 (forallb_forall _ _) Hd x Hx). auto.
  - specialize (A Hp). unfold all_digits in A. destruct (str_of_Z z); [discriminate|].
    apply forallb_forall. intros x Hx. unfold emu_char. rewrite (proj1 (forallb_forall _ _) A x Hx). auto.
Qed.
Lemma no_letter c s : forallb emu_char s = true -> emu_char c = false -> is_substr [c] s = false.
Proof.
  intros H Hc. induction s as [|y s IH]; [reflexivity|].
  cbn [forallb] in H. apply andb_true_iff in H as [Hy Hs].
  cbn [is_substr starts_with]. rewrite IH by auto. rewrite orb_false_r, andb_true_r.
  destruct (N.eqb_spec c y); auto. subst. congruence.
Qed.

Lemma coordinate_reads z : (Z.abs z < 10 ^ Z.of_N int_max_str_digits)%Z ->
  ST_Coordinate__from_xml (PStr (str_of_Z z)) = Ok (PInt z)
  /\ ST_Coordinate32__from_xml (PStr (str_of_Z z)) = Ok (PInt z).
Proof.
  intros Hz. pose proof (str_of_Z_chars z) as Hc.
  unfold ST_Coordinate__from_xml, ST_Coordinate__convert_from_xml, ST_Coordinate32__from_xml, ST_Coordinate32__convert_from_xml,
    ST_Coordinate32Unqualified__convert_from_xml.
  cbn [py_in bind].
  rewrite !(no_letter _ _ Hc) by reflexivity. cbn [bind py_int py_Emu]. rewrite (int_of_str_of_Z z Hz). auto.
Qed.

(** left / top (ST_Coordinate) and the text-frame margins (ST_Coordinate32): every accepted int reads back as itself *)
Theorem coordinate_exact z : (-27273042329600 <= z <= 27273042316900)%Z ->
  stored (ad_codec A_CT_Point2D__x) (ad_kind A_CT_Point2D__x) (PInt z) = Ok (PInt z)
  /\ stored (ad_codec A_CT_Point2D__y) (ad_kind A_CT_Point2D__y) (PInt z) = Ok (PInt z).
Proof.
  intros H. assert (Hb : (Z.abs z < 10 ^ Z.of_N int_max_str_digits)%Z) by (apply big_small; unfold big; lia).
  cbn [ad_codec ad_kind A_CT_Point2D__x A_CT_Point2D__y stored row_codec enc dec].
  rewrite desc_ST_Coordinate_ok. unfold desc_ST_Coordinate. cbn [desc_to_xml int_range_to_xml_b].
  assert (Hr : in_range (-27273042329600) 27273042316900 z = true) by (apply in_range_spec; lia).
  rewrite Hr. rewrite (proj1 (coordinate_reads z Hb)). auto.
Qed.
Theorem margin_exact z : (-2147483648 <= z <= 2147483647)%Z ->
  stored (ad_codec A_CT_TextBodyProperties__lIns) (AOpt PNone) (PInt z) = Ok (PInt z).
Proof.
  intros H. assert (Hb : (Z.abs z < 10 ^ Z.of_N int_max_str_digits)%Z) by (apply big_small; unfold big; lia).
  cbn [ad_codec A_CT_TextBodyProperties__lIns stored row_codec enc dec].
  change (py_eqb (PInt z) PNone) with false. cbn iota.
  rewrite desc_ST_Coordinate32_ok. unfold desc_ST_Coordinate32. cbn [desc_to_xml int_range_to_xml_b].
  assert (Hr : in_range (-2147483648) 2147483647 z = true) by (apply in_range_spec; lia).
  rewrite Hr. rewrite (proj2 (coordinate_reads z Hb)). auto.
Qed.

(** space_before / space_after / line spacing in points (ST_TextSpacingPoint): centipoints, rounding down *)
Lemma spacing_point_writes z : (0 <= z <= 20116800)%Z ->
  ST_TextSpacingPoint__to_xml (PInt z) = Ok (PStr (str_of_Z (z / 127))).
Proof.
  intros H. unfold ST_TextSpacingPoint__to_xml, ST_TextSpacingPoint__validate, ST_TextSpacingPoint__validate_int_in_range,
    ST_TextSpacingPoint__validate_int, ST_TextSpacingPoint__convert_to_xml.
  cbn [py_isinstance existsb isinstance1 orb as_bool bind py_truth negb py_lt py_gt py_order as_num cmp_num].
  destruct (Z.compare_spec z 0) as [E|E|E]; try lia;
    destruct (Z.compare_spec z 20116800) as [E2|E2|E2]; try lia;
    cbn [bind py_Emu py_int py_centipoints_attr py_floordiv arith as_num]; change (Z.eqb 127 0) with false; cbn iota; reflexivity.
Qed.
Theorem spacing_point_quant z : (0 <= z <= 20116800)%Z ->
  stored (ad_codec A_CT_TextSpacingPoint__val) (ad_kind A_CT_TextSpacingPoint__val) (PInt z) = Ok (PInt (z / 127 * 127))
  /\ (0 <= z - z / 127 * 127 < 127)%Z.
Proof.
  intros H. split; [|apply font_size_within_quantum].
  cbn [ad_codec ad_kind A_CT_TextSpacingPoint__val stored row_codec enc dec].
  rewrite (spacing_point_writes z H).
  unfold ST_TextSpacingPoint__from_xml, ST_TextSpacingPoint__convert_from_xml. cbn [py_int bind].
  assert (0 <= z / 127 <= 20116800)%Z.
  { split; [apply Z.div_pos; lia|]. apply Z.div_le_upper_bound; lia. }
  rewrite int_of_str_of_Z by (apply big_small; unfold big; lia).
  cbn [bind py_Centipoints py_mul arith as_num py_int]. reflexivity.
Qed.
