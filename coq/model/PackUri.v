(** Model of src/pptx/opc/packuri.py together with exactly the [posixpath]
    functions it calls (transcribed from CPython's posixpath.py / genericpath.py).
    Definitions only; proofs live in proofs/PackUri_proofs.v. *)
From V.lib Require Import Prelude.

Definition is_slash (c : N) : bool := N.eqb c c_slash.
Definition not_slash (c : N) : bool := negb (is_slash c).
Definition is_dot (c : N) : bool := N.eqb c c_dot.

Definition s_slash : str := [c_slash].
Definition s_dot : str := [c_dot].
Definition s_dotdot : str := [c_dot; c_dot].

(** [(s[:i], s[i:])] with [i = s.rfind(c) + 1]. *)
Definition rsplit_at (c : N) (s : str) : str * str :=
  let r := rev s in
  (rev (drop_while (fun x => negb (N.eqb x c)) r),
   rev (take_while (fun x => negb (N.eqb x c)) r)).

Definition rstrip_slash (s : str) : str := rev (drop_while is_slash (rev s)).

(** posixpath.split *)
Definition px_split (p : str) : str * str :=
  let (h, t) := rsplit_at c_slash p in
  let h' := match h with
            | [] => h
            | _ => if forallb is_slash h then h else rstrip_slash h
            end in
  (h', t).

(** genericpath._splitext(p, '/', None, '.') *)
Definition px_splitext (p : str) : str * str :=
  let (h, t) := rsplit_at c_slash p in          (* t = text after the last '/' *)
  if existsb is_dot t then
    let (a, b) := rsplit_at c_dot t in          (* a ends with the last '.' *)
    let stem := removelast a in
    if existsb (fun c => negb (is_dot c)) stem
    then (h ++ stem, c_dot :: b)
    else (p, [])
  else (p, []).

(** posixpath.join(a, b) *)
Definition px_join (a b : str) : str :=
  if starts_with s_slash b then b
  else match a with
       | [] => b
       | _ => if ends_with s_slash a then a ++ b else a ++ s_slash ++ b
       end.

Definition is_abs (p : str) : bool := starts_with s_slash p.

(** The component loop of posixpath.normpath; [init] = path starts with a slash. *)
Definition norm_step (init : bool) (acc : list str) (comp : str) : list str :=
  if match comp with [] => true | _ => str_eqb comp s_dot end then acc
  else if negb (str_eqb comp s_dotdot) then acc ++ [comp]
  else match rev acc with
       | [] => if init then acc else acc ++ [comp]
       | lastc :: _ => if str_eqb lastc s_dotdot then acc ++ [comp] else removelast acc
       end.

Definition px_normpath (path : str) : str :=
  match path with
  | [] => s_dot
  | _ =>
    let init := starts_with s_slash path in
    let nslash : nat :=
      if init then
        if starts_with [c_slash; c_slash] path && negb (starts_with [c_slash; c_slash; c_slash] path)
        then 2 else 1
      else 0 in
    let comps := fold_left (norm_step init) (split_on c_slash path) [] in
    let body := join_with s_slash comps in
    match repeat c_slash nslash ++ body with
    | [] => s_dot
    | r => r
    end
  end.

(** posixpath.abspath for an absolute argument; a relative argument would consult
    the process working directory, which the model refuses to guess. *)
Definition px_abspath (p : str) : res str :=
  if is_abs p then Ok (px_normpath p) else Err OtherErr.

Fixpoint common_prefix_len (a b : list str) : nat :=
  match a, b with
  | x :: a', y :: b' => if str_eqb x y then S (common_prefix_len a' b') else 0
  | _, _ => 0
  end.

Definition nonempty_comps (p : str) : list str :=
  filter (fun c => match c with [] => false | _ => true end) (split_on c_slash p).

(** posixpath.join of several parts, for a non-empty list of parts. *)
Definition px_join_all (parts : list str) : str :=
  match parts with
  | [] => []
  | p :: ps => fold_left px_join ps p
  end.

(** posixpath.relpath(path, start) *)
Definition px_relpath (path start : str) : res str :=
  match path with
  | [] => Err ValueErr
  | _ =>
    bind (px_abspath start) (fun astart =>
    bind (px_abspath path) (fun apath =>
      let sl := nonempty_comps astart in
      let pl := nonempty_comps apath in
      let i := common_prefix_len sl pl in
      let rel := repeat s_dotdot (length sl - i) ++ skipn i pl in
      match rel with
      | [] => Ok s_dot
      | _ => Ok (px_join_all rel)
      end))
  end.

(** ---- PackURI ---- *)

(** PackURI.__new__: [pack_uri_str[0]] raises IndexError on the empty string. *)
Definition packuri_new (s : str) : res str :=
  match s with
  | [] => Err IndexErr
  | c :: _ => if is_slash c then Ok s else Err ValueErr
  end.

Definition from_rel_ref (baseURI ref : str) : res str :=
  bind (px_abspath (px_join baseURI ref)) packuri_new.

Definition baseURI (p : str) : str := fst (px_split p).
Definition filename (p : str) : str := snd (px_split p).

Definition ext (p : str) : str :=
  match snd (px_splitext p) with
  | c :: r => if is_dot c then r else c :: r
  | [] => []
  end.

(** the prefix match of the regex: letters+ then optional digits+; then int of group 2 *)
Definition idx (p : str) : option N :=
  match filename p with
  | [] => None
  | fn =>
    let name_part := fst (px_splitext fn) in
    match take_while is_alpha_ascii name_part with
    | [] => None
    | _ =>
      match take_while is_digit (drop_while is_alpha_ascii name_part) with
      | [] => None
      | ds => Some (dec_value ds)
      end
    end
  end.

Definition membername (p : str) : str := tl p.

Definition relative_ref (p base : str) : res str :=
  if str_eqb base s_slash then Ok (tl p) else px_relpath p base.

Definition s_rels_dir : str := [95; 114; 101; 108; 115]%N.          (* '_rels' *)
Definition s_rels_ext : str := [46; 114; 101; 108; 115]%N.          (* '.rels' *)

Definition rels_uri (p : str) : res str :=
  packuri_new (px_join (px_join (baseURI p) s_rels_dir) (filename p ++ s_rels_ext)).

(** ---- segment view ---- *)

Definition wf_segb (s : str) : bool :=
  match s with [] => false | _ => true end
  && forallb not_slash s && negb (str_eqb s s_dot) && negb (str_eqb s s_dotdot).

Definition wf_name (P : list str) : Prop := Forall (fun s => wf_segb s = true) P.

(** [render [] = '/'] is the package pseudo-name. *)
Definition render (P : list str) : str := c_slash :: join_with s_slash P.

(** ---- RFC 3986 section 5.2.4 remove_dot_segments, on the segment list of a path
    that starts with '/' (every '/'-separated piece after the first slash).  The
    last piece is the part after the final slash and is kept (possibly empty) as the
    RFC keeps a trailing slash. ---- *)
Definition rfc_step (out : list str) (seg : str) : list str :=
  if str_eqb seg s_dot then out
  else if str_eqb seg s_dotdot then removelast out
  else out ++ [seg].

(** Resolve reference [ref] (a path-only reference) against a base path
    'base/<anything>' per RFC 3986 5.2.2 (merge) + 5.2.4, returning the resolved
    path as its list of segments after the leading slash. *)
Definition rfc_resolve_segs (base_dir_segs : list str) (ref : str) : list str :=
  let ref_segs := split_on c_slash ref in
  let all_segs :=
    match ref_segs with
    | [] :: rest => rest                          (* root-absolute reference *)
    | _ => base_dir_segs ++ ref_segs              (* merge: base minus last segment, + ref *)
    end in
  fold_left rfc_step all_segs [].
