(** C09: lemmas about the element-state model (model/Props.v): finite-map laws, the
    well-formedness invariant, footprints (a setter changes only what it declares, a getter
    depends only on what it declares), the generic property theorems for the builders,
    and operation histories. *)
From V.lib Require Import Prelude PyFloat PyVal.
From V.model Require Import SimpleTypeLib Props.

(** * keys *)
Lemma path_eqb_eq a b : path_eqb a b = true <-> a = b.
Proof.
  revert b; induction a as [|x a IH]; intros [|y b]; simpl; split; intros H; try discriminate; auto.
  - apply andb_true_iff in H as [H1 H2]. apply str_eqb_eq in H1. apply IH in H2. subst; auto.
  - injection H as -> ->. rewrite str_eqb_refl. simpl. apply IH; auto.
Qed.
Lemma path_eqb_refl a : path_eqb a a = true.
Proof. apply path_eqb_eq; auto. Qed.
Lemma oattr_eqb_eq a b : oattr_eqb a b = true <-> a = b.
Proof.
  destruct a, b; simpl; split; intros H; try discriminate; auto.
  - apply str_eqb_eq in H; subst; auto.
  - injection H as ->. apply str_eqb_refl.
Qed.
Lemma key_eqb_eq a b : key_eqb a b = true <-> a = b.
Proof.
  destruct a as [p x], b as [q y]. unfold key_eqb; simpl. rewrite andb_true_iff, path_eqb_eq, oattr_eqb_eq.
  split; [intros [-> ->]; auto|intros H; injection H; auto].
Qed.
Lemma key_eqb_refl a : key_eqb a a = true.
Proof. apply key_eqb_eq; auto. Qed.
Lemma key_eqb_neq a b : a <> b -> key_eqb a b = false.
Proof. intros H. destruct (key_eqb a b) eqn:E; auto. apply key_eqb_eq in E. contradiction. Qed.
Lemma key_eqb_sym a b : key_eqb a b = key_eqb b a.
Proof.
  destruct (key_eqb a b) eqn:E.
  - apply key_eqb_eq in E; subst. symmetry; apply key_eqb_refl.
  - destruct (key_eqb b a) eqn:E'; auto. apply key_eqb_eq in E'; subst. rewrite key_eqb_refl in E; discriminate.
Qed.

(** * finite-map laws *)
Lemma lookup_del k k' s : lookup k (del k' s) = if key_eqb k k' then None else lookup k s.
Proof.
  unfold del. induction s as [|[k0 v0] s IH]; simpl.
  - destruct (key_eqb k k'); auto.
  - destruct (key_eqb k' k0) eqn:E0; simpl.
    + apply key_eqb_eq in E0; subst k0. rewrite IH. destruct (key_eqb k k'); auto.
    + destruct (key_eqb k k0) eqn:E1.
      * destruct (key_eqb k k') eqn:E2; auto.
        apply key_eqb_eq in E1, E2; subst. rewrite key_eqb_refl in E0; discriminate.
      * apply IH.
Qed.
Lemma lookup_put k k' v s : lookup k (put k' v s) = if key_eqb k k' then Some v else lookup k s.
Proof. unfold put. simpl. destruct (key_eqb k k') eqn:E; auto. rewrite lookup_del, E. auto. Qed.
Lemma lookup_del_sub k p s : lookup k (del_sub p s) = if is_prefix p (fst k) then None else lookup k s.
Proof.
  unfold del_sub. induction s as [|[k0 v0] s IH]; simpl.
  - destruct (is_prefix p (fst k)); auto.
  - destruct (is_prefix p (fst k0)) eqn:E0; simpl.
    + rewrite IH. destruct (is_prefix p (fst k)) eqn:E; auto.
      destruct (key_eqb k k0) eqn:E1; auto. apply key_eqb_eq in E1; subst. congruence.
    + destruct (key_eqb k k0) eqn:E1.
      * apply key_eqb_eq in E1; subst. rewrite E0. auto.
      * apply IH.
Qed.

Lemma is_prefix_refl p : is_prefix p p = true.
Proof. induction p; simpl; auto. rewrite str_eqb_refl; auto. Qed.
Lemma is_prefix_trans p q r : is_prefix p q = true -> is_prefix q r = true -> is_prefix p r = true.
Proof.
  revert q r; induction p as [|x p IH]; intros [|y q] [|z r]; simpl; intros H1 H2; try discriminate; auto.
  apply andb_true_iff in H1 as [A1 B1]. apply andb_true_iff in H2 as [A2 B2].
  apply str_eqb_eq in A1, A2; subst. rewrite str_eqb_refl; simpl. eapply IH; eauto.
Qed.
Lemma is_prefix_app p q : is_prefix p (p ++ q) = true.
Proof. induction p; simpl; auto. rewrite str_eqb_refl; auto. Qed.
Lemma is_prefix_spec p q : is_prefix p q = true -> exists r, q = p ++ r.
Proof.
  revert q; induction p as [|x p IH]; intros q H; simpl in *.
  - exists q; auto.
  - destruct q as [|y q]; [discriminate|]. apply andb_true_iff in H as [A B].
    apply str_eqb_eq in A; subst. destruct (IH _ B) as [r ->]. exists r; auto.
Qed.

Lemma removelast_app_one {A} (l : list A) x : removelast (l ++ [x]) = l.
Proof. rewrite removelast_app by discriminate. simpl. apply app_nil_r. Qed.

(** a strict ancestor is an ancestor of the parent *)
Lemma is_prefix_parent p q : is_prefix p q = true -> p <> q -> is_prefix p (parent q) = true.
Proof.
  intros H Hne. destruct (is_prefix_spec _ _ H) as [r ->].
  destruct (rev r) as [|x r'] eqn:Er.
  - apply (f_equal (@rev _)) in Er. rewrite rev_involutive in Er. subst r. rewrite app_nil_r in Hne. contradiction.
  - apply (f_equal (@rev _)) in Er. rewrite rev_involutive in Er. simpl in Er. subst r.
    unfold parent. rewrite app_assoc, removelast_app_one. apply is_prefix_app.
Qed.
Lemma parent_length q : q <> [] -> length (parent q) < length q.
Proof.
  intros H. destruct (exists_last H) as [l [x ->]]. unfold parent. rewrite removelast_app_one, app_length. simpl. lia.
Qed.

(** * presence *)
Lemma present_nil s : present [] s = true.
Proof. reflexivity. Qed.
Lemma present_cons x p s : present (x :: p) s = match lookup ((x :: p) : path, None) s with Some _ => true | None => false end.
Proof. reflexivity. Qed.
Lemma present_lookup p s : p <> [] -> present p s = match lookup (p, None) s with Some _ => true | None => false end.
Proof. destruct p; [congruence|reflexivity]. Qed.

(** [present] depends only on the presence key *)
Lemma present_agree p s s' : lookup (p, None) s = lookup (p, None) s' -> present p s = present p s'.
Proof. intros H. destruct p; auto. simpl. rewrite H. auto. Qed.

Lemma present_put_attr p q a t s : present p (put (q, Some a) t s) = present p s.
Proof.
  apply present_agree. rewrite lookup_put. destruct (key_eqb (p, None) (q, Some a)) eqn:E; auto.
  apply key_eqb_eq in E. discriminate.
Qed.
Lemma present_del_attr p q a s : present p (del (q, Some a) s) = present p s.
Proof.
  apply present_agree. rewrite lookup_del. destruct (key_eqb (p, None) (q, Some a)) eqn:E; auto.
  apply key_eqb_eq in E. discriminate.
Qed.
Lemma present_put_elem p q s : q <> [] -> present p (put (q, None) [] s) = path_eqb p q || present p s.
Proof.
  intros Hq. destruct p as [|x p].
  - simpl. destruct q; [congruence|]. reflexivity.
  - rewrite !present_cons, lookup_put. unfold key_eqb; simpl fst; simpl snd. simpl oattr_eqb. rewrite andb_true_r.
    destruct (path_eqb (x :: p) q); auto.
Qed.
Lemma present_del_sub p q s : present p (del_sub q s) = (match p with [] => true | _ => negb (is_prefix q p) end) && present p s.
Proof.
  destruct p as [|x p]; [reflexivity|]. rewrite !present_cons, lookup_del_sub. simpl fst.
  destruct (is_prefix q (x :: p)); auto.
Qed.

(** * well-formed states *)
Definition WF (s : st) : Prop :=
  forall p o v, lookup (p, o) s = Some v ->
    match o with
    | Some _ => present p s = true
    | None => p <> [] /\ present (parent p) s = true
    end.

(** every ancestor of a present element is present *)
Lemma WF_ancestors s : WF s -> forall n q, length q <= n -> present q s = true ->
  forall p, is_prefix p q = true -> present p s = true.
Proof.
  intros Hwf n. induction n as [|n IH]; intros q Hn Hq p Hp.
  - destruct q; [|simpl in Hn; lia]. destruct p; [reflexivity|discriminate].
  - destruct (path_eqb p q) eqn:E; [apply path_eqb_eq in E; subst; auto|].
    assert (Hne : p <> q) by (intros ->; rewrite path_eqb_refl in E; discriminate).
    destruct q as [|x q]; [destruct p; [congruence|discriminate]|].
    rewrite present_cons in Hq. destruct (lookup ((x :: q) : path, None) s) eqn:El; [|discriminate].
    destruct (Hwf _ _ _ El) as [_ Hpar].
    apply (IH (parent (x :: q))); auto.
    + pose proof (parent_length (x :: q) ltac:(discriminate)). simpl in *. lia.
    + apply is_prefix_parent; auto.
Qed.

(** nothing exists at or below an absent element *)
Lemma WF_absent_below s p k : WF s -> present p s = false -> is_prefix p (fst k) = true -> lookup k s = None.
Proof.
  intros Hwf Hp Hk. destruct (lookup k s) eqn:El; auto. exfalso.
  destruct k as [q o]. simpl in Hk.
  assert (Hq : present q s = true).
  { destruct o.
    - apply (Hwf _ _ _ El).
    - destruct q as [|x q]; [reflexivity|]. rewrite present_cons, El. reflexivity. }
  rewrite (WF_ancestors s Hwf (length q) q (le_n _) Hq p Hk) in Hp. discriminate.
Qed.

Lemma WF_put_attr s p a t : WF s -> present p s = true -> WF (put (p, Some a) t s).
Proof.
  intros Hwf Hp q o v H. rewrite lookup_put in H.
  destruct (key_eqb (q, o) (p, Some a)) eqn:E.
  - apply key_eqb_eq in E. injection E as -> ->. rewrite present_put_attr. auto.
  - specialize (Hwf _ _ _ H). destruct o; rewrite present_put_attr; auto.
Qed.
Lemma WF_del_attr s p a : WF s -> WF (del (p, Some a) s).
Proof.
  intros Hwf q o v H. rewrite lookup_del in H. destruct (key_eqb (q, o) (p, Some a)); [discriminate|].
  specialize (Hwf _ _ _ H). destruct o; rewrite present_del_attr; auto.
Qed.
Lemma is_prefix_nil_r p : is_prefix p [] = true -> p = [].
Proof. destruct p; auto; discriminate. Qed.
Lemma WF_del_sub s p : WF s -> p <> [] -> WF (del_sub p s).
Proof.
  intros Hwf Hp q o v H. rewrite lookup_del_sub in H. simpl fst in H.
  destruct (is_prefix p q) eqn:E; [discriminate|].
  specialize (Hwf _ _ _ H). destruct o.
  - rewrite present_del_sub, Hwf. destruct q; auto. rewrite E. auto.
  - destruct Hwf as [Hq Hpar]. split; auto. rewrite present_del_sub, Hpar.
    destruct (parent q) as [|y l] eqn:Eq; auto.
    destruct (is_prefix p (y :: l)) eqn:E2; auto.
    exfalso. rewrite <- Eq in E2.
    assert (H0 : is_prefix (parent q) q = true).
    { destruct (exists_last Hq) as [l' [x ->]]. unfold parent. rewrite removelast_app_one. apply is_prefix_app. }
    rewrite (is_prefix_trans _ _ _ E2 H0) in E. discriminate.
Qed.
Lemma WF_put_elem s p : WF s -> p <> [] -> present (parent p) s = true -> WF (put (p, None) [] s).
Proof.
  intros Hwf Hp Hpar q o v H. rewrite lookup_put in H.
  destruct (key_eqb (q, o) (p, None)) eqn:E.
  - apply key_eqb_eq in E. injection E as -> ->. split; auto.
    rewrite present_put_elem by auto. rewrite Hpar. apply orb_true_r.
  - specialize (Hwf _ _ _ H). destruct o.
    + rewrite present_put_elem by auto. rewrite Hwf. apply orb_true_r.
    + destruct Hwf as [A B]. split; auto. rewrite present_put_elem by auto. rewrite B. apply orb_true_r.
Qed.

Lemma present_fold_put_attrs p q init s :
  present p (fold_left (fun acc at_ => put (q, Some (fst at_)) (snd at_) acc) init s) = present p s.
Proof. revert s; induction init as [|[a t] init IH]; intros s; simpl; auto. rewrite IH. apply present_put_attr. Qed.
Lemma WF_fold_put_attrs q init s : WF s -> present q s = true ->
  WF (fold_left (fun acc at_ => put (q, Some (fst at_)) (snd at_) acc) init s).
Proof.
  revert s; induction init as [|[a t] init IH]; intros s Hwf Hq; simpl; auto.
  apply IH; [apply WF_put_attr; auto|rewrite present_put_attr; auto].
Qed.

Lemma present_add_elem p q init s : q <> [] -> present p (add_elem q init s) =
  path_eqb p q || ((match p with [] => true | _ => negb (is_prefix q p) end) && present p s).
Proof. intros Hq. unfold add_elem. rewrite present_fold_put_attrs, present_put_elem, present_del_sub by auto. auto. Qed.

Lemma present_parent_not_below q : q <> [] -> is_prefix q (parent q) = false.
Proof.
  intros Hq. destruct (is_prefix q (parent q)) eqn:E; auto. exfalso.
  destruct (is_prefix_spec _ _ E) as [r Hr]. apply (f_equal (@length _)) in Hr. rewrite app_length in Hr.
  pose proof (parent_length q Hq). lia.
Qed.

Lemma WF_add_elem s q init : WF s -> q <> [] -> present (parent q) s = true -> WF (add_elem q init s).
Proof.
  intros Hwf Hq Hpar. unfold add_elem. apply WF_fold_put_attrs.
  - apply WF_put_elem; auto. apply WF_del_sub; auto.
    rewrite present_del_sub, Hpar. destruct (parent q) eqn:E; auto. rewrite <- E, present_parent_not_below; auto.
  - rewrite present_put_elem by auto. rewrite path_eqb_refl. reflexivity.
Qed.

(** what add_elem changes *)
Lemma lookup_fold_put_attrs k q init s :
  (forall a, k <> (q, Some a)) ->
  lookup k (fold_left (fun acc at_ => put (q, Some (fst at_)) (snd at_) acc) init s) = lookup k s.
Proof.
  intros Hk. revert s; induction init as [|[a t] init IH]; intros s; simpl; auto.
  rewrite IH, lookup_put, key_eqb_neq; auto.
Qed.

Lemma lookup_add_elem_other k q init s : is_prefix q (fst k) = false -> lookup k (add_elem q init s) = lookup k s.
Proof.
  intros Hk. unfold add_elem. rewrite lookup_fold_put_attrs.
  - rewrite lookup_put, key_eqb_neq.
    + rewrite lookup_del_sub, Hk. auto.
    + intros ->. simpl in Hk. rewrite is_prefix_refl in Hk. discriminate.
  - intros a ->. simpl in Hk. rewrite is_prefix_refl in Hk. discriminate.
Qed.

(** * a setter changes only its declared footprint and keeps the state well-formed *)
Definition in_writes (k : key) (w : list region) : bool := existsb (in_region k) w.

Lemma lookup_fold_put_attrs' k q init s :
  forallb (fun at_ => negb (key_eqb k (q, Some (fst at_)))) init = true ->
  lookup k (fold_left (fun acc at_ => put (q, Some (fst at_)) (snd at_) acc) init s) = lookup k s.
Proof.
  revert s; induction init as [|[a t] init IH]; intros s H; simpl in *; auto.
  apply andb_true_iff in H as [H1 H2]. rewrite IH by auto. rewrite lookup_put.
  apply negb_true_iff in H1. simpl in H1. rewrite H1. auto.
Qed.

Lemma attr_set_frame p a c kd v s s' r k :
  attr_set p a c kd v s = (s', r) -> key_eqb k (p, Some a) = false -> lookup k s' = lookup k s.
Proof.
  unfold attr_set. intros H Hk. destruct kd.
  - destruct (py_eqb v dflt).
    + injection H as <- _. rewrite lookup_del, Hk. auto.
    + destruct (enc c v); injection H as <- _; auto. rewrite lookup_put, Hk. auto.
  - destruct (enc c v); injection H as <- _; auto. rewrite lookup_put, Hk. auto.
Qed.
Lemma attr_set_wf p a c kd v s s' r : WF s -> present p s = true -> attr_set p a c kd v s = (s', r) -> WF s'.
Proof.
  unfold attr_set. intros Hwf Hp H. destruct kd.
  - destruct (py_eqb v dflt).
    + injection H as <- _. apply WF_del_attr; auto.
    + destruct (enc c v); injection H as <- _; auto. apply WF_put_attr; auto.
  - destruct (enc c v); injection H as <- _; auto. apply WF_put_attr; auto.
Qed.
Lemma attr_set_present p a c kd v s s' r q : attr_set p a c kd v s = (s', r) -> present q s' = present q s.
Proof.
  unfold attr_set. intros H. destruct kd.
  - destruct (py_eqb v dflt).
    + injection H as <- _. apply present_del_attr.
    + destruct (enc c v); injection H as <- _; auto. apply present_put_attr.
  - destruct (enc c v); injection H as <- _; auto. apply present_put_attr.
Qed.

Lemma nonroot_spec p : nonroot p = true <-> p <> [].
Proof. destruct p; simpl; split; intros; congruence. Qed.

Lemma do_step_frame x : forall v s s' r, WF s -> do_step x v s = (s', r) ->
  forall k, in_writes k (step_writes x) = false -> lookup k s' = lookup k s.
Proof.
  induction x as [p|p init|p|p init|f|c kd|f|p a c kd|p a t|p a|f x IHx]; intros v s s' r Hwf H k Hk; cbn [do_step] in H; cbn [step_writes] in Hk.
  - destruct (present p s); injection H as <- _; auto.
  - destruct (present p s) eqn:Ep; [injection H as <- _; auto|].
    destruct (present (parent p) s); injection H as <- _; auto.
    unfold in_writes in Hk. cbn [existsb in_region] in Hk. apply orb_false_iff in Hk as [Hk1 Hk2].
    unfold add_elem. rewrite lookup_fold_put_attrs'.
    + rewrite lookup_put, Hk1, lookup_del_sub.
      destruct (is_prefix p (fst k)) eqn:E; auto. symmetry. eapply WF_absent_below; eauto.
    + apply forallb_forall. intros at_ Hin. apply negb_true_iff.
      destruct (key_eqb k (p, Some (fst at_))) eqn:E; auto.
      assert (X : existsb (in_region k) (map (fun at_ : str * str => RKey (p, Some (fst at_))) init) = true).
      { apply existsb_exists. exists (RKey (p, Some (fst at_))). split; [apply in_map_iff; eauto|]. simpl. auto. }
      congruence.
  - destruct (nonroot p && present (parent p) s); injection H as <- _; auto.
    unfold in_writes in Hk. cbn [existsb in_region] in Hk. rewrite orb_false_r in Hk.
    rewrite lookup_del_sub, Hk. auto.
  - destruct (nonroot p && present (parent p) s); injection H as <- _; auto.
    unfold in_writes in Hk. cbn [existsb in_region] in Hk. rewrite orb_false_r in Hk.
    apply lookup_add_elem_other; auto.
  - destruct (f v); injection H as <- _; auto.
  - destruct kd as [dflt|]; [destruct (py_eqb (av_val v) dflt)|]; try (injection H as <- _; auto);
      destruct (enc c (av_val v)); injection H as <- _; auto.
  - destruct (f s v); injection H as <- _; auto.
  - destruct (present p s); [|injection H as <- _; auto].
    destruct (attr_set p a c kd (av_val v) s) as [s1 [u|e]] eqn:E; injection H as <- _;
      (eapply attr_set_frame; [eauto|]); unfold in_writes in Hk; cbn [existsb in_region] in Hk;
      rewrite orb_false_r in Hk; auto.
  - destruct (present p s); injection H as <- _; auto.
    unfold in_writes in Hk. cbn [existsb in_region] in Hk. rewrite orb_false_r in Hk. rewrite lookup_put, Hk. auto.
  - destruct (present p s); injection H as <- _; auto.
    unfold in_writes in Hk. cbn [existsb in_region] in Hk. rewrite orb_false_r in Hk. rewrite lookup_del, Hk. auto.
  - destruct (f v) as [v'|e]; [|injection H as <- _; auto].
    destruct (do_step x v' s) as [s1 [u|e]] eqn:E; injection H as <- _; eapply IHx; eauto.
Qed.

Lemma WF_del_sub_any s p : WF s -> WF (del_sub p s).
Proof.
  intros Hwf. destruct p as [|x p]; [|apply WF_del_sub; auto; discriminate].
  intros q o v H. rewrite lookup_del_sub in H. simpl in H. discriminate.
Qed.

Lemma do_step_wf x : forall v s s' r, WF s -> do_step x v s = (s', r) -> WF s'.
Proof.
  induction x as [p|p init|p|p init|f|c kd|f|p a c kd|p a t|p a|f x IHx]; intros v s s' r Hwf H; cbn [do_step] in H.
  - destruct (present p s); injection H as <- _; auto.
  - destruct (present p s) eqn:Ep; [injection H as <- _; auto|].
    destruct (present (parent p) s) eqn:Epar; injection H as <- _; auto.
    apply WF_add_elem; auto. intros ->. discriminate.
  - destruct (nonroot p && present (parent p) s); injection H as <- _; auto. apply WF_del_sub_any; auto.
  - destruct (nonroot p && present (parent p) s) eqn:E; injection H as <- _; auto.
    apply andb_true_iff in E as [E1 E2]. apply WF_add_elem; auto. apply nonroot_spec; auto.
  - destruct (f v); injection H as <- _; auto.
  - destruct kd as [dflt|]; [destruct (py_eqb (av_val v) dflt)|]; try (injection H as <- _; auto);
      destruct (enc c (av_val v)); injection H as <- _; auto.
  - destruct (f s v); injection H as <- _; auto.
  - destruct (present p s) eqn:Ep; [|injection H as <- _; auto].
    destruct (attr_set p a c kd (av_val v) s) as [s1 [u|e]] eqn:E; injection H as <- _; eapply attr_set_wf; eauto.
  - destruct (present p s) eqn:Ep; injection H as <- _; auto. apply WF_put_attr; auto.
  - destruct (present p s) eqn:Ep; injection H as <- _; auto. apply WF_del_attr; auto.
  - destruct (f v) as [v'|e]; [|injection H as <- _; auto].
    destruct (do_step x v' s) as [s1 [u|e]] eqn:E; injection H as <- _; eapply IHx; eauto.
Qed.

Lemma in_writes_app k a b : in_writes k (a ++ b) = in_writes k a || in_writes k b.
Proof. unfold in_writes. apply existsb_app. Qed.
Lemma in_writes_flat_map {A} k (f : A -> list region) l :
  in_writes k (flat_map f l) = false -> forall a, In a l -> in_writes k (f a) = false.
Proof.
  induction l as [|b l IH]; cbn [flat_map]; intros H a Ha; [destruct Ha|].
  rewrite in_writes_app in H. apply orb_false_iff in H as [H1 H2]. destruct Ha as [<-|Ha]; auto.
Qed.

(** straight-line step lists; [seqs xs k] runs them and goes on with k *)
Lemma run_seqs xs k : forall v s,
  run (seqs xs k) v s = match run_steps xs v s with (s', Ok v') => run k v' s' | (s', Err e) => (s', Err e) end.
Proof.
  induction xs as [|x xs IH]; intros v s; cbn [seqs run run_steps]; auto.
  destruct (do_step x v s) as [s1 [v1|e]]; auto.
Qed.
Lemma run_steps_frame xs : forall v s s' r, WF s -> run_steps xs v s = (s', r) ->
  forall k, in_writes k (steps_writes xs) = false -> lookup k s' = lookup k s.
Proof.
  induction xs as [|x xs IH]; intros v s s' r Hwf H k Hk; cbn [run_steps] in H.
  - injection H as <- _. auto.
  - unfold steps_writes in Hk. cbn [flat_map] in Hk. rewrite in_writes_app in Hk. apply orb_false_iff in Hk as [Hk1 Hk2].
    destruct (do_step x v s) as [s1 [v1|e]] eqn:E.
    + rewrite (IH _ _ _ _ (do_step_wf _ _ _ _ _ Hwf E) H k Hk2). eapply do_step_frame; eauto.
    + injection H as <- _. eapply do_step_frame; eauto.
Qed.
Lemma run_steps_wf xs : forall v s s' r, WF s -> run_steps xs v s = (s', r) -> WF s'.
Proof.
  induction xs as [|x xs IH]; intros v s s' r Hwf H; cbn [run_steps] in H.
  - injection H as <- _. auto.
  - destruct (do_step x v s) as [s1 [v1|e]] eqn:E.
    + eapply IH; [|eauto]. eapply do_step_wf; eauto.
    + injection H as <- _. eapply do_step_wf; eauto.
Qed.

(** the readings a setter keeps: what is remembered is written by one of the listed setters *)
Lemma kept_of_in s r l : kept_of s r = Ok l -> forall wr x, In (wr, x) l -> wr = kp_wr r.
Proof.
  unfold kept_of. intros H wr x Hin. destruct (eval (kp_own r) s) as [[]|]; try discriminate;
    try (injection H as <-; destruct Hin; fail).
  destruct (eval (kp_inh r) s); [|discriminate]. injection H as <-. destruct Hin as [Hin|[]]. injection Hin as <- _. auto.
Qed.
Lemma collect_in rs : forall s vals, collect rs s = Ok vals ->
  forall wr x, In (wr, x) vals -> exists r, In r rs /\ wr = kp_wr r.
Proof.
  induction rs as [|r rs IH]; intros s vals H wr x Hin; cbn [collect] in H.
  - injection H as <-. destruct Hin.
  - destruct (kept_of s r) as [l|] eqn:E; [|discriminate]. destruct (collect rs s) as [l'|] eqn:E'; [|discriminate].
    injection H as <-. apply in_app_or in Hin as [Hin|Hin].
    + exists r. split; [left; auto|]. eapply kept_of_in; eauto.
    + destruct (IH _ _ E' _ _ Hin) as [r' [A B]]. exists r'. split; [right; auto|auto].
Qed.
Lemma write_back_wf vals : forall s, WF s -> WF (fst (write_back vals s)).
Proof.
  induction vals as [|[wr x] vals IH]; intros s Hwf; cbn [write_back]; auto.
  assert (G : WF (fst (match run_steps wr (plain x) s with (s', Ok _) => write_back vals s' | (s', Err e) => (s', Err e) end))).
  { destruct (run_steps wr (plain x) s) as [s1 [u|e]] eqn:E; cbn [fst]; [apply IH|]; eapply run_steps_wf; eauto. }
  destruct x; auto.
Qed.
Lemma write_back_frame vals : forall s, WF s -> forall k,
  (forall wr x, In (wr, x) vals -> in_writes k (steps_writes wr) = false) ->
  lookup k (fst (write_back vals s)) = lookup k s.
Proof.
  induction vals as [|[wr x] vals IH]; intros s Hwf k Hk; cbn [write_back]; auto.
  assert (Hr : forall wr0 x0, In (wr0, x0) vals -> in_writes k (steps_writes wr0) = false) by (intros; eapply Hk; right; eauto).
  assert (G : lookup k (fst (match run_steps wr (plain x) s with (s', Ok _) => write_back vals s' | (s', Err e) => (s', Err e) end)) = lookup k s).
  { destruct (run_steps wr (plain x) s) as [s1 [u|e]] eqn:E; cbn [fst].
    - rewrite IH; auto; [|eapply run_steps_wf; eauto]. eapply run_steps_frame; eauto. eapply Hk; left; eauto.
    - eapply run_steps_frame; eauto. eapply Hk; left; eauto. }
  destruct x; auto.
Qed.

Theorem run_wf p : forall v s, WF s -> WF (fst (run p v s)).
Proof.
  induction p as [| e | x p IH | c th IHt el IHe | rs p IH]; intros v s Hwf; cbn [run]; auto.
  - destruct (do_step x v s) as [s1 [v'|e]] eqn:E; cbn [fst]; eauto using do_step_wf.
  - destruct (cond_eval c v s); auto.
  - destruct (collect rs s) as [vals|e]; auto.
    specialize (IH v s Hwf). destruct (run p v s) as [s1 [u|e]]; cbn [fst] in *; auto.
    apply write_back_wf; auto.
Qed.

Theorem run_frame p : forall v s, WF s ->
  forall k, in_writes k (writes p) = false -> lookup k (fst (run p v s)) = lookup k s.
Proof.
  induction p as [| e | x p IH | c th IHt el IHe | rs p IH]; intros v s Hwf k Hk; cbn [run writes] in *; auto.
  - rewrite in_writes_app in Hk. apply orb_false_iff in Hk as [Hk1 Hk2].
    destruct (do_step x v s) as [s1 [v'|e]] eqn:E; cbn [fst].
    + rewrite IH; eauto using do_step_wf. eapply do_step_frame; eauto.
    + eapply do_step_frame; eauto.
  - rewrite in_writes_app in Hk. apply orb_false_iff in Hk as [Hk1 Hk2].
    destruct (cond_eval c v s); auto.
  - rewrite in_writes_app in Hk. apply orb_false_iff in Hk as [Hk1 Hk2].
    destruct (collect rs s) as [vals|e] eqn:Ec; auto.
    specialize (IH v s Hwf k Hk1). destruct (run p v s) as [s1 [u|e]] eqn:E; cbn [fst] in *; auto.
    rewrite write_back_frame; auto.
    + pose proof (run_wf p v s Hwf) as W. rewrite E in W. exact W.
    + intros wr x Hin. destruct (collect_in _ _ _ Ec _ _ Hin) as [r [A ->]].
      apply (in_writes_flat_map k (fun r => steps_writes (kp_wr r)) rs Hk2 r A).
Qed.

(** * a getter depends only on its declared reads *)
(** * a getter depends only on its declared reads *)
Theorem eval_agree g : forall s s', (forall k, In k (reads g) -> lookup k s = lookup k s') -> eval g s = eval g s'.
Proof.
  induction g as [r | p d IHd k IHk | p a c kd | p | f g IH | g IHg h IHh]; intros s s' H; cbn [eval reads] in *; auto.
  - rewrite (present_agree p s s') by (apply H; left; auto).
    destruct (present p s'); [apply IHk|apply IHd]; intros k0 Hk0; apply H; right; apply in_or_app; auto.
  - unfold attr_get. rewrite (H (p, Some a)) by (left; auto). auto.
  - rewrite (present_agree p s s') by (apply H; left; auto). auto.
  - rewrite (IH s s'); auto.
  - rewrite (IHg s s') by (intros; apply H; apply in_or_app; auto).
    destruct (eval g s') as [[]|]; auto; apply IHh; intros; apply H; apply in_or_app; auto.
Qed.

(** * frame: independent footprints *)
Theorem frame p g : indep p g = true -> forall v s, WF s -> eval g (fst (run p v s)) = eval g s.
Proof.
  intros Hi v s Hwf. apply eval_agree. intros k Hk. apply run_frame; auto.
  unfold indep in Hi. rewrite forallb_forall in Hi. specialize (Hi k Hk).
  unfold in_writes. destruct (existsb (in_region k) (writes p)) eqn:E; auto.
  apply existsb_exists in E as [r [Hr Hin]]. rewrite forallb_forall in Hi. specialize (Hi r Hr).
  rewrite Hin in Hi. discriminate.
Qed.

(** * presence tests that cannot matter on a well-formed state *)
Lemma present_below_absent s p q : WF s -> present p s = false -> is_prefix p q = true -> q <> [] -> present q s = false.
Proof.
  intros Hwf Hp Hq Hne. destruct q as [|x q]; [congruence|]. rewrite present_cons.
  rewrite (WF_absent_below s p ((x :: q) : path, None)); auto.
Qed.

Lemma absent_value_ok s p : WF s -> present p s = false ->
  forall g r, absent_value p g = Some r -> eval g s = r.
Proof.
  intros Hwf Hp. assert (Hpne : p <> []) by (intros ->; discriminate).
  induction g as [r0 | q d IHd k IHk | q a c kd | q | f g IH | g IHg h IHh]; intros r H; cbn [absent_value eval] in *.
  - injection H as <-. auto.
  - destruct (is_prefix p q) eqn:E; [|discriminate].
    assert (Hq : present q s = false).
    { destruct q as [|x q]; [apply is_prefix_nil_r in E; contradiction|]. eapply present_below_absent; eauto. discriminate. }
    rewrite Hq. apply IHd; auto.
  - destruct (is_prefix p q) eqn:E; [|discriminate]. injection H as <-.
    unfold attr_get. rewrite (WF_absent_below s p (q, Some a)); auto.
  - destruct q as [|x q]; [discriminate|]. destruct (is_prefix p (x :: q)) eqn:E; [|discriminate].
    injection H as <-. rewrite (present_below_absent s p (x :: q)); auto. discriminate.
  - discriminate.
  - discriminate.
Qed.

Lemma res_pyval_eqb_eq a b : res_pyval_eqb a b = true -> a = b.
Proof.
  destruct a as [x|e], b as [y|e']; simpl; try discriminate.
  - destruct x as [z|b|f|s1| |l|n], y as [z'|b'|f'|s2| |l'|n']; simpl; intros H; try discriminate;
      try (destruct f; discriminate); auto.
    + apply Z.eqb_eq in H; subst; auto.
    + apply Bool.eqb_prop in H; subst; auto.
    + destruct f, f'; try discriminate. apply andb_true_iff in H as [H1 H2].
      apply Z.eqb_eq in H1, H2; subst; auto.
  - destruct e, e'; simpl; try discriminate; auto.
Qed.

Theorem simplify_ok s : WF s -> forall g, eval (simplify g) s = eval g s.
Proof.
  intros Hwf. induction g as [r0 | q d IHd k IHk | q a c kd | q | f g IH | g IHg h IHh]; cbn [simplify]; auto.
  - destruct q as [|x q].
    + cbn [eval]. rewrite IHd, IHk. auto.
    + destruct d as [r| | | | | ]; try (cbn [eval]; rewrite ?IHd, ?IHk; auto; fail).
      destruct (absent_value (x :: q) (simplify k)) as [r'|] eqn:Ea; [|cbn [eval]; rewrite IHk; auto].
      destruct (res_pyval_eqb r r') eqn:Er; [|cbn [eval]; rewrite IHk; auto].
      apply res_pyval_eqb_eq in Er; subst r'. cbn [eval].
      destruct (present (x :: q) s) eqn:Ep; [apply IHk|].
      eapply absent_value_ok; eauto.
  - cbn [eval]. rewrite IH. auto.
  - cbn [eval]. rewrite IHg, IHh. auto.
Qed.

(** C09_frame at the level of catalogue entries *)
Theorem entry_frame a b : e_indep a b = true ->
  forall v s, WF s -> eval (e_get b) (fst (run (e_set a) v s)) = eval (e_get b) s.
Proof.
  intros Hi v s Hwf. rewrite <- (simplify_ok _ (run_wf (e_set a) v s Hwf)), <- (simplify_ok s Hwf).
  apply frame; auto.
Qed.

(** * the chain of elements above the attribute *)
Fixpoint chain_exec (ch : list level) (s : st) : st * bool :=
  match ch with
  | [] => (s, true)
  | l :: r =>
      match lv_mode l with
      | LMust => if present (lv_path l) s then chain_exec r s else (s, false)
      | LEnsure i =>
          if present (lv_path l) s then chain_exec r s
          else if present (parent (lv_path l)) s then chain_exec r (add_elem (lv_path l) i s) else (s, false)
      end
  end.

Lemma chain_prog_run ch k v : forall s,
  run (chain_prog ch k) v s =
  (if snd (chain_exec ch s) then run k v (fst (chain_exec ch s)) else (fst (chain_exec ch s), Err OtherErr)).
Proof.
  induction ch as [|l r IH]; intros s; cbn [chain_prog chain_exec run]; auto.
  destruct (lv_mode l) as [|i]; cbn [do_step].
  - destruct (present (lv_path l) s); auto.
  - destruct (present (lv_path l) s); auto.
    destruct (present (parent (lv_path l)) s); auto.
Qed.

(** nothing is created when every level already exists *)
Lemma chain_exec_present ch : forall s, forallb (fun l => present (lv_path l) s) ch = true -> chain_exec ch s = (s, true).
Proof.
  induction ch as [|l r IH]; intros s H; cbn [chain_exec forallb] in *; auto.
  apply andb_true_iff in H as [H1 H2]. destruct (lv_mode l); rewrite H1; auto.
Qed.

Lemma present_add_elem_keep s q i p : WF s -> present q s = false -> q <> [] -> present p s = true -> present p (add_elem q i s) = true.
Proof.
  intros Hwf Hq Hne Hp. rewrite present_add_elem by auto. rewrite Hp, andb_true_r.
  destruct p as [|x p]; [apply orb_true_r|].
  destruct (is_prefix q (x :: p)) eqn:E; [|apply orb_true_r].
  rewrite (WF_ancestors s Hwf _ _ (le_n _) Hp q E) in Hq. discriminate.
Qed.

Lemma chain_exec_ok ch : forall s s1, WF s -> chain_exec ch s = (s1, true) ->
  WF s1 /\ forallb (fun l => present (lv_path l) s1) ch = true /\ (forall p, present p s = true -> present p s1 = true).
Proof.
  induction ch as [|l r IH]; intros s s1 Hwf H; cbn [chain_exec forallb] in *.
  - injection H as <-. auto.
  - destruct (lv_mode l) as [|i].
    + destruct (present (lv_path l) s) eqn:Ep; [|discriminate].
      destruct (IH _ _ Hwf H) as [A [B C]]. repeat split; auto. rewrite (C _ Ep). auto.
    + destruct (present (lv_path l) s) eqn:Ep.
      * destruct (IH _ _ Hwf H) as [A [B C]]. repeat split; auto. rewrite (C _ Ep). auto.
      * destruct (present (parent (lv_path l)) s) eqn:Epar; [|discriminate].
        assert (Hne : lv_path l <> []) by (intros E; rewrite E in Ep; discriminate).
        assert (Hwf' : WF (add_elem (lv_path l) i s)) by (apply WF_add_elem; auto).
        destruct (IH _ _ Hwf' H) as [A [B C]]. repeat split; auto.
        -- rewrite C; auto. rewrite present_add_elem by auto. rewrite path_eqb_refl. auto.
        -- intros p Hp. apply C. apply present_add_elem_keep; auto.
Qed.

Lemma chain_get_present ch k s : forallb (fun l => present (lv_path l) s) ch = true -> eval (chain_get ch k) s = eval k s.
Proof.
  induction ch as [|l r IH]; cbn [chain_get forallb eval]; auto.
  intros H. apply andb_true_iff in H as [H1 H2]. rewrite H1. auto.
Qed.

Lemma forallb_present_attr_set ch p a c kd v s s' r :
  attr_set p a c kd v s = (s', r) ->
  forallb (fun l => present (lv_path l) s') ch = forallb (fun l => present (lv_path l) s) ch.
Proof.
  intros H. induction ch as [|l ch IH]; cbn [forallb]; auto. rewrite IH, (attr_set_present _ _ _ _ _ _ _ _ (lv_path l) H). auto.
Qed.

(** * (A) typed attribute below a chain: what is accepted, what is read back *)
Definition accepts (c : codec) (kd : akind) (w : pyval) : bool :=
  match kd with
  | AOpt d => py_eqb w d || match enc c w with Ok _ => true | Err _ => false end
  | AReq => match enc c w with Ok _ => true | Err _ => false end
  end.
(** the reading after an accepted assignment: the default when the attribute was deleted,
    else the decoding of the written text *)
Definition stored (c : codec) (kd : akind) (w : pyval) : res pyval :=
  match kd with
  | AOpt d => if py_eqb w d then Ok d else match enc c w with Ok t => dec c t | Err e => Err e end
  | AReq => match enc c w with Ok t => dec c t | Err e => Err e end
  end.
Definition bindr {A B} (r : res A) (f : A -> res B) : res B := match r with Ok a => f a | Err e => Err e end.

Lemma attr_set_get p a c kd w s : accepts c kd w = true ->
  snd (attr_set p a c kd w s) = Ok tt /\ attr_get p a c kd (fst (attr_set p a c kd w s)) = stored c kd w.
Proof.
  unfold accepts, attr_set, attr_get, stored. intros H. destruct kd as [d|].
  - destruct (py_eqb w d); cbn [fst snd].
    + rewrite lookup_del, key_eqb_refl. auto.
    + simpl in H. destruct (enc c w); [|discriminate]. cbn [fst snd]. rewrite lookup_put, key_eqb_refl. auto.
  - destruct (enc c w); [|discriminate]. cbn [fst snd]. rewrite lookup_put, key_eqb_refl. auto.
Qed.

Lemma attr_set_reject p a c kd w s : accepts c kd w = false ->
  exists e, enc c w = Err e /\ attr_set p a c kd w s = (s, Err e).
Proof.
  unfold accepts, attr_set. intros H. destruct kd as [d|].
  - apply orb_false_iff in H as [H1 H2]. rewrite H1. destruct (enc c w); [discriminate|]. eauto.
  - destruct (enc c w); [discriminate|]. eauto.
Qed.

Section AttrProp.
Variables (pre : aval -> res aval) (post : pyval -> res pyval) (ch : list level) (p : path) (d : attr_decl).
Let c := ad_codec d.
Let kd := ad_kind d.

(** C09_get_set for the attribute builder *)
Theorem attr_prop_get_set v w s s1 :
  WF s -> pre v = Ok w -> chain_exec ch s = (s1, true) -> present p s1 = true ->
  accepts c kd (av_val w) = true ->
  snd (run (attr_prog pre ch p d) v s) = Ok tt
  /\ eval (attr_gexp post ch p d) (fst (run (attr_prog pre ch p d) v s)) = bindr (stored c kd (av_val w)) post
  /\ WF (fst (run (attr_prog pre ch p d) v s)).
Proof.
  intros Hwf Hpre Hch Hp Hacc. unfold attr_prog, attr_gexp. cbn [run do_step]. rewrite Hpre.
  rewrite chain_prog_run, Hch. cbn [fst snd run do_step]. rewrite Hp.
  destruct (chain_exec_ok _ _ _ Hwf Hch) as [Hwf1 [Hall _]].
  destruct (attr_set_get p (ad_attr d) c kd (av_val w) s1 Hacc) as [A B].
  fold c kd. destruct (attr_set p (ad_attr d) c kd (av_val w) s1) as [s2 [u|e]] eqn:E; cbn [fst snd] in *; [|discriminate].
  split; [destruct u; auto|]. split.
  - cbn [eval]. rewrite chain_get_present.
    + cbn [eval]. rewrite B. unfold bindr. destruct (stored c kd (av_val w)); auto.
    + rewrite (forallb_present_attr_set _ _ _ _ _ _ _ _ _ E). auto.
  - eapply attr_set_wf; eauto.
Qed.

(** C09_reject: a value the conversion refuses raises that error; the element is as the
    chain left it -- UNCHANGED when every level already existed *)
Theorem attr_prop_reject_pre v e s : pre v = Err e -> run (attr_prog pre ch p d) v s = (s, Err e).
Proof. intros H. unfold attr_prog. cbn [run do_step]. rewrite H. auto. Qed.

Theorem attr_prop_reject v w s :
  WF s -> pre v = Ok w -> forallb (fun l => present (lv_path l) s) ch = true -> present p s = true ->
  accepts c kd (av_val w) = false ->
  exists e, enc c (av_val w) = Err e /\ run (attr_prog pre ch p d) v s = (s, Err e).
Proof.
  intros Hwf Hpre Hall Hp Hacc. unfold attr_prog. cbn [run do_step]. rewrite Hpre.
  rewrite chain_prog_run, (chain_exec_present _ _ Hall). cbn [fst snd run do_step]. rewrite Hp.
  destruct (attr_set_reject p (ad_attr d) c kd (av_val w) s Hacc) as [e [He Hs]].
  exists e. split; auto. fold c kd. rewrite Hs. auto.
Qed.

(** what a refused assignment leaves behind when levels had to be created: the chain's
    get_or_add result (this is the model's account of mutate-before-validate) *)
Theorem attr_prop_reject_residue v w s s1 :
  WF s -> pre v = Ok w -> chain_exec ch s = (s1, true) -> present p s1 = true ->
  accepts c kd (av_val w) = false ->
  exists e, enc c (av_val w) = Err e /\ run (attr_prog pre ch p d) v s = (s1, Err e).
Proof.
  intros Hwf Hpre Hch Hp Hacc. unfold attr_prog. cbn [run do_step]. rewrite Hpre.
  rewrite chain_prog_run, Hch. cbn [fst snd run do_step]. rewrite Hp.
  destruct (attr_set_reject p (ad_attr d) c kd (av_val w) s1 Hacc) as [e [He Hs]].
  exists e. split; auto. fold c kd. rewrite Hs. auto.
Qed.

(** C09_none: assigning the default of an optional attribute removes the attribute and the
    property reads the default again *)
Theorem attr_prop_none v w dflt s s1 :
  WF s -> pre v = Ok w -> kd = AOpt dflt -> py_eqb (av_val w) dflt = true ->
  chain_exec ch s = (s1, true) -> present p s1 = true ->
  snd (run (attr_prog pre ch p d) v s) = Ok tt
  /\ lookup (p, Some (ad_attr d)) (fst (run (attr_prog pre ch p d) v s)) = None
  /\ eval (attr_gexp post ch p d) (fst (run (attr_prog pre ch p d) v s)) = post dflt.
Proof.
  intros Hwf Hpre Hk Heq Hch Hp.
  assert (Hacc : accepts c kd (av_val w) = true) by (unfold accepts; rewrite Hk, Heq; auto).
  destruct (attr_prop_get_set v w s s1 Hwf Hpre Hch Hp Hacc) as [A [B _]]. repeat split; auto.
  - unfold attr_prog. cbn [run do_step]. rewrite Hpre, chain_prog_run, Hch. cbn [fst snd run do_step]. rewrite Hp.
    fold c kd. unfold attr_set. rewrite Hk, Heq. cbn [fst]. rewrite lookup_del, key_eqb_refl. auto.
  - rewrite B. unfold stored. rewrite Hk, Heq. auto.
Qed.
End AttrProp.

(** * (B) the child is removed, then (unless skipped) added again and its attribute assigned *)
Lemma forallb_present_del_sub ch c s :
  forallb (fun l => negb (is_prefix c (lv_path l))) ch = true ->
  forallb (fun l => present (lv_path l) s) ch = true ->
  forallb (fun l => present (lv_path l) (del_sub c s)) ch = true.
Proof.
  induction ch as [|l r IH]; cbn [forallb]; auto. intros H1 H2.
  apply andb_true_iff in H1 as [A1 B1]. apply andb_true_iff in H2 as [A2 B2].
  rewrite IH by auto. rewrite present_del_sub, A2. destruct (lv_path l); auto. rewrite A1. auto.
Qed.
Lemma forallb_present_add_elem ch c init s : c <> [] ->
  forallb (fun l => negb (is_prefix c (lv_path l))) ch = true ->
  forallb (fun l => present (lv_path l) s) ch = true ->
  forallb (fun l => present (lv_path l) (add_elem c init s)) ch = true.
Proof.
  intros Hc. induction ch as [|l r IH]; cbn [forallb]; auto. intros H1 H2.
  apply andb_true_iff in H1 as [A1 B1]. apply andb_true_iff in H2 as [A2 B2].
  rewrite IH by auto. rewrite present_add_elem by auto. rewrite A2. destruct (lv_path l).
  - rewrite orb_true_r. auto.
  - rewrite A1. rewrite orb_true_r. auto.
Qed.

Section FreshProp.
Variables (pre : aval -> res aval) (post : pyval -> res pyval) (ch : list level) (c : path)
          (init : list (str * str)) (skip : cond) (loose : bool) (absent : res pyval) (d : attr_decl).
Let cd := ad_codec d.
Let kd := ad_kind d.
Hypothesis c_nonroot : c <> [].
Hypothesis chain_above : forallb (fun l => negb (is_prefix c (lv_path l))) ch = true.

Lemma fresh_run v w s s1 : pre v = Ok w -> chain_exec ch s = (s1, true) -> present (parent c) s1 = true ->
  run (fresh_prog pre ch c init skip loose d) v s =
  (if cond_eval skip w (del_sub c s1) then (del_sub c s1, Ok tt)
   else if loose && negb (accepts cd kd (av_val w))
        then (del_sub c s1, match enc cd (av_val w) with Err e => Err e | Ok _ => Ok tt end)
        else let s3 := add_elem c init (del_sub c s1) in
             (fst (attr_set c (ad_attr d) cd kd (av_val w) s3),
              snd (attr_set c (ad_attr d) cd kd (av_val w) s3))).
Proof.
  intros Hpre Hch Hpar. unfold fresh_prog. cbn [run do_step]. rewrite Hpre, chain_prog_run, Hch.
  cbn [fst snd run do_step]. rewrite Hpar. rewrite (proj2 (nonroot_spec c) c_nonroot). cbn [andb run].
  destruct (cond_eval skip w (del_sub c s1)); auto.
  assert (Hpar2 : present (parent c) (del_sub c s1) = true).
  { rewrite present_del_sub, Hpar. destruct (parent c) eqn:E; auto. rewrite <- E, present_parent_not_below; auto. }
  assert (Hc3 : present c (add_elem c init (del_sub c s1)) = true).
  { rewrite present_add_elem by auto. rewrite path_eqb_refl. auto. }
  fold cd kd. destruct loose; cbn [andb run do_step].
  - unfold accepts. destruct kd as [dflt|] eqn:Ek.
    + destruct (py_eqb (av_val w) dflt) eqn:Eq; cbn [orb negb run do_step].
      * rewrite Hpar2, (proj2 (nonroot_spec c) c_nonroot). cbn [andb]. rewrite Hc3.
        destruct (attr_set c (ad_attr d) cd (AOpt dflt) (av_val w) _) as [s4 [u|e]]; cbn [fst snd]; auto. destruct u; auto.
      * destruct (enc cd (av_val w)) eqn:Ee; cbn [negb run do_step]; auto.
        rewrite Hpar2, (proj2 (nonroot_spec c) c_nonroot). cbn [andb]. rewrite Hc3.
        destruct (attr_set c (ad_attr d) cd (AOpt dflt) (av_val w) _) as [s4 [u|e]]; cbn [fst snd]; auto. destruct u; auto.
    + destruct (enc cd (av_val w)) eqn:Ee; cbn [negb run do_step]; auto.
      rewrite Hpar2, (proj2 (nonroot_spec c) c_nonroot). cbn [andb]. rewrite Hc3.
      destruct (attr_set c (ad_attr d) cd AReq (av_val w) _) as [s4 [u|e]]; cbn [fst snd]; auto. destruct u; auto.
  - rewrite Hpar2, (proj2 (nonroot_spec c) c_nonroot). cbn [andb]. rewrite Hc3.
    destruct (attr_set c (ad_attr d) cd kd (av_val w) _) as [s4 [u|e]]; cbn [fst snd]; auto. destruct u; auto.
Qed.

Theorem fresh_prop_get_set v w s s1 :
  WF s -> pre v = Ok w -> chain_exec ch s = (s1, true) -> present (parent c) s1 = true ->
  cond_eval skip w (del_sub c s1) = false -> accepts cd kd (av_val w) = true ->
  snd (run (fresh_prog pre ch c init skip loose d) v s) = Ok tt
  /\ eval (child_gexp post ch c absent d) (fst (run (fresh_prog pre ch c init skip loose d) v s)) = bindr (stored cd kd (av_val w)) post.
Proof.
  intros Hwf Hpre Hch Hpar Hskip Hacc. rewrite (fresh_run v w s s1 Hpre Hch Hpar), Hskip, Hacc, andb_false_r.
  cbn zeta. destruct (chain_exec_ok _ _ _ Hwf Hch) as [Hwf1 [Hall _]].
  destruct (attr_set_get c (ad_attr d) cd kd (av_val w) (add_elem c init (del_sub c s1)) Hacc) as [A B].
  destruct (attr_set c (ad_attr d) cd kd (av_val w) (add_elem c init (del_sub c s1))) as [s4 r4] eqn:E4.
  cbn [fst snd] in *. split; auto. unfold child_gexp. cbn [eval]. rewrite chain_get_present.
  - cbn [eval]. rewrite (attr_set_present _ _ _ _ _ _ _ _ c E4).
    rewrite present_add_elem by auto. rewrite path_eqb_refl. cbn [orb]. fold cd kd. rewrite B.
    unfold bindr. destruct (stored cd kd (av_val w)); auto.
  - rewrite (forallb_present_attr_set _ _ _ _ _ _ _ _ _ E4).
    apply forallb_present_add_elem; auto. apply forallb_present_del_sub; auto.
Qed.

(** C09_none for (B): the skipped value (None where documented) removes the child and the
    property reads what it reads without the child *)
Theorem fresh_prop_none v w s s1 a0 :
  WF s -> pre v = Ok w -> chain_exec ch s = (s1, true) -> present (parent c) s1 = true ->
  cond_eval skip w (del_sub c s1) = true -> absent = Ok a0 ->
  snd (run (fresh_prog pre ch c init skip loose d) v s) = Ok tt
  /\ present c (fst (run (fresh_prog pre ch c init skip loose d) v s)) = false
  /\ eval (child_gexp post ch c absent d) (fst (run (fresh_prog pre ch c init skip loose d) v s)) = post a0.
Proof.
  intros Hwf Hpre Hch Hpar Hskip Habs. rewrite (fresh_run v w s s1 Hpre Hch Hpar), Hskip. cbn [fst snd].
  destruct (chain_exec_ok _ _ _ Hwf Hch) as [Hwf1 [Hall _]].
  assert (Hc : present c (del_sub c s1) = false).
  { rewrite present_del_sub. destruct c; [congruence|]. rewrite is_prefix_refl. auto. }
  repeat split; auto. unfold child_gexp. cbn [eval]. rewrite chain_get_present.
  - cbn [eval]. rewrite Hc, Habs. auto.
  - apply forallb_present_del_sub; auto.
Qed.

(** the model's account of a refused assignment in (B): the OLD child is gone *)
Theorem fresh_prop_reject_state v w s s1 :
  WF s -> pre v = Ok w -> chain_exec ch s = (s1, true) -> present (parent c) s1 = true ->
  cond_eval skip w (del_sub c s1) = false -> accepts cd kd (av_val w) = false ->
  exists e, enc cd (av_val w) = Err e
    /\ run (fresh_prog pre ch c init skip loose d) v s =
       ((if loose then del_sub c s1 else add_elem c init (del_sub c s1)), Err e).
Proof.
  intros Hwf Hpre Hch Hpar Hskip Hacc. rewrite (fresh_run v w s s1 Hpre Hch Hpar), Hskip, Hacc.
  destruct (attr_set_reject c (ad_attr d) cd kd (av_val w) (add_elem c init (del_sub c s1)) Hacc) as [e [He Hs]].
  exists e. split; auto. destruct loose; cbn [andb negb].
  - rewrite He. auto.
  - cbn zeta. rewrite Hs. auto.
Qed.
End FreshProp.

(** * (D) presence of a child as a boolean *)
Section FlagProp.
Variables (ch : list level) (c : path) (init : list (str * str)) (neg : bool).
Hypothesis c_nonroot : c <> [].
Hypothesis chain_above : forallb (fun l => negb (is_prefix c (lv_path l))) ch = true.

Theorem flag_prop_get_set v s s1 :
  WF s -> chain_exec ch s = (s1, true) -> present (parent c) s1 = true ->
  snd (run (flag_prog ch c init neg) v s) = Ok tt
  /\ eval (flag_gexp ch c neg) (fst (run (flag_prog ch c init neg) v s)) = Ok (PBool (py_truth (av_val v))).
Proof.
  intros Hwf Hch Hpar. unfold flag_prog, flag_gexp. rewrite chain_prog_run, Hch. cbn [fst snd run].
  destruct (chain_exec_ok _ _ _ Hwf Hch) as [Hwf1 [Hall _]].
  assert (E : cond_eval (if neg then CNot CTruthy else CTruthy) v s1 = (if neg then negb (py_truth (av_val v)) else py_truth (av_val v)))
    by (destruct neg; reflexivity).
  rewrite E. clear E.
  destruct (if neg then negb (py_truth (av_val v)) else py_truth (av_val v)) eqn:Eb; cbn [run do_step].
  - destruct (present c s1) eqn:Ec; cbn [fst snd].
    + split; auto. cbn [eval]. rewrite chain_get_present by auto. cbn [eval]. rewrite Ec.
      destruct neg; [apply negb_true_iff in Eb|]; rewrite Eb; auto.
    + rewrite Hpar. cbn [fst snd]. split; auto. cbn [eval]. rewrite chain_get_present.
      * cbn [eval]. rewrite present_add_elem by auto. rewrite path_eqb_refl. cbn [orb].
        destruct neg; [apply negb_true_iff in Eb|]; rewrite Eb; auto.
      * apply forallb_present_add_elem; auto.
  - rewrite Hpar, (proj2 (nonroot_spec c) c_nonroot). cbn [andb fst snd]. split; auto.
    cbn [eval]. rewrite chain_get_present.
    + cbn [eval]. rewrite present_del_sub. destruct c as [|x c']; [congruence|]. rewrite is_prefix_refl. cbn [negb andb].
      destruct neg; [apply negb_false_iff in Eb|]; rewrite Eb; auto.
    + apply forallb_present_del_sub; auto.
Qed.
End FlagProp.

(** * refined frame: get_or_add of an element that exists writes nothing *)
(** [L]: elements known to be present.  A step that neither removes nor replaces an ancestor-or-self
    of one of them keeps them present, and its get_or_add of one of them is a no-op. *)
Definition all_present (L : list path) (s : st) : bool := forallb (fun q => present q s) L.
Fixpoint step_writes_in (L : list path) (x : step) : list region :=
  match x with
  | SEnsure p init => if existsb (path_eqb p) L then [] else step_writes x
  | SWith _ x' => step_writes_in L x'
  | _ => step_writes x
  end.
Fixpoint step_safe (L : list path) (x : step) : bool :=
  match x with
  | SRemove p | SAdd p _ => forallb (fun q => negb (is_prefix p q)) L
  | SWith _ x' => step_safe L x'
  | _ => true
  end.
Definition steps_writes_in (L : list path) (xs : list step) : list region := flat_map (step_writes_in L) xs.
Definition steps_safe (L : list path) (xs : list step) : bool := forallb (step_safe L) xs.
Fixpoint writes_in (L : list path) (p : prog) : list region :=
  match p with
  | Done | Raise _ => []
  | Seq x k => step_writes_in L x ++ writes_in L k
  | If _ th el => writes_in L th ++ writes_in L el
  | Keep rs k => writes_in L k ++ flat_map (fun r => steps_writes_in L (kp_wr r)) rs
  end.
Fixpoint safe (L : list path) (p : prog) : bool :=
  match p with
  | Done | Raise _ => true
  | Seq x k => step_safe L x && safe L k
  | If _ th el => safe L th && safe L el
  | Keep rs k => safe L k && forallb (fun r => steps_safe L (kp_wr r)) rs
  end.

Lemma do_step_frame_in L x : forall v s s' r, WF s -> all_present L s = true -> do_step x v s = (s', r) ->
  forall k, in_writes k (step_writes_in L x) = false -> lookup k s' = lookup k s.
Proof.
  induction x as [p|p init|p|p init|f|c kd|f|p a c kd|p a t|p a|f x IHx]; intros v s s' r Hwf HL H k Hk;
    try (eapply do_step_frame; eauto; fail).
  - cbn [step_writes_in] in Hk. destruct (existsb (path_eqb p) L) eqn:E; [|eapply do_step_frame; eauto].
    apply existsb_exists in E as [q [Hq Hpq]]. apply path_eqb_eq in Hpq. subst q.
    unfold all_present in HL. rewrite forallb_forall in HL. specialize (HL p Hq).
    cbn [do_step] in H. rewrite HL in H. injection H as <- _. auto.
  - cbn [step_writes_in] in Hk. cbn [do_step] in H. destruct (f v) as [v'|e]; [|injection H as <- _; auto].
    destruct (do_step x v' s) as [s1 [u|e]] eqn:E; injection H as <- _; eapply IHx; eauto.
Qed.

Lemma do_step_present L x : forall v s s' r, WF s -> all_present L s = true -> step_safe L x = true ->
  do_step x v s = (s', r) -> all_present L s' = true.
Proof.
  induction x as [p|p init|p|p init|f|c kd|f|p a c kd|p a t|p a|f x IHx]; intros v s s' r Hwf HL Hs H; cbn [do_step step_safe] in *.
  - destruct (present p s); injection H as <- _; auto.
  - destruct (present p s) eqn:Ep; [injection H as <- _; auto|].
    destruct (present (parent p) s); injection H as <- _; auto.
    unfold all_present in *. rewrite forallb_forall in *. intros q Hq.
    apply present_add_elem_keep; auto. intros ->. discriminate.
  - destruct (nonroot p && present (parent p) s); injection H as <- _; auto.
    unfold all_present in *. rewrite forallb_forall in *. intros q Hq.
    rewrite present_del_sub, (HL q Hq). destruct q; auto. rewrite (Hs _ Hq). auto.
  - destruct (nonroot p && present (parent p) s) eqn:E; injection H as <- _; auto.
    apply andb_true_iff in E as [E1 E2]. apply nonroot_spec in E1.
    unfold all_present in *. rewrite forallb_forall in *. intros q Hq.
    rewrite present_add_elem by auto. rewrite (HL q Hq). destruct q; [apply orb_true_r|].
    rewrite (Hs _ Hq). apply orb_true_r.
  - destruct (f v); injection H as <- _; auto.
  - destruct kd as [dflt|]; [destruct (py_eqb (av_val v) dflt)|]; try (injection H as <- _; auto);
      destruct (enc c (av_val v)); injection H as <- _; auto.
  - destruct (f s v); injection H as <- _; auto.
  - destruct (present p s); [|injection H as <- _; auto].
    destruct (attr_set p a c kd (av_val v) s) as [s1 [u|e]] eqn:E; injection H as <- _;
      unfold all_present in *; rewrite forallb_forall in *; intros q Hq;
      rewrite (attr_set_present _ _ _ _ _ _ _ _ q E); auto.
  - destruct (present p s); injection H as <- _; auto.
    unfold all_present in *. rewrite forallb_forall in *. intros q Hq. rewrite present_put_attr; auto.
  - destruct (present p s); injection H as <- _; auto.
    unfold all_present in *. rewrite forallb_forall in *. intros q Hq. rewrite present_del_attr; auto.
  - destruct (f v) as [v'|e]; [|injection H as <- _; auto].
    destruct (do_step x v' s) as [s1 [u|e]] eqn:E; injection H as <- _; eapply IHx; eauto.
Qed.

Lemma run_steps_present L xs : forall v s s' r, WF s -> all_present L s = true -> steps_safe L xs = true ->
  run_steps xs v s = (s', r) -> all_present L s' = true.
Proof.
  induction xs as [|x xs IH]; intros v s s' r Hwf HL Hs H; cbn [run_steps] in H.
  - injection H as <- _. auto.
  - unfold steps_safe in Hs. cbn [forallb] in Hs. apply andb_true_iff in Hs as [Hs1 Hs2].
    destruct (do_step x v s) as [s1 [v1|e]] eqn:E.
    + eapply IH; [| |exact Hs2|exact H]; [eapply do_step_wf|eapply do_step_present]; eauto.
    + injection H as <- _. eapply do_step_present; eauto.
Qed.
Lemma run_steps_frame_in L xs : forall v s s' r, WF s -> all_present L s = true -> steps_safe L xs = true ->
  run_steps xs v s = (s', r) ->
  forall k, in_writes k (steps_writes_in L xs) = false -> lookup k s' = lookup k s.
Proof.
  induction xs as [|x xs IH]; intros v s s' r Hwf HL Hs H k Hk; cbn [run_steps] in H.
  - injection H as <- _. auto.
  - unfold steps_safe in Hs. cbn [forallb] in Hs. apply andb_true_iff in Hs as [Hs1 Hs2].
    unfold steps_writes_in in Hk. cbn [flat_map] in Hk. rewrite in_writes_app in Hk. apply orb_false_iff in Hk as [Hk1 Hk2].
    destruct (do_step x v s) as [s1 [v1|e]] eqn:E.
    + rewrite (IH _ _ _ _ (do_step_wf _ _ _ _ _ Hwf E) (do_step_present _ _ _ _ _ _ Hwf HL Hs1 E) Hs2 H k Hk2).
      eapply do_step_frame_in; eauto.
    + injection H as <- _. eapply do_step_frame_in; eauto.
Qed.

(** an invariant of the setters of the remembered values is an invariant of the write-back *)
Lemma write_back_inv (P : st -> Prop) vals :
  (forall wr x s0 s1 r, In (wr, x) vals -> P s0 -> run_steps wr (plain x) s0 = (s1, r) -> P s1) ->
  forall s, P s -> P (fst (write_back vals s)).
Proof.
  induction vals as [|[wr x] vals IH]; intros Hp s Hs; cbn [write_back] in *; auto.
  assert (Hr : forall wr0 x0 s0 s1 r, In (wr0, x0) vals -> P s0 -> run_steps wr0 (plain x0) s0 = (s1, r) -> P s1)
    by (intros; eapply Hp; eauto; right; auto).
  assert (G : P (fst (match run_steps wr (plain x) s with (s', Ok _) => write_back vals s' | (s', Err e) => (s', Err e) end))).
  { destruct (run_steps wr (plain x) s) as [s1 [u|e]] eqn:E; cbn [fst]; [apply IH; auto|]; eapply Hp; eauto; left; auto. }
  destruct x; auto.
Qed.
Lemma write_back_app l1 : forall l2 s,
  write_back (l1 ++ l2) s = match write_back l1 s with (s', Ok _) => write_back l2 s' | (s', Err e) => (s', Err e) end.
Proof.
  induction l1 as [|[wr x] l1 IH]; intros l2 s; cbn [app write_back]; auto.
  assert (G : match run_steps wr (plain x) s with (s', Ok _) => write_back (l1 ++ l2) s' | (s', Err e) => (s', Err e) end
              = match (match run_steps wr (plain x) s with (s', Ok _) => write_back l1 s' | (s', Err e) => (s', Err e) end)
                with (s', Ok _) => write_back l2 s' | (s', Err e) => (s', Err e) end).
  { destruct (run_steps wr (plain x) s) as [s1 [u|e]]; auto. }
  destruct x; auto.
Qed.
Lemma collect_app rs1 : forall rs2 s,
  collect (rs1 ++ rs2) s = match collect rs1 s with
                           | Err e => Err e
                           | Ok l1 => match collect rs2 s with Err e => Err e | Ok l2 => Ok (l1 ++ l2) end
                           end.
Proof.
  induction rs1 as [|r rs1 IH]; intros rs2 s; cbn [app collect].
  - destruct (collect rs2 s); auto.
  - destruct (kept_of s r) as [l|]; auto. rewrite IH. destruct (collect rs1 s) as [l1|]; auto.
    destruct (collect rs2 s) as [l2|]; auto. rewrite app_assoc. auto.
Qed.

Lemma write_back_present L rs s vals : collect rs s = Ok vals -> forallb (fun r => steps_safe L (kp_wr r)) rs = true ->
  forall s1, WF s1 -> all_present L s1 = true ->
  WF (fst (write_back vals s1)) /\ all_present L (fst (write_back vals s1)) = true.
Proof.
  intros Ec Hs s1 Hwf HL.
  apply (write_back_inv (fun s0 => WF s0 /\ all_present L s0 = true)); auto.
  intros wr x s0 s3 r Hin [A B] Hr. split; [eapply run_steps_wf; eauto|].
  destruct (collect_in _ _ _ Ec _ _ Hin) as [r0 [Hr1 ->]]. rewrite forallb_forall in Hs.
  eapply run_steps_present; eauto.
Qed.

Theorem run_present L p : safe L p = true -> forall v s, WF s -> all_present L s = true ->
  all_present L (fst (run p v s)) = true.
Proof.
  induction p as [| e | x p IH | c th IHt el IHe | rs p IH]; intros Hs v s Hwf HL; cbn [run safe] in *; auto.
  - apply andb_true_iff in Hs as [Hs1 Hs2].
    destruct (do_step x v s) as [s1 [v'|e]] eqn:E; cbn [fst].
    + apply IH; auto; [eapply do_step_wf|eapply do_step_present]; eauto.
    + eapply do_step_present; eauto.
  - apply andb_true_iff in Hs as [Hs1 Hs2]. destruct (cond_eval c v s); auto.
  - apply andb_true_iff in Hs as [Hs1 Hs2].
    destruct (collect rs s) as [vals|e] eqn:Ec; auto.
    pose proof (run_wf p v s Hwf) as W. specialize (IH Hs1 v s Hwf HL).
    destruct (run p v s) as [s1 [u|e]] eqn:E; cbn [fst] in *; auto.
    apply (write_back_present L rs s vals Ec Hs2 s1 W IH).
Qed.

(** the refined frame: with the elements of L present, a setter changes only [writes_in L] *)
Theorem run_frame_in L p : safe L p = true -> forall v s, WF s -> all_present L s = true ->
  forall k, in_writes k (writes_in L p) = false -> lookup k (fst (run p v s)) = lookup k s.
Proof.
  induction p as [| e | x p IH | c th IHt el IHe | rs p IH]; intros Hs v s Hwf HL k Hk; cbn [run safe writes_in] in *; auto.
  - apply andb_true_iff in Hs as [Hs1 Hs2].
    rewrite in_writes_app in Hk. apply orb_false_iff in Hk as [Hk1 Hk2].
    destruct (do_step x v s) as [s1 [v'|e]] eqn:E; cbn [fst].
    + rewrite IH; auto; [eapply do_step_frame_in; eauto|eapply do_step_wf; eauto|eapply do_step_present; eauto].
    + eapply do_step_frame_in; eauto.
  - apply andb_true_iff in Hs as [Hs1 Hs2].
    rewrite in_writes_app in Hk. apply orb_false_iff in Hk as [Hk1 Hk2].
    destruct (cond_eval c v s); auto.
  - apply andb_true_iff in Hs as [Hs1 Hs2].
    rewrite in_writes_app in Hk. apply orb_false_iff in Hk as [Hk1 Hk2].
    destruct (collect rs s) as [vals|e] eqn:Ec; auto.
    pose proof (run_wf p v s Hwf) as W. pose proof (run_present L p Hs1 v s Hwf HL) as HL1.
    specialize (IH Hs1 v s Hwf HL k Hk1).
    destruct (run p v s) as [s1 [u|e]] eqn:E; cbn [fst] in *; auto.
    rewrite <- IH.
    apply (write_back_inv (fun s0 => WF s0 /\ all_present L s0 = true /\ lookup k s0 = lookup k s1)); auto.
    intros wr x s0 s3 r Hin [A [B C]] Hr.
    destruct (collect_in _ _ _ Ec _ _ Hin) as [r0 [Hr1 ->]]. rewrite forallb_forall in Hs2.
    split; [eapply run_steps_wf; eauto|]. split; [eapply run_steps_present; eauto|].
    rewrite <- C. eapply run_steps_frame_in; eauto.
    apply (in_writes_flat_map k (fun r => steps_writes_in L (kp_wr r)) rs Hk2 r0 Hr1).
Qed.

(** * the kept readings of a [Keep] setter read the same after an accepted assignment *)
(** a value-validating typed-attribute setter (the element-level x / y / cx / cy): accepted means the
    simple type accepts, the chain exists afterwards and the attribute reads [stored] *)
Lemma check_accepts c kd v s : do_step (SCheck c kd) v s = (s, if accepts c kd (av_val v) then Ok v else
  match enc c (av_val v) with Err e => Err e | Ok _ => Ok v end).
Proof.
  cbn [do_step]. unfold accepts. destruct kd as [d|].
  - destruct (py_eqb (av_val v) d); cbn [orb]; auto. destruct (enc c (av_val v)); auto.
  - destruct (enc c (av_val v)); auto.
Qed.

Lemma forallb_present_in ch s p : forallb (fun l => present (lv_path l) s) ch = true -> In p (map lv_path ch) -> present p s = true.
Proof.
  intros H Hin. apply in_map_iff in Hin as [l [<- Hl]]. rewrite forallb_forall in H. auto.
Qed.

Theorem checked_attr_accepted post ch p d v s s' u :
  WF s -> In p (map lv_path ch) ->
  run (Seq (SCheck (ad_codec d) (ad_kind d)) (attr_prog pre_id ch p d)) v s = (s', Ok u) ->
  accepts (ad_codec d) (ad_kind d) (av_val v) = true
  /\ eval (attr_gexp post ch p d) s' = bindr (stored (ad_codec d) (ad_kind d) (av_val v)) post
  /\ WF s' /\ forallb (fun l => present (lv_path l) s') ch = true.
Proof.
  intros Hwf Hin H. cbn [run] in H. rewrite check_accepts in H.
  destruct (accepts (ad_codec d) (ad_kind d) (av_val v)) eqn:Hacc.
  2:{ exfalso. destruct (attr_set_reject [] [] _ _ _ s Hacc) as [e [He _]]. rewrite He in H. discriminate. }
  split; auto.
  destruct (chain_exec ch s) as [s1 b] eqn:Hch.
  destruct b.
  - destruct (chain_exec_ok _ _ _ Hwf Hch) as [Hwf1 [Hall _]].
    pose proof (forallb_present_in _ _ _ Hall Hin) as Hp.
    destruct (attr_prop_get_set pre_id post ch p d v v s s1 Hwf eq_refl Hch Hp Hacc) as [A [B C]].
    rewrite H in A, B, C. cbn [fst snd] in *. repeat split; auto.
    unfold attr_prog in H. cbn [run do_step pre_id] in H. rewrite chain_prog_run, Hch in H. cbn [fst snd run do_step] in H.
    rewrite Hp in H.
    destruct (attr_set p (ad_attr d) (ad_codec d) (ad_kind d) (av_val v) s1) as [s2 [u2|e2]] eqn:E; [|discriminate].
    injection H as <- _. rewrite (forallb_present_attr_set _ _ _ _ _ _ _ _ _ E). auto.
  - exfalso. unfold attr_prog in H. cbn [run do_step pre_id] in H. rewrite chain_prog_run, Hch in H. cbn [fst snd] in H. discriminate.
Qed.

(** a reading that is not None found every element of its chain (those whose absence reads None or raises) *)
Definition reads_none_or_raises (r : res pyval) : bool :=
  match r with Ok PNone => true | Ok _ => false | Err _ => true end.
Lemma chain_get_some ch k s x : eval (chain_get ch k) s = Ok x -> x <> PNone ->
  forallb (fun l => reads_none_or_raises (lv_absent l)) ch = true ->
  all_present (map lv_path ch) s = true /\ eval k s = Ok x.
Proof.
  induction ch as [|l r IH]; cbn [chain_get eval forallb map all_present]; intros H Hx Hall; auto.
  apply andb_true_iff in Hall as [H1 H2].
  destruct (present (lv_path l) s) eqn:Ep.
  - destruct (IH H Hx H2) as [A B]. split; auto.
  - exfalso. destruct (lv_absent l) as [[]|]; try discriminate. injection H as <-. congruence.
Qed.

Lemma pyval_none_dec (x : pyval) : x = PNone \/ x <> PNone.
Proof. destruct x; try (right; discriminate). left; reflexivity. Qed.

Lemma write_back_cons_some wr x rest s : x <> PNone ->
  write_back ((wr, x) :: rest) s = match run_steps wr (plain x) s with
                                   | (s', Ok _) => write_back rest s'
                                   | (s', Err e) => (s', Err e)
                                   end.
Proof. intros H. cbn [write_back]. destruct x; auto. congruence. Qed.

Section KeepProp.
(** [g]: a reading of the object's own value; [L]: the elements it finds when it has a value; [x]: a value *)
Variables (g : gexp) (L : list path) (x : pyval).
Hypothesis x_some : x <> PNone.
Hypothesis own_present : forall s y, eval g s = Ok y -> y <> PNone -> all_present L s = true.

Let P (s : st) : Prop := WF s /\ all_present L s = true /\ eval g s = Ok x.

(** with the elements of L present, the setters of these kept readings keep them present and do not
    touch what g depends on *)
Definition keeps_quiet (rs : list keep) : bool :=
  forallb (fun r => steps_safe L (kp_wr r)
                    && forallb (fun k => negb (in_writes k (steps_writes_in L (kp_wr r)))) (reads g)) rs.

Lemma keep_P_of s : WF s -> eval g s = Ok x -> P s.
Proof. intros Hwf H. split; auto. split; auto. eapply own_present; eauto. Qed.

Lemma frame_reads W s s' : forallb (fun k => negb (in_writes k W)) (reads g) = true ->
  (forall k, in_writes k W = false -> lookup k s' = lookup k s) -> eval g s' = eval g s.
Proof.
  intros H Hf. apply eval_agree. intros k Hk. apply Hf. rewrite forallb_forall in H.
  specialize (H k Hk). apply negb_true_iff in H. auto.
Qed.

Lemma quiet_keep_P rs vals s : keeps_quiet rs = true -> collect rs s = Ok vals ->
  forall s1, P s1 -> P (fst (write_back vals s1)).
Proof.
  intros Hq Ec s1 Hp. apply (write_back_inv P); auto.
  intros wr y s0 s3 r Hin [A [B C]] Hr.
  destruct (collect_in _ _ _ Ec _ _ Hin) as [r0 [Hr1 ->]].
  unfold keeps_quiet in Hq. rewrite forallb_forall in Hq. specialize (Hq _ Hr1). apply andb_true_iff in Hq as [Q1 Q2].
  pose proof (run_steps_wf _ _ _ _ _ A Hr) as A'.
  pose proof (run_steps_present L _ _ _ _ _ A B Q1 Hr) as B'.
  split; auto. split; auto. rewrite <- C.
  apply (frame_reads (steps_writes_in L (kp_wr r0))); auto.
  intros k Hk. eapply run_steps_frame_in; eauto.
Qed.

Lemma keeps_quiet_app a b : keeps_quiet (a ++ b) = keeps_quiet a && keeps_quiet b.
Proof. unfold keeps_quiet. apply forallb_app. Qed.

(** C09 frame for a kept reading: whichever way it had the value x before -- as the object's own value,
    or inherited while the own value was None -- after an ACCEPTED assignment it is the own value x *)
Theorem keep_reads before after rb main v s :
  kp_own rb = g ->
  safe L main = true -> forallb (fun k => negb (in_writes k (writes_in L main))) (reads g) = true ->
  keeps_quiet (before ++ after) = true ->
  (forall s0 s1 u, WF s0 -> run_steps (kp_wr rb) (plain x) s0 = (s1, Ok u) -> eval g s1 = Ok x) ->
  WF s -> snd (run (Keep (before ++ rb :: after) main) v s) = Ok tt ->
  eval (GOrElse g (kp_inh rb)) s = Ok x ->
  eval g (fst (run (Keep (before ++ rb :: after) main) v s)) = Ok x.
Proof.
  intros Hg main_safe main_frame Hq own_set Hwf Hok Hread.
  rewrite keeps_quiet_app in Hq. apply andb_true_iff in Hq as [Qb Qa].
  cbn [run] in *. rewrite collect_app in *. cbn [collect] in *.
  destruct (collect before s) as [l1|] eqn:E1; [|discriminate].
  destruct (kept_of s rb) as [lb|] eqn:Eb; [|discriminate].
  destruct (collect after s) as [l2|] eqn:E2; [|discriminate].
  pose proof (run_wf main v s Hwf) as W1.
  destruct (run main v s) as [s1 [u1|e1]] eqn:Em; [|discriminate]. cbn [fst] in W1.
  cbn [eval] in Hread. unfold kept_of in Eb. rewrite Hg in Eb.
  destruct (eval g s) as [x0|] eqn:Eg; [|discriminate].
  destruct (pyval_none_dec x0) as [->|Hx].
  - (* inherited *)
    rewrite Hread in Eb. injection Eb as <-.
    rewrite write_back_app in *.
    pose proof (write_back_wf l1 s1 W1) as Wa.
    destruct (write_back l1 s1) as [sa [ua|ea]] eqn:Ea; [|discriminate]. cbn [fst] in Wa.
    cbn [app] in *. rewrite write_back_cons_some in * by auto.
    destruct (run_steps (kp_wr rb) (plain x) sa) as [sb [ub|eb]] eqn:Er; [|discriminate].
    assert (Pb : P sb). { apply keep_P_of; [eapply run_steps_wf; eauto|eapply own_set; eauto]. }
    apply (quiet_keep_P after l2 s Qa E2 sb Pb).
  - (* own *)
    assert (Hx' : x0 = x) by (destruct x0; try congruence; injection Hread; congruence).
    subst x0. assert (lb = []) as -> by (destruct x; try (injection Eb as <-; reflexivity); congruence). cbn [app] in *.
    assert (P1 : P s1).
    { destruct (keep_P_of s Hwf Eg) as [_ [B C]].
      pose proof (run_present L main main_safe v s Hwf B) as B1. rewrite Em in B1. cbn [fst] in B1.
      split; auto. split; auto. rewrite <- C.
      apply (frame_reads (writes_in L main)); auto.
      intros k Hk. pose proof (run_frame_in L main main_safe v s Hwf B k Hk) as F. rewrite Em in F. exact F. }
    rewrite write_back_app.
    pose proof (quiet_keep_P before l1 s Qb E1 s1 P1) as Pa.
    destruct (write_back l1 s1) as [sa [ua|ea]] eqn:Ea; cbn [fst] in *.
    + apply (quiet_keep_P after l2 s Qa E2 sa Pa).
    + apply Pa.
Qed.

(** read-after-write under [Keep]: writing the kept readings back does not change what the assigned
    property reads after the assignment proper *)
Theorem keep_assigned_reads rs main v s :
  keeps_quiet rs = true -> WF s -> snd (run (Keep rs main) v s) = Ok tt ->
  eval g (fst (run main v s)) = Ok x ->
  eval g (fst (run (Keep rs main) v s)) = Ok x.
Proof.
  intros Hq Hwf Hok Hm. cbn [run] in *.
  destruct (collect rs s) as [vals|] eqn:Ec; [|discriminate].
  pose proof (run_wf main v s Hwf) as W1.
  destruct (run main v s) as [s1 [u1|e1]] eqn:Em; [|discriminate]. cbn [fst] in *.
  apply (quiet_keep_P rs vals s Hq Ec s1 (keep_P_of s1 W1 Hm)).
Qed.
End KeepProp.

(** * (E) a value child guarded by a sibling mode child *)
(** get_or_add of an element whose parent exists *)
Definition ensure (p : path) (s : st) : st := if present p s then s else add_elem p [] s.

Lemma do_step_ensure p v s : present (parent p) s = true -> do_step (SEnsure p []) v s = (ensure p s, Ok v).
Proof. intros H. cbn [do_step]. unfold ensure. destruct (present p s); auto. rewrite H. auto. Qed.

Lemma ensure_present p s : p <> [] -> present p (ensure p s) = true.
Proof.
  intros Hp. unfold ensure. destruct (present p s) eqn:E; auto.
  rewrite present_add_elem by auto. rewrite path_eqb_refl. auto.
Qed.
Lemma ensure_keeps p s q : WF s -> p <> [] -> present q s = true -> present q (ensure p s) = true.
Proof.
  intros Hwf Hp Hq. unfold ensure. destruct (present p s) eqn:E; auto. apply present_add_elem_keep; auto.
Qed.
Lemma ensure_wf p s : WF s -> p <> [] -> present (parent p) s = true -> WF (ensure p s).
Proof. intros Hwf Hp Hpar. unfold ensure. destruct (present p s); auto. apply WF_add_elem; auto. Qed.
Lemma ensure_lookup p s k : is_prefix p (fst k) = false -> lookup k (ensure p s) = lookup k s.
Proof. intros H. unfold ensure. destruct (present p s); auto. apply lookup_add_elem_other; auto. Qed.

Lemma do_step_set_present p a c k v s : present p s = true ->
  do_step (SSetAttr p a c k) v s =
  (fst (attr_set p a c k (av_val v) s), match snd (attr_set p a c k (av_val v) s) with Ok _ => Ok v | Err e => Err e end).
Proof. intros H. cbn [do_step]. rewrite H. destruct (attr_set p a c k (av_val v) s) as [s' [u|e]]; auto. Qed.
Lemma do_step_with_const w p a c k v s : present p s = true ->
  do_step (SWith (fun _ => Ok (plain w)) (SSetAttr p a c k)) v s =
  (fst (attr_set p a c k w s), match snd (attr_set p a c k w s) with Ok _ => Ok v | Err e => Err e end).
Proof.
  intros H. cbn [do_step]. rewrite H. cbn [av_val plain]. destruct (attr_set p a c k w s) as [s' [u|e]]; auto.
Qed.

Lemma forallb_present_mono ch s s' : (forall q, present q s = true -> present q s' = true) ->
  forallb (fun l => present (lv_path l) s) ch = true -> forallb (fun l => present (lv_path l) s') ch = true.
Proof.
  intros H. induction ch as [|l r IH]; cbn [forallb]; auto. intros E.
  apply andb_true_iff in E as [A B]. rewrite (H _ A), IH; auto.
Qed.

Lemma chain_exec_top p i a s : parent p = [] ->
  exists s1, chain_exec [{| lv_path := p; lv_mode := LEnsure i; lv_absent := a |}] s = (s1, true).
Proof.
  intros Hp. cbn [chain_exec lv_mode lv_path]. destruct (present p s); eauto.
  rewrite Hp. cbn [present]. eauto.
Qed.

Section ModedProp.
Variables (ch : list level) (box m x : path) (zero : cond) (off : res pyval) (md : attr_decl) (on : pyval) (d : attr_decl).
Let cd := ad_codec d.
Let kd := ad_kind d.
Let cm := ad_codec md.
Let km := ad_kind md.
Hypothesis box_nonroot : box <> [].
Hypothesis m_child : parent m = box.
Hypothesis x_child : parent x = box.
Hypothesis x_not_above_m : is_prefix x m = false.
Hypothesis chain_above : forallb (fun l => negb (is_prefix box (lv_path l))) ch = true.

Lemma moded_m_nonroot : m <> [].
Proof. intros E. rewrite E in m_child. cbn in m_child. congruence. Qed.
Lemma moded_x_nonroot : x <> [].
Proof. intros E. rewrite E in x_child. cbn in x_child. congruence. Qed.
Lemma moded_keys_differ a b : key_eqb (m, Some a) (x, Some b) = false.
Proof.
  unfold key_eqb. cbn [fst snd]. destruct (path_eqb m x) eqn:E; auto.
  apply path_eqb_eq in E. rewrite E, is_prefix_refl in x_not_above_m. discriminate.
Qed.

(** the state after an assignment that is not the [zero] one *)
Definition moded_after (w : pyval) (s1 : st) : st :=
  let s3 := ensure m (ensure box s1) in
  let s4 := fst (attr_set m (ad_attr md) cm km on s3) in
  fst (attr_set x (ad_attr d) cd kd w (ensure x s4)).

Lemma moded_run v s s1 :
  chain_exec ch s = (s1, true) -> present (parent box) s1 = true -> WF s1 ->
  cond_eval zero v s1 = false -> accepts cd kd (av_val v) = true -> accepts cm km on = true ->
  run (moded_prog ch box m x zero md on d) v s = (moded_after (av_val v) s1, Ok tt).
Proof.
  intros Hch Hpar Hwf1 Hz Hacc Hon. unfold moded_prog. cbn [run]. fold cd kd. rewrite check_accepts, Hacc.
  rewrite chain_prog_run, Hch. cbn [fst snd run]. rewrite Hz. cbn [run].
  rewrite (do_step_ensure box v s1 Hpar).
  set (s2 := ensure box s1).
  assert (Hb2 : present box s2 = true) by (apply ensure_present; auto).
  assert (Hwf2 : WF s2) by (apply ensure_wf; auto).
  rewrite (do_step_ensure m v s2) by (rewrite m_child; auto).
  set (s3 := ensure m s2).
  assert (Hm3 : present m s3 = true) by (apply ensure_present, moded_m_nonroot).
  assert (Hwf3 : WF s3) by (apply ensure_wf; [auto|apply moded_m_nonroot|rewrite m_child; auto]).
  assert (Hb3 : present box s3 = true) by (apply ensure_keeps; auto; apply moded_m_nonroot).
  rewrite (do_step_with_const on m (ad_attr md) (ad_codec md) (ad_kind md) v s3 Hm3). fold cm km.
  destruct (attr_set_get m (ad_attr md) cm km on s3 Hon) as [A _].
  unfold moded_after. fold s2. fold s3.
  destruct (attr_set m (ad_attr md) cm km on s3) as [s4 r4] eqn:E4. cbn [fst snd] in *. subst r4.
  assert (Hb4 : present box s4 = true) by (rewrite (attr_set_present _ _ _ _ _ _ _ _ box E4); auto).
  rewrite (do_step_ensure x v s4) by (rewrite x_child; auto).
  assert (Hx5 : present x (ensure x s4) = true) by (apply ensure_present, moded_x_nonroot).
  rewrite (do_step_set_present x (ad_attr d) cd kd v (ensure x s4) Hx5).
  destruct (attr_set_get x (ad_attr d) cd kd (av_val v) (ensure x s4) Hacc) as [B _].
  destruct (attr_set x (ad_attr d) cd kd (av_val v) (ensure x s4)) as [s6 r6] eqn:E6. cbn [fst snd] in *. subst r6. auto.
Qed.

(** C09_get_set for (E): from EVERY well-formed state -- whatever mode, value or children another producer left
    there -- an accepted value that is not the [zero] one reads back as stored, and the mode attribute reads [on] *)
Theorem moded_prop_get_set v s s1 on2 :
  WF s -> chain_exec ch s = (s1, true) -> present (parent box) s1 = true ->
  cond_eval zero v s1 = false -> accepts cd kd (av_val v) = true ->
  accepts cm km on = true -> stored cm km on = Ok on2 -> py_eqb on2 on = true ->
  snd (run (moded_prog ch box m x zero md on d) v s) = Ok tt
  /\ eval (moded_gexp ch box m x off md on d) (fst (run (moded_prog ch box m x zero md on d) v s)) = stored cd kd (av_val v)
  /\ attr_get m (ad_attr md) cm km (fst (run (moded_prog ch box m x zero md on d) v s)) = Ok on2
  /\ WF (fst (run (moded_prog ch box m x zero md on d) v s)).
Proof.
  intros Hwf Hch Hpar Hz Hacc Hon Hst Heq.
  destruct (chain_exec_ok _ _ _ Hwf Hch) as [Hwf1 [Hall _]].
  rewrite (moded_run v s s1 Hch Hpar Hwf1 Hz Hacc Hon). cbn [fst snd]. split; auto.
  unfold moded_after.
  set (s2 := ensure box s1).
  assert (Hb2 : present box s2 = true) by (apply ensure_present; auto).
  assert (Hwf2 : WF s2) by (apply ensure_wf; auto).
  set (s3 := ensure m s2).
  assert (Hm3 : present m s3 = true) by (apply ensure_present, moded_m_nonroot).
  assert (Hwf3 : WF s3) by (apply ensure_wf; [auto|apply moded_m_nonroot|rewrite m_child; auto]).
  destruct (attr_set_get m (ad_attr md) cm km on s3 Hon) as [_ Gm].
  destruct (attr_set m (ad_attr md) cm km on s3) as [s4 r4] eqn:E4. cbn [fst] in *.
  assert (Hwf4 : WF s4) by (eapply attr_set_wf; eauto).
  assert (P4 : forall q, present q s4 = present q s3) by (intros q; apply (attr_set_present _ _ _ _ _ _ _ _ q E4)).
  assert (Hb4 : present box s4 = true).
  { rewrite P4. apply ensure_keeps; auto. apply moded_m_nonroot. }
  set (s5 := ensure x s4).
  assert (Hx5 : present x s5 = true) by (apply ensure_present, moded_x_nonroot).
  assert (Hwf5 : WF s5) by (apply ensure_wf; [auto|apply moded_x_nonroot|rewrite x_child; auto]).
  destruct (attr_set_get x (ad_attr d) cd kd (av_val v) s5 Hacc) as [_ Gx].
  destruct (attr_set x (ad_attr d) cd kd (av_val v) s5) as [s6 r6] eqn:E6. cbn [fst] in *.
  assert (P6 : forall q, present q s6 = present q s5) by (intros q; apply (attr_set_present _ _ _ _ _ _ _ _ q E6)).
  assert (K : forall q, present q s1 = true -> present q s6 = true).
  { intros q Hq. rewrite P6. apply ensure_keeps; [auto|apply moded_x_nonroot|]. rewrite P4.
    apply ensure_keeps; [auto|apply moded_m_nonroot|]. apply ensure_keeps; auto. }
  (* the mode attribute is not touched by what follows its assignment *)
  assert (Gm6 : attr_get m (ad_attr md) cm km s6 = Ok on2).
  { rewrite <- Hst, <- Gm. unfold attr_get.
    rewrite (attr_set_frame _ _ _ _ _ _ _ _ (m, Some (ad_attr md)) E6) by apply moded_keys_differ.
    unfold s5. rewrite ensure_lookup by (cbn [fst]; auto). auto. }
  split; [|split; [auto|eapply attr_set_wf; eauto]].
  unfold moded_gexp. rewrite chain_get_present by (apply (forallb_present_mono ch s1); auto).
  cbn [eval].
  assert (Hb6 : present box s6 = true).
  { rewrite P6. apply ensure_keeps; [auto|apply moded_x_nonroot|auto]. }
  assert (Hm6 : present m s6 = true).
  { rewrite P6. apply ensure_keeps; [auto|apply moded_x_nonroot|]. rewrite P4. auto. }
  rewrite Hb6, P6, Hx5, Hm6. fold cm km. rewrite Gm6. unfold mode_gate. rewrite Heq. fold cd kd. auto.
Qed.

(** C09_none for (E): the [zero] value removes the box and the property reads [off] *)
Theorem moded_prop_zero v s s1 :
  WF s -> chain_exec ch s = (s1, true) -> present (parent box) s1 = true ->
  cond_eval zero v s1 = true -> accepts cd kd (av_val v) = true ->
  run (moded_prog ch box m x zero md on d) v s = (del_sub box s1, Ok tt)
  /\ eval (moded_gexp ch box m x off md on d) (del_sub box s1) = off.
Proof.
  intros Hwf Hch Hpar Hz Hacc.
  destruct (chain_exec_ok _ _ _ Hwf Hch) as [Hwf1 [Hall _]].
  split.
  - unfold moded_prog. cbn [run]. fold cd kd. rewrite check_accepts, Hacc.
    rewrite chain_prog_run, Hch. cbn [fst snd run]. rewrite Hz. cbn [run do_step].
    rewrite Hpar, (proj2 (nonroot_spec box) box_nonroot). auto.
  - unfold moded_gexp. rewrite chain_get_present by (apply forallb_present_del_sub; auto).
    cbn [eval]. rewrite present_del_sub. destruct box as [|b0 br]; [congruence|]. rewrite is_prefix_refl. auto.
Qed.

(** C09_reject for (E): the value is validated before anything is touched *)
Theorem moded_prop_reject v s :
  accepts cd kd (av_val v) = false ->
  exists e, enc cd (av_val v) = Err e /\ run (moded_prog ch box m x zero md on d) v s = (s, Err e).
Proof.
  intros Hacc. destruct (attr_set_reject [] [] cd kd (av_val v) s Hacc) as [e [He _]]. exists e. split; auto.
  unfold moded_prog. cbn [run]. fold cd kd. rewrite check_accepts, Hacc, He. auto.
Qed.

(** what the reader makes of a mode another producer wrote: while the mode attribute reads anything but [on],
    the property reads [off] whatever the value child holds *)
Theorem moded_foreign_mode_reads_off s mode o :
  forallb (fun l => present (lv_path l) s) ch = true ->
  attr_get m (ad_attr md) cm km s = Ok mode -> py_eqb mode on = false -> off = Ok o -> o <> PNone ->
  eval (moded_gexp ch box m x off md on d) s = off.
Proof.
  intros Hall Hm Hne Hoff Ho. unfold moded_gexp. rewrite chain_get_present by auto. cbn [eval].
  destruct (present box s); auto. destruct (present x s); auto. destruct (present m s); auto.
  fold cm km. rewrite Hm. unfold mode_gate. rewrite Hne, Hoff. destruct o; congruence.
Qed.
End ModedProp.

(** * histories *)
(** A family of properties over one element: abstractly, getters and setters with the three
    laws (read-after-write, refusal leaves the state, independence).  Then after ANY sequence
    of assignments every property reads its last accepted value. *)
Section History.
Variable n : nat.
Variable get : nat -> st -> res pyval.
Variable set : nat -> aval -> st -> st * res unit.
Variable inv : st -> Prop.
Variable quant : nat -> aval -> res pyval.
Hypothesis set_inv : forall i v s, inv s -> inv (fst (set i v s)).
Hypothesis get_set : forall i v s, inv s -> snd (set i v s) = Ok tt -> get i (fst (set i v s)) = quant i v.
Hypothesis reject : forall i v s e, inv s -> snd (set i v s) = Err e -> fst (set i v s) = s.
Hypothesis frame_ : forall i j v s, inv s -> i <> j -> get j (fst (set i v s)) = get j s.

Fixpoint last_accepted (j : nat) (ops : list (nat * aval)) (s : st) (cur : option aval) : option aval :=
  match ops with
  | [] => cur
  | (i, v) :: r =>
      let s' := fst (set i v s) in
      last_accepted j r s' (if Nat.eqb i j then (match snd (set i v s) with Ok _ => Some v | Err _ => cur end) else cur)
  end.
Definition hist (ops : list (nat * aval)) (s : st) : st := fold_left (fun s op => fst (set (fst op) (snd op) s)) ops s.

Theorem history_reads j : forall ops s cur, inv s ->
  (match cur with Some v => get j s = quant j v | None => True end) ->
  match last_accepted j ops s cur with
  | Some v => get j (hist ops s) = quant j v
  | None => get j (hist ops s) = get j s /\ last_accepted j ops s cur = None
  end.
Proof.
  induction ops as [|[i v] r IH]; intros s cur Hinv Hcur; cbn [last_accepted hist fold_left fst snd].
  - destruct cur; auto.
  - fold (hist r (fst (set i v s))).
    set (cur' := if Nat.eqb i j then match snd (set i v s) with Ok _ => Some v | Err _ => cur end else cur).
    assert (Hinv' : inv (fst (set i v s))) by auto.
    assert (Hcur' : match cur' with Some v0 => get j (fst (set i v s)) = quant j v0 | None => True end).
    { unfold cur'. destruct (Nat.eqb i j) eqn:E.
      - apply Nat.eqb_eq in E; subst i. destruct (snd (set j v s)) as [u|e] eqn:Es.
        + destruct u. apply get_set; auto.
        + rewrite (reject _ _ _ _ Hinv Es). auto.
      - apply Nat.eqb_neq in E. destruct cur; auto. rewrite frame_; auto. }
    specialize (IH (fst (set i v s)) cur' Hinv' Hcur').
    destruct (last_accepted j r (fst (set i v s)) cur') eqn:El; auto.
    destruct IH as [A B]. split; auto. rewrite A.
    unfold cur' in El. destruct (Nat.eqb i j) eqn:E.
    + apply Nat.eqb_eq in E; subst i. destruct (snd (set j v s)) as [u|e] eqn:Es.
      * exfalso. clear - El. revert El. generalize (fst (set j v s)). generalize v.
        induction r as [|[i' v'] r IHr]; intros v0 s0; cbn [last_accepted]; [discriminate|].
        destruct (Nat.eqb i' j); [destruct (snd (set i' v' s0))|]; apply IHr.
      * rewrite (reject _ _ _ _ Hinv Es). auto.
    + apply Nat.eqb_neq in E. apply frame_; auto.
Qed.
End History.

(** * histories over a family of attribute-backed properties *)
(** members: attribute builders whose elements all exist already (so that a refusal leaves the
    element untouched), pairwise independent footprints *)
Record aprop := { ap_pre : aval -> res aval; ap_post : pyval -> res pyval; ap_ch : list level; ap_p : path; ap_d : attr_decl }.
Definition ap_set (a : aprop) : prog := attr_prog (ap_pre a) (ap_ch a) (ap_p a) (ap_d a).
Definition ap_get (a : aprop) : gexp := attr_gexp (ap_post a) (ap_ch a) (ap_p a) (ap_d a).
Definition ap_ready (a : aprop) (s : st) : bool :=
  forallb (fun l => present (lv_path l) s) (ap_ch a) && present (ap_p a) s.
(** what the property reads after an accepted assignment of v *)
Definition ap_quant (a : aprop) (v : aval) : res pyval :=
  match ap_pre a v with
  | Ok w => bindr (stored (ad_codec (ap_d a)) (ad_kind (ap_d a)) (av_val w)) (ap_post a)
  | Err e => Err e
  end.

Lemma ap_set_cases a v s : WF s -> ap_ready a s = true ->
  (exists e, run (ap_set a) v s = (s, Err e))
  \/ (snd (run (ap_set a) v s) = Ok tt
      /\ eval (ap_get a) (fst (run (ap_set a) v s)) = ap_quant a v
      /\ WF (fst (run (ap_set a) v s))
      /\ forall q, present q (fst (run (ap_set a) v s)) = present q s).
Proof.
  intros Hwf Hr. unfold ap_ready in Hr. apply andb_true_iff in Hr as [Hall Hp].
  unfold ap_set, ap_get, ap_quant. destruct (ap_pre a v) as [w|e] eqn:Epre.
  - destruct (accepts (ad_codec (ap_d a)) (ad_kind (ap_d a)) (av_val w)) eqn:Eacc.
    + right. pose proof (chain_exec_present _ _ Hall) as Hch.
      destruct (attr_prop_get_set (ap_pre a) (ap_post a) (ap_ch a) (ap_p a) (ap_d a) v w s s Hwf Epre Hch Hp Eacc) as [A [B C]].
      repeat split; auto. intros q.
      unfold attr_prog. cbn [run do_step]. rewrite Epre, chain_prog_run, Hch. cbn [fst snd run do_step]. rewrite Hp.
      destruct (attr_set (ap_p a) (ad_attr (ap_d a)) (ad_codec (ap_d a)) (ad_kind (ap_d a)) (av_val w) s) as [s2 [u|e]] eqn:E; cbn [fst];
        eapply attr_set_present; eauto.
    + left. destruct (attr_prop_reject (ap_pre a) (ap_ch a) (ap_p a) (ap_d a) v w s Hwf Epre Hall Hp Eacc) as [e [_ He]]. eauto.
  - left. exists e. apply attr_prop_reject_pre; auto.
Qed.

Section AttrFamily.
Variable fam : list aprop.
Variable dflt : aprop.
Definition fam_inv (s : st) : Prop := WF s /\ forall a, In a fam -> ap_ready a s = true.
Hypothesis indep_fam : forall i j, i <> j -> (i < length fam)%nat -> (j < length fam)%nat ->
  indep (ap_set (nth i fam dflt)) (simplify (ap_get (nth j fam dflt))) = true.

Definition fam_set (i : nat) (v : aval) (s : st) : st * res unit :=
  match nth_error fam i with Some a => run (ap_set a) v s | None => (s, Err OtherErr) end.
Definition fam_get (i : nat) (s : st) : res pyval :=
  match nth_error fam i with Some a => eval (ap_get a) s | None => Err OtherErr end.
Definition fam_quant (i : nat) (v : aval) : res pyval :=
  match nth_error fam i with Some a => ap_quant a v | None => Err OtherErr end.

Lemma ready_agree a s s' : (forall q, present q s' = present q s) -> ap_ready a s' = ap_ready a s.
Proof.
  intros H. unfold ap_ready. rewrite H. f_equal. induction (ap_ch a) as [|l r IH]; cbn [forallb]; auto. rewrite H, IH. auto.
Qed.

Lemma fam_set_inv i v s : fam_inv s -> fam_inv (fst (fam_set i v s)).
Proof.
  intros [Hwf Hr]. unfold fam_set. destruct (nth_error fam i) as [a|] eqn:E; [|split; auto].
  apply nth_error_In in E. destruct (ap_set_cases a v s Hwf (Hr a E)) as [[e He]|[A [B [C D]]]].
  - rewrite He. split; auto.
  - split; auto. intros b Hb. rewrite (ready_agree b _ _ D). auto.
Qed.

(** C09_history: after ANY sequence of assignments to the members of the family, each member
    reads the value of its last accepted assignment (converted as the code converts it), or what it
    read initially if none was accepted *)
Theorem family_history j ops s : fam_inv s ->
  match last_accepted fam_set j ops s None with
  | Some v => fam_get j (hist fam_set ops s) = fam_quant j v
  | None => fam_get j (hist fam_set ops s) = fam_get j s
  end.
Proof.
  intros Hinv.
  pose proof (history_reads fam_get fam_set fam_inv fam_quant fam_set_inv) as H.
  assert (G : forall i v s0, fam_inv s0 -> snd (fam_set i v s0) = Ok tt -> fam_get i (fst (fam_set i v s0)) = fam_quant i v).
  { intros i v s0 [Hwf Hr] Hok. unfold fam_set, fam_get, fam_quant in *. destruct (nth_error fam i) as [a|] eqn:E; [|discriminate].
    destruct (ap_set_cases a v s0 Hwf (Hr a (nth_error_In _ _ E))) as [[e He]|[A [B _]]]; auto. rewrite He in Hok. discriminate. }
  assert (R : forall i v s0 e, fam_inv s0 -> snd (fam_set i v s0) = Err e -> fst (fam_set i v s0) = s0).
  { intros i v s0 e [Hwf Hr] Herr. unfold fam_set in *. destruct (nth_error fam i) as [a|] eqn:E; auto.
    destruct (ap_set_cases a v s0 Hwf (Hr a (nth_error_In _ _ E))) as [[e' He]|[A _]]; [rewrite He; auto|]. rewrite A in Herr. discriminate. }
  assert (F : forall i k v s0, fam_inv s0 -> i <> k -> fam_get k (fst (fam_set i v s0)) = fam_get k s0).
  { intros i k v s0 [Hwf Hr] Hne. unfold fam_set, fam_get. destruct (nth_error fam i) as [a|] eqn:Ea; auto.
    destruct (nth_error fam k) as [b|] eqn:Eb; auto.
    assert (Li : (i < length fam)%nat) by (apply nth_error_Some; congruence).
    assert (Lk : (k < length fam)%nat) by (apply nth_error_Some; congruence).
    pose proof (indep_fam i k Hne Li Lk) as Hi.
    rewrite (nth_error_nth _ _ dflt Ea), (nth_error_nth _ _ dflt Eb) in Hi.
    rewrite <- (simplify_ok _ (run_wf (ap_set a) v s0 Hwf)), <- (simplify_ok s0 Hwf). apply frame; auto. }
  specialize (H G R F j ops s None Hinv I).
  destruct (last_accepted fam_set j ops s None); auto. destruct H; auto.
Qed.
End AttrFamily.

(** the boolean well-formedness test implies the invariant *)
Lemma lookup_in k s v : lookup k s = Some v -> In (k, v) s.
Proof.
  induction s as [|[k0 v0] s IH]; simpl; [discriminate|].
  destruct (key_eqb k k0) eqn:E; intros H; auto.
  injection H as <-. apply key_eqb_eq in E; subst. auto.
Qed.
Lemma wf_WF s : wf s = true -> WF s.
Proof.
  intros H p o v Hl. unfold wf in H. rewrite forallb_forall in H.
  specialize (H _ (lookup_in _ _ _ Hl)). simpl in H. destruct o; auto.
  destruct p; [discriminate|]. split; auto. discriminate.
Qed.

(** * error bounds of the binary64 model (lib/PyFloat.v): rounding, product, quotient *)
From V.proofs Require Import PyFloat_proofs.
From Coq Require Import QArith Qabs Lqa Qpower.
Local Open Scope Z_scope.

Definition ulp_exp (m e : Z) : Z := Z.max (Z.log2 (Z.abs m) + e - 52) (-1074).

Lemma c09_round_dy_not_nan m e : round_dy m e <> NaN.
Proof.
  unfold round_dy. repeat match goal with |- context [if ?c then _ else _] => destruct c end;
    try discriminate; unfold inf_of_sign; repeat match goal with |- context [if ?c then _ else _] => destruct c end; discriminate.
Qed.

(** the three ways round_dy produces a finite result *)
Lemma round_dy_err m e m' e' : round_dy m e = Fin m' e' ->
  (m' = m /\ e' = e)
  \/ (m' = 0 /\ e' = 0 /\ (m = 0 \/ Z.log2 (Z.abs m) + e < -1075))
  \/ (e' = ulp_exp m e /\ e < e' /\ Z.abs (m' * 2 ^ (e' - e) - m) <= 2 ^ (e' - e - 1)).
Proof.
  unfold round_dy, ulp_exp. intros H.
  destruct (Z.eqb_spec m 0) as [->|Hm].
  { injection H as <- <-. right. left. auto. }
  set (a := Z.abs m) in *. set (lm := Z.log2 a) in *.
  destruct (Z.ltb_spec (lm + e) (-1075)) as [Hu|Hu].
  { injection H as <- <-. right. left. auto. }
  set (E := Z.max (lm + e - 52) (-1074)) in *.
  destruct (Z.leb_spec E e) as [Hfit|Hnf].
  { destruct (1024 <=? lm + e); [unfold inf_of_sign in H; destruct (m <? 0); discriminate|].
    injection H as <- <-. left. auto. }
  set (sh := E - e) in *. assert (Hsh : 0 < sh) by (unfold sh; lia).
  rewrite Z.shiftr_div_pow2 in H by lia. rewrite !Z.shiftl_mul_pow2 in H by lia. rewrite Z.mul_1_l in H.
  assert (Hd : 2 ^ sh = 2 * 2 ^ (sh - 1)).
  { replace sh with (Z.succ (sh - 1)) at 1 by lia. rewrite Z.pow_succ_r by lia. reflexivity. }
  assert (Hh : 0 < 2 ^ (sh - 1)) by (apply Z.pow_pos_nonneg; lia).
  remember (2 ^ (sh - 1)) as half eqn:Hhalf. remember (2 ^ sh) as d eqn:Hdd.
  assert (Hdm := Z.div_mod a d ltac:(lia)). assert (Hmb := Z.mod_pos_bound a d ltac:(lia)).
  remember (a / d) as q eqn:Hq. remember (a mod d) as rm eqn:Hrm.
  assert (Hrem : a - q * d = rm) by lia. rewrite Hrem in H.
  set (q' := if (half <? rm) || (half =? rm) && Z.odd q then q + 1 else q) in *.
  assert (Hq' : Z.abs (q' * d - a) <= half).
  { unfold q'. destruct (Z.ltb_spec half rm); cbn [orb]; [lia|].
    destruct (Z.eqb_spec half rm); cbn [andb]; [destruct (Z.odd q)|]; lia. }
  destruct (1024 <=? Z.log2 q' + E); [unfold inf_of_sign in H; destruct (m <? 0); discriminate|].
  injection H as <- <-. right. right. split; auto. split; [lia|].
  fold sh. rewrite <- Hdd, <- Hhalf. replace (sh - 1) with (sh - 1) by lia.
  destruct (Z.ltb_spec m 0) as [Hneg|Hpos].
  - replace (- q' * d - m) with (- (q' * d - a)) by (unfold a; lia). rewrite Z.abs_opp. rewrite Hhalf in Hq'. 
    replace (E - e - 1) with (sh - 1) by (unfold sh; lia). lia.
  - replace m with a by (unfold a; lia). replace (E - e - 1) with (sh - 1) by (unfold sh; lia). lia.
Qed.

Local Open Scope Q_scope.

Definition two : Q := 2 # 1.
Definition p2 (n : Z) : Q := Qpower two n.
Definition Qv (x : pyfloat) : Q := match x with Fin m e => inject_Z m * p2 e | _ => 0 end.

Lemma two_nz : ~ two == 0. Proof. unfold two. intros H. discriminate H. Qed.
Lemma p2_plus a b : p2 (a + b) == p2 a * p2 b.
Proof. unfold p2. apply Qpower_plus. apply two_nz. Qed.
Lemma p2_0 : p2 0 == 1. Proof. reflexivity. Qed.
Lemma p2_pos n : 0 < p2 n.
Proof. unfold p2. apply Qpower_0_lt. unfold two. reflexivity. Qed.
Lemma p2_Z n : (0 <= n)%Z -> inject_Z (2 ^ n) == p2 n.
Proof. intros H. unfold p2, two. rewrite Zpower_Qpower by auto. reflexivity. Qed.
Lemma p2_succ n : p2 (n + 1) == 2 * p2 n.
Proof. rewrite p2_plus. change (p2 1) with two. unfold two. lra. Qed.
Lemma p2_mono a b : (a <= b)%Z -> p2 a <= p2 b.
Proof. intros H. unfold p2. apply Qpower_le_compat_l; auto. unfold two. discriminate. Qed.

Lemma Qabs_inject z : Qabs (inject_Z z) == inject_Z (Z.abs z).
Proof. unfold Qabs, inject_Z. simpl. reflexivity. Qed.

Lemma round_dy_errQ m e m' e' : round_dy m e = Fin m' e' ->
  Qabs (Qv (Fin m' e') - inject_Z m * p2 e) <= p2 (ulp_exp m e - 1).
Proof.
  intros H. destruct (round_dy_err _ _ _ _ H) as [[-> ->]|[[-> [-> Hz]]|[He [Hlt Hb]]]]; cbn [Qv].
  - setoid_replace (inject_Z m * p2 e - inject_Z m * p2 e) with 0 by ring. simpl. apply Qlt_le_weak, p2_pos.
  - setoid_replace (inject_Z 0 * p2 0 - inject_Z m * p2 e) with (- (inject_Z m * p2 e)) by (change (inject_Z 0) with 0; ring).
    rewrite Qabs_opp, Qabs_Qmult, Qabs_inject. rewrite (Qabs_pos (p2 e)) by (apply Qlt_le_weak, p2_pos).
    destruct Hz as [->|Hu].
    + simpl. setoid_replace (inject_Z 0 * p2 e) with 0 by (change (inject_Z 0) with 0; ring). apply Qlt_le_weak, p2_pos.
    + destruct (Z.eq_dec m 0) as [->|Hm].
      { simpl. setoid_replace (inject_Z 0 * p2 e) with 0 by (change (inject_Z 0) with 0; ring). apply Qlt_le_weak, p2_pos. }
      assert (Ha : (Z.abs m < 2 ^ (Z.log2 (Z.abs m) + 1))%Z).
      { pose proof (Z.log2_spec (Z.abs m) ltac:(lia)). replace (Z.log2 (Z.abs m) + 1)%Z with (Z.succ (Z.log2 (Z.abs m))) by lia. lia. }
      assert (Hl0 : (0 <= Z.log2 (Z.abs m))%Z) by apply Z.log2_nonneg.
      assert (Hq : inject_Z (Z.abs m) <= p2 (Z.log2 (Z.abs m) + 1)).
      { rewrite <- p2_Z by lia. rewrite <- Zle_Qle. lia. }
      assert (Hmul : inject_Z (Z.abs m) * p2 e <= p2 (Z.log2 (Z.abs m) + 1) * p2 e).
      { pose proof (p2_pos e). nra. }
      rewrite <- p2_plus in Hmul. eapply Qle_trans; [apply Hmul|]. apply p2_mono. unfold ulp_exp. lia.
  - rewrite He in *. set (E := ulp_exp m e) in *.
    assert (Hs : (0 <= E - e)%Z) by lia.
    setoid_replace (inject_Z m' * p2 E - inject_Z m * p2 e) with (p2 e * inject_Z (m' * 2 ^ (E - e) - m)).
    + rewrite Qabs_Qmult, Qabs_inject, (Qabs_pos (p2 e)) by (apply Qlt_le_weak, p2_pos).
      assert (Hb' : inject_Z (Z.abs (m' * 2 ^ (E - e) - m)) <= p2 (E - e - 1)).
      { rewrite <- p2_Z by lia. rewrite <- Zle_Qle. auto. }
      replace (E - 1)%Z with (e + (E - e - 1))%Z by lia. rewrite p2_plus.
      pose proof (p2_pos e). nra.
    + assert (HE : p2 E == p2 e * p2 (E - e)) by (rewrite <- p2_plus; replace (e + (E - e))%Z with E by lia; reflexivity).
      rewrite HE. remember (E - e)%Z as sh. unfold Z.sub at 1.
      rewrite inject_Z_plus, inject_Z_mult, inject_Z_opp, p2_Z by lia. ring.
Qed.

Lemma bound_nonneg x : 0 <= p2 (-53) * Qabs x + p2 (-1075).
Proof. pose proof (p2_pos (-53)). pose proof (p2_pos (-1075)). pose proof (Qabs_nonneg x). nra. Qed.

(** relative form: half an ulp is at most 2^-53 of the value, or 2^-1075 in the subnormal range *)
Lemma round_dy_rel m e m' e' : round_dy m e = Fin m' e' ->
  Qabs (Qv (Fin m' e') - inject_Z m * p2 e) <= p2 (-53) * Qabs (inject_Z m * p2 e) + p2 (-1075).
Proof.
  intros H. destruct (Z.eq_dec m 0) as [->|Hm].
  - unfold round_dy in H. simpl in H. injection H as <- <-. cbn [Qv].
    setoid_replace (inject_Z 0 * p2 0 - inject_Z 0 * p2 e) with 0 by (change (inject_Z 0) with 0; ring).
    apply (Qle_trans _ 0); [apply Qle_refl|].
    pose proof (p2_pos (-1075)). pose proof (p2_pos (-53)).
    match goal with |- _ <= _ * ?X + _ => assert (0 <= X) by (try apply Qabs_nonneg; apply Qle_refl) end. nra.
  - eapply Qle_trans; [apply round_dy_errQ; eauto|].
    rewrite Qabs_Qmult, Qabs_inject, (Qabs_pos (p2 e)) by (apply Qlt_le_weak, p2_pos).
    set (lm := Z.log2 (Z.abs m)).
    assert (Hlm : (2 ^ lm <= Z.abs m)%Z) by (apply Z.log2_spec; lia).
    assert (Hl0 : (0 <= lm)%Z) by apply Z.log2_nonneg.
    assert (Hq : p2 lm <= inject_Z (Z.abs m)) by (rewrite <- p2_Z by lia; rewrite <- Zle_Qle; auto).
    unfold ulp_exp. fold lm. destruct (Z.max_spec (lm + e - 52) (-1074)) as [[_ ->]|[_ ->]].
    + replace (-1074 - 1)%Z with (-1075)%Z by lia.
      pose proof (p2_pos (-53)). pose proof (p2_pos e). pose proof (p2_pos (-1075)).
      assert (0 <= inject_Z (Z.abs m)) by (change 0 with (inject_Z 0); rewrite <- Zle_Qle; lia).
      assert (0 <= inject_Z (Z.abs m) * p2 e) by (apply Qmult_le_0_compat; lra).
      assert (0 <= p2 (-53) * (inject_Z (Z.abs m) * p2 e)) by (apply Qmult_le_0_compat; lra). lra.
    + replace (lm + e - 52 - 1)%Z with (-53 + (lm + e))%Z by lia. rewrite !p2_plus.
      pose proof (p2_pos (-53)). pose proof (p2_pos e). pose proof (p2_pos (-1075)). pose proof (p2_pos lm).
      assert (p2 lm * p2 e <= inject_Z (Z.abs m) * p2 e) by (apply Qmult_le_compat_r; lra).
      assert (p2 (-53) * (p2 lm * p2 e) <= p2 (-53) * (inject_Z (Z.abs m) * p2 e)) by (rewrite !(Qmult_comm (p2 (-53))); apply Qmult_le_compat_r; lra).
      lra.
Qed.

(** round_dy gives a finite result well below the overflow threshold *)
Lemma round_dy_finite m e : (Z.log2 (Z.abs m) + e < 1000)%Z -> exists m' e', round_dy m e = Fin m' e'.
Proof.
  intros Hs. unfold round_dy.
  destruct (Z.eqb_spec m 0); [eauto|].
  set (a := Z.abs m) in *. set (lm := Z.log2 a) in *.
  destruct (Z.ltb_spec (lm + e) (-1075)); [eauto|].
  set (E := Z.max (lm + e - 52) (-1074)).
  destruct (Z.leb_spec E e).
  { destruct (Z.leb_spec 1024 (lm + e)); [lia|eauto]. }
  set (sh := (E - e)%Z). assert (Hsh : (0 < sh)%Z) by (unfold sh; lia).
  rewrite Z.shiftr_div_pow2 by lia. rewrite !Z.shiftl_mul_pow2 by lia.
  set (q := (a / 2 ^ sh)%Z).
  match goal with |- context [if ?c then (q + 1)%Z else q] => set (q' := if c then (q + 1)%Z else q) end.
  assert (Hq : (0 <= q <= 2 ^ 53 - 1)%Z).
  { unfold q. split; [apply Z.div_pos; [unfold a; lia|apply Z.pow_pos_nonneg; lia]|].
    assert (Ha : (a < 2 ^ (lm + 1))%Z).
    { pose proof (Z.log2_spec a ltac:(unfold a; lia)). replace (lm + 1)%Z with (Z.succ lm) by lia. unfold lm. lia. }
    assert (a / 2 ^ sh < 2 ^ 53)%Z; [|lia].
    apply Z.div_lt_upper_bound; [apply Z.pow_pos_nonneg; lia|].
    rewrite <- Z.pow_add_r by lia. eapply Z.lt_le_trans; [apply Ha|]. apply Z.pow_le_mono_r; [lia|].
    unfold sh, E. pose proof (Z.log2_nonneg a). fold lm in H1. lia. }
  assert (Hq' : (0 <= q' <= 2 ^ 53)%Z) by (unfold q'; match goal with |- context [if ?c then _ else _] => destruct c end; lia).
  assert (Hl : (Z.log2 q' <= 53)%Z).
  { replace 53%Z with (Z.log2 (2 ^ 53)) by (apply Z.log2_pow2; lia). apply Z.log2_le_mono. lia. }
  destruct (Z.leb_spec 1024 (Z.log2 q' + E)); [unfold E in *; lia|eauto].
Qed.

Lemma Qv_mul m1 e1 m2 e2 : inject_Z (m1 * m2) * p2 (e1 + e2) == Qv (Fin m1 e1) * Qv (Fin m2 e2).
Proof. cbn [Qv]. rewrite inject_Z_mult, p2_plus. ring. Qed.

(** float multiplication: finite result -> relative error 2^-53 (or 2^-1075 absolute) *)
Lemma f_mul_rel m1 e1 m2 e2 m' e' : f_mul (Fin m1 e1) (Fin m2 e2) = Fin m' e' ->
  Qabs (Qv (Fin m' e') - Qv (Fin m1 e1) * Qv (Fin m2 e2)) <= p2 (-53) * Qabs (Qv (Fin m1 e1) * Qv (Fin m2 e2)) + p2 (-1075).
Proof. cbn [f_mul]. intros H. rewrite <- Qv_mul. apply round_dy_rel; auto. Qed.

(** correctly prepared quotient: fl_div_e n d k is within 2^-52 (relative) of n/d * 2^k *)
Lemma p2_consts : p2 (-55) + p2 (-53) * (1 + p2 (-55)) <= p2 (-52).
Proof. vm_compute. discriminate. Qed.

Lemma Qabs_triangle3 a b c : Qabs (a - c) <= Qabs (a - b) + Qabs (b - c).
Proof. setoid_replace (a - c) with ((a - b) + (b - c)) by ring. apply Qabs_triangle. Qed.

Lemma fl_div_rel n d k m' e' :
  (0 < d)%Z -> n <> 0%Z -> (0 <= Z.log2 d - Z.log2 (Z.abs n) + 55)%Z ->
  fl_div_e n d k = Fin m' e' ->
  Qabs (Qv (Fin m' e') - inject_Z n / inject_Z d * p2 k)
    <= p2 (-52) * Qabs (inject_Z n / inject_Z d * p2 k) + p2 (-1075).
Proof.
  intros Hd Hn Hs H. unfold fl_div_e in H.
  destruct (Z.leb_spec d 0); [lia|]. destruct (Z.eqb_spec n 0); [contradiction|].
  set (a := Z.abs n) in *. set (s := (Z.log2 d - Z.log2 a + 55)%Z) in *.
  destruct (Z.leb_spec 0 s); [|lia].
  rewrite Z.shiftl_mul_pow2 in H by lia.
  pose proof (Z_div_mod (a * 2 ^ s) d ltac:(lia)) as Hdm.
  destruct (Z.div_eucl (a * 2 ^ s) d) as [q r]. destruct Hdm as [HA Hr].
  set (mm := (2 * q + (if r =? 0 then 0 else 1))%Z) in *.
  assert (Ha : (0 < a)%Z) by (unfold a; lia).
  assert (Hp : (0 < 2 ^ s)%Z) by (apply Z.pow_pos_nonneg; lia).
  assert (Hmm : (Z.abs (mm * d - 2 * (a * 2 ^ s)) <= d)%Z).
  { unfold mm. destruct (Z.eqb_spec r 0); lia. }
  assert (Hq : (2 ^ 54 * d <= a * 2 ^ s)%Z).
  { assert (La : (2 ^ Z.log2 a <= a)%Z) by (apply Z.log2_spec; lia).
    assert (Ld : (d < 2 ^ (Z.log2 d + 1))%Z).
    { pose proof (Z.log2_spec d ltac:(lia)). replace (Z.log2 d + 1)%Z with (Z.succ (Z.log2 d)) by lia. lia. }
    assert (L0 : (0 <= Z.log2 a)%Z) by apply Z.log2_nonneg. assert (L1 : (0 <= Z.log2 d)%Z) by apply Z.log2_nonneg.
    assert (HAge : (2 ^ 54 * 2 ^ (Z.log2 d + 1) <= a * 2 ^ s)%Z).
    { rewrite <- Z.pow_add_r by lia. replace (54 + (Z.log2 d + 1))%Z with (Z.log2 a + s)%Z by (unfold s; lia).
      rewrite Z.pow_add_r by lia. apply Z.mul_le_mono_nonneg_r; lia. }
    nia. }
  set (y := inject_Z a / inject_Z d * p2 k).
  set (pre := inject_Z mm * p2 (k - s - 1)).
  assert (Hdq : 0 < inject_Z d) by (change 0 with (inject_Z 0); rewrite <- Zlt_Qlt; lia).
  assert (Hy : y == inject_Z (2 * (a * 2 ^ s)) / inject_Z d * p2 (k - s - 1)).
  { unfold y. rewrite inject_Z_mult, inject_Z_mult, p2_Z by lia.
    replace k with ((k - s - 1) + (s + 1))%Z at 1 by lia. rewrite p2_plus, p2_succ.
    change (inject_Z 2) with 2. field. lra. }
  assert (Hdiff : Qabs (pre - y) <= p2 (k - s - 1)).
  { rewrite Hy. unfold pre.
    setoid_replace (inject_Z mm * p2 (k - s - 1) - inject_Z (2 * (a * 2 ^ s)) / inject_Z d * p2 (k - s - 1))
      with (inject_Z (mm * d - 2 * (a * 2 ^ s)) / inject_Z d * p2 (k - s - 1)).
    - rewrite Qabs_Qmult, (Qabs_pos (p2 _)) by (apply Qlt_le_weak, p2_pos).
      assert (Qabs (inject_Z (mm * d - 2 * (a * 2 ^ s)) / inject_Z d) <= 1).
      { unfold Qdiv. rewrite Qabs_Qmult, Qabs_inject, (Qabs_pos (/ inject_Z d)) by (apply Qlt_le_weak, Qinv_lt_0_compat; auto).
        apply Qle_shift_div_r; auto. rewrite Qmult_1_l. rewrite <- Zle_Qle. auto. }
      pose proof (p2_pos (k - s - 1)). nra.
    - replace (mm * d - 2 * (a * 2 ^ s))%Z with (mm * d + - (2 * (a * 2 ^ s)))%Z by lia.
      rewrite inject_Z_plus, inject_Z_opp, !inject_Z_mult. field. lra. }
  assert (Hylow : p2 54 * p2 (k - s) <= y).
  { unfold y.
    assert (G1 : p2 54 * inject_Z d <= inject_Z a * p2 s).
    { rewrite <- !p2_Z by lia. rewrite <- !inject_Z_mult. rewrite <- Zle_Qle. auto. }
    assert (G2 : p2 54 * p2 (- s) <= inject_Z a / inject_Z d).
    { apply Qle_shift_div_l; auto.
      assert (Hs1 : p2 s * p2 (- s) == 1) by (rewrite <- p2_plus; replace (s + - s)%Z with 0%Z by lia; reflexivity).
      pose proof (p2_pos (- s)) as Pms.
      assert (G3 : p2 54 * inject_Z d * p2 (- s) <= inject_Z a * p2 s * p2 (- s)) by (apply Qmult_le_compat_r; lra).
      setoid_replace (inject_Z a * p2 s * p2 (- s)) with (inject_Z a * (p2 s * p2 (- s))) in G3 by ring.
      rewrite Hs1 in G3. lra. }
    replace (k - s)%Z with (- s + k)%Z by lia. rewrite p2_plus.
    pose proof (p2_pos k) as Pk.
    assert (G4 : p2 54 * p2 (- s) * p2 k <= inject_Z a / inject_Z d * p2 k) by (apply Qmult_le_compat_r; lra). lra. }
  assert (Hy0 : 0 < y) by (pose proof (p2_pos 54); pose proof (p2_pos (k - s)); nra).
  assert (Hd55 : Qabs (pre - y) <= p2 (-55) * y).
  { eapply Qle_trans; [apply Hdiff|]. replace (k - s - 1)%Z with (-55 + (54 + (k - s)))%Z by lia. rewrite !p2_plus.
    pose proof (p2_pos (-55)).
    assert (p2 (-55) * (p2 54 * p2 (k - s)) <= p2 (-55) * y) by (rewrite !(Qmult_comm (p2 (-55))); apply Qmult_le_compat_r; lra). lra. }
  assert (Hpre : Qabs pre <= (1 + p2 (-55)) * y).
  { setoid_replace pre with ((pre - y) + y) by ring. eapply Qle_trans; [apply Qabs_triangle|].
    rewrite (Qabs_pos y) by lra. lra. }
  (* the rounding step *)
  set (sg := if (n <? 0)%Z then (-1)%Z else 1%Z).
  assert (Hsg : (if (n <? 0)%Z then (- mm)%Z else mm) = (sg * mm)%Z) by (unfold sg; destruct (n <? 0)%Z; lia).
  rewrite Hsg in H. pose proof (round_dy_rel _ _ _ _ H) as Hr1.
  assert (Hn' : inject_Z n == inject_Z sg * inject_Z a).
  { rewrite <- inject_Z_mult. unfold sg, a. destruct (Z.ltb_spec n 0); f_equiv; lia. }
  assert (Hsabs : Qabs (inject_Z sg) == 1) by (unfold sg; destruct (n <? 0)%Z; reflexivity).
  assert (Htarget : inject_Z n / inject_Z d * p2 k == inject_Z sg * y).
  { unfold y. rewrite Hn'. field. lra. }
  assert (Hpre2 : inject_Z (sg * mm) * p2 (k - s - 1) == inject_Z sg * pre) by (unfold pre; rewrite inject_Z_mult; ring).
  rewrite Htarget. rewrite Hpre2 in Hr1.
  rewrite Qabs_Qmult, Hsabs, Qmult_1_l, (Qabs_pos y) by lra.
  rewrite Qabs_Qmult, Hsabs, Qmult_1_l in Hr1.
  eapply Qle_trans; [apply (Qabs_triangle3 _ (inject_Z sg * pre))|].
  assert (Hb : Qabs (inject_Z sg * pre - inject_Z sg * y) <= p2 (-55) * y).
  { setoid_replace (inject_Z sg * pre - inject_Z sg * y) with (inject_Z sg * (pre - y)) by ring.
    rewrite Qabs_Qmult, Hsabs, Qmult_1_l. auto. }
  pose proof p2_consts. pose proof (p2_pos (-53)). pose proof (p2_pos (-55)). nra.
Qed.

(** exact comparison of two finite floats is comparison of their values *)
Lemma shiftl_Q m e E : (E <= e)%Z -> inject_Z (Z.shiftl m (e - E)) * p2 E == inject_Z m * p2 e.
Proof.
  intros H. rewrite Z.shiftl_mul_pow2 by lia. rewrite inject_Z_mult, p2_Z by lia.
  replace e with (E + (e - E))%Z at 2 by lia. rewrite p2_plus. ring.
Qed.
Lemma f_cmp_Q m1 e1 m2 e2 :
  f_cmp (Fin m1 e1) (Fin m2 e2) = Some (Qv (Fin m1 e1) ?= Qv (Fin m2 e2)).
Proof.
  cbn [f_cmp Qv]. f_equal. set (E := Z.min e1 e2).
  rewrite <- (shiftl_Q m1 e1 E), <- (shiftl_Q m2 e2 E) by (unfold E; lia).
  set (A := Z.shiftl m1 (e1 - E)). set (B := Z.shiftl m2 (e2 - E)).
  pose proof (p2_pos E) as PE.
  destruct (Z.compare_spec A B) as [->|Hlt|Hgt]; symmetry.
  - apply Qeq_alt. reflexivity.
  - apply Qlt_alt. rewrite Zlt_Qlt in Hlt. apply Qmult_lt_compat_r; auto.
  - apply Qgt_alt. rewrite Zlt_Qlt in Hgt. apply Qmult_lt_compat_r; auto.
Qed.

(** f_round is within 1/2 of the value *)
Lemma Qv_num_den x : f_is_finite x = true -> Qv x == inject_Z (f_num x) / inject_Z (f_den x).
Proof.
  destruct x as [m e| | |]; try discriminate. intros _. cbn [Qv f_num f_den].
  destruct (Z.le_ge_cases 0 e).
  - replace (Z.max e 0) with e by lia. replace (Z.max (- e) 0) with 0%Z by lia.
    rewrite inject_Z_mult, p2_Z by lia. change (inject_Z (2 ^ 0)) with 1. field.
  - replace (Z.max e 0) with 0%Z by lia. replace (Z.max (- e) 0) with (- e)%Z by lia.
    change (2 ^ 0)%Z with 1%Z. rewrite Z.mul_1_r. rewrite p2_Z by lia.
    assert (Hs1 : p2 e * p2 (- e) == 1) by (rewrite <- p2_plus; replace (e + - e)%Z with 0%Z by lia; reflexivity).
    pose proof (p2_pos (- e)). field_simplify_eq; [|lra]. rewrite <- Qmult_assoc, Hs1. ring.
Qed.
Lemma f_round_Q x k : f_round x = Ok k -> Qabs (inject_Z k - Qv x) <= 1 # 2.
Proof.
  intros H. pose proof (f_round_half x k H) as Hh. pose proof (f_round_finite x k H) as Hf.
  rewrite (Qv_num_den x Hf). pose proof (f_den_pos x) as Hd.
  assert (Hdq : 0 < inject_Z (f_den x)) by (change 0 with (inject_Z 0); rewrite <- Zlt_Qlt; lia).
  setoid_replace (inject_Z k - inject_Z (f_num x) / inject_Z (f_den x))
    with (inject_Z (2 * k * f_den x - 2 * f_num x) / (2 * inject_Z (f_den x))).
  - unfold Qdiv. rewrite Qabs_Qmult, Qabs_inject.
    rewrite (Qabs_pos (/ (2 * inject_Z (f_den x)))) by (apply Qlt_le_weak, Qinv_lt_0_compat; lra).
    apply Qle_shift_div_r; [lra|].
    setoid_replace ((1 # 2) * (2 * inject_Z (f_den x))) with (inject_Z (f_den x)) by ring.
    rewrite <- Zle_Qle. replace (2 * k * f_den x - 2 * f_num x)%Z with (- (2 * f_num x - 2 * k * f_den x))%Z by lia.
    rewrite Z.abs_opp. auto.
  - replace (2 * k * f_den x - 2 * f_num x)%Z with (2 * k * f_den x + - (2 * f_num x))%Z by lia.
    rewrite inject_Z_plus, inject_Z_opp, !inject_Z_mult. change (inject_Z 2) with 2. field. lra.
Qed.

(** finiteness of a quotient of moderate size *)
Lemma fl_div_finite n d : (0 < d)%Z -> n <> 0%Z -> (0 <= Z.log2 d - Z.log2 (Z.abs n) + 55)%Z ->
  exists m' e', fl_div_e n d 0 = Fin m' e'.
Proof.
  intros Hd Hn Hs. unfold fl_div_e.
  destruct (Z.leb_spec d 0); [lia|]. destruct (Z.eqb_spec n 0); [contradiction|].
  set (a := Z.abs n) in *. set (s := (Z.log2 d - Z.log2 a + 55)%Z) in *.
  destruct (Z.leb_spec 0 s); [|lia].
  rewrite Z.shiftl_mul_pow2 by lia.
  pose proof (Z_div_mod (a * 2 ^ s) d ltac:(lia)) as Hdm.
  destruct (Z.div_eucl (a * 2 ^ s) d) as [q r]. destruct Hdm as [HA Hr].
  set (mm := (2 * q + (if r =? 0 then 0 else 1))%Z).
  assert (Ha : (0 < a)%Z) by (unfold a; lia).
  assert (Hq : (0 <= q < 2 ^ 57)%Z).
  { assert (La : (a < 2 ^ (Z.log2 a + 1))%Z).
    { pose proof (Z.log2_spec a ltac:(lia)). replace (Z.log2 a + 1)%Z with (Z.succ (Z.log2 a)) by lia. lia. }
    assert (Ld : (2 ^ Z.log2 d <= d)%Z) by (apply Z.log2_spec; lia).
    assert (L0 : (0 <= Z.log2 a)%Z) by apply Z.log2_nonneg. assert (L1 : (0 <= Z.log2 d)%Z) by apply Z.log2_nonneg.
    assert (Hp : (0 < 2 ^ s)%Z) by (apply Z.pow_pos_nonneg; lia).
    assert (HAlt : (a * 2 ^ s < 2 ^ 56 * 2 ^ Z.log2 d)%Z).
    { rewrite <- Z.pow_add_r by lia. replace (56 + Z.log2 d)%Z with ((Z.log2 a + 1) + s)%Z by (unfold s; lia).
      rewrite Z.pow_add_r by lia. apply Z.mul_lt_mono_pos_r; lia. }
    split; [nia|]. assert (q < 2 ^ 56)%Z by nia. lia. }
  assert (Hmm : (Z.abs (if (n <? 0)%Z then (- mm)%Z else mm) < 2 ^ 58)%Z).
  { unfold mm. destruct (n <? 0)%Z, (r =? 0)%Z; lia. }
  apply round_dy_finite.
  assert (Z.log2 (Z.abs (if (n <? 0)%Z then (- mm)%Z else mm)) < 58)%Z.
  { destruct (Z.eq_dec (Z.abs (if (n <? 0)%Z then (- mm)%Z else mm)) 0) as [->|]; [simpl; lia|]. apply Z.log2_lt_pow2; lia. }
  lia.
Qed.

