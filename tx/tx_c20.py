"""T4 for C20: regenerate coq/gen/GenC20.v (+ coq/gen/c20_meta.json) from /repo's current tree.

Reads (live objects unless stated):
* every BaseXmlEnum subclass reachable after importing all of pptx: rows of __members__ in
  definition order (name, int value, xml_value); for alias rows the tuple written in the source
  (AST), because Python drops it at class creation;
* where each enumeration types an attribute: OptionalAttribute/RequiredAttribute objects
  recovered from the property closures of every registered oxml element class, plus the direct
  EnumCls.to_xml/from_xml call sites found in the AST (must be in DIRECT_USES, fail-closed);
  the attribute's XSD simple type through tx/xsdlib (complex types of the element's tag that
  declare the attribute) and its xsd:enumeration facets;
* pptx.spec.autoshape_types and the standard's presetShapeDefinitions.xml (avLst gd name/fmla,
  formulas passed on verbatim: Coq parses `val N`);
* XL_CHART_TYPE members, the dispatch dict of ChartXmlWriter (AST), and per dispatched type the
  chart XML the real writer produces over a few data grids: every attribute value whose XSD type
  (followed from c:chartSpace through the content models) is an enumeration, and the chart type
  PlotTypeInspector reports for the written chart.
Anything not understood lands in `unmodelled` (theorem C20_no_unmodelled).
"""
import ast
import datetime
import importlib
import inspect
import json
import os
import pkgutil
import sys

sys.path.insert(0, os.path.dirname(os.path.abspath(__file__)))
from xsdlib import REPO, XS, Schemas, write_if_changed  # noqa: E402

sys.path.insert(0, REPO + "/src")
VERIF = os.path.dirname(os.path.dirname(os.path.abspath(__file__)))
KF_PATH = os.path.join(VERIF, "known_findings.json")
PRESET_XML = (REPO + "/spec/ISO-IEC-29500-1/schemas/dml-geometries/OfficeOpenXML-DrawingMLGeometries/"
              "presetShapeDefinitions.xml")

# direct (non-declarative) uses of an enumeration's XML mapping: site -> attribute written/read
DIRECT_USES = {
    "shapes/autoshape.py|AutoShapeType.id_from_prst|MSO_AUTO_SHAPE_TYPE.from_xml": ("a:prstGeom", "prst"),
    "shapes/autoshape.py|AutoShapeType.prst|MSO_AUTO_SHAPE_TYPE.to_xml": ("a:prstGeom", "prst"),
    "oxml/shapes/groupshape.py|CT_GroupShape.add_cxnSp|MSO_CONNECTOR_TYPE.to_xml": ("a:prstGeom", "prst"),
    # validate-before-mutate calls added by the "rejected setter left a half-built element" fixes
    "dml/color.py|ColorFormat.theme_color|MSO_THEME_COLOR_INDEX.to_xml": ("a:schemeClr", "val"),
    "chart/datalabel.py|DataLabels.position|XL_DATA_LABEL_POSITION.to_xml": ("c:dLblPos", "val"),
    "chart/datalabel.py|DataLabel.position|XL_DATA_LABEL_POSITION.to_xml": ("c:dLblPos", "val"),
    "chart/marker.py|Marker.style|XL_MARKER_STYLE.to_xml": ("c:symbol", "val"),
}


def cps(s):
    return "[" + "; ".join(str(ord(c)) for c in s) + "]"


def coq_opt_str(s):
    return "None" if s is None else "(Some %s)" % cps(s)


def coq_z(n):
    return "(%d)%%Z" % n


# ------------------------------------------------------------------ enumerations
def import_all_pptx():
    import pptx
    bad = []
    for m in pkgutil.walk_packages(pptx.__path__, "pptx."):
        try:
            importlib.import_module(m.name)
        except Exception as e:  # noqa
            bad.append("module %s failed to import: %r" % (m.name, e))
    return bad


def xml_enums():
    from pptx.enum.base import BaseXmlEnum

    out, todo = [], list(BaseXmlEnum.__subclasses__())
    while todo:
        c = todo.pop(0)
        if c not in out:
            out.append(c)
            todo += c.__subclasses__()
    return sorted(out, key=lambda c: (c.__module__, c.__name__))


def declared_tuples(cls):
    """name -> (value, xml) as written in the class body (AST); None when not literal."""
    src = inspect.getsource(sys.modules[cls.__module__])
    tree = ast.parse(src)
    res = {}
    for node in tree.body:
        if isinstance(node, ast.ClassDef) and node.name == cls.__name__:
            for st in node.body:
                if isinstance(st, ast.Assign) and len(st.targets) == 1 and isinstance(st.targets[0], ast.Name):
                    try:
                        val = ast.literal_eval(st.value)
                    except Exception:  # noqa
                        val = None
                    if isinstance(val, tuple) and len(val) == 3 and isinstance(val[0], int) and (
                            val[1] is None or isinstance(val[1], str)):
                        res[st.targets[0].id] = (val[0], val[1])
                    else:
                        res[st.targets[0].id] = None
    return res


def enum_rows(cls, unmodelled):
    decl = None
    rows = []
    for name, member in cls.__members__.items():
        alias = member.name != name
        xml = member.xml_value
        if xml is not None and not isinstance(xml, str):
            unmodelled.append("%s.%s: xml_value is neither str nor None" % (cls.__name__, name))
            xml = None
        dxml = xml
        if alias:
            if decl is None:
                decl = declared_tuples(cls)
            d = decl.get(name)
            if d is None or d[0] != int(member.value):
                unmodelled.append("alias row %s.%s: tuple in the source not recovered" % (cls.__name__, name))
            else:
                dxml = d[1]
        rows.append({"name": name, "value": int(member.value), "xml": dxml, "alias": alias,
                     "canonical": member.name, "runtime_xml": xml})
    return rows


# ------------------------------------------------------------------ attribute uses
def attr_declarations():
    """(class, tags, prop, attr name, enum class) for every enum-typed attribute."""
    from tx_c10 import registered_classes
    from pptx.enum.base import BaseXmlEnum
    from pptx.oxml.xmlchemy import BaseAttribute

    regs = registered_classes()
    by_class = {}
    for tag, cls in sorted(regs.items()):
        by_class.setdefault(cls, []).append(tag)
    out = []
    nattrs = 0
    for cls, tags in sorted(by_class.items(), key=lambda kv: kv[0].__name__):
        seen = set()
        for klass in cls.__mro__:
            for name, val in vars(klass).items():
                if name in seen or not isinstance(val, property) or val.fget is None:
                    continue
                for cell in (val.fget.__closure__ or ()):
                    try:
                        c = cell.cell_contents
                    except ValueError:
                        continue
                    if isinstance(c, BaseAttribute):
                        seen.add(name)
                        nattrs += 1
                        st = c._simple_type
                        if isinstance(st, type) and issubclass(st, BaseXmlEnum):
                            out.append((cls.__name__, tags, name, c._attr_name, st, type(c).__name__))
    return out, nattrs


def direct_sites(enum_names):
    """AST: X.to_xml(..)/X.from_xml(..) where X names an XML enumeration."""
    out = []
    for root, _d, files in os.walk(REPO + "/src/pptx"):
        for f in sorted(files):
            if not f.endswith(".py"):
                continue
            path = os.path.join(root, f)
            rel = os.path.relpath(path, REPO + "/src/pptx")
            tree = ast.parse(open(path, encoding="utf-8").read())
            stack = []

            class V(ast.NodeVisitor):
                def visit_FunctionDef(self, node):
                    stack.append(node.name)
                    self.generic_visit(node)
                    stack.pop()

                visit_ClassDef = visit_FunctionDef

                def visit_Call(self, node):
                    fn = node.func
                    if isinstance(fn, ast.Attribute) and fn.attr in ("to_xml", "from_xml") and isinstance(
                            fn.value, ast.Name) and fn.value.id in enum_names:
                        out.append(("%s|%s|%s.%s" % (rel, ".".join(stack), enum_names[fn.value.id], fn.attr),
                                    enum_names[fn.value.id]))
                    self.generic_visit(node)

            V().visit(tree)
    return out


class Attrs:
    """attribute declarations of XSD complex types and enumeration facets of simple types"""

    def __init__(self, sch):
        self.sch = sch

    def of_type(self, q, depth=0):
        """attr name -> ('type', qname) | ('inline', simpleType elem, nsmap, pfx)"""
        e, nsmap, pfx, _f = self.sch.ctypes[q]
        res = {}
        self._collect(e, nsmap, pfx, res, depth)
        return res

    def _collect(self, e, nsmap, pfx, res, depth):
        if depth > 12:
            return
        for c in e:
            if not isinstance(c.tag, str):
                continue
            if c.tag == XS + "attribute":
                if c.get("ref"):
                    q = self.sch.qn(c.get("ref"), nsmap, pfx)
                    g = self.sch.gattrs.get(q)
                    if g is not None and g[0].get("type"):
                        res["%s:%s" % q] = ("type", self.sch.qn(g[0].get("type"), g[1], g[2]))
                    else:
                        res["%s:%s" % q] = ("unknown",)
                elif c.get("type"):
                    res[c.get("name")] = ("type", self.sch.qn(c.get("type"), nsmap, pfx))
                else:
                    st = c.find(XS + "simpleType")
                    res[c.get("name")] = ("inline", st, nsmap, pfx) if st is not None else ("unknown",)
            elif c.tag == XS + "attributeGroup" and c.get("ref"):
                q = self.sch.qn(c.get("ref"), nsmap, pfx)
                if q in self.sch.agroups:
                    g, gn, gp, _f = self.sch.agroups[q]
                    self._collect(g, gn, gp, res, depth + 1)
            elif c.tag in (XS + "complexContent", XS + "simpleContent"):
                for ext in c:
                    if isinstance(ext.tag, str) and ext.tag in (XS + "extension", XS + "restriction"):
                        base = self.sch.qn(ext.get("base"), nsmap, pfx)
                        if base in self.sch.ctypes:
                            be, bn, bp, _f = self.sch.ctypes[base]
                            self._collect(be, bn, bp, res, depth + 1)
                        self._collect(ext, nsmap, pfx, res, depth + 1)

    def tokens(self, spec, depth=0):
        """enumeration tokens of a simple type, or None when it is not an enumeration.
        Returns (tokens|None, understood?)"""
        if depth > 8:
            return None, False
        if spec[0] == "type":
            q = spec[1]
            if q[0] == "xsd":
                return None, True
            if q not in self.sch.stypes:
                return None, False
            e, nsmap, pfx, _f = self.sch.stypes[q]
        elif spec[0] == "inline":
            _k, e, nsmap, pfx = spec
        else:
            return None, False
        kids = [c for c in e if isinstance(c.tag, str) and c.tag != XS + "annotation"]
        if len(kids) != 1:
            return None, False
        k = kids[0]
        if k.tag == XS + "restriction":
            enums = [c.get("value") for c in k if c.tag == XS + "enumeration"]
            if enums:
                return enums, True
            if k.get("base"):
                return self.tokens(("type", self.sch.qn(k.get("base"), nsmap, pfx)), depth + 1)
            return None, False
        if k.tag == XS + "union":
            acc = []
            for mt in (k.get("memberTypes") or "").split():
                t, ok = self.tokens(("type", self.sch.qn(mt, nsmap, pfx)), depth + 1)
                if not ok:
                    return None, False
                if t is None:
                    return None, True
                acc += t
            if k.find(XS + "simpleType") is not None:
                return None, False
            return acc, True
        if k.tag == XS + "list":
            return None, True
        return None, False


def spec_name(spec):
    if spec[0] == "type":
        return "%s:%s" % spec[1]
    return None


# ------------------------------------------------------------------ presets
def preset_defs():
    from lxml import etree

    A = "{http://schemas.openxmlformats.org/drawingml/2006/main}"
    root = etree.parse(PRESET_XML).getroot()
    out = []
    for e in root:
        if not isinstance(e.tag, str):
            continue
        av = e.find(A + "avLst")
        gds = []
        if av is not None:
            for g in av:
                if isinstance(g.tag, str):
                    gds.append((g.get("name") or "", g.get("fmla") or "", g.tag == A + "gd"))
        out.append((etree.QName(e).localname, gds))
    return out


# ------------------------------------------------------------------ charts
def writer_dispatch_ast(unmodelled):
    """chart type member name -> writer class name, from the dict literal in ChartXmlWriter."""
    path = REPO + "/src/pptx/chart/xmlwriter.py"
    tree = ast.parse(open(path, encoding="utf-8").read())
    for node in tree.body:
        if isinstance(node, ast.FunctionDef) and node.name == "ChartXmlWriter":
            dicts = [n for n in ast.walk(node) if isinstance(n, ast.Dict)]
            if len(dicts) != 1:
                unmodelled.append("ChartXmlWriter: expected exactly one dict literal, found %d" % len(dicts))
                return []
            out = []
            for k, v in zip(dicts[0].keys, dicts[0].values):
                if isinstance(k, ast.Attribute) and isinstance(k.value, ast.Name) and k.value.id in (
                        "XL_CT", "XL_CHART_TYPE") and isinstance(v, ast.Name):
                    out.append((k.attr, v.id))
                else:
                    unmodelled.append("ChartXmlWriter: dict entry not of the form XL_CT.X: Cls (%s)" % ast.unparse(k))
            # the function must consist of: docstring, alias assignment, try/except KeyError -> NotImplementedError, return
            kinds = [type(s).__name__ for s in node.body]
            if kinds != ["Expr", "Assign", "Try", "Return"]:
                unmodelled.append("ChartXmlWriter: body shape changed: %s" % kinds)
            return out
    unmodelled.append("ChartXmlWriter not found")
    return []


def data_grids(writer_name):
    from pptx.chart.data import BubbleChartData, CategoryChartData, XyChartData

    grids = []
    if "Xy" in writer_name:
        for _ in range(1):
            d = XyChartData()
            s = d.add_series("S1")
            s.add_data_point(1.0, 2.0)
            s.add_data_point(2.5, 3.5)
            s2 = d.add_series("S2")
            s2.add_data_point(0.5, 4.0)
            grids.append(("xy", d))
    elif "Bubble" in writer_name:
        d = BubbleChartData()
        s = d.add_series("S1")
        s.add_data_point(1.0, 2.0, 3.0)
        s.add_data_point(2.5, 3.5, 1.0)
        grids.append(("bubble", d))
    else:
        d = CategoryChartData()
        d.categories = ["a", "b", "c"]
        d.add_series("S1", (1, 2, 3))
        d.add_series("S2", (3.5, None, 1))
        grids.append(("str-categories", d))
        d = CategoryChartData()
        d.categories = [datetime.date(2020, 1, 1), datetime.date(2020, 2, 1)]
        d.add_series("S1", (1, 2))
        grids.append(("date-categories", d))
        d = CategoryChartData()
        d.categories = [1.5, 2.5]
        d.add_series("S1", (1, 2))
        grids.append(("number-categories", d))
        d = CategoryChartData()
        d.categories = ["x", "y"]
        d.categories[0].add_sub_category("x1")
        d.categories[0].add_sub_category("x2")
        d.categories[1].add_sub_category("y1")
        d.add_series("S1", (1, 2, 3))
        grids.append(("multi-level", d))
    return grids


def walk_enumerated(sch, attrs, elm, q, acc, stats, depth=0):
    """collect (simple type name, token, path) for every attribute of enumerated type"""
    from pptx.oxml.ns import NamespacePrefixedTag

    decls = attrs.of_type(q)
    for an, av in elm.attrib.items():
        if an.startswith("{"):
            continue
        d = decls.get(an)
        if d is None:
            stats["attrs_unknown"].add("%s:%s@%s" % (q[0], q[1], an))
            continue
        toks, ok = attrs.tokens(d)
        if not ok:
            stats["attrs_unknown"].add("%s:%s@%s" % (q[0], q[1], an))
            continue
        if toks is not None:
            nm = spec_name(d) or "%s:%s@%s" % (q[0], q[1], an)
            acc.append((nm, tuple(toks), av, "%s@%s" % (str(NamespacePrefixedTag.from_clark_name(elm.tag)), an)))
    child_types = {}
    sch._child_types(sch.ctype_cm(q), child_types)
    for c in elm:
        if not isinstance(c.tag, str):
            continue
        try:
            t = str(NamespacePrefixedTag.from_clark_name(c.tag))
        except Exception:  # noqa
            stats["elems_unwalked"].add(c.tag)
            continue
        tys = [x for x in child_types.get(t, ()) if x and x in sch.ctypes]
        if len(tys) != 1:
            if any(True for _ in c.iter()) and (len(c) or c.attrib):
                stats["elems_unwalked"].add(t)
            continue
        stats["elems"] += 1
        walk_enumerated(sch, attrs, c, tys[0], acc, stats, depth + 1)


def chart_rows(sch, attrs, unmodelled):
    from pptx import Presentation
    from pptx.chart.xmlwriter import ChartXmlWriter
    from pptx.enum.chart import XL_CHART_TYPE
    from pptx.oxml import parse_xml
    from pptx.util import Emu

    disp = writer_dispatch_ast(unmodelled)
    rows = []
    stats = {"attrs_unknown": set(), "elems_unwalked": set(), "elems": 0}
    writers = []
    for i, (mname, wname) in enumerate(disp):
        if mname not in XL_CHART_TYPE.__members__:
            unmodelled.append("ChartXmlWriter dispatches on XL_CT.%s which is not a member" % mname)
            continue
        ct = XL_CHART_TYPE[mname]
        if wname not in writers:
            writers.append(wname)
        toks, insp, grids_done = [], None, []
        for gname, data in data_grids(wname):
            try:
                xml = ChartXmlWriter(ct, data).xml
                root = parse_xml(xml.encode("utf-8"))
            except Exception as e:  # noqa
                unmodelled.append("chart writer %s failed on the %s grid for %s: %r" % (wname, gname, mname, e))
                continue
            acc = []
            walk_enumerated(sch, attrs, root, ("c", "CT_ChartSpace"), acc, stats)
            for t in acc:
                if t not in toks:
                    toks.append(t)
            try:
                prs = Presentation()
                slide = prs.slides.add_slide(prs.slide_layouts[6])
                gf = slide.shapes.add_chart(ct, Emu(0), Emu(0), Emu(3000000), Emu(2000000), data)
                got = gf.chart.chart_type
                got = int(got) if got is not None else None
            except Exception as e:  # noqa
                got = "exception:" + type(e).__name__
            grids_done.append((gname, got))
        vals = {g for _n, g in grids_done}
        if len(vals) == 1 and isinstance(next(iter(vals)), int):
            insp = next(iter(vals))
        else:
            # disagreeing or failing read-back: keep the first that is not the written type
            insp = next((g for _n, g in grids_done if g != int(ct)), None)
            if not isinstance(insp, int):
                insp = None
        rows.append({"id": i, "name": mname, "value": int(ct), "writer": wname, "writer_id": writers.index(wname),
                     "tokens": [{"stype": a, "token": c, "where": d, "schema_tokens": list(b)} for a, b, c, d in toks],
                     "inspected": insp, "grids": grids_done})
    return rows, writers, {"attrs_unknown": sorted(stats["attrs_unknown"]),
                           "elems_unwalked": sorted(stats["elems_unwalked"]), "elems_walked": stats["elems"]}


# ------------------------------------------------------------------ main
def main():
    unmodelled = []
    unmodelled += import_all_pptx()
    sch = Schemas()
    unmodelled += list(sch.unmodelled)
    attrs = Attrs(sch)

    # known findings
    known = set()
    known_back_name = {}   # recorded bij finding -> the member its token is recorded to resolve to (None: itself)
    if os.path.exists(KF_PATH):
        for e in json.load(open(KF_PATH)):
            if e.get("property") == "C20" and e.get("status") == "known":
                for s in e.get("signature", "").split(";"):
                    base, _, back = s.strip().partition("->")
                    known.add(base)
                    if base.startswith("bij:"):
                        known_back_name[base] = back or None

    # --- enumerations
    classes = xml_enums()
    enums = []
    mid = 0
    for ei, cls in enumerate(classes):
        rows = enum_rows(cls, unmodelled)
        for r in rows:
            r["id"] = mid
            r["sig"] = "bij:%s.%s" % (cls.__name__, r["name"])
            mid += 1
        enums.append({"id": ei, "name": cls.__name__, "module": cls.__module__, "rows": rows})
    enum_id = {e["name"]: e["id"] for e in enums}
    # names by which the classes are bound in their modules (MSO_SHAPE = MSO_AUTO_SHAPE_TYPE ...)
    bound = {}
    for cls in classes:
        for n, v in vars(sys.modules[cls.__module__]).items():
            if v is cls:
                bound[n] = cls.__name__

    # --- uses
    stypes = {}   # name -> {"id", "tokens"|None}
    uses = []

    def stype_id(name, toks):
        if name not in stypes:
            stypes[name] = {"id": len(stypes), "name": name, "tokens": toks}
        elif stypes[name]["tokens"] != toks:
            unmodelled.append("simple type %s read with two different token lists" % name)
        return stypes[name]["id"]

    def add_use(ename, tag, attr, origin):
        tys = sorted(t for t in sch.tag_types.get(tag, ()) if t in sch.ctypes)
        hits = []
        for ty in tys:
            d = attrs.of_type(ty).get(attr)
            if d is not None:
                hits.append((ty, d))
        if not hits:
            unmodelled.append("attribute %s@%s (%s): no candidate XSD type declares it (%s)" % (
                tag, attr, ename, ["%s:%s" % t for t in tys]))
            return
        for ty, d in hits:
            toks, ok = attrs.tokens(d)
            nm = spec_name(d) or "%s:%s@%s" % (ty[0], ty[1], attr)
            if not ok:
                unmodelled.append("attribute %s@%s: simple type %s not understood" % (tag, attr, nm))
                continue
            sid = stype_id(nm, toks)
            key = (ename, tag, attr, nm)
            if any(u["key"] == list(key) for u in uses):
                continue
            uses.append({"id": len(uses), "enum": ename, "enum_id": enum_id[ename], "tag": tag, "attr": attr,
                         "ctype": "%s:%s" % ty, "stype": nm, "stype_id": sid, "origin": origin, "key": list(key)})

    decls, nattrs = attr_declarations()
    for cname, tags, prop, attr, st, kind in decls:
        if st.__name__ not in enum_id:
            unmodelled.append("attribute %s.%s typed by unknown enumeration %s" % (cname, prop, st.__name__))
            continue
        for tag in tags:
            add_use(st.__name__, tag, attr, "%s.%s (%s)" % (cname, prop, kind))
    sites = direct_sites(bound)
    for site, ename in sites:
        if site not in DIRECT_USES:
            unmodelled.append("direct enumeration mapping site not in DIRECT_USES: " + site)
            continue
        tag, attr = DIRECT_USES[site]
        add_use(ename, tag, attr, site)
    for site in DIRECT_USES:
        if site not in [s for s, _ in sites]:
            unmodelled.append("DIRECT_USES entry no longer present in the source: " + site)
    used = {u["enum"] for u in uses}
    for e in enums:
        if e["name"] not in used:
            unmodelled.append("XML enumeration %s types no attribute found in the element classes" % e["name"])

    # --- presets
    from pptx.enum.shapes import MSO_AUTO_SHAPE_TYPE
    from pptx.spec import autoshape_types

    spec_rows = []
    for k, v in autoshape_types.items():
        if not isinstance(k, int) or set(v.keys()) != {"basename", "avLst"}:
            unmodelled.append("autoshape_types entry of unexpected shape: %r" % (k,))
            continue
        av = []
        for item in v["avLst"]:
            if not (isinstance(item, tuple) and len(item) == 2 and isinstance(item[0], str) and type(item[1]) is int):
                unmodelled.append("autoshape_types[%r] avLst entry of unexpected shape: %r" % (k, item))
                continue
            av.append([item[0], item[1]])
        spec_rows.append({"value": int(k), "name": getattr(k, "name", str(k)), "basename": v["basename"], "av": av})
    pdefs = []
    for name, gds in preset_defs():
        for g in gds:
            if not g[2]:
                unmodelled.append("presetShapeDefinitions %s: avLst child that is not a:gd" % name)
        pdefs.append({"name": name, "av": [[g[0], g[1]] for g in gds]})
    shape_enum = MSO_AUTO_SHAPE_TYPE.__name__

    # --- charts
    from pptx.enum.chart import XL_CHART_TYPE
    ctypes_ = [{"name": n, "value": int(m), "alias": m.name != n} for n, m in XL_CHART_TYPE.__members__.items()]
    crow, writers, cstats = chart_rows(sch, attrs, unmodelled)
    for r in crow:
        for t in r["tokens"]:
            t["stype_id"] = stype_id(t["stype"], t["schema_tokens"])
            del t["schema_tokens"]
    for a in cstats["attrs_unknown"]:
        unmodelled.append("chart XML attribute whose XSD type was not resolved: " + a)

    # --- known-failing ids
    known_bij = [r["id"] for e in enums for r in e["rows"] if r["sig"] in known]
    known_back = []
    for e in enums:
        by_name = {r["name"]: r["id"] for r in e["rows"]}
        for r in e["rows"]:
            if r["sig"] in known:
                b = known_back_name.get(r["sig"])
                # a recorded member that no longer exists resolves to an id no row has: the obligation then fails
                known_back.append((r["id"], by_name.get(b, 10 ** 9) if b else r["id"]))
    known_tok = []
    for u in uses:
        e = enums[u["enum_id"]]
        for r in e["rows"]:
            if "token:%s.%s@%s/%s" % (e["name"], r["name"], u["tag"], u["attr"]) in known:
                known_tok.append((u["id"], r["id"]))
    shape_rows = enums[enum_id[shape_enum]]["rows"]
    known_pre = [r["id"] for r in shape_rows if "preset:" + r["name"] in known]
    known_chart = [r["id"] for r in crow if "chart:" + r["name"] in known]

    # --- emit
    L = []
    L.append("(* GENERATED by tx/tx_c20.py from /repo -- do not edit *)")
    L.append("From V.lib Require Import Prelude.")
    L.append("From V.model Require Import EnumLib.")
    L.append("Open Scope N_scope.")
    for e in enums:
        rows = ";\n".join("  {| m_id := %d; m_name := %s; m_value := %s; m_xml := %s |}" % (
            r["id"], cps(r["name"]), coq_z(r["value"]), coq_opt_str(r["xml"])) for r in e["rows"])
        L.append("Definition rows_%d : list member := [\n%s\n]." % (e["id"], rows))
    for e in enums:
        L.append("Definition enum_%d : enum := {| e_id := %d; e_name := %s; e_rows := rows_%d |}." % (
            e["id"], e["id"], cps(e["name"]), e["id"]))
    L.append("Definition enums : list enum := [%s]." % "; ".join("enum_%d" % e["id"] for e in enums))
    srt = sorted(stypes.values(), key=lambda s: s["id"])
    for s in srt:
        L.append("Definition stype_%d : stype := {| s_id := %d; s_tokens := %s |}." % (
            s["id"], s["id"],
            "None" if s["tokens"] is None else "Some [%s]" % "; ".join(cps(t) for t in s["tokens"])))
    L.append("Definition stypes : list stype := [%s]." % "; ".join("stype_%d" % s["id"] for s in srt))
    L.append("Definition uses : list use := [\n%s\n]." % ";\n".join(
        "  {| u_id := %d; u_enum := %d; u_stype := %d |}" % (u["id"], u["enum_id"], u["stype_id"]) for u in uses))
    L.append("Definition shape_enum : enum := enum_%d." % enum_id[shape_enum])
    L.append("Definition shape_enum_index : nat := %d%%nat." % enum_id[shape_enum])
    L.append("Definition shape_rows : list member := e_rows shape_enum.")
    L.append("Definition spec_table : list spec_row := [\n%s\n]." % ";\n".join(
        "  {| sp_value := %s; sp_av := [%s] |}" % (
            coq_z(r["value"]), "; ".join("(%s, %s)" % (cps(n), coq_z(v)) for n, v in r["av"])) for r in spec_rows))
    L.append("Definition preset_defs : list preset_def := [\n%s\n]." % ";\n".join(
        "  {| pd_name := %s; pd_av := [%s] |}" % (
            cps(d["name"]), "; ".join("(%s, %s)" % (cps(n), cps(f)) for n, f in d["av"])) for d in pdefs))
    L.append("Definition chart_types : list (str * Z) := [\n%s\n]." % ";\n".join(
        "  (%s, %s)" % (cps(c["name"]), coq_z(c["value"])) for c in ctypes_))
    L.append("Definition chart_rows : list chart_row := [\n%s\n]." % ";\n".join(
        "  {| c_id := %d; c_value := %s; c_writer := %d; c_tokens := [%s]; c_inspected := %s |}" % (
            r["id"], coq_z(r["value"]), r["writer_id"],
            "; ".join("(%d, %s)" % (t["stype_id"], cps(t["token"])) for t in r["tokens"]),
            "None" if r["inspected"] is None else "Some %s" % coq_z(r["inspected"])) for r in crow))
    L.append("Definition known_bij : list N := [%s]." % "; ".join(str(i) for i in known_bij))
    L.append("Definition known_back : list (N * N) := [%s]." % "; ".join("(%d, %d)" % p for p in known_back))
    L.append("Definition known_tok : list (N * N) := [%s]." % "; ".join("(%d, %d)" % p for p in known_tok))
    L.append("Definition known_presets : list N := [%s]." % "; ".join(str(i) for i in known_pre))
    L.append("Definition known_charts : list N := [%s]." % "; ".join(str(i) for i in known_chart))
    L.append("Close Scope N_scope.")
    L.append("Definition n_unmodelled : nat := %d%%nat." % len(unmodelled))
    text = "\n".join(L) + "\n"
    write_if_changed(os.path.join(VERIF, "coq", "gen", "GenC20.v"), text)
    meta = {"enums": enums, "stypes": srt, "uses": uses, "spec_rows": spec_rows, "preset_defs": pdefs,
            "shape_enum": shape_enum, "chart_types": ctypes_, "chart_rows": crow, "writers": writers,
            "chart_walk": cstats, "unmodelled": unmodelled, "direct_sites": [s for s, _ in sites],
            "n_attribute_declarations": nattrs, "bound_names": bound,
            "known": {"bij": known_bij, "tok": known_tok, "presets": known_pre, "charts": known_chart}}
    json.dump(meta, open(os.path.join(VERIF, "coq", "gen", "c20_meta.json"), "w"), indent=1)
    print("tx_c20: %d enumerations, %d rows, %d uses, %d simple types, %d table rows, %d preset definitions, "
          "%d chart types (%d writable, %d chart elements walked), %d unmodelled" % (
              len(enums), mid, len(uses), len(stypes), len(spec_rows), len(pdefs), len(ctypes_), len(crow),
              cstats["elems_walked"], len(unmodelled)))


if __name__ == "__main__":
    main()
