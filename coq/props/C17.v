(** C17 — connector end points, group extents, freeform bounds.
    Statements over model/Geom.v (tied to python-pptx by checks/c17.py). *)
From V.lib Require Import Prelude.
From V.model Require Import Geom.
From V.proofs Require Import Geom_proofs.
From Coq Require Import QArith Qabs.
Open Scope Z_scope.

(* ------------------------------------------------------------------ connector *)

(** add_connector: the connector reads back the two points it was created with, and
    its stored width and height are non-negative. *)
Theorem C17_conn_new : forall bx by_ ex ey,
  let c := add_cxn bx by_ ex ey in
  begin_x c = bx /\ begin_y c = by_ /\ end_x c = ex /\ end_y c = ey /\
  0 <= c_cx c /\ 0 <= c_cy c.
Proof. exact conn_new. Qed.
Print Assumptions C17_conn_new.

(** An assignment that does not raise sets exactly that coordinate: the three other
    readings are unchanged, the stored width is non-negative, the other axis is untouched.
    No hypothesis on the prior state. *)
Theorem C17_conn_set_begin_x : forall c v c',
  set_begin_x c v = (c', None) ->
  begin_x c' = v /\ end_x c' = end_x c /\ begin_y c' = begin_y c /\ end_y c' = end_y c /\
  0 <= c_cx c' /\ c_y c' = c_y c /\ c_cy c' = c_cy c /\ c_fv c' = c_fv c.
Proof. exact set_begin_x_ok. Qed.
Print Assumptions C17_conn_set_begin_x.

Theorem C17_conn_set_end_x : forall c v c',
  set_end_x c v = (c', None) ->
  end_x c' = v /\ begin_x c' = begin_x c /\ begin_y c' = begin_y c /\ end_y c' = end_y c /\
  0 <= c_cx c' /\ c_y c' = c_y c /\ c_cy c' = c_cy c /\ c_fv c' = c_fv c.
Proof. exact set_end_x_ok. Qed.
Print Assumptions C17_conn_set_end_x.

Theorem C17_conn_set_begin_y : forall c v c',
  set_begin_y c v = (c', None) ->
  begin_y c' = v /\ end_y c' = end_y c /\ begin_x c' = begin_x c /\ end_x c' = end_x c /\
  0 <= c_cy c' /\ c_x c' = c_x c /\ c_cx c' = c_cx c /\ c_fh c' = c_fh c.
Proof. exact set_begin_y_ok. Qed.
Print Assumptions C17_conn_set_begin_y.

Theorem C17_conn_set_end_y : forall c v c',
  set_end_y c v = (c', None) ->
  end_y c' = v /\ begin_y c' = begin_y c /\ begin_x c' = begin_x c /\ end_x c' = end_x c /\
  0 <= c_cy c' /\ c_x c' = c_x c /\ c_cx c' = c_cx c /\ c_fh c' = c_fh c.
Proof. exact set_end_y_ok. Qed.
Print Assumptions C17_conn_set_end_y.

(** Every history of assignments none of which raises: the connector reads as the
    abstract segment on which the same assignments were performed, and width and
    height stay non-negative.  Cross-overs in either axis are ordinary steps. *)
Theorem C17_conn_history : forall ops c c',
  0 <= c_cx c /\ 0 <= c_cy c ->
  conn_run_ok c ops = Some c' ->
  abs_conn c' = fold_left seg_step ops (abs_conn c) /\ (0 <= c_cx c' /\ 0 <= c_cy c').
Proof. exact conn_history_ok. Qed.
Print Assumptions C17_conn_history.

(** Total form: when the end points and all assigned values lie within half the
    ST_Coordinate range (13636521158450 EMU, about 15000 km) no assignment raises, so
    the history exactly as the implementation runs it (fold_left) refines the abstract one. *)
Theorem C17_conn_history_total : forall ops c,
  0 <= c_cx c /\ 0 <= c_cy c ->
  seg_bounded (abs_conn c) ->
  Forall (fun op => - BOUND <= cop_val op <= BOUND) ops ->
  conn_run_ok c ops = Some (conn_run c ops) /\
  abs_conn (conn_run c ops) = fold_left seg_step ops (abs_conn c) /\
  (0 <= c_cx (conn_run c ops) /\ 0 <= c_cy (conn_run c ops)).
Proof. exact conn_history_total. Qed.
Print Assumptions C17_conn_history_total.

Example C17_conn_history_nonvacuous :
  conn_run_ok (add_cxn 0 0 10 5) [SetBX 20; SetEY (-3); SetEX 25; SetBY (-9); SetBX 20]
  = Some (mkConn 20 (-9) 5 6 false false).
Proof. exact conn_example. Qed.

(** Refuted: an assignment that raises is not atomic.  The model (and the code, see the
    check's finding conn-set-raises-partial) keeps the attribute writes made before the
    refused one, so an end point that was not assigned moves, or the two end points swap. *)
Theorem C17_conn_set_failure_not_atomic_refuted :
  exists c v c' e, (0 <= c_cx c /\ 0 <= c_cy c) /\
                   set_begin_x c v = (c', Some e) /\ end_x c' <> end_x c.
Proof. exact conn_set_failure_not_atomic. Qed.
Print Assumptions C17_conn_set_failure_not_atomic_refuted.

Theorem C17_conn_set_failure_swaps_refuted :
  exists c v c' e, (0 <= c_cx c /\ 0 <= c_cy c) /\ set_begin_x c v = (c', Some e) /\
                   begin_x c' = end_x c /\ end_x c' = begin_x c /\ begin_x c <> end_x c.
Proof. exact conn_set_failure_swaps. Qed.
Print Assumptions C17_conn_set_failure_swaps_refuted.

(* ------------------------------------------------------------------ groups *)

(** [child_extents] is the bounding box in the usual sense. *)
Theorem C17_group_bbox : forall kids x y cx cy,
  kids <> [] -> child_extents kids = (x, y, cx, cy) ->
  (forall k, In k kids -> x <= sh_x k /\ sh_x k + sh_cx k <= x + cx /\
                          y <= sh_y k /\ sh_y k + sh_cy k <= y + cy) /\
  (exists k, In k kids /\ sh_x k = x) /\ (exists k, In k kids /\ sh_x k + sh_cx k = x + cx) /\
  (exists k, In k kids /\ sh_y k = y) /\ (exists k, In k kids /\ sh_y k + sh_cy k = y + cy).
Proof. exact child_extents_bbox. Qed.
Print Assumptions C17_group_bbox.

(** Adding a member at any path (any depth): whatever the tree looked like before,
    afterwards every group on the path has off, ext, chOff, chExt equal to the bounding
    box of its members. *)
Theorem C17_group_path : forall p new s s',
  add_in p new s = Ok s' -> on_path_okb p s' = true.
Proof. exact add_in_path_ok. Qed.
Print Assumptions C17_group_path.

(** What does not change: off the path every member is the same term, positions of
    members are kept, the new member is the last one of the receiving group. *)
Theorem C17_group_frame : forall p new s s',
  add_in p new s = Ok s' -> frame_ok p new s s'.
Proof. exact add_in_frame. Qed.
Print Assumptions C17_group_frame.

(** Recursive consistency (every group in the tree has the bounding box of its members,
    an empty group has zeros) is preserved by every addition, whatever is added. *)
Theorem C17_group : forall p new s s',
  consistentb s = true -> consistentb new = true ->
  add_in p new s = Ok s' -> consistentb s' = true.
Proof. exact add_in_consistent. Qed.
Print Assumptions C17_group.

(** Histories on a slide, no side condition: after any sequence of additions of any
    kind (a shape with an xfrm, or a new empty group) at any paths, every group on the
    slide, at every depth, is the bounding box of its members. *)
Theorem C17_group_history : forall ops sl sl',
  forallb consistentb sl = true -> slide_run sl ops = Ok sl' ->
  forallb consistentb sl' = true.
Proof. exact slide_history_consistent. Qed.
Print Assumptions C17_group_history.

Theorem C17_group_history_from_empty : forall ops sl',
  slide_run [] ops = Ok sl' -> forallb consistentb sl' = true.
Proof. exact slide_history_from_empty. Qed.
Print Assumptions C17_group_history_from_empty.

Theorem C17_group_slide_step : forall p new sl sl',
  slide_add p new sl = Ok sl' ->
  slide_frame_ok p new sl sl' /\ slide_path_okb p sl' = true.
Proof. exact slide_add_spec. Qed.
Print Assumptions C17_group_slide_step.

Example C17_group_nonvacuous_run :
  slide_run [] nest_ops
  = Ok [Grp (mkG (-100) (-7) 1105 1012 (-100) (-7) 1105 1012)
          [Grp (mkG (-100) (-7) 110 77 (-100) (-7) 110 77)
             [Grp (mkG (-100) (-7) 110 77 (-100) (-7) 110 77)
                [Grp (mkG (-100) 50 10 20 (-100) 50 10 20) [Leaf (-100) 50 10 20];
                 Leaf 7 (-7) 3 3; Grp gxf0 []]];
           Leaf 1000 1000 5 5];
        Leaf 1 2 3 4].
Proof. exact nest_example. Qed.

(** Regression witnesses of two repaired defects (add_group_shape() inside a group and a
    freeform placed into a group used to insert the member without recalculating,
    [add_stale]): on them the old behaviour leaves the group stale, the present
    behaviour gives the bounding box. *)
Example C17_group_regression_empty_group :
  consistentb witness_group = true /\
  (exists s', add_stale [] (Grp gxf0 []) witness_group = Ok s' /\ consistentb s' = false) /\
  add_in [] (Grp gxf0 []) witness_group
  = Ok (Grp (mkG 0 0 150 150 0 0 150 150) [Leaf 100 100 50 50; Grp gxf0 []]) /\
  consistentb (Grp (mkG 0 0 150 150 0 0 150 150) [Leaf 100 100 50 50; Grp gxf0 []]) = true.
Proof. exact regression_empty_group. Qed.

Example C17_group_regression_freeform :
  (exists s', add_stale [] (Leaf 10 10 500 500) witness_group = Ok s' /\ consistentb s' = false) /\
  add_in [] (Leaf 10 10 500 500) witness_group
  = Ok (Grp (mkG 10 10 500 500 10 10 500 500) [Leaf 100 100 50 50; Leaf 10 10 500 500]) /\
  consistentb (Grp (mkG 10 10 500 500 10 10 500 500) [Leaf 100 100 50 50; Leaf 10 10 500 500]) = true.
Proof. exact regression_freeform. Qed.

(* ------------------------------------------------------------------ freeform *)

(** For every builder (any start, any operations, any int or float scales) and origin:
    the extents are the extreme pen coordinates; position = origin + scaled minimum and
    size = scaled (maximum - minimum), where scaled is the exact product for an int scale
    and within 1/2 + 2^-51 |product| of it for a float scale; sizes are non-negative for
    non-negative scales; the path has w = dx, h = dy, its children are the operations
    shifted by the minimum, and every point lies in [0,w] x [0,h]. *)
Theorem C17_freeform : forall b ox oy f,
  convert b ox oy = Ok f ->
  let P := pen_pts b in
  ((forall p, In p P -> off_x b <= fst p <= hi_x b /\ off_y b <= snd p <= hi_y b) /\
   (exists p, In p P /\ fst p = off_x b) /\ (exists p, In p P /\ fst p = hi_x b) /\
   (exists p, In p P /\ snd p = off_y b) /\ (exists p, In p P /\ snd p = hi_y b)) /\
  scaled_ok (off_x b) (fb_xs b) (f_left f - ox) /\
  scaled_ok (off_y b) (fb_ys b) (f_top f - oy) /\
  scaled_ok (hi_x b - off_x b) (fb_xs b) (f_width f) /\
  scaled_ok (hi_y b - off_y b) (fb_ys b) (f_height f) /\
  (scale_nonneg (fb_xs b) -> 0 <= f_width f) /\
  (scale_nonneg (fb_ys b) -> 0 <= f_height f) /\
  f_w f = hi_x b - off_x b /\ f_h f = hi_y b - off_y b /\
  f_path f = FMove (fb_sx b - off_x b) (fb_sy b - off_y b)
             :: map (shift_op (off_x b) (off_y b)) (fb_ops b) /\
  op_pts (f_path f) = map (fun p => (fst p - off_x b, snd p - off_y b)) P /\
  (forall p, In p (op_pts (f_path f)) -> 0 <= fst p <= f_w f /\ 0 <= snd p <= f_h f).
Proof. exact freeform_main. Qed.
Print Assumptions C17_freeform.

(** The two clauses of [scaled_ok] spelled out. *)
Theorem C17_freeform_int_scale : forall v z, mul_scale v (SInt z) = Ok (v * z).
Proof. exact mul_scale_int. Qed.
Print Assumptions C17_freeform_int_scale.

Theorem C17_freeform_float_scale : forall v m e w,
  mul_scale v (SFlt m e) = Ok w ->
  (Qabs (inject_Z w - inject_Z v * scale_val (SFlt m e))
   <= (1 # 2) + Qabs (inject_Z v * scale_val (SFlt m e)) * (1 # 2 ^ 51))%Q.
Proof. exact mul_scale_float_bound. Qed.
Print Assumptions C17_freeform_float_scale.

(** When neither operand needs more than 53 bits the float path is the exact product
    rounded half-even once. *)
Theorem C17_freeform_float_exact : forall v m e,
  Z.abs v < 2 ^ 53 -> Z.abs (v * m) < 2 ^ 53 -> e <= 971 ->
  mul_scale v (SFlt m e) = Ok (dy_to_int (v * m, e)).
Proof. exact mul_scale_float_exact. Qed.
Print Assumptions C17_freeform_float_exact.

Example C17_freeform_nonvacuous :
  convert fb_example (-1000) 25
  = Ok (mkFs (-1001) (-35) 11 360 112 120
             [FMove 9 17; FLine 17 17; FLine 17 60; FLine 0 60; FClose; FMove 107 120; FLine 17 60;
              FLine 112 0]).
Proof. exact fb_example_converts. Qed.
