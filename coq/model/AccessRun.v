(** Runner for the C12 correspondence.  Trees travel flattened to numbers:
      node  := tag nattrs (name vlen v...)* ntext text... nchildren node*
    steps := (0 | 1 plen path... x slen S... | 2 plen path... i x | 4)*      (Read, GoA, AddAt, Save)
    Operations (first field):
      strip cs tree            -> the stripped tree (same encoding)
      sig   cs tree            -> True / False   (significant)
      run   cs tree steps      -> final tree | strip final | strip-equal to the initial one | number of saves
                                  | every saved state strip-equal to the initial one
    Definitions only. *)
From V.lib Require Import Prelude Wire.
From V.model Require Import Schema Xmlchemy Access.

Fixpoint take_n {A} (n : nat) (l : list A) : option (list A * list A) :=
  match n with
  | O => Some ([], l)
  | S n' => match l with
            | [] => None
            | a :: l' => match take_n n' l' with
                         | Some (x, r) => Some (a :: x, r)
                         | None => None
                         end
            end
  end.

Fixpoint parse_attrs (k : nat) (l : list N) : option (list attr * list N) :=
  match k with
  | O => Some ([], l)
  | S k' =>
      match l with
      | nm :: vl :: r =>
          match take_n (N.to_nat vl) r with
          | Some (v, r1) =>
              match parse_attrs k' r1 with
              | Some (a, r2) => Some ((nm, v) :: a, r2)
              | None => None
              end
          | None => None
          end
      | _ => None
      end
  end.

Fixpoint parse_node (fuel : nat) (l : list N) : option (node * list N) :=
  match fuel with
  | O => None
  | S f =>
      match l with
      | t :: na :: r =>
          match parse_attrs (N.to_nat na) r with
          | Some (a, nt :: r2) =>
              match take_n (N.to_nat nt) r2 with
              | Some (x, nc :: r4) =>
                  match (fix pc (k : nat) (l : list N) : option (list node * list N) :=
                           match k with
                           | O => Some ([], l)
                           | S k' => match parse_node f l with
                                     | Some (c, r) => match pc k' r with
                                                      | Some (cs, r') => Some (c :: cs, r')
                                                      | None => None
                                                      end
                                     | None => None
                                     end
                           end) (N.to_nat nc) r4 with
                  | Some (c, r5) => Some (Elem t a c x, r5)
                  | None => None
                  end
              | _ => None
              end
          | _ => None
          end
      | _ => None
      end
  end.

Definition parse_tree (l : list N) : option node :=
  match parse_node (S (length l)) l with
  | Some (n, []) => Some n
  | _ => None
  end.

Definition enc_attr (av : attr) : list N := fst av :: N.of_nat (length (snd av)) :: snd av.

Fixpoint enc_node (n : node) : list N :=
  match n with
  | Elem t a c x =>
      t :: N.of_nat (length a) :: flat_map enc_attr a
        ++ N.of_nat (length x) :: x
        ++ N.of_nat (length c) :: (fix go (l : list node) : list N :=
                                     match l with [] => [] | m :: l' => enc_node m ++ go l' end) c
  end.

Fixpoint parse_steps (fuel : nat) (l : list N) : option (list step) :=
  match fuel with
  | O => None
  | S f =>
      match l with
      | [] => Some []
      | 0%N :: r => match parse_steps f r with Some s => Some (Read :: s) | None => None end
      | 4%N :: r => match parse_steps f r with Some s => Some (Save :: s) | None => None end
      | 1%N :: pl :: r =>
          match take_n (N.to_nat pl) r with
          | Some (p, x :: sl :: r1) =>
              match take_n (N.to_nat sl) r1 with
              | Some (Sx, r2) =>
                  match parse_steps f r2 with
                  | Some s => Some (GoA 0 (map N.to_nat p) x Sx :: s)
                  | None => None
                  end
              | None => None
              end
          | _ => None
          end
      | 2%N :: pl :: r =>
          match take_n (N.to_nat pl) r with
          | Some (p, i :: x :: r1) =>
              match parse_steps f r1 with
              | Some s => Some (AddAt 0 (map N.to_nat p) (N.to_nat i) x :: s)
              | None => None
              end
          | _ => None
          end
      | _ => None
      end
  end.

Fixpoint node_eqb (a b : node) : bool :=
  match a, b with
  | Elem t1 a1 c1 x1, Elem t2 a2 c2 x2 =>
      N.eqb t1 t2
      && str_eqb (flat_map enc_attr a1) (flat_map enc_attr a2) && Nat.eqb (length a1) (length a2)
      && str_eqb x1 x2
      && (fix go (l1 l2 : list node) : bool :=
            match l1, l2 with
            | [], [] => true
            | m1 :: l1', m2 :: l2' => node_eqb m1 m2 && go l1' l2'
            | _, _ => false
            end) c1 c2
  end.

Definition op_strip : str := [115; 116; 114; 105; 112]%N.   (* strip *)
Definition op_sig : str := [115; 105; 103]%N.               (* sig *)
Definition op_run : str := [114; 117; 110]%N.               (* run *)

Definition tree_of_pkg (p : pkg) : node :=
  match p with (_, n) :: _ => n | [] => Elem 0%N [] [] [] end.

Definition run_c12 (args : list str) : str :=
  match args with
  | [op; cs; tr] =>
      match parse_tree tr with
      | None => w_badcase
      | Some t =>
          if str_eqb op op_strip then show_str (enc_node (strip cs t))
          else if str_eqb op op_sig then show_bool (significant cs t)
          else w_badcase
      end
  | [op; cs; tr; sts] =>
      if str_eqb op op_run then
        match parse_tree tr, parse_steps (S (length sts)) sts with
        | Some t, Some steps =>
            let s0 := {| st_pkg := [(1%N, t)]; st_saved := [] |} in
            let s := run steps s0 in
            let t' := tree_of_pkg (st_pkg s) in
            fields [show_str (enc_node t');
                    show_str (enc_node (strip cs t'));
                    show_bool (node_eqb (strip cs t') (strip cs t));
                    show_nat (length (st_saved s));
                    show_bool (forallb (fun q => node_eqb (strip cs (tree_of_pkg q)) (strip cs t)) (st_saved s))]
        | _, _ => w_badcase
        end
      else w_badcase
  | _ => w_badcase
  end.
