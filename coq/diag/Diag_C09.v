(** Diagnostics for C09: settable properties outside catalogue and oracle-only list; catalogue
    entries for which the model finds a refused assignment that changes the element (7002), and those after
    whose refusal the property's own getter raises (7004; 7003 = not recorded).
    No obligations here. *)
From V.lib Require Import Prelude PyFloat PyVal.
From V.model Require Import SimpleTypeLib Props PropCatalogue.
From V.gen Require Import GenC11 GenC09.
Eval vm_compute in (7001%N, uncovered).
Eval vm_compute in (7002%N, nonatomic_labels).
Eval vm_compute in (7003%N, unknown_breaking).
Eval vm_compute in (7004%N, breaking_labels).
