(** Runner entry point for the C05 correspondence: [run_c05 args], first field = operation.
      esc   <e> <s>              escaped text (code points)
      slot  <c> <e> <s>          one template slot: ok:<value> or broken
      slot0 <c> <e> <s>          the same slot read without libxml2's blank-text removal
                                 (differs from slot exactly when the heuristic dropped a chunk)
      multi <ce> <s> <ce> <s> .. a template with several slots, results joined by a bar
      table <c> <e>              decision table entry and its witness
    <c> is a (attribute in double quotes) or t (element text); <e> is 0 (no escaping),
    3 (not caller text), or a capital letter A..P = saxutils.escape with the dictionary whose
    entries are the bits of (letter - A): 8 quote, 4 TAB, 2 LF, 1 CR (A = plain escape,
    I = quote only, P = all four); 1 and 2 are kept as synonyms of A and I. *)
From V.lib Require Import Prelude Wire.
From V.model Require Import Escape.

Definition op_esc   : str := [101; 115; 99]%N.
Definition op_slot  : str := [115; 108; 111; 116]%N.
Definition op_slot0 : str := [115; 108; 111; 116; 48]%N.
Definition op_multi : str := [109; 117; 108; 116; 105]%N.
Definition op_table : str := [116; 97; 98; 108; 101]%N.
Definition w_broken : str := [98; 114; 111; 107; 101; 110]%N.

Definition parse_ctx (f : str) : option ctx :=
  match f with
  | [c] => if N.eqb c 97 then Some AttrDq else if N.eqb c 116 then Some Text else None
  | _ => None
  end.
Definition parse_esc_c (c : N) : option esc :=
  if N.eqb c 48 then Some EscNone else if N.eqb c 49 then Some EscSax
  else if N.eqb c 50 then Some EscSaxQuot else if N.eqb c 51 then Some NotText
  else if (N.leb 65 c && N.leb c 80)%bool then
    let b := (c - 65)%N in
    Some (EscSaxWith (N.testbit b 3) (N.testbit b 2) (N.testbit b 1) (N.testbit b 0))
  else None.
Definition parse_esc (f : str) : option esc :=
  match f with [c] => parse_esc_c c | _ => None end.

Definition show_slot (r : slot_result) : str :=
  match r with Got v => w_ok ++ show_str v | Broken => w_broken end.

Definition run_slot (cx : ctx) (e : esc) (s : str) : str := show_slot (lex_slot cx (apply_esc e s)).

(** the conformant reading of the same slot *)
Definition lex_slot_conf (cx : ctx) (payload : str) : slot_result :=
  match cx with
  | AttrDq => lex_slot AttrDq payload
  | Text => match lex_text_conf payload with OneText v => Got v | BrokenText => Broken end
  end.
Definition run_slot0 (cx : ctx) (e : esc) (s : str) : str := show_slot (lex_slot_conf cx (apply_esc e s)).

Fixpoint run_multi (l : list str) : option (list str) :=
  match l with
  | [] => Some []
  | [c; e] :: s :: r =>
      match parse_ctx [c], parse_esc_c e, run_multi r with
      | Some cx, Some ee, Some out => Some (run_slot cx ee s :: out)
      | _, _, _ => None
      end
  | _ => None
  end.

Definition run_c05 (args : list str) : str :=
  match args with
  | op :: rest =>
      if str_eqb op op_multi then
        match run_multi rest with Some out => fields out | None => w_badcase end
      else
      match rest with
      | [e; s] =>
          if str_eqb op op_esc then
            match parse_esc e with Some ee => show_str (apply_esc ee s) | None => w_badcase end
          else if str_eqb op op_table then
            match parse_ctx e, parse_esc s with
            | Some cx, Some ee => fields [show_bool (sink_ok cx ee); show_str (witness cx ee)]
            | _, _ => w_badcase
            end
          else w_badcase
      | [c; e; s] =>
          if str_eqb op op_slot then
            match parse_ctx c, parse_esc e with
            | Some cx, Some ee => run_slot cx ee s
            | _, _ => w_badcase
            end
          else if str_eqb op op_slot0 then
            match parse_ctx c, parse_esc e with
            | Some cx, Some ee => run_slot0 cx ee s
            | _, _ => w_badcase
            end
          else w_badcase
      | _ => w_badcase
      end
  | [] => w_badcase
  end.
