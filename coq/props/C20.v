(** C20 -- enumerations and the preset-shape table agree with the standard.
    Generic theorems about the BaseXmlEnum model (no data) + instance theorems over the
    tables regenerated from /repo on this run (gen/GenC20.v).  The domain is finite; the
    instance theorems quantify over every row of every table. *)
From V.lib Require Import Prelude Wire.
From V.model Require Import EnumLib.
From V.proofs Require Import EnumLib_proofs C20_instance.
From V.gen Require Import GenC20.

(** ** generic: the mapping mechanism *)

(** the empty string never maps to a member *)
Theorem C20_from_xml_empty : forall rows, from_xml rows [] = Err ValueErr.
Proof. exact from_xml_empty. Qed.
Print Assumptions C20_from_xml_empty.

(** what from_xml returns is a member of the class carrying exactly that token *)
Theorem C20_from_xml_sound : forall rows t m, from_xml rows t = Ok m ->
  In m (canonical rows) /\ m_xml m = Some t /\ t <> [] /\ has_xml m = true.
Proof. exact from_xml_sound. Qed.
Print Assumptions C20_from_xml_sound.

(** token -> member -> token is the identity on every table *)
Theorem C20_from_then_to : forall rows t m, from_xml rows t = Ok m -> to_xml rows (m_value m) = Ok t.
Proof. exact from_then_to. Qed.
Print Assumptions C20_from_then_to.

(** every row, alias or not, resolves to one member of the iteration order *)
Theorem C20_alias_resolution : forall rows m, In m rows ->
  In (canon_of rows m) (canonical rows) /\ m_value (canon_of rows m) = m_value m
  /\ lookup_value rows (m_value m) = Some (canon_of rows m).
Proof. exact canon_of_spec. Qed.
Print Assumptions C20_alias_resolution.

(** the decidable distinctness check is sound *)
Theorem C20_distinct_check_sound : forall rows, distinct_tokensb rows = true -> distinct_tokens rows.
Proof. exact distinct_tokensb_sound. Qed.
Print Assumptions C20_distinct_check_sound.

(** member -> token -> member is the identity when tokens are pairwise distinct *)
Theorem C20_round_trip : forall rows, distinct_tokens rows ->
  forall m, In m (canonical rows) -> has_xml m = true ->
  to_xml rows (m_value m) = Ok (token m) /\ from_xml rows (token m) = Ok m.
Proof. exact round_trip. Qed.
Print Assumptions C20_round_trip.

Theorem C20_round_trip_aliases : forall rows, distinct_tokens rows ->
  forall r, In r rows -> has_xml (canon_of rows r) = true ->
  to_xml rows (m_value r) = Ok (token (canon_of rows r))
  /\ from_xml rows (token (canon_of rows r)) = Ok (canon_of rows r).
Proof. exact round_trip_rows. Qed.
Print Assumptions C20_round_trip_aliases.

Theorem C20_to_xml_injective : forall rows, distinct_tokens rows ->
  forall a b t, In a (canonical rows) -> In b (canonical rows) ->
  to_xml rows (m_value a) = Ok t -> to_xml rows (m_value b) = Ok t -> a = b.
Proof. exact to_xml_injective. Qed.
Print Assumptions C20_to_xml_injective.

(** and distinctness is necessary: two members sharing a token cannot both come back *)
Theorem C20_shared_token_breaks_round_trip : forall rows a b,
  In a (canonical rows) -> In b (canonical rows) -> a <> b -> has_xml a = true ->
  m_xml a = m_xml b ->
  from_xml rows (token a) <> Ok a \/ from_xml rows (token b) <> Ok b.
Proof. exact shared_token_breaks_round_trip. Qed.
Print Assumptions C20_shared_token_breaks_round_trip.

(** ** instance: the tables of this tree *)

(** nothing the translator met was left unmodelled *)
Theorem C20_no_unmodelled : n_unmodelled = 0.
Proof. exact no_unmodelled. Qed.
Print Assumptions C20_no_unmodelled.

(** every row of every XML-mapped enumeration whose member has an XML value: the token
    is carried by no other member, to_xml gives it, from_xml gives the member back, and
    an alias row is written with the token of the member it resolves to *)
Theorem C20_bijective : forall e, In e enums -> forall m, In m (e_rows e) ->
  has_xml (canon_of (e_rows e) m) = true -> memN (m_id m) known_bij = false ->
  let rows := e_rows e in let c := canon_of rows m in
  In c (canonical rows) /\ m_value c = m_value m
  /\ (forall m', In m' (canonical rows) -> m_xml m' = m_xml c -> m' = c)
  /\ to_xml rows (m_value m) = Ok (token c)
  /\ from_xml rows (token c) = Ok c
  /\ m_xml m = m_xml c.
Proof. exact bijective. Qed.
Print Assumptions C20_bijective.

(** recorded findings are real: each excluded row fails the check *)
Theorem C20_bijective_known_refuted : forall e, In e enums -> forall m, In m (e_rows e) ->
  memN (m_id m) known_bij = true ->
  has_xml (canon_of (e_rows e) m) = true /\ bij_ok (e_rows e) m = false.
Proof. exact bij_known_refuted. Qed.
Print Assumptions C20_bijective_known_refuted.

(** ... and each is recorded as THIS failure: the token of an excluded row reads back as exactly the member the
    finding names (a change that makes the other member of the pair the one that is lost is a new violation) *)
Theorem C20_bijective_known_resolution : forall e, In e enums -> forall m, In m (e_rows e) ->
  memN (m_id m) known_bij = true ->
  exists j m', back_of known_back (m_id m) = Some j
    /\ from_xml (e_rows e) (token (canon_of (e_rows e) m)) = Ok m' /\ m_id m' = j.
Proof. exact known_back_resolution. Qed.
Print Assumptions C20_bijective_known_resolution.

(** every attribute use names an enumeration of the table, and every enumeration is used *)
Theorem C20_uses_resolve : forall u, In u uses ->
  exists e, In e enums /\ e_id e = u_enum u /\ enum_by_id enums (u_enum u) = Some e.
Proof. exact uses_resolve. Qed.
Print Assumptions C20_uses_resolve.

Theorem C20_every_enum_used : forall e, In e enums -> exists u, In u uses /\ u_enum u = e_id e.
Proof. exact every_enum_used. Qed.
Print Assumptions C20_every_enum_used.

(** every token belongs to the schema enumeration of the simple type of each attribute
    that uses the enumeration (or that type is not an enumeration at all) *)
Theorem C20_tokens_in_schema : forall u, In u uses -> forall e, enum_by_id enums (u_enum u) = Some e ->
  forall m, In m (canonical (e_rows e)) -> has_xml m = true ->
  memNN (u_id u, m_id m) known_tok = false ->
  token_in_P stypes (u_stype u) (token m).
Proof. exact tokens_in_schema. Qed.
Print Assumptions C20_tokens_in_schema.

Theorem C20_tokens_known_refuted : forall u, In u uses -> forall m, In m (use_rows enums u) ->
  memNN (u_id u, m_id m) known_tok = true ->
  has_xml m = true /\ token_in stypes (u_stype u) (token m) = false.
Proof. exact tok_known_refuted. Qed.
Print Assumptions C20_tokens_known_refuted.

(** for every auto-shape type: the table has a row, the prst token names a definition of
    presetShapeDefinitions.xml, and names, order and defaults of the adjustments equal the
    definition's avLst (each formula being val N) *)
Theorem C20_presets : forall m, In m (canonical shape_rows) -> memN (m_id m) known_presets = false ->
  exists sp d, find_spec spec_table (m_value m) = Some sp /\ sp_value sp = m_value m
    /\ find_def preset_defs (token m) = Some d /\ In d preset_defs /\ pd_name d = token m
    /\ has_xml m = true
    /\ map fst (sp_av sp) = map fst (pd_av d)
    /\ map (fun p => Some (snd p)) (sp_av sp) = map (fun p => parse_val (snd p)) (pd_av d).
Proof. exact presets. Qed.
Print Assumptions C20_presets.

Theorem C20_presets_known_refuted : forall m, In m (canonical shape_rows) ->
  memN (m_id m) known_presets = true -> preset_ok spec_table preset_defs m = false.
Proof. exact presets_known_refuted. Qed.
Print Assumptions C20_presets_known_refuted.

Theorem C20_spec_keys_are_members : forall sp, In sp spec_table ->
  exists m, In m (canonical shape_rows) /\ m_value m = sp_value sp.
Proof. exact spec_keys_are_members. Qed.
Print Assumptions C20_spec_keys_are_members.

(** a new shape of a passing type reads back (model of AdjustmentCollection) with exactly
    the definition's adjustments, none of them overridden *)
Theorem C20_preset_read_back : forall m, In m (canonical shape_rows) ->
  memN (m_id m) known_presets = false -> memN (m_id m) known_bij = false -> has_xml m = true ->
  exists d l, find_def preset_defs (token m) = Some d
    /\ init_adjustments shape_rows spec_table (token m) [] = Ok l
    /\ map a_name l = map fst (pd_av d)
    /\ map (fun a => Some (a_def a)) l = map (fun p => parse_val (snd p)) (pd_av d)
    /\ forall a, In a l -> a_actual a = None.
Proof. exact preset_read_back. Qed.
Print Assumptions C20_preset_read_back.

(** chart types: the members have pairwise different values; every type the writer
    dispatches is a member, every enumerated attribute value its writer emitted belongs to
    the schema enumeration of that attribute, and PlotTypeInspector reports the written type *)
Theorem C20_chart_values_distinct : NoDup (map snd chart_types).
Proof. exact chart_values_distinct. Qed.
Print Assumptions C20_chart_values_distinct.

Theorem C20_chart_types : forall r, In r chart_rows -> memN (c_id r) known_charts = false ->
  In (c_value r) (map snd chart_types)
  /\ (forall p, In p (c_tokens r) -> token_in_P stypes (fst p) (snd p))
  /\ c_inspected r = Some (c_value r).
Proof. exact charts. Qed.
Print Assumptions C20_chart_types.

Theorem C20_chart_types_known_refuted : forall r, In r chart_rows -> memN (c_id r) known_charts = true ->
  chart_ok stypes chart_types r = false.
Proof. exact charts_known_refuted. Qed.
Print Assumptions C20_chart_types_known_refuted.

Theorem C20_dispatch_is_table : forall v w, writer_dispatch chart_rows v = Ok w ->
  exists r, In r chart_rows /\ c_value r = v /\ c_writer r = w.
Proof. exact dispatch_is_table. Qed.
Print Assumptions C20_dispatch_is_table.

(** ** non-vacuity *)

(** a table with an alias row, an empty and a missing XML value meets the hypotheses of
    the generic theorems; adding a second member with the token of another breaks them *)
Example C20_nonvacuous_generic :
  distinct_tokensb toy = true /\ distinct_tokensb toy_bad = false
  /\ length (canonical toy) = 4%nat
  /\ forallb (bij_row_ok toy) toy = true
  /\ map (bij_row_ok toy_bad) toy_bad = [true; false; true; true; true; false].
Proof. vm_compute. auto. Qed.

(** the generated tables are not empty: there are enumerations with XML-valued members,
    attribute uses, auto-shape types with adjustments, and dispatched chart types *)
Example C20_nonvacuous_instance :
  existsb (fun e => existsb has_xml (e_rows e)) enums = true
  /\ negb (Nat.eqb (length uses) 0) = true
  /\ existsb (fun m => match find_spec spec_table (m_value m) with
                       | Some sp => negb (Nat.eqb (length (sp_av sp)) 0) | None => false end)
             (canonical shape_rows) = true
  /\ negb (Nat.eqb (length chart_rows) 0) = true
  /\ existsb (fun r => negb (Nat.eqb (length (c_tokens r)) 0)) chart_rows = true.
Proof. vm_compute. auto. Qed.
