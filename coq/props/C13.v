(** C13: a new slide mirrors its layout's placeholders and inherits their geometry.
    Statements only; every proof is [exact] of a lemma of proofs/Placeholder_proofs.v.
    All statements are about model/Placeholder.v, generic in the literal tables [c : cfg]
    and instantiated on the tables regenerated from /repo ([gen_cfg], gen/GenC13.v).
    [d] ranges over ALL deck states, so every statement holds after any history of
    operations; C13_history_order speaks about histories explicitly.

    The last section (C13_pkg_...) is about model/PlaceholderPkg.v: WHICH part every entry of the
    slide list designates (object identity vs part name, the relationship table of the presentation
    part, p:sldIdLst), over histories of additions, edits, deletions and saving / re-opening. *)
From V.lib Require Import Prelude.
From V.gen Require Import GenC13.
From V.model Require Import Placeholder PlaceholderPkg.
From V.model Require Ids PkgOps.
From V.proofs Require Import Placeholder_proofs PlaceholderPkg_proofs.
From Coq Require Import Permutation Sorted.

(** ** the translator understood everything; the generated tables are well-formed *)
Theorem C13_no_unmodelled : n_unmodelled = 0%nat.
Proof. exact no_unmodelled. Qed.
Print Assumptions C13_no_unmodelled.

Theorem C13_gen_sane : gen_sane = true.
Proof. exact gen_sane_ok. Qed.
Print Assumptions C13_gen_sane.

(** ** _next_ph_name *)
Theorem C13_name_fresh : forall tbl t id o names nm,
  next_ph_name tbl t id o names = Ok nm -> ~ In nm names.
Proof. exact next_ph_name_fresh. Qed.
Print Assumptions C13_name_fresh.

Theorem C13_name_fuel_sufficient : forall base n names,
  next_num (S (length names)) base n names <> None.
Proof. exact next_num_fuel. Qed.
Print Assumptions C13_name_fuel_sufficient.

Theorem C13_name_total : forall tbl t id o names,
  has_key t tbl = true -> exists nm, next_ph_name tbl t id o names = Ok nm.
Proof. exact next_ph_name_total. Qed.
Print Assumptions C13_name_total.

Theorem C13_name_keyerr_only : forall tbl t id o names e,
  next_ph_name tbl t id o names = Err e -> e = KeyErr /\ has_key t tbl = false.
Proof. exact next_ph_name_err. Qed.
Print Assumptions C13_name_keyerr_only.

Theorem C13_name_least : forall tbl t id o names nm,
  next_ph_name tbl t id o names = Ok nm ->
  exists b k, assoc t tbl = Some b /\
    nm = cand (if N.eqb o orient_vert then vertical_prefix ++ b else b) k /\
    (id - numpart_offset <= k)%N /\
    forall j, (id - numpart_offset <= j < k)%N ->
      In (cand (if N.eqb o orient_vert then vertical_prefix ++ b else b) j) names.
Proof. exact next_ph_name_shape. Qed.
Print Assumptions C13_name_least.

Example C13_name_example :
  next_ph_name basename_slide 1%N 2%N orient_vert
    [[]; vertical_prefix ++ [84; 105; 116; 108; 101; 32; 49]%N; [84; 105; 116; 108; 101; 32; 49]%N;
     vertical_prefix ++ [84; 105; 116; 108; 101; 32; 50]%N]
  = Ok (vertical_prefix ++ [84; 105; 116; 108; 101; 32; 51]%N).
Proof. vm_compute. reflexivity. Qed.

(** clone_placeholder on ANY tree (also a slide that was edited since): one shape appended, same
    key, a name and an id used nowhere in the part; it fails only for a type without base name *)
Theorem C13_clone_placeholder : forall c k t p t',
  clone_placeholder c k t p = Ok t' ->
  exists s, t' = t ++ [s] /\ cloned c p s /\
            ~ In (s_name s) (tree_names k t) /\ ~ In (s_id s) (tree_ids k t) /\
            s_id s = (max_id k t + 1)%N /\ has_key (ph_type p) (base_table c k) = true.
Proof. exact clone_placeholder_ok. Qed.
Print Assumptions C13_clone_placeholder.

Theorem C13_clone_placeholder_err : forall c k t p e,
  clone_placeholder c k t p = Err e -> e = KeyErr /\ has_key (ph_type p) (base_table c k) = false.
Proof. exact clone_placeholder_err. Qed.
Print Assumptions C13_clone_placeholder_err.

Example C13_clone_example :
  exists t', clone_placeholder gen_cfg KSlide
    [mk_shape 2%N [84; 105; 116; 108; 101; 32; 51]%N None None None true;
     mk_shape 4%N [84; 105; 116; 108; 101; 32; 52]%N None None None true;
     mk_shape 3%N [84; 105; 116; 108; 101; 32; 53]%N None None None true]
    (mk_ph (Some 3%N) None None None) = Ok t' /\
  map s_name t' = [[84; 105; 116; 108; 101; 32; 51]; [84; 105; 116; 108; 101; 32; 52];
                   [84; 105; 116; 108; 101; 32; 53]; [84; 105; 116; 108; 101; 32; 54]]%N /\
  map s_id t' = [2; 4; 3; 5]%N.
Proof. eexists. vm_compute. repeat split; reflexivity. Qed.

(** ** mirror: one placeholder per non-latent layout placeholder, same key, same order,
       nothing else on the slide, names (and ids) unique, no own geometry, txBody by table *)
Theorem C13_mirror : forall c d l d',
  add_slide c d l = (d', Ok tt) ->
  exists L s, nth_error (d_layouts d) l = Some L /\ d_slides d' = d_slides d ++ [s] /\
    let src := filter (fun x => negb (has_type (c_latent c) x)) (placeholders (l_shapes L)) in
    map key (phs (sl_shapes s)) = map key (phs src) /\
    forallb is_ph (sl_shapes s) = true /\
    length (sl_shapes s) = length src /\
    NoDup (map s_name (sl_shapes s)) /\ NoDup (map s_id (sl_shapes s)) /\
    Forall (fun sp => s_off sp = None /\ s_ext sp = None) (sl_shapes s) /\
    Forall2 (fun lp sp => s_txbody sp = memN (sh_type lp) (c_txbody c)) src (sl_shapes s).
Proof. exact mirror. Qed.
Print Assumptions C13_mirror.

(** the exact guard: add_slide succeeds iff the layout exists and every cloneable
    placeholder type has a base name *)
Theorem C13_add_slide_ok_iff : forall c d l,
  (exists d', add_slide c d l = (d', Ok tt)) <->
  exists L, nth_error (d_layouts d) l = Some L /\
    Forall (fun p => has_key (ph_type p) (c_base_slide c) = true) (phs (cloneable c (l_shapes L))).
Proof. exact add_slide_ok_iff. Qed.
Print Assumptions C13_add_slide_ok_iff.

Theorem C13_add_slide_total_gen : forall d l L,
  nth_error (d_layouts d) l = Some L ->
  Forall (fun p => In (ph_type p) all_ph_types /\ ~ In (ph_type p) py_missing_basename_slide)
         (phs (cloneable gen_cfg (l_shapes L))) ->
  exists d', add_slide gen_cfg d l = (d', Ok tt).
Proof. exact gen_add_slide_total. Qed.
Print Assumptions C13_add_slide_total_gen.

(** what a failing add_slide does *)
Theorem C13_add_slide_err : forall c d l d' e,
  add_slide c d l = (d', Err e) ->
  (e = IndexErr /\ nth_error (d_layouts d) l = None /\ d' = d) \/
  (e = KeyErr /\ exists L s pre p post,
     nth_error (d_layouts d) l = Some L /\
     d' = set_orphans d (d_orphans d ++ [((N.of_nat (length (d_slides d)) + 1)%N, s)]) /\
     sl_layout s = l /\
     phs (cloneable c (l_shapes L)) = pre ++ p :: post /\
     has_key (ph_type p) (c_base_slide c) = false /\
     Forall2 (cloned c) pre (sl_shapes s)).
Proof. exact add_slide_err. Qed.
Print Assumptions C13_add_slide_err.

Example C13_mirror_example :
  exists d' s, add_slide gen_cfg ex_deck 0 = (d', Ok tt) /\ d_slides d' = [mk_slide 0 [] None; s] /\
    map key (phs (sl_shapes s)) = [(1, 0, 0, 0); (2, 1, 1, 1); (7, 1, 0, 0); (2, 4294967295, 0, 2)]%N /\
    map s_id (sl_shapes s) = [2; 3; 4; 5]%N /\
    map s_txbody (sl_shapes s) = [true; true; true; true].
Proof. eexists; eexists. vm_compute. repeat split; reflexivity. Qed.

(** ** inherited geometry *)
Theorem C13_inherit : forall c d l d',
  add_slide c d l = (d', Ok tt) ->
  exists L s, nth_error (d_layouts d) l = Some L /\ d_slides d' = d_slides d ++ [s] /\
    Forall2 (fun lp sp => forall a,
               slide_geom c d' s a sp =
               layout_eff c a (master_tree d l) (first_with_idx (l_shapes L) lp))
            (cloneable c (l_shapes L)) (sl_shapes s).
Proof. exact add_slide_inherit. Qed.
Print Assumptions C13_inherit.

(** which layout placeholder that is: the first one with the idx of the counterpart ... *)
Theorem C13_first_with_idx : forall Ls lp,
  In lp Ls -> is_ph lp = true ->
  exists pre post, Ls = pre ++ first_with_idx Ls lp :: post /\
    is_ph (first_with_idx Ls lp) = true /\ sh_idx (first_with_idx Ls lp) = sh_idx lp /\
    forall y, In y pre -> is_ph y = true -> sh_idx y <> sh_idx lp.
Proof. exact first_with_idx_spec. Qed.
Print Assumptions C13_first_with_idx.

(** ... hence the counterpart itself when idx values are unique in the layout *)
Theorem C13_inherit_unique_idx : forall Ls lp,
  NoDup (map sh_idx (placeholders Ls)) -> In lp Ls -> is_ph lp = true ->
  first_with_idx Ls lp = lp.
Proof. exact first_with_idx_unique. Qed.
Print Assumptions C13_inherit_unique_idx.

Example C13_unique_idx_example :
  let Ls := [mk_shape 2%N [] (Some (mk_ph (Some 1%N) None None None)) None None true;
             mk_shape 3%N [] None None None true;
             mk_shape 4%N [] (Some (mk_ph (Some 2%N) (Some 1%N) None None)) None None true] in
  NoDup (map sh_idx (placeholders Ls)) /\ Sorted idx_le (placeholders Ls) /\
  first_with_idx Ls (mk_shape 4%N [] (Some (mk_ph (Some 2%N) (Some 1%N) None None)) None None true)
  = mk_shape 4%N [] (Some (mk_ph (Some 2%N) (Some 1%N) None None)) None None true.
Proof.
  cbn. split; [repeat constructor; cbn; intuition discriminate|].
  split; [repeat constructor; vm_compute; discriminate | reflexivity].
Qed.

(** with duplicate idx values the statement (geometry of the counterpart) is refuted *)
Theorem C13_inherit_dup_idx_refuted :
  exists d' L s lp sp,
    add_slide gen_cfg dup_deck 0 = (d', Ok tt) /\ nth_error (d_layouts dup_deck) 0 = Some L /\
    d_slides d' = [s] /\
    nth_error (cloneable gen_cfg (l_shapes L)) 1 = Some lp /\ nth_error (sl_shapes s) 1 = Some sp /\
    clone_of gen_cfg lp sp /\
    slide_geom gen_cfg d' s ALeft sp = Ok (Some 10%Z) /\
    layout_eff gen_cfg ALeft (master_tree dup_deck 0) lp = Ok (Some 50%Z).
Proof. exact inherit_dup_idx_refuted. Qed.
Print Assumptions C13_inherit_dup_idx_refuted.

(** the layout placeholder's effective value: own, else the master placeholder of the mapped
    type (first of that type), else None; KeyError exactly when it has no own value and its
    type has no entry in the map *)
Theorem C13_layout_eff_own : forall c a M lp v,
  own a lp = Some v -> layout_eff c a M lp = Ok (Some v).
Proof. exact layout_eff_own. Qed.
Print Assumptions C13_layout_eff_own.

Theorem C13_layout_eff_master : forall c a M lp p bt,
  own a lp = None -> s_ph lp = Some p -> assoc (ph_type p) (c_lmmap c) = Some bt ->
  layout_eff c a M lp = Ok (match master_get M bt with Some mp => own a mp | None => None end).
Proof. exact layout_eff_master. Qed.
Print Assumptions C13_layout_eff_master.

Theorem C13_layout_eff_err : forall c a M lp e,
  layout_eff c a M lp = Err e ->
  e = KeyErr /\ own a lp = None /\
  exists p, s_ph lp = Some p /\ has_key (ph_type p) (c_lmmap c) = false.
Proof. exact layout_eff_err. Qed.
Print Assumptions C13_layout_eff_err.

(** live inheritance in any deck state, until set *)
Theorem C13_inherit_live : forall c a M Ls sp p,
  s_ph sp = Some p -> own a sp = None ->
  slide_eff c a M Ls sp =
  match layout_get Ls (ph_idx p) with Some lp => layout_eff c a M lp | None => Ok None end.
Proof. exact slide_eff_unset. Qed.
Print Assumptions C13_inherit_live.

(** ELEMENT-LEVEL assignment [set_attr] (BaseShapeElement x / y / cx / cy).  It is the whole setter of
    shapes that are not placeholders and of master and notes-master placeholders (MasterPlaceholder),
    see C13_step_set_masters, and the building block of the placeholder setter [set_dim] below.
    After a successful set the shape reports its own value; the dimensions of the other
    pair are untouched; the partner of the same pair (top for left, ...) becomes an own value
    too: its previous own value, or 0 when the a:off / a:ext had to be created *)
Theorem C13_set_own : forall c a v M Ls s s',
  set_attr a v s = (s', Ok tt) ->
  slide_eff c a M Ls s' = Ok (Some v) /\ s_ph s' = s_ph s /\ s_name s' = s_name s /\
  (forall b, same_pair a b = false -> own b s' = own b s) /\
  (forall b, same_pair a b = true -> b <> a ->
     own b s' = Some (match own b s with Some x => x | None => 0%Z end)).
Proof. exact set_own. Qed.
Print Assumptions C13_set_own.

(** a refused value (outside ST_Coordinate / ST_PositiveCoordinate) raises ValueError and leaves
    the shape exactly as it was: an inheriting placeholder keeps inheriting *)
Theorem C13_set_rejected : forall a v s s' e,
  set_attr a v s = (s', Err e) ->
  e = ValueErr /\ coord_ok a v = false /\ s' = s.
Proof. exact set_attr_err. Qed.
Print Assumptions C13_set_rejected.

Theorem C13_set_rejected_iff : forall a v s,
  coord_ok a v = false -> set_attr a v s = (s, Err ValueErr).
Proof. exact set_attr_rejected. Qed.
Print Assumptions C13_set_rejected_iff.

Example C13_inherit_example :
  exists d' s, add_slide gen_cfg ex_deck 0 = (d', Ok tt) /\ nth_error (d_slides d') 1 = Some s /\
    map (fun sp => (slide_geom gen_cfg d' s ALeft sp, slide_geom gen_cfg d' s AWidth sp)) (sl_shapes s) =
      [(Ok (Some 1), Ok (Some 3)); (Ok (Some 11), Ok (Some 13)); (Ok (Some 11), Ok (Some 13)); (Ok (Some 11), Ok (Some 13))]%Z.
Proof. eexists; eexists. vm_compute. repeat split; reflexivity. Qed.

Example C13_set_example :
  let s := mk_shape 2%N [] (Some (mk_ph None None None None)) None None true in
  fst (set_attr ALeft 5%Z s) = mk_shape 2%N [] (Some (mk_ph None None None None)) (Some (5, 0)%Z) None true /\
  set_attr AWidth (-1)%Z s = (s, Err ValueErr) /\
  set_attr ALeft 27273042316901%Z s = (s, Err ValueErr).
Proof. vm_compute. repeat split; reflexivity. Qed.

(** regression (repo fix: a refused left / top / width / height made an inheriting shape read 0):
    after a refused width and a refused top the placeholder of a new slide has no a:off / a:ext
    and still reports the inherited width and top (the assignments go through [set_dim]: the
    inherited lookups succeed, then the value is refused before anything is written) *)
Example C13_set_rejected_regression :
  let d := final gen_cfg ex_deck [AddSlide 0; Edit (TSlide 1 1) (ESet AWidth (-1)%Z); Edit (TSlide 1 1) (ESet ATop (2 ^ 70)%Z)] in
  exists s sp, nth_error (d_slides d) 1 = Some s /\ nth_error (sl_shapes s) 1 = Some sp /\
    s_off sp = None /\ s_ext sp = None /\
    slide_geom gen_cfg d s AWidth sp = Ok (Some 13%Z) /\ slide_geom gen_cfg d s ATop sp = Ok (Some 12%Z) /\
    snd (run_ops gen_cfg ex_deck [AddSlide 0; Edit (TSlide 1 1) (ESet AWidth (-1)%Z)]) = [Ok tt; Err ValueErr].
Proof. do 2 eexists. vm_compute. repeat split; reflexivity. Qed.

(** ** assignment to a placeholder that inherits: _InheritsDimensions._set_dimension = [set_dim]
       (repo fix: the first position or size assigned to a placeholder zeroed the other three).
       [inh] is the proxy's _inherited_value; [eff_with inh] what it reports. *)

(** which setter each tree uses: slide, notes-slide and layout shapes with p:ph go through
    [set_dim] with their own inherited-value function, everything else is the element setter *)
Theorem C13_step_set_slide : forall c d s i a v sl sh,
  nth_error (d_slides d) s = Some sl -> nth_error (sl_shapes sl) i = Some sh ->
  step c d (Edit (TSlide s i) (ESet a v)) =
  let '(sh', r) :=
    if is_ph sh
    then set_dim (fun b => slide_inh c b (master_tree d (sl_layout sl)) (layout_tree d (sl_layout sl)) sh) a v sh
    else set_attr a v sh in
  (set_slides d (upd_nth s (fun x => mk_slide (sl_layout x) (upd_nth i (fun _ => sh') (sl_shapes sl)) (sl_notes x))
                         (d_slides d)), r).
Proof. exact step_set_slide. Qed.
Print Assumptions C13_step_set_slide.

Theorem C13_step_set_notes : forall c d s i a v sl nt sh,
  nth_error (d_slides d) s = Some sl -> sl_notes sl = Some nt -> nth_error nt i = Some sh ->
  step c d (Edit (TNotes s i) (ESet a v)) =
  let '(sh', r) :=
    if is_ph sh then set_dim (fun b => Ok (notes_inh b (the_notes_master d) sh)) a v sh else set_attr a v sh in
  (set_slides d (upd_nth s (fun x => mk_slide (sl_layout x) (sl_shapes x) (Some (upd_nth i (fun _ => sh') nt)))
                         (d_slides d)), r).
Proof. exact step_set_notes. Qed.
Print Assumptions C13_step_set_notes.

Theorem C13_step_set_layout : forall c d l i a v L sh,
  nth_error (d_layouts d) l = Some L -> nth_error (l_shapes L) i = Some sh ->
  step c d (Edit (TLayout l i) (ESet a v)) =
  let '(sh', r) :=
    if is_ph sh then set_dim (fun b => layout_inh c b (nth (l_master L) (d_masters d) []) sh) a v sh
    else set_attr a v sh in
  (set_layouts d (upd_nth l (fun x => mk_layout (l_master x) (upd_nth i (fun _ => sh') (l_shapes L))) (d_layouts d)), r).
Proof. exact step_set_layout. Qed.
Print Assumptions C13_step_set_layout.

Theorem C13_step_set_masters : forall c d a v,
  (forall m i M sh, nth_error (d_masters d) m = Some M -> nth_error M i = Some sh ->
     step c d (Edit (TMaster m i) (ESet a v)) =
     (set_masters d (upd_nth m (fun _ => upd_nth i (fun _ => fst (set_attr a v sh)) M) (d_masters d)),
      snd (set_attr a v sh))) /\
  (forall i sh, nth_error (the_notes_master d) i = Some sh ->
     step c d (Edit (TNotesMaster i) (ESet a v)) =
     (set_notes_master (ensure_notes_master d)
        (Some (upd_nth i (fun _ => fst (set_attr a v sh)) (the_notes_master d))),
      snd (set_attr a v sh))).
Proof. exact step_set_masters. Qed.
Print Assumptions C13_step_set_masters.

(** the exact guard: the assignment goes through iff the value is in range and, for every OTHER
    dimension without own value, the inherited lookup does not raise and yields None or a value
    in range *)
Theorem C13_set_dim_accepted_iff : forall inh a v s,
  (exists s', set_dim inh a v s = (s', Ok tt)) <-> dim_guard inh a v s.
Proof. exact set_dim_ok_iff. Qed.
Print Assumptions C13_set_dim_accepted_iff.

(** the whole state after an accepted assignment: the assigned dimension holds v; p:ph, id, name
    and txBody are untouched; every other dimension keeps its own value, else takes the inherited
    value, else (nothing inherited) becomes an own 0 exactly when its partner was written (the
    a:off / a:ext had to be created) and stays absent otherwise *)
Theorem C13_set_dim_state : forall inh a v s s',
  set_dim inh a v s = (s', Ok tt) ->
  dim_guard inh a v s /\ own a s' = Some v /\
  s_ph s' = s_ph s /\ s_id s' = s_id s /\ s_name s' = s_name s /\ s_txbody s' = s_txbody s /\
  (forall b, b <> a ->
     own b s' =
     match own b s with
     | Some x => Some x
     | None =>
         match inh b with
         | Ok (Some w) => Some w
         | _ => if attr_eqb (partner b) a then Some 0%Z
                else match inh (partner b) with Ok (Some _) => Some 0%Z | _ => None end
         end
     end).
Proof. exact set_dim_ok. Qed.
Print Assumptions C13_set_dim_state.

(** the same in terms of what the placeholder REPORTS: the assigned dimension reports v; none of
    the others was raising; each of the others that reported a value reports exactly that value;
    one that reported None (nothing to inherit) reports 0 exactly when its partner is the assigned
    dimension or reported a value, None otherwise *)
Theorem C13_set_dim_eff : forall inh a v s s',
  set_dim inh a v s = (s', Ok tt) ->
  eff_with inh a s' = Ok (Some v) /\
  (forall b, b <> a -> exists w, eff_with inh b s = Ok w) /\
  (forall b x, b <> a -> eff_with inh b s = Ok (Some x) -> eff_with inh b s' = Ok (Some x)) /\
  (forall b, b <> a -> eff_with inh b s = Ok None ->
     eff_with inh b s' =
     Ok (if attr_eqb (partner b) a then Some 0%Z
         else match eff_with inh (partner b) s with Ok (Some _) => Some 0%Z | _ => None end)).
Proof. exact set_dim_eff. Qed.
Print Assumptions C13_set_dim_eff.

(** every failure: (1) an inherited lookup raises - that exception, nothing written, whatever the
    value; (2) the value is refused - ValueError, nothing written; (3) an inherited value is refused
    by the element setter - ValueError, and the state is the one after the assigned dimension and
    the inherited values that precede the refused one in dict order were written *)
Theorem C13_set_dim_err : forall inh a v s s' e,
  set_dim inh a v s = (s', Err e) ->
  (s' = s /\ exists b, b <> a /\ own b s = None /\ inh b = Err e) \/
  (s' = s /\ e = ValueErr /\ coord_ok a v = false /\
   forall b, b <> a -> own b s = None -> exists w, inh b = Ok w) \/
  (e = ValueErr /\ coord_ok a v = true /\
   exists pre b w post,
     collect_inh inh a s dim_order = Ok (pre ++ (b, Some w) :: post) /\
     b <> a /\ own b s = None /\ inh b = Ok (Some w) /\ coord_ok b w = false /\
     apply_inh pre (put a v s) = (s', Ok tt) /\ own a s' = Some v /\
     s_ph s' = s_ph s /\ s_id s' = s_id s /\ s_name s' = s_name s /\ s_txbody s' = s_txbody s).
Proof. exact set_dim_err. Qed.
Print Assumptions C13_set_dim_err.

Theorem C13_set_dim_lookup_raises : forall inh a v s b e,
  b <> a -> own b s = None -> inh b = Err e ->
  exists b' e', set_dim inh a v s = (s, Err e') /\ b' <> a /\ own b' s = None /\ inh b' = Err e'.
Proof. exact set_dim_lookup_raises. Qed.
Print Assumptions C13_set_dim_lookup_raises.

Theorem C13_set_dim_refused : forall inh a v s,
  coord_ok a v = false ->
  (forall b, b <> a -> own b s = None -> exists w, inh b = Ok w) ->
  set_dim inh a v s = (s, Err ValueErr).
Proof. exact set_dim_refused. Qed.
Print Assumptions C13_set_dim_refused.

(** the three proxies.  Slide placeholder (inherits the EFFECTIVE value of the first layout
    placeholder with its idx): *)
Theorem C13_slide_set_keeps : forall c M L a v s s',
  set_dim (fun b => slide_inh c b M L s) a v s = (s', Ok tt) ->
  slide_eff c a M L s' = Ok (Some v) /\
  s_ph s' = s_ph s /\ s_id s' = s_id s /\ s_name s' = s_name s /\ s_txbody s' = s_txbody s /\
  (forall b, b <> a -> exists w, slide_eff c b M L s = Ok w) /\
  (forall b x, b <> a -> slide_eff c b M L s = Ok (Some x) -> slide_eff c b M L s' = Ok (Some x)) /\
  (forall b, b <> a -> slide_eff c b M L s = Ok None ->
     slide_eff c b M L s' =
     Ok (if attr_eqb (partner b) a then Some 0%Z
         else match slide_eff c (partner b) M L s with Ok (Some _) => Some 0%Z | _ => None end)).
Proof. exact slide_set_keeps. Qed.
Print Assumptions C13_slide_set_keeps.

(** layout placeholder (inherits the own value of the master placeholder of the mapped type): *)
Theorem C13_layout_set_keeps : forall c M a v s s',
  set_dim (fun b => layout_inh c b M s) a v s = (s', Ok tt) ->
  layout_eff c a M s' = Ok (Some v) /\
  s_ph s' = s_ph s /\ s_id s' = s_id s /\ s_name s' = s_name s /\ s_txbody s' = s_txbody s /\
  (forall b, b <> a -> exists w, layout_eff c b M s = Ok w) /\
  (forall b x, b <> a -> layout_eff c b M s = Ok (Some x) -> layout_eff c b M s' = Ok (Some x)) /\
  (forall b, b <> a -> layout_eff c b M s = Ok None ->
     layout_eff c b M s' =
     Ok (if attr_eqb (partner b) a then Some 0%Z
         else match layout_eff c (partner b) M s with Ok (Some _) => Some 0%Z | _ => None end)).
Proof. exact layout_set_keeps. Qed.
Print Assumptions C13_layout_set_keeps.

(** notes-slide placeholder (inherits the own value of the first notes-master placeholder of its
    type; that lookup never raises): *)
Theorem C13_notes_set_keeps : forall NM a v s s',
  set_dim (fun b => Ok (notes_inh b NM s)) a v s = (s', Ok tt) ->
  notes_eff a NM s' = Some v /\
  s_ph s' = s_ph s /\ s_id s' = s_id s /\ s_name s' = s_name s /\ s_txbody s' = s_txbody s /\
  (forall b x, b <> a -> notes_eff b NM s = Some x -> notes_eff b NM s' = Some x) /\
  (forall b, b <> a -> notes_eff b NM s = None ->
     notes_eff b NM s' =
     if attr_eqb (partner b) a then Some 0%Z
     else match notes_eff (partner b) NM s with Some _ => Some 0%Z | None => None end).
Proof. exact notes_set_keeps. Qed.
Print Assumptions C13_notes_set_keeps.

(** deck level: an accepted assignment to a placeholder of a slide changes what that one shape
    reports for that one dimension; its other dimensions report what they reported, its p:ph, id,
    name and txBody, the other shapes of the slide, the other slides, the layouts, the masters,
    the notes master and the orphans are what they were *)
Theorem C13_step_set_slide_geom : forall c d s i a v sl sh d',
  nth_error (d_slides d) s = Some sl -> nth_error (sl_shapes sl) i = Some sh -> is_ph sh = true ->
  step c d (Edit (TSlide s i) (ESet a v)) = (d', Ok tt) ->
  exists sl' sh',
    nth_error (d_slides d') s = Some sl' /\ nth_error (sl_shapes sl') i = Some sh' /\
    sl_layout sl' = sl_layout sl /\ sl_notes sl' = sl_notes sl /\
    length (sl_shapes sl') = length (sl_shapes sl) /\
    (forall j, j <> i -> nth_error (sl_shapes sl') j = nth_error (sl_shapes sl) j) /\
    length (d_slides d') = length (d_slides d) /\
    (forall t, t <> s -> nth_error (d_slides d') t = nth_error (d_slides d) t) /\
    d_layouts d' = d_layouts d /\ d_masters d' = d_masters d /\
    d_notes_master d' = d_notes_master d /\ d_orphans d' = d_orphans d /\
    s_ph sh' = s_ph sh /\ s_id sh' = s_id sh /\ s_name sh' = s_name sh /\ s_txbody sh' = s_txbody sh /\
    slide_geom c d' sl' a sh' = Ok (Some v) /\
    (forall b, b <> a -> exists w, slide_geom c d sl b sh = Ok w) /\
    (forall b x, b <> a -> slide_geom c d sl b sh = Ok (Some x) -> slide_geom c d' sl' b sh' = Ok (Some x)).
Proof. exact step_set_slide_geom. Qed.
Print Assumptions C13_step_set_slide_geom.

(** a refused value, or an inherited lookup that raises, leaves the whole deck exactly as it was *)
Theorem C13_step_set_slide_unchanged : forall c d s i a v sl sh,
  nth_error (d_slides d) s = Some sl -> nth_error (sl_shapes sl) i = Some sh -> is_ph sh = true ->
  coord_ok a v = false \/
  (exists b e, b <> a /\ own b sh = None /\
     slide_inh c b (master_tree d (sl_layout sl)) (layout_tree d (sl_layout sl)) sh = Err e) ->
  exists e, step c d (Edit (TSlide s i) (ESet a v)) = (d, Err e).
Proof. exact step_set_slide_unchanged. Qed.
Print Assumptions C13_step_set_slide_unchanged.

(** non-vacuity of the guard: a body placeholder with nothing of its own on a slide whose layout
    is ex_layout (counterpart with idx 1: empty) over a master whose body sits at 11 12 13 14;
    every assignment of an in-range value is accepted *)
Example C13_dim_guard_example :
  let sh := mk_shape 3%N [] (Some (mk_ph (Some 2%N) (Some 1%N) (Some 1%N) (Some 1%N))) None None true in
  let inh := fun b => slide_inh gen_cfg b (master_tree ex_deck 0) (layout_tree ex_deck 0) sh in
  dim_guard inh ALeft 5%Z sh /\ dim_guard inh AHeight 0%Z sh /\
  (exists s', set_dim inh ALeft 5%Z sh = (s', Ok tt)) /\ ~ dim_guard inh AWidth (-1)%Z sh.
Proof.
  assert (G : forall a v, coord_ok a v = true ->
    dim_guard (fun b => slide_inh gen_cfg b (master_tree ex_deck 0) (layout_tree ex_deck 0)
                 (mk_shape 3%N [] (Some (mk_ph (Some 2%N) (Some 1%N) (Some 1%N) (Some 1%N))) None None true)) a v
              (mk_shape 3%N [] (Some (mk_ph (Some 2%N) (Some 1%N) (Some 1%N) (Some 1%N))) None None true)).
  { intros a v Hv. split; [exact Hv|]. intros b _ _.
    destruct b; (eexists; split; [vm_compute; reflexivity|intros x Hx; inversion Hx; reflexivity]). }
  cbv zeta. split; [apply G; reflexivity|]. split; [apply G; reflexivity|].
  split; [apply set_dim_accepts; apply G; reflexivity|].
  intros [H _]. vm_compute in H. discriminate H.
Qed.

(** regression of the repo fix: the body placeholder of a slide added to ex_deck reports the
    master body's 11 12 13 14; its first assignment (left = 5) is accepted and top, width and
    height keep reporting 12, 13, 14 (now as own values) - before the fix they read 0, None, None *)
Example C13_set_dim_fix_regression :
  reported gen_cfg (final gen_cfg ex_deck [AddSlide 0]) 1 1 =
    Some (None, None, [Ok (Some 11); Ok (Some 12); Ok (Some 13); Ok (Some 14)])%Z /\
  snd (run_ops gen_cfg ex_deck [AddSlide 0; Edit (TSlide 1 1) (ESet ALeft 5%Z)]) = [Ok tt; Ok tt] /\
  reported gen_cfg (final gen_cfg ex_deck [AddSlide 0; Edit (TSlide 1 1) (ESet ALeft 5%Z)]) 1 1 =
    Some (Some (5, 12), Some (13, 14), [Ok (Some 5); Ok (Some 12); Ok (Some 13); Ok (Some 14)])%Z.
Proof. vm_compute. repeat split; reflexivity. Qed.

(** nothing to inherit (master title with a position but no size, layout title empty): after
    height = 9 the partner width reports an own 0, left and top keep reporting the master's 10 20;
    a later top = 7 on the LAYOUT placeholder (same setter, inheriting from the master) keeps its
    left at the master's 10 and leaves width and height absent *)
Example C13_set_dim_none_example :
  let ops := [AddSlide 0; Edit (TSlide 0 0) (ESet AHeight 9%Z); Edit (TLayout 0 0) (ESet ATop 7%Z)] in
  reported gen_cfg (final gen_cfg half_deck [AddSlide 0]) 0 0 =
    Some (None, None, [Ok (Some 10); Ok (Some 20); Ok None; Ok None])%Z /\
  reported gen_cfg (final gen_cfg half_deck ops) 0 0 =
    Some (Some (10, 20), Some (0, 9), [Ok (Some 10); Ok (Some 20); Ok (Some 0); Ok (Some 9)])%Z /\
  snd (run_ops gen_cfg half_deck ops) = [Ok tt; Ok tt; Ok tt] /\
  map (fun L => map (fun sh => (s_off sh, s_ext sh)) (l_shapes L)) (d_layouts (final gen_cfg half_deck ops)) =
    [[(Some (10, 7)%Z, None)]].
Proof. vm_compute. repeat split; reflexivity. Qed.

(** the lookups come before the validation: with a table that has no entry for the type (toy_cfg,
    type 3) the out-of-range width raises KeyError, not ValueError, and nothing is written *)
Example C13_set_dim_lookup_first_example :
  let ops := [AddSlide 0; Edit (TSlide 0 0) (ESet AWidth (-1)%Z)] in
  snd (run_ops toy_cfg (wit_deck 3) ops) = [Ok tt; Err KeyErr] /\
  final toy_cfg (wit_deck 3) ops = final toy_cfg (wit_deck 3) [AddSlide 0].
Proof. vm_compute. split; reflexivity. Qed.

(** third failure: the layout carries a negative width; left = 9 is written, the inherited top 2
    is written, the inherited width is refused - ValueError, height is not written; all four
    still report the layout's values except the assigned one *)
Example C13_set_dim_partial_example :
  let ops := [AddSlide 0; Edit (TSlide 0 0) (ESet ALeft 9%Z)] in
  snd (run_ops gen_cfg neg_deck ops) = [Ok tt; Err ValueErr] /\
  reported gen_cfg (final gen_cfg neg_deck ops) 0 0 =
    Some (Some (9, 2), None, [Ok (Some 9); Ok (Some 2); Ok (Some (-5)); Ok (Some 7)])%Z.
Proof. vm_compute. split; reflexivity. Qed.

(** a notes-slide placeholder keeps the notes master's position and width when its height is set;
    a MASTER placeholder has the plain setter: its first left makes top an own 0 *)
Example C13_set_dim_notes_master_example :
  (let d := final gen_cfg ex_deck [NotesSlide 0; Edit (TNotes 0 1) (ESet AHeight 42%Z)] in
   exists sl nt sh, nth_error (d_slides d) 0 = Some sl /\ sl_notes sl = Some nt /\ nth_error nt 1 = Some sh /\
     s_off sh = Some (685800, 4343400)%Z /\ s_ext sh = Some (5486400, 42)%Z /\
     map (fun a => notes_eff a (the_notes_master d) sh) [ALeft; ATop; AWidth; AHeight] =
       [Some 685800; Some 4343400; Some 5486400; Some 42]%Z) /\
  map (map (fun sh => (s_off sh, s_ext sh)))
      (d_masters (final gen_cfg ex_deck [Edit (TMaster 0 0) EClear; Edit (TMaster 0 0) (ESet ALeft 3%Z)])) =
    [[(Some (3, 0)%Z, None)]].
Proof. split; [do 3 eexists|]; vm_compute; repeat split; reflexivity. Qed.

(** ** the new slide is last, related to the layout; everything else is untouched *)
Theorem C13_last_and_frame : forall c d l d' r,
  add_slide c d l = (d', r) ->
  d_layouts d' = d_layouts d /\ d_masters d' = d_masters d /\ d_notes_master d' = d_notes_master d /\
  firstn (length (d_slides d)) (d_slides d') = d_slides d /\
  (forall e, r = Err e -> d_slides d' = d_slides d) /\
  (r = Ok tt -> d_orphans d' = d_orphans d /\ length (d_slides d') = S (length (d_slides d))).
Proof. exact add_slide_frame. Qed.
Print Assumptions C13_last_and_frame.

Theorem C13_new_slide_related : forall c d l d',
  add_slide c d l = (d', Ok tt) ->
  exists L s, nth_error (d_layouts d) l = Some L /\
    d' = set_slides d (d_slides d ++ [s]) /\ sl_layout s = l /\ sl_notes s = None /\
    Forall2 (clone_of c) (cloneable c (l_shapes L)) (sl_shapes s) /\
    NoDup (map s_name (sl_shapes s)) /\ NoDup (map s_id (sl_shapes s)).
Proof. exact add_slide_ok. Qed.
Print Assumptions C13_new_slide_related.

(** over any history of operations slides are only appended and keep their layout *)
Theorem C13_history_order : forall c ops d,
  exists suf, map sl_layout (d_slides (final c d ops)) = map sl_layout (d_slides d) ++ suf /\
              (length suf <= length ops)%nat.
Proof. exact history_slides_prefix. Qed.
Print Assumptions C13_history_order.

Example C13_history_example :
  map sl_layout (d_slides (final gen_cfg ex_deck
     [AddSlide 0; Edit (TSlide 1 0) (ESet ATop 9%Z); AddSlide 3; NotesSlide 1; Edit (TLayout 0 0) EDelete; AddSlide 0]))
  = [0; 0; 0]%nat.
Proof. vm_compute. reflexivity. Qed.

(** ** notes slides *)
Theorem C13_notes : forall c d s sl,
  nth_error (d_slides d) s = Some sl -> sl_notes sl = None ->
  Forall (fun t => has_key t (c_base_notes c) = true) (c_notes_cloneable c) ->
  exists nt,
    notes_slide c d s =
      (set_slides (ensure_notes_master d)
         (upd_nth s (fun x => mk_slide (sl_layout x) (sl_shapes x) (Some nt)) (d_slides d)), Ok tt) /\
    let NM := the_notes_master d in
    let src := filter (has_type (c_notes_cloneable c)) (placeholders NM) in
    map key (phs nt) = map key (phs src) /\ forallb is_ph nt = true /\ length nt = length src /\
    NoDup (map s_name nt) /\ NoDup (map s_id nt) /\
    Forall2 (fun mp sp => forall a, notes_eff a NM sp = own a (first_with_type NM mp)) src nt.
Proof. exact notes_mirror. Qed.
Print Assumptions C13_notes.

(** the premise about the tables holds for the generated ones *)
Theorem C13_notes_tables_total :
  Forall (fun t => has_key t (c_base_notes gen_cfg) = true) (c_notes_cloneable gen_cfg).
Proof. exact gen_notes_total. Qed.
Print Assumptions C13_notes_tables_total.

Theorem C13_notes_first_with_type : forall NM mp,
  In mp NM -> is_ph mp = true ->
  exists pre post, NM = pre ++ first_with_type NM mp :: post /\
    is_ph (first_with_type NM mp) = true /\ sh_type (first_with_type NM mp) = sh_type mp /\
    forall y, In y pre -> is_ph y = true -> sh_type y <> sh_type mp.
Proof. exact first_with_type_spec. Qed.
Print Assumptions C13_notes_first_with_type.

Theorem C13_notes_unique_type : forall NM mp,
  NoDup (map sh_type (placeholders NM)) -> In mp NM -> is_ph mp = true ->
  first_with_type NM mp = mp.
Proof. exact first_with_type_unique. Qed.
Print Assumptions C13_notes_unique_type.

Theorem C13_notes_existing : forall c d s sl nt,
  nth_error (d_slides d) s = Some sl -> sl_notes sl = Some nt -> notes_slide c d s = (d, Ok tt).
Proof. exact notes_slide_existing. Qed.
Print Assumptions C13_notes_existing.

(** the other slides are untouched by the update of slide [s] *)
Theorem C13_notes_frame : forall (f : slide -> slide) l n m, n <> m ->
  nth_error (upd_nth n f l) m = nth_error l m.
Proof. exact (@nth_error_upd_nth_other slide). Qed.
Print Assumptions C13_notes_frame.

Example C13_notes_example :
  exists d' s nt, notes_slide gen_cfg ex_deck 0 = (d', Ok tt) /\ nth_error (d_slides d') 0 = Some s /\
    sl_notes s = Some nt /\ d_notes_master d' = Some default_notes_master /\
    map key (phs nt) = [(101, 2, 0, 0); (2, 3, 0, 2); (13, 5, 0, 2)]%N /\
    map (notes_eff AWidth default_notes_master) nt = [Some 4572000; Some 5486400; Some 2971800]%Z.
Proof. do 3 eexists. vm_compute. repeat split; reflexivity. Qed.

(** ** the literal dicts are partial: exactly these enum members have no entry (the python side
       and the Coq side computed the lists independently), a lookup fails exactly there *)
Theorem C13_partial_maps_exact :
  missing basename_slide = py_missing_basename_slide /\
  missing basename_notes = py_missing_basename_notes /\
  missing layout_master_map = py_missing_layout_master_map.
Proof. exact partial_exact. Qed.
Print Assumptions C13_partial_maps_exact.

Theorem C13_partial_maps : forall (tbl : list (N * str)) t,
  In t all_ph_types -> (dict_get t tbl = Err KeyErr <-> In t (missing tbl)).
Proof. exact (@partial_maps str). Qed.
Print Assumptions C13_partial_maps.

Theorem C13_partial_maps_lm : forall (tbl : list (N * N)) t,
  In t all_ph_types -> (dict_get t tbl = Err KeyErr <-> In t (missing tbl)).
Proof. exact (@partial_maps N). Qed.
Print Assumptions C13_partial_maps_lm.

(** every uncovered, non-latent type refutes the mirror statement (witness: a layout holding
    one placeholder of that type) ... *)
Theorem C13_mirror_refuted_when_partial : forall c t,
  has_key t (c_base_slide c) = false -> memN t (c_latent c) = false ->
  exists d', add_slide c (wit_deck t) 0 = (d', Err KeyErr) /\
             d_slides d' = [] /\ length (d_orphans d') = 1%nat.
Proof. exact mirror_refuted_when_partial. Qed.
Print Assumptions C13_mirror_refuted_when_partial.

(** ... and every type that can be cloned but is uncovered by the layout-to-master map refutes
    the inheritance statement *)
Theorem C13_inherit_refuted_when_partial : forall c t,
  has_key t (c_lmmap c) = false -> has_key t (c_base_slide c) = true -> memN t (c_latent c) = false ->
  exists d' s sp, add_slide c (wit_deck t) 0 = (d', Ok tt) /\ d_slides d' = [s] /\ sl_shapes s = [sp] /\
    forall a, slide_geom c d' s a sp = Err KeyErr.
Proof. exact inherit_refuted_when_partial. Qed.
Print Assumptions C13_inherit_refuted_when_partial.

Example C13_partial_example :
  (exists d', add_slide toy_cfg (wit_deck 2) 0 = (d', Err KeyErr)) /\
  has_key 2%N (c_base_slide toy_cfg) = false /\ memN 2%N (c_latent toy_cfg) = false.
Proof. split; [eexists|]; vm_compute; auto. Qed.

Example C13_partial_example_inherit :
  has_key 3%N (c_lmmap toy_cfg) = false /\ has_key 3%N (c_base_slide toy_cfg) = true /\
  memN 3%N (c_latent toy_cfg) = false /\
  (exists d', add_slide toy_cfg (wit_deck 3) 0 = (d', Ok tt)).
Proof. repeat split; try (vm_compute; reflexivity). eexists. vm_compute. reflexivity. Qed.

(** ** slide.placeholders iterates the placeholders of the tree stably sorted by idx *)
Theorem C13_placeholders_view : forall t,
  Permutation (slide_placeholders t) (placeholders t) /\ Sorted idx_le (slide_placeholders t) /\
  (Sorted idx_le (placeholders t) -> slide_placeholders t = placeholders t).
Proof. exact placeholders_view. Qed.
Print Assumptions C13_placeholders_view.

Example C13_placeholders_view_reorders :
  map s_id (slide_placeholders
    [mk_shape 2%N [] (Some (mk_ph None (Some 13%N) None None)) None None true;
     mk_shape 3%N [] (Some (mk_ph None None None None)) None None true;
     mk_shape 4%N [] None None None true;
     mk_shape 5%N [] (Some (mk_ph None (Some 13%N) None None)) None None true;
     mk_shape 6%N [] (Some (mk_ph None (Some 1%N) None None)) None None true]) = [3; 6; 2; 5]%N.
Proof. vm_compute. reflexivity. Qed.

(** * The slide list: which part every entry designates (model/PlaceholderPkg.v) *)

(** every p:sldId of a well-formed presentation designates a slide part *)
Theorem C13_pkg_resolves : forall ps i, pres_wf ps -> i < length (p_ids ps) ->
  exists p sl, slide_at ps i = Ok (p, sl) /\ p < length (p_parts ps).
Proof. exact pres_wf_resolves. Qed.
Print Assumptions C13_pkg_resolves.

(** the new slide is the LAST entry and designates a part that did not exist before, under a part name no
    reachable part carries, through an rId and with a slide id that were not in use; every earlier entry
    designates the same part with the same state; layouts, masters and notes master are untouched *)
Theorem C13_pkg_add_slide_last_new : forall c ps l ps', pres_wf ps -> padd_slide c ps l = (ps', Ok tt) ->
  exists L t name rid n,
    nth_error (d_layouts (p_deck ps)) l = Some L /\ new_slide_tree c (l_shapes L) = (t, Ok tt) /\
    ~ In name (reach_names ps) /\ ~ In rid (map PkgOps.rr_id (p_rels ps)) /\ ~ In n (map fst (p_ids ps)) /\
    Ids.slide_id_valid n = true /\
    p_ids ps' = p_ids ps ++ [(n, rid)] /\
    p_parts ps' = p_parts ps ++ [mk_ppart name (Some (mk_slide l t None))] /\
    p_rels ps' = p_rels ps ++ [PkgOps.mkR rid PkgOps.rt_slide (PkgOps.TInt (length (p_parts ps))) None] /\
    p_deck ps' = p_deck ps /\ p_xrefs ps' = p_xrefs ps /\
    slide_at ps' (length (p_ids ps)) = Ok (length (p_parts ps), mk_slide l t None) /\
    (forall i, i < length (p_ids ps) -> slide_at ps' i = slide_at ps i) /\
    (forall i p sl, slide_at ps i = Ok (p, sl) -> p <> length (p_parts ps)).
Proof. exact padd_slide_ok. Qed.
Print Assumptions C13_pkg_add_slide_last_new.

(** a failed addition leaves the slide list alone *)
Theorem C13_pkg_add_slide_failed : forall c ps l ps' e, pres_wf ps -> padd_slide c ps l = (ps', Err e) ->
  p_ids ps' = p_ids ps /\ p_deck ps' = p_deck ps /\ forall i, slide_at ps' i = slide_at ps i.
Proof. exact padd_slide_err. Qed.
Print Assumptions C13_pkg_add_slide_failed.

(** at package level add_slide IS Placeholder.add_slide on the deck the presentation shows: the theorems
    about the new slide above (mirror, names, ids, inherited geometry) hold for it *)
Theorem C13_pkg_add_slide_is_add_slide : forall c ps l ps', pres_wf ps -> padd_slide c ps l = (ps', Ok tt) ->
  add_slide c (view ps) l = (view ps', Ok tt) /\ exists s, listed ps' = listed ps ++ [s].
Proof. exact padd_slide_view. Qed.
Print Assumptions C13_pkg_add_slide_is_add_slide.

(** deleting slide i (drop_rel + p:sldId) or removing its p:sldId alone: the other entries designate the
    same parts with the same states, in the same order *)
Theorem C13_pkg_remove_frame : forall ps i ps', pres_wf ps -> premove ps i = (ps', Ok tt) ->
  pres_wf ps' /\ p_ids ps' = remove_nth i (p_ids ps) /\ p_parts ps' = p_parts ps /\ p_deck ps' = p_deck ps /\
  forall j, slide_at ps' j = slide_at ps (if j <? i then j else S j).
Proof. exact premove_frame. Qed.
Print Assumptions C13_pkg_remove_frame.

Theorem C13_pkg_unlist_frame : forall ps i ps', pres_wf ps -> punlist ps i = (ps', Ok tt) ->
  pres_wf ps' /\ p_ids ps' = remove_nth i (p_ids ps) /\ p_parts ps' = p_parts ps /\ p_rels ps' = p_rels ps /\
  p_deck ps' = p_deck ps /\ forall j, slide_at ps' j = slide_at ps (if j <? i then j else S j).
Proof. exact punlist_frame. Qed.
Print Assumptions C13_pkg_unlist_frame.

(** the only failure of a deletion is a position that does not exist, and then nothing changes *)
Theorem C13_pkg_removal_errors : forall ps i e, pres_wf ps ->
  (premove ps i = (ps, Err IndexErr) \/ exists ps', premove ps i = (ps', Ok tt)) /\
  (punlist ps i = (ps, Err IndexErr) \/ exists ps', punlist ps i = (ps', Ok tt)) /\
  (nth_error (p_ids ps) i = Some e -> exists ps', premove ps i = (ps', Ok tt)).
Proof. exact removal_err. Qed.
Print Assumptions C13_pkg_removal_errors.

(** an edit aimed at position s acts on the part that position designates (its new state is the one
    Placeholder.step computes for it); every other entry designates the same part with the same state *)
Theorem C13_pkg_edit_frame : forall c ps s o ps' r, pres_wf ps -> on_slide c ps s o = (ps', r) ->
  match slide_at ps s with
  | Err e => ps' = ps /\ r = Err e
  | Ok (p, sl) =>
      exists d', step c (deck_for ps [sl]) (retarget o) = (d', r) /\
        pres_wf ps' /\ p_ids ps' = p_ids ps /\
        slide_at ps' s = Ok (p, match d_slides d' with x :: _ => x | [] => sl end) /\
        (forall i, i <> s -> slide_at ps' i = slide_at ps i)
  end.
Proof. exact on_slide_spec. Qed.
Print Assumptions C13_pkg_edit_frame.

Theorem C13_pkg_deck_edit_frame : forall c ps o ps' r, pres_wf ps -> on_deck c ps o = (ps', r) ->
  exists d', step c (deck_for ps []) o = (d', r) /\ pres_wf ps' /\ p_ids ps' = p_ids ps /\
             forall i, slide_at ps' i = slide_at ps i.
Proof. exact on_deck_spec. Qed.
Print Assumptions C13_pkg_deck_edit_frame.

(** ** ALL histories of one session (additions, edits, both deletion recipes, failures included) keep the
       invariant: rIds distinct, no part related twice, slide ids distinct, every entry designates a slide
       part, no part listed twice, no two reachable parts with the same name *)
Theorem C13_pkg_step_invariant : forall c ps o ps' r,
  pres_inv ps -> in_session o = true -> pstep c ps o = (ps', r) -> pres_inv ps'.
Proof. exact pstep_inv. Qed.
Print Assumptions C13_pkg_step_invariant.

Theorem C13_pkg_history_invariant : forall c ops ps,
  pres_inv ps -> forallb in_session ops = true -> pres_inv (pfinal c ps ops).
Proof. exact history_inv. Qed.
Print Assumptions C13_pkg_history_invariant.

Theorem C13_pkg_history_distinct : forall c ops ps, pres_inv ps -> forallb in_session ops = true ->
  let ps' := pfinal c ps ops in
  NoDup (map fst (p_ids ps')) /\ NoDup (map snd (p_ids ps')) /\
  (forall i j p, part_at ps' i = Ok p -> part_at ps' j = Ok p -> i = j) /\
  (forall i, i < length (p_ids ps') -> exists p sl, slide_at ps' i = Ok (p, sl)).
Proof. exact history_distinct. Qed.
Print Assumptions C13_pkg_history_distinct.

(** ** saving and re-opening: a presentation satisfying the invariant opens again with the same slide
       list (same ids, every entry the same part state); when no related slide part is unlisted the
       invariant holds again after the renaming of the first access of prs.slides *)
Theorem C13_pkg_save_reopen : forall ps, pres_inv ps ->
  exists ps', preopen ps = (ps', Ok tt) /\ pres_wf ps' /\ p_ids ps' = p_ids ps /\ p_deck ps' = p_deck ps /\
    (forall i, slide_at ps' i = slide_at ps i) /\
    (orphan_free ps -> pres_inv ps' /\ orphan_free ps').
Proof. exact preopen_spec. Qed.
Print Assumptions C13_pkg_save_reopen.

(** after ANY history of one session the presentation can be saved without losing a slide *)
Theorem C13_pkg_history_save : forall c ops ps, pres_inv ps -> forallb in_session ops = true ->
  let ps1 := pfinal c ps ops in
  clash_free ps1 /\
  exists ps2, preopen ps1 = (ps2, Ok tt) /\ pres_wf ps2 /\ p_ids ps2 = p_ids ps1 /\ p_deck ps2 = p_deck ps1 /\
              forall i, slide_at ps2 i = slide_at ps1 i.
Proof. exact history_save. Qed.
Print Assumptions C13_pkg_history_save.

(** ** histories spanning sessions: as long as no step can leave a related slide part unlisted (calm_opb),
       saving and re-opening any number of times keeps invariant and slide list *)
Theorem C13_pkg_calm_step : forall c ps o ps' r,
  good ps -> pstep c ps o = (ps', r) -> calm_opb ps o r = true -> good ps'.
Proof. exact pstep_good. Qed.
Print Assumptions C13_pkg_calm_step.

Theorem C13_pkg_history_all_sessions : forall c ops ps,
  good ps -> calm_run c ps ops = true -> good (pfinal c ps ops).
Proof. exact history_good. Qed.
Print Assumptions C13_pkg_history_all_sessions.

(** non-vacuity: the three-slide presentation satisfies every hypothesis above, and a history with two
    deletions, three additions, edits and two save / re-open steps is calm *)
Example C13_pkg_example_good : good ex_pres.
Proof. exact ex_pres_good. Qed.

Example C13_pkg_example_history :
  calm_run gen_cfg ex_pres ex_hist = true /\
  let ps := pfinal gen_cfg ex_pres ex_hist in
  map fst (p_ids ps) = [257; 259; 260]%Z /\ lparts ps = [Ok 2; Ok 4; Ok 5]%nat /\
  map (name_of ps) [2; 4; 5]%nat = [Ids.slide_name 1; Ids.slide_name 2; Ids.slide_name 3] /\
  clash_freeb ps = true.
Proof. split; [exact ex_hist_calm|exact ex_hist_final]. Qed.

(** the slide added after a deletion takes a name no reachable part carries (slide 4 while the unlisted
    part keeps slide 1 and the third slide keeps slide 3) *)
Example C13_pkg_example_session :
  let ps := pfinal gen_cfg ex_pres [Unlist 0; Op (AddSlide 0); Remove 0; Op (AddSlide 0)] in
  lparts ps = [Ok 3; Ok 4; Ok 5]%nat /\
  map (name_of ps) [1; 3; 4; 5]%nat = [Ids.slide_name 1; Ids.slide_name 3; Ids.slide_name 4; Ids.slide_name 2] /\
  clash_freeb ps = true.
Proof. exact ex_session. Qed.

(** the condition of C13_pkg_history_all_sessions cannot be dropped: once a related slide part is unlisted
    (p:sldId removed, relationship kept) the renaming on the first access of prs.slides after re-opening can
    give a listed part the name of the unlisted one; the next save then loses a LISTED slide (the one added
    in the first session is replaced by the unlisted one).  This is the behaviour of python-pptx recorded
    as unlisted-slide-partname-collision. *)
Theorem C13_pkg_unlisted_collision_refuted :
  good ex_pres /\ forallb in_session (removelast collide_hist) = true /\
  calm_run gen_cfg ex_pres collide_hist = false /\
  let ps := pfinal gen_cfg ex_pres collide_hist in
  clash_freeb ps = false /\
  exists p sl p' sl', slide_at ps 1 = Ok (p, sl) /\ sl_shapes sl <> [] /\
    slide_at (fst (preopen ps)) 1 = Ok (p', sl') /\ sl_shapes sl' = [].
Proof. exact unlisted_collision_witness. Qed.
Print Assumptions C13_pkg_unlisted_collision_refuted.
