(** C03 -- every XML part written is valid PresentationML/DrawingML (PARTIAL: the proved half).

    Full statement (properties.jsonl): starting from a presentation whose parts are valid
    against the ISO/IEC 29500 transitional schemas, ANY sequence of public-API operations
    leaves every part valid; a rejected call leaves every part as valid as it was.
    Proved here: (a) the validator and what it means; (b) every XML the library ships or builds
    from constants is valid (instance over gen/GenC03.v, regenerated from /repo each run);
    (c) the xmlchemy operation language, applied at any path, for any admissible sequence,
    preserves the order invariant; a refused attribute write changes nothing; (d) the
    declarations of the live element classes are admissible.
    Missing (observed by checks/c03.py): that each public API call is a composition of these
    primitives and templates, and the occurrence constraints (minOccurs, maxOccurs).

    Layout: the instance theorems are stated relative to the lists of failing rows COMPUTED in
    Coq from this run's data (tpl_failing, decl_failing, attr_failing are notations for
    map id (filter (negb . ok) rows)); the closed obligations that those lists are empty come
    LAST, each a bare computation, so that a deviation in the library makes exactly its own
    obligation fail and leaves the others counted as discharged. *)
From V.lib Require Import Prelude PyFloat PyVal.
From V.model Require Import Schema SchemaMatch Xmlchemy SimpleTypeLib XmlValid.
From V.proofs Require Import Schema_proofs Xmlchemy_proofs SchemaMatch_proofs SimpleTypeLib_proofs XmlValid_proofs C03_instance.
From V.gen Require Import GenC03.

(** the diagnostic twin run at check time reports no error exactly when the validator accepts *)
Theorem C03_diagnostics_agree : forall s ex n ty, errs_node s ex ty n = [] <-> valid_node s ex ty n = true.
Proof. exact errs_valid. Qed.
Print Assumptions C03_diagnostics_agree.

(** what acceptance means: the child tags are a word of the type's content model (the
    inductive language of model/Schema.v), attributes are declared and lexically valid,
    required ones present, children accepted at their own types *)
Theorem C03_valid_means : forall s ex ty t a ks T,
  lookup_type s ty = Some T -> wf_cm (ct_cm T) = true ->
  valid_node s ex ty (Elem t a ks) = true ->
  lang (ct_cm T) (map (norm_tag (ct_cm T)) (kept ex t (ktags ks)))
  /\ (forall av, In av a -> attr_ok ex T t av = true)
  /\ (forall d, In d (ct_attrs T) -> ad_req d = true -> has_attr (ad_name d) a = true)
  /\ (forall k ty', In k ks -> kid_type s T (tag_of k) = Some ty' -> valid_node s ex ty' k = true).
Proof. exact valid_node_children_in_language. Qed.
Print Assumptions C03_valid_means.

Theorem C03_no_unmodelled : n_unmodelled = 0.
Proof. exact no_unmodelled. Qed.
Print Assumptions C03_no_unmodelled.

Theorem C03_schema_wf : forall ty T, lookup_type schema0 ty = Some T -> wf_cm (ct_cm T) = true.
Proof. exact schema_wf. Qed.
Print Assumptions C03_schema_wf.

(** INSTANCE: every part of default.pptx, templates/*.xml, every parse_xml / new_* element
    template and the chart XML of every writable chart type x data grid is valid (modulo the
    recorded deviations in [exempt]) *)
Theorem C03_templates_valid : forall t, In t templates -> tp_complete t = true ->
  memN (tp_id t) tpl_failing = false ->
  valid_node schema0 exempt (tp_ty t) (tp_node t) = true.
Proof. exact templates_valid. Qed.
Print Assumptions C03_templates_valid.

(** one xmlchemy primitive at one element of known type *)
Theorem C03_lop_preserves : forall s ty T o n,
  lookup_type s ty = Some T -> adm_lop s T o n = true ->
  order_valid s ty n = true -> order_valid s ty (apply_lop o n) = true.
Proof. exact apply_lop_preserves. Qed.
Print Assumptions C03_lop_preserves.

(** ANY sequence of operations at ANY paths, each admissible where it is applied (C10's decl_ok
    for insertions, C11's write_ok for attribute writes), preserves the order invariant *)
Theorem C03_ops_preserve_order : forall s ty ops n,
  order_valid s ty n = true -> all_adm s ty n ops -> order_valid s ty (run_ops n ops) = true.
Proof. exact ops_preserve_order. Qed.
Print Assumptions C03_ops_preserve_order.

(** a refused attribute write (to_xml raises before the attribute is set) leaves the whole tree unchanged *)
Theorem C03_rejected_noop : forall a d v e, desc_to_xml d v = Err e ->
  forall n p, apply_op n {| xo_path := p; xo_op := SetAttr a d v |} = n.
Proof. exact rejected_noop. Qed.
Print Assumptions C03_rejected_noop.

(** an operation below the root leaves the root's tag, attributes and number of children alone *)
Theorem C03_op_frame : forall o p n, tag_of (apply_op n {| xo_path := p; xo_op := o |}) = tag_of n
  /\ (p <> [] -> attrs_of (apply_op n {| xo_path := p; xo_op := o |}) = attrs_of n
                 /\ length (kids_of (apply_op n {| xo_path := p; xo_op := o |})) = length (kids_of n)).
Proof. exact apply_op_frame. Qed.
Print Assumptions C03_op_frame.

(** INSTANCE: every declared child of every registered element class passes decl_ok against
    every XSD type its tags can have (on this run's schema table) *)
Theorem C03_decls_admissible : forall r, In r decls -> memN (dc_id r) known_decl = false ->
  memN (dc_id r) decl_failing = false ->
  exists T, lookup_type schema0 (dc_ty r) = Some T /\
  (order_checked T = true -> decl_ok (flatten (ct_cm T)) (dc_child r) (dc_succ r) = true).
Proof. exact decls_admissible. Qed.
Print Assumptions C03_decls_admissible.

Theorem C03_declared_insert_preserves : forall r, In r decls -> memN (dc_id r) known_decl = false ->
  memN (dc_id r) decl_failing = false ->
  forall T, lookup_type schema0 (dc_ty r) = Some T -> order_checked T = true ->
  forall x n, tag_of x = dc_child r -> child_ok schema0 T x = true ->
  addable (flatten (ct_cm T)) (dc_child r) (ktags (kids_of n)) = true ->
  order_valid schema0 (dc_ty r) n = true ->
  order_valid schema0 (dc_ty r) (apply_lop (InsertChild x (dc_succ r)) n) = true
  /\ order_valid schema0 (dc_ty r) (apply_lop (GetOrAdd x (dc_succ r)) n) = true.
Proof. exact declared_insert_preserves. Qed.
Print Assumptions C03_declared_insert_preserves.

(** INSTANCE: a judged attribute declaration writes only values of its schema type's lexical space *)
Theorem C03_attrs_admissible : forall r, In r adecls -> memN (at_id r) known_attr = false ->
  attr_row_verdict schema0 r = 0%N ->
  forall T ad, lookup_type schema0 (at_ty r) = Some T -> find_adecl (at_name r) (ct_attrs T) = Some ad ->
  forall v s, desc_to_xml (at_desc r) v = Ok (PStr s) -> lex_ok (ad_lex ad) s = true.
Proof. exact attrs_admissible. Qed.
Print Assumptions C03_attrs_admissible.

(** non-vacuity *)
Example C03_ex_admissible : order_valid schema0 ex_ty ex_tree = true /\ all_adm schema0 ex_ty ex_tree ex_ops.
Proof. exact example_admissible. Qed.
Example C03_ex_result :
  order_valid schema0 ex_ty (run_ops ex_tree ex_ops) = true
  /\ run_ops ex_tree ex_ops <> ex_tree
  /\ valid_node schema0 [] ex_ty ex_tree = true
  /\ valid_node schema0 [] ex_ty (run_ops ex_tree ex_ops) = true.
Proof. exact example_result. Qed.
Example C03_ex_refused : apply_op ex_tree ex_refused = ex_tree.
Proof. exact example_refused. Qed.
Example C03_ex_counts : (0 < length (filter tp_complete templates))%nat /\ (0 < length decls)%nat
  /\ (0 < length (filter (fun r => N.eqb (attr_row_verdict schema0 r) 0) adecls))%nat.
Proof. vm_compute. repeat split; lia. Qed.

(** ---- closed obligations over this run's data (bare computations, see the header) ---- *)

(** recorded deviations are real: without its exemption some template is rejected *)
Theorem C03_exempt_real : forallb exempt_real exempt = true.
Proof. vm_compute. reflexivity. Qed.

(** templates valid without exemption satisfy the order invariant: histories can start there *)
Theorem C03_templates_in_order : forallb tpl_in_order templates = true.
Proof. vm_compute. reflexivity. Qed.

(** no declared child fails decl_ok on this schema table (except recorded findings) *)
Theorem C03_no_failing_decls : decl_failing = [].
Proof. vm_compute. reflexivity. Qed.

(** no judged attribute declaration can write outside its lexical space (except recorded findings) *)
Theorem C03_no_attr_failures : attr_failing = [].
Proof. vm_compute. reflexivity. Qed.

(** no template the library ships or builds from constants is rejected *)
Theorem C03_no_invalid_templates : tpl_failing = [].
Proof. vm_compute. reflexivity. Qed.
