From V.lib Require Import Prelude Wire.
From V.model Require Import PackUri Ids.
From V.proofs Require Import Ids_proofs.
