From Coq Require Import Extraction ExtrOcamlBasic.
From V.model Require Import XmlTreeRun.
Extraction Language OCaml.
Cd "extract".
Extraction "xmltree.ml" run_xmltree.
Cd "..".
