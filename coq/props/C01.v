(** C01: opening and saving a package preserves every reachable part and relationship.
    Statements only; every proof is [exact] of a lemma of proofs/Opc_proofs.v.

    Vocabulary (model/Opc.v): [phys blob] a physical package (member name -> bytes);
    [env blob] lxml's decode/encode of the two OPC meta documents, parse+serialise of XML
    payloads ([reser]) and the tables re-extracted from the source tree (gen/GenC01.v);
    [load] = OpcPackage.open, [save] = OpcPackage.save, [iter_parts] = OpcPackage.iter_parts;
    [reachable E p x]: the relationship graph of [p] reaches the name [x] from the package
    root; [wf E p]: well-formed package whose internal relationships all resolve;
    [codec_ok E]: dec (enc x) = Some x and reser idempotent; [rel_sem]: id, type, mode and
    resolved target (or external text) of a relationship. *)
From V.lib Require Import Prelude.
From V.model Require Import PackUri Opc OpcRun OpcCodec.
From V.gen Require Import GenC01.
From V.proofs Require Import Opc_proofs OpcCodec_proofs.
From Coq Require Import Permutation.

(** the translator understood every source construct it read *)
Theorem C01_no_unmodelled : unmodelled = [].
Proof. reflexivity. Qed.
Print Assumptions C01_no_unmodelled.

(** the loaded package holds exactly the parts the relationship graph reaches, each once *)
Theorem C01_reach : forall blob (E : env blob) (p : phys blob), wf E p ->
  exists k, load E p = Ok k /\ NoDup (map p_name (iter_parts k)) /\
    forall x, In x (map p_name (iter_parts k)) <-> (reachable E p x /\ x <> root).
Proof. exact @c01_reach. Qed.
Print Assumptions C01_reach.

(** the saved package has exactly these members, each once: the content types item, the
    package rels item, every reachable part, and the rels item of every reachable part
    that has relationships *)
Theorem C01_members : forall blob (E : env blob) (p : phys blob), wf E p ->
  exists k, load E p = Ok k /\ NoDup (map fst (save E k)) /\
    forall n, In n (map fst (save E k)) <->
      (n = ct_uri \/ n = rels_item_name root \/
       exists x, reachable E p x /\ x <> root /\
                 (n = x \/ (n = rels_item_name x /\ rels_or_nil E p x <> []))).
Proof. exact @c01_members. Qed.
Print Assumptions C01_members.

(** every reachable part keeps its content type and its payload (re-serialised when its
    type maps to an XML part class, the same bytes otherwise).  No side condition on
    extensions is needed: the writer uses a Default only for an extension the default table
    maps to a single content type ([in_table]) *)
Theorem C01_payload_type : forall blob (E : env blob) (p : phys blob),
  wf E p -> codec_ok E -> env_ok E ->
  exists k, load E p = Ok k /\
    forall q ct b, reachable E p q -> q <> root -> ct_in E p q = Ok ct -> lookup q p = Some b ->
      ct_in E (save E k) q = Ok ct /\
      lookup q (save E k) = (if is_xml_ct E ct then reser E b else Some b).
Proof. exact @c01_payload_type. Qed.
Print Assumptions C01_payload_type.

(** two parts can never compete for the Default of an extension *)
Theorem C01_no_default_clash : forall blob (E : env blob) (p : phys blob), no_default_clash E p.
Proof. exact @no_default_clash_always. Qed.
Print Assumptions C01_no_default_clash.

(** the package and every reachable part keep exactly their relationships: same id, type
    and mode, resolving to the same part or carrying the same external text *)
Theorem C01_rels : forall blob (E : env blob) (p : phys blob), wf E p -> codec_ok E ->
  exists k, load E p = Ok k /\
    forall src, reachable E p src ->
      exists rs rs', rels_for E p src = Some rs /\ rels_for E (save E k) src = Some rs' /\
                     Permutation (map (rel_sem src) rs) (map (rel_sem src) rs').
Proof. exact @c01_rels. Qed.
Print Assumptions C01_rels.

(** opening and saving the output again reproduces the same members with the same bytes *)
Theorem C01_idem : forall blob (E : env blob) (p : phys blob),
  wf E p -> codec_ok E -> env_ok E ->
  exists k k2, load E p = Ok k /\ load E (save E k) = Ok k2 /\
               same_package (save E k2) (save E k).
Proof. exact @c01_idem. Qed.
Print Assumptions C01_idem.

(** ---- non-vacuity: a concrete package meeting every hypothesis ---- *)

Example C01_ex_wf : wf wenv ex_deck.
Proof. exact ex_deck_wf. Qed.

Example C01_ex_codec_ok : codec_ok wenv.
Proof. exact wenv_codec_ok. Qed.

Example C01_ex_env_ok : env_ok wenv.
Proof. exact wenv_env_ok. Qed.

(* its loaded parts in iter_parts order, and the members it is saved with *)
Example C01_ex_parts :
  match load wenv ex_deck with
  | Ok k => map p_name (iter_parts k) = [n_ppt_presentation_xml; n_ppt_slides_slide1_xml; n_ppt_media_image1_png]
  | Err _ => False
  end.
Proof. vm_compute. reflexivity. Qed.

Example C01_ex_saved_members :
  match load wenv ex_deck with
  | Ok k => length (save wenv k) = 7%nat /\ has n_docProps_thumbnail_jpeg (save wenv k) = false
            /\ has n_ppt_slides__rels_slide1_xml_rels (save wenv k) = true
  | Err _ => False
  end.
Proof. vm_compute. repeat split. Qed.

(* regression on the former counter-example (two .bin parts typed as PresentationML and
   SpreadsheetML printer settings, which an earlier writer merged under one Default): the
   package is well-formed, both parts keep their type, each through an Override, and no
   Default is written for bin *)
Example C01_ex_clash_wf : wfb wenv ex_clash = true.
Proof. vm_compute. reflexivity. Qed.

Example C01_ex_clash_regression :
  match load wenv ex_clash with
  | Ok k =>
      content_types_item wenv (iter_parts k)
      = (gen_init_defaults, [(n_a_bin, ct_pml_ps); (n_b_bin, ct_sml_ps)])
      /\ ct_in wenv (save wenv k) n_a_bin = Ok ct_pml_ps
      /\ ct_in wenv (save wenv k) n_b_bin = Ok ct_sml_ps
  | Err _ => False
  end.
Proof. exact ex_clash_regression. Qed.


(** ---- the codec hypothesis discharged for a concrete codec ----
    model/OpcCodec.v: [enc_rels_c] / [enc_ct_c] the text lxml writes for a rels item / the
    content types item (tied byte for byte by the codec phase of checks/c01.py),
    [dec_rels_c] / [dec_ct_c] a reader of that document shape built on the attribute-value
    lexer of C05; [xml_rels l]: every id, type and target is a string of XML characters and no
    mode is MOther; [xml_cts c] likewise; [cenv] the env made of these four functions;
    [codec_rt_on P Q E]: dec (enc x) = Some x for x in P resp. Q; [codec_ok_on]: that and
    reser idempotent; [xml_package E p]: reachable names, relationship fields and content
    types of [p] and the initial defaults of [E] are XML strings; [writes_ok P Q E k]: all
    that save hands to the encoders for [k] lies in P resp. Q. *)

(** the reader gives back every writable list of relationships: no bound on the number of
    relationships or the length of the strings *)
Theorem C01_codec_rels : forall l, xml_rels l = true -> dec_rels_c (enc_rels_c l) = Some l.
Proof. exact dec_enc_rels. Qed.
Print Assumptions C01_codec_rels.

Theorem C01_codec_ct : forall c, xml_cts c = true -> dec_ct_c (enc_ct_c c) = Some c.
Proof. exact dec_enc_ct. Qed.
Print Assumptions C01_codec_ct.

(** the env built from the concrete codec meets the first two conjuncts of codec_ok on
    such inputs, whatever the payload re-serialiser and the tables are *)
Theorem C01_codec_env : forall rs dt xc idf pc od,
  codec_rt_on xml_rels xml_cts (cenv rs dt xc idf pc od).
Proof. exact cenv_codec_rt_on. Qed.
Print Assumptions C01_codec_env.

(** codec_ok as stated (every list) cannot hold of a reader of XML, nor of this writer *)
Theorem C01_codec_ok_too_strong : forall E : env str,
  (forall b l, dec_rels E b = Some l -> forallb (fun r => Escape.xml_str (r_id r)) l = true) ->
  ~ codec_ok E.
Proof. exact codec_ok_too_strong. Qed.
Print Assumptions C01_codec_ok_too_strong.

Theorem C01_codec_ok_refuted : forall rs dt xc idf pc od, ~ codec_ok (cenv rs dt xc idf pc od).
Proof. exact cenv_not_codec_ok. Qed.
Print Assumptions C01_codec_ok_refuted.

(** whatever the concrete reader accepts, it returns XML strings *)
Theorem C01_codec_reads_xml : forall s,
  (forall l, dec_rels_c s = Some l -> forallb xml_fields l = true) /\
  (forall c, dec_ct_c s = Some c -> xml_cts c = true).
Proof. intros s. split; [exact (dec_rels_c_xml s)|exact (dec_ct_c_xml s)]. Qed.
Print Assumptions C01_codec_reads_xml.

(** C01_rels / C01_payload_type / C01_idem under the restricted hypothesis, any env *)
Theorem C01_rels_on : forall blob (E : env blob) P Q (p : phys blob),
  wf E p -> codec_rt_on P Q E -> (forall k, load E p = Ok k -> writes_ok P Q E k) ->
  exists k, load E p = Ok k /\
    forall src, reachable E p src ->
      exists rs rs', rels_for E p src = Some rs /\ rels_for E (save E k) src = Some rs' /\
                     Permutation (map (rel_sem src) rs) (map (rel_sem src) rs').
Proof. exact @c01_rels_on. Qed.
Print Assumptions C01_rels_on.

Theorem C01_payload_type_on : forall blob (E : env blob) P Q (p : phys blob),
  wf E p -> codec_rt_on P Q E -> env_ok E -> (forall k, load E p = Ok k -> writes_ok P Q E k) ->
  exists k, load E p = Ok k /\
    forall q ct b, reachable E p q -> q <> root -> ct_in E p q = Ok ct -> lookup q p = Some b ->
      ct_in E (save E k) q = Ok ct /\
      lookup q (save E k) = (if is_xml_ct E ct then reser E b else Some b).
Proof. exact @c01_payload_type_on. Qed.
Print Assumptions C01_payload_type_on.

Theorem C01_idem_on : forall blob (E : env blob) P Q (p : phys blob),
  wf E p -> codec_ok_on P Q E -> env_ok E -> (forall k, load E p = Ok k -> writes_ok P Q E k) ->
  exists k k2, load E p = Ok k /\ load E (save E k) = Ok k2 /\
               same_package (save E k2) (save E k).
Proof. exact @c01_idem_on. Qed.
Print Assumptions C01_idem_on.

(** a package of XML strings hands only XML strings to the encoders *)
Theorem C01_xml_package_writes : forall blob (E : env blob) (p : phys blob),
  wf E p -> xml_package E p -> forall k, load E p = Ok k -> writes_ok xml_rels xml_cts E k.
Proof. exact @xml_package_writes_ok. Qed.
Print Assumptions C01_xml_package_writes.

Theorem C01_rels_xml : forall blob (E : env blob) (p : phys blob),
  wf E p -> codec_rt_on xml_rels xml_cts E -> xml_package E p ->
  exists k, load E p = Ok k /\
    forall src, reachable E p src ->
      exists rs rs', rels_for E p src = Some rs /\ rels_for E (save E k) src = Some rs' /\
                     Permutation (map (rel_sem src) rs) (map (rel_sem src) rs').
Proof. exact @c01_rels_xml. Qed.
Print Assumptions C01_rels_xml.

Theorem C01_payload_type_xml : forall blob (E : env blob) (p : phys blob),
  wf E p -> codec_rt_on xml_rels xml_cts E -> env_ok E -> xml_package E p ->
  exists k, load E p = Ok k /\
    forall q ct b, reachable E p q -> q <> root -> ct_in E p q = Ok ct -> lookup q p = Some b ->
      ct_in E (save E k) q = Ok ct /\
      lookup q (save E k) = (if is_xml_ct E ct then reser E b else Some b).
Proof. exact @c01_payload_type_xml. Qed.
Print Assumptions C01_payload_type_xml.

Theorem C01_idem_xml : forall blob (E : env blob) (p : phys blob),
  wf E p -> codec_ok_on xml_rels xml_cts E -> env_ok E -> xml_package E p ->
  exists k k2, load E p = Ok k /\ load E (save E k) = Ok k2 /\
               same_package (save E k2) (save E k).
Proof. exact @c01_idem_xml. Qed.
Print Assumptions C01_idem_xml.

(** the concrete codec: relationships are preserved with nothing assumed of lxml; what the
    items contain needs no hypothesis (the reader only returns XML strings), only the
    reachable names and the initial defaults of the env must be XML strings *)
Theorem C01_rels_concrete : forall rs dt xc idf pc od (p : phys str),
  let E := cenv rs dt xc idf pc od in
  wf E p -> (forall x, reachable E p x -> Escape.xml_str x = true) ->
  (forall kv, In kv idf -> xml_pair kv = true) ->
  exists k, load E p = Ok k /\
    forall src, reachable E p src ->
      exists l l', rels_for E p src = Some l /\ rels_for E (save E k) src = Some l' /\
                   Permutation (map (rel_sem src) l) (map (rel_sem src) l').
Proof. exact c01_rels_concrete_names. Qed.
Print Assumptions C01_rels_concrete.

Theorem C01_payload_type_concrete : forall rs dt xc idf pc od (p : phys str),
  let E := cenv rs dt xc idf pc od in
  wf E p -> env_ok E -> (forall x, reachable E p x -> Escape.xml_str x = true) ->
  (forall kv, In kv idf -> xml_pair kv = true) ->
  exists k, load E p = Ok k /\
    forall q ct b, reachable E p q -> q <> root -> ct_in E p q = Ok ct -> lookup q p = Some b ->
      ct_in E (save E k) q = Ok ct /\
      lookup q (save E k) = (if is_xml_ct E ct then reser E b else Some b).
Proof. exact c01_payload_type_concrete_names. Qed.
Print Assumptions C01_payload_type_concrete.

(** the second save: what is left assumed of lxml is that re-serialising a payload it has
    serialised changes nothing *)
Theorem C01_idem_concrete : forall rs dt xc idf pc od (p : phys str),
  (forall b b', rs b = Some b' -> rs b' = Some b') ->
  let E := cenv rs dt xc idf pc od in
  wf E p -> env_ok E -> (forall x, reachable E p x -> Escape.xml_str x = true) ->
  (forall kv, In kv idf -> xml_pair kv = true) ->
  exists k k2, load E p = Ok k /\ load E (save E k) = Ok k2 /\
               same_package (save E k2) (save E k).
Proof. exact c01_idem_concrete_names. Qed.
Print Assumptions C01_idem_concrete.

(** non-vacuity: the example deck with its rels items and content types item as real text
    (tenv: the concrete codec, identity re-serialiser, the tables of gen/GenC01.v) *)
Example C01_ex_codec_wf : wf tenv ex_deck_text.
Proof. exact ex_deck_text_wf. Qed.
Example C01_ex_codec_xml_package : xml_package tenv ex_deck_text.
Proof. exact ex_deck_text_xml. Qed.
Example C01_ex_codec_names :
  (forall x, reachable tenv ex_deck_text x -> Escape.xml_str x = true) /\
  (forall kv, In kv gen_init_defaults -> xml_pair kv = true).
Proof. exact ex_deck_text_names. Qed.
Example C01_ex_codec_ok_on : codec_ok_on xml_rels xml_cts tenv.
Proof. exact tenv_codec_ok_on. Qed.
Example C01_ex_codec_env_ok : env_ok tenv.
Proof. exact tenv_env_ok. Qed.
Example C01_ex_codec_saved :
  match load tenv ex_deck_text with
  | Ok k => length (save tenv k) = 7%nat
            /\ match lookup (rels_item_name root) (save tenv k) with
               | Some t => t = enc_rels_c [mkRel [114; 73; 100; 49]%N gen_rt_office_document
                                                [112; 112; 116; 47; 112; 114; 101; 115; 101; 110; 116; 97; 116; 105; 111; 110; 46; 120; 109; 108]%N MInt]
               | None => False
               end
  | Err _ => False
  end.
Proof. exact ex_deck_text_saved. Qed.
(* a list with every escaped character, a non-ASCII and a beyond-BMP character, an empty
   id, both modes; a table likewise *)
Example C01_ex_codec_rels : xml_rels ex_rels = true /\ dec_rels_c (enc_rels_c ex_rels) = Some ex_rels.
Proof. exact ex_rels_ok. Qed.
Example C01_ex_codec_cts : xml_cts ex_cts = true /\ dec_ct_c (enc_ct_c ex_cts) = Some ex_cts.
Proof. exact ex_cts_ok. Qed.
