(** C15 -- images are stored once, byte-exact, with the type and size of the actual image.

    Theorems over model/Image.v.  [H] is the digest function (SHA-1 is not modelled;
    where a statement needs H to separate blobs it says so), [fl] the rounding of one
    binary64 operation.  A history is any list of operations (new slide, other
    relationships on a slide, image addition on a slide as picture / placeholder
    picture / poster frame or icon, save-and-reopen), run from any state satisfying the
    invariant; there is no bound on its length or on the number of images or slides. *)
From Coq Require Import QArith Qabs Qround.
From V.lib Require Import Prelude.
From V.model Require Import PackUri Image.
From V.proofs Require Import Image_proofs.
From V.gen Require Import GenC15.
Local Open Scope Z_scope.

(* ------------------------------------------------------------------ the invariant *)

(** part names are unique, no two indexed image parts have the same digest, and the
    class of every part is the one the part factory selects for its content type (true
    of any package just loaded, and of the empty store) *)
Theorem C15_invariant_meaning : forall H st,
  Inv H st <->
  NoDup (map p_name (st_parts st)) /\
  NoDup (map (digest H) (filter visible (st_parts st))) /\
  Forall (fun p => p_cls p = ct_is_imagepart (p_ct p)) (st_parts st).
Proof. exact inv_meaning. Qed.
Print Assumptions C15_invariant_meaning.

Theorem C15_invariant_kept : forall H fl ops st, Inv H st -> Inv H (final H fl st ops).
Proof. exact (fun H fl ops st => run_inv H fl ops st). Qed.
Print Assumptions C15_invariant_kept.

(* ------------------------------------------------------------------ stored once *)

(** If operation number i of a history added image im and reported the part (name, ext,
    content type), then at the end of the history -- whatever else happened before or
    after, on whatever slides, including re-opening -- the store has an indexed part of
    that name, extension and content type whose digest is that of im, and it is the only
    indexed part with that digest. *)
Theorem C15_once : forall H fl st ops i im name e ct,
  Inv H st -> stored_at H fl st ops i im name e ct ->
  let ps := st_parts (final H fl st ops) in
  exists p, In p ps /\ visible p = true /\ p_name p = name /\ p_ct p = ct /\ ext (p_name p) = e /\
            digest H p = H (i_blob im) /\
            forall q, In q ps -> visible q = true -> digest H q = H (i_blob im) -> q = p.
Proof. exact once. Qed.
Print Assumptions C15_once.

(** the single-step form: adding bytes with the same digest again changes nothing and
    returns the same part *)
Theorem C15_once_step : forall H ps im im' ps1 p,
  get_or_add H ps im = Ok (ps1, p) -> H (i_blob im') = H (i_blob im) ->
  get_or_add H ps1 im' = Ok (ps1, p).
Proof. exact get_or_add_twice. Qed.
Print Assumptions C15_once_step.

Theorem C15_same_part : forall H fl st ops i j im im' name e ct name' e' ct',
  Inv H st ->
  stored_at H fl st ops i im name e ct -> stored_at H fl st ops j im' name' e' ct' ->
  H (i_blob im) = H (i_blob im') -> name = name' /\ e = e' /\ ct = ct'.
Proof. exact same_part. Qed.
Print Assumptions C15_same_part.

(** different bytes get different parts under different names, provided the digest
    separates them *)
Theorem C15_distinct : forall H fl st ops i j im im' name e ct name' e' ct',
  Inv H st ->
  stored_at H fl st ops i im name e ct -> stored_at H fl st ops j im' name' e' ct' ->
  i_blob im <> i_blob im' -> (H (i_blob im) = H (i_blob im') -> i_blob im = i_blob im') ->
  name <> name'.
Proof. exact (fun H fl st ops i j im im' name e ct name' e' ct' I S1 S2 Hb Hsep =>
               distinct H fl st ops i j im im' name e ct name' e' ct' I S1 S2 (fun E => Hb (Hsep E))). Qed.
Print Assumptions C15_distinct.

(** the stored bytes are the bytes given (H separating them from any other blob) *)
Theorem C15_bytes : forall H fl st ops i im name e ct,
  Inv H st -> stored_at H fl st ops i im name e ct ->
  (forall b, H b = H (i_blob im) -> b = i_blob im) ->
  exists p, In p (st_parts (final H fl st ops)) /\ p_name p = name /\ p_blob p = i_blob im.
Proof. exact bytes. Qed.
Print Assumptions C15_bytes.

(** a newly created part holds exactly the bytes given, under a name no reachable part
    has, with the extension and content type the tables give for the Pillow format *)
Theorem C15_new_part : forall H ps im ps' p,
  get_or_add H ps im = Ok (ps', p) -> find_by_digest H (H (i_blob im)) ps = None ->
  p_blob p = i_blob im /\ ~ In (p_name p) (map p_name ps) /\
  exists e, image_ext (i_blob im) (i_meta im) = Ok e /\ ext (p_name p) = e /\
            assoc e image_content_types = Some (p_ct p).
Proof. exact new_part_type. Qed.
Print Assumptions C15_new_part.

(** nothing that was in the store is changed or lost by any history *)
Theorem C15_preserved : forall H fl st ops q,
  Inv H st -> In q (st_parts st) -> In q (st_parts (final H fl st ops)).
Proof. exact preserved. Qed.
Print Assumptions C15_preserved.

(** the relationship a picture uses targets the part that holds its image *)
Theorem C15_rel_targets_part : forall H fl st s im u st' name rid e ct a b,
  step H fl st (OImage s im u) = (st', Ok (OutImg name rid e ct a b)) ->
  exists rs', nth_error (st_slides st') s = Some rs' /\ In (rid, Some name) rs'.
Proof. exact rel_targets_part. Qed.
Print Assumptions C15_rel_targets_part.

(* ------------------------------------------------------------------ save and re-open *)

(** save + load returns names, content types and bytes unchanged (C01) and chooses each
    part's class from its content type: under the invariant that is the identity on the
    store, so the digest index rebuilt after re-opening answers every query as before *)
Theorem C15_reopen : forall H fl st, Inv H st ->
  step H fl st OReload = (st, Ok OutUnit) /\
  forall d, find_by_digest H d (map reload_part (st_parts st)) = find_by_digest H d (st_parts st).
Proof. exact reopen. Qed.
Print Assumptions C15_reopen.

Theorem C15_reopen_new_part : forall ps im p, new_image_part ps im = Ok p -> reload_part p = p.
Proof. exact reopen_new. Qed.
Print Assumptions C15_reopen_new_part.

(* ------------------------------------------------------------------ tables (instance, regenerated each run) *)

Theorem C15_no_unmodelled : n_unmodelled = 0%nat.
Proof. exact (eq_refl 0%nat). Qed.
Print Assumptions C15_no_unmodelled.

(** every extension Image.ext can return -- a value of the Pillow-format map, or the
    extension of a header rule (emf) -- has an entry in image_content_types; that
    (extension, content type) pair is a row of default_content_types and the only row for
    that extension; the content type is mapped to ImagePart *)
Theorem C15_tables : forall e,
  (exists fmt, assoc fmt gen_ext_map = Some e) \/ In e (map snd gen_ext_special) ->
  exists ct, assoc e gen_image_content_types = Some ct /\
             In (e, ct) gen_default_content_types /\
             (forall ct', In (e, ct') gen_default_content_types -> ct' = ct) /\
             In ct gen_imagepart_cts.
Proof. exact (tables_sound_gen gen_ext_map gen_ext_special gen_image_content_types gen_default_content_types
                gen_imagepart_cts (eq_refl true)). Qed.
Print Assumptions C15_tables.

(** the tables and rules the model computes with are the regenerated ones *)
Theorem C15_tables_match :
  (forall k, assoc k gen_ext_map = assoc k ext_map) /\
  (forall k, assoc k gen_image_content_types = assoc k image_content_types) /\
  (forall ct, mem_str ct gen_imagepart_cts = ct_is_imagepart ct).
Proof. exact (tables_match_sound gen_ext_map gen_image_content_types gen_imagepart_cts (eq_refl true)). Qed.
Print Assumptions C15_tables_match.

Theorem C15_rules_match : gen_ext_special = ext_special /\ gen_dpi_drop = dpi_drop_rules.
Proof. exact (conj (eq_refl ext_special) (eq_refl dpi_drop_rules)). Qed.
Print Assumptions C15_rules_match.

(** the header rule: a blob Pillow calls WMF that carries ' EMF' at offset 40 is an
    enhanced metafile and gets the extension emf; without those bytes it stays wmf *)
Theorem C15_emf_by_header : forall b w h d x,
  image_ext b (Meta (Some [87; 77; 70]%N) w h d x) =
  Ok (if str_eqb (slice b 40 4) [32; 69; 77; 70]%N then [101; 109; 102]%N else [119; 109; 102]%N).
Proof. exact emf_by_header. Qed.
Print Assumptions C15_emf_by_header.

(* ------------------------------------------------------------------ dpi *)

(** whatever Pillow reports, a normalised dpi lies in 1..2048; the only input that is not
    normalised is an infinite value, which raises OverflowError *)
Theorem C15_dpi : forall d,
  (forall n, int_dpi d = Ok n -> 1 <= n <= 2048) /\
  (d <> DInf -> exists n, int_dpi d = Ok n) /\
  (d = DInf -> int_dpi d = Err OverflowErr).
Proof. exact (fun d => conj (int_dpi_range d) (conj (int_dpi_total d) (fun E => f_equal int_dpi E))). Qed.
Print Assumptions C15_dpi.

(** a finite value that rounds (half to even) into 1..2048 is kept, within one half;
    one that rounds outside becomes 72 *)
Theorem C15_dpi_value : forall q,
  (1 <= rhe q <= 2048 -> int_dpi (DQ q) = Ok (rhe q) /\ (Qabs (inject_Z (rhe q) - q) <= 1 # 2)%Q) /\
  (rhe q < 1 \/ 2048 < rhe q -> int_dpi (DQ q) = Ok 72).
Proof. exact (fun q => conj (int_dpi_value q) (int_dpi_default q)). Qed.
Print Assumptions C15_dpi_value.

(* ------------------------------------------------------------------ native size *)

(** the native size is the pixel size at the normalised dpi, rounded down to whole EMU;
    the dpi entry is the one Pillow reports except for a TIFF without XResolution *)
Theorem C15_native : forall f w h d x, 0 <= w -> 0 <= h ->
  forall cx cy, native_size (Meta f w h d x) = Ok (cx, cy) ->
  exists hd vd, normalize_pil_dpi (eff_dpi f d x) = Ok (hd, vd) /\ 1 <= hd <= 2048 /\ 1 <= vd <= 2048 /\
    cx * hd <= 914400 * w < (cx + 1) * hd /\ cy * vd <= 914400 * h < (cy + 1) * vd.
Proof. exact native_size_spec. Qed.
Print Assumptions C15_native.

Theorem C15_native_default : forall f w h x,
  native_size (Meta f w h PNoTuple x) = Ok (12700 * w, 12700 * h).
Proof. exact native_size_default. Qed.
Print Assumptions C15_native_default.

(** a TIFF for which Pillow read no XResolution tag is sized at 72 dpi whatever
    placeholder dpi Pillow reports; in every other case the reported entry is used *)
Theorem C15_native_tiff_without_resolution : forall w h d,
  native_size (Meta (Some [84; 73; 70; 70]%N) w h d false) = Ok (12700 * w, 12700 * h).
Proof. exact native_size_tiff_nores. Qed.
Print Assumptions C15_native_tiff_without_resolution.

Theorem C15_dpi_entry_kept : forall f d x,
  x = true \/ fmt_is f [84; 73; 70; 70]%N = false -> eff_dpi f d x = d.
Proof. exact eff_dpi_kept. Qed.
Print Assumptions C15_dpi_entry_kept.

(** the implementation evaluates 914400 * px / dpi in binary64 and truncates; that is the
    integer the model computes exactly (fl64 as in C15_fl64_premises) *)
Theorem C15_native_float : forall px dpi,
  0 <= px -> 914400 * px < 1099511627776 -> 1 <= dpi <= 2048 ->
  Qfloor (fl64 (inject_Z (914400 * px) / inject_Z dpi)) = native_dim px dpi.
Proof. exact native_float_exact. Qed.
Print Assumptions C15_native_float.

(* ------------------------------------------------------------------ scale *)

Theorem C15_scale_none : forall fl icx icy cx cy, truthy cx = false -> truthy cy = false ->
  scale fl icx icy cx cy = Ok (icx, icy).
Proof. exact scale_falsy. Qed.
Print Assumptions C15_scale_none.

Theorem C15_scale_both : forall fl icx icy x y, x <> 0 -> y <> 0 ->
  scale fl icx icy (Some x) (Some y) = Ok (x, y).
Proof. exact scale_both. Qed.
Print Assumptions C15_scale_both.

(** the falsy edge: a zero width or height is treated exactly as an absent one *)
Theorem C15_scale_zero_is_none : forall fl icx icy o,
  scale fl icx icy (Some 0) o = scale fl icx icy None o /\
  scale fl icx icy o (Some 0) = scale fl icx icy o None.
Proof. exact scale_zero_is_none. Qed.
Print Assumptions C15_scale_zero_is_none.

(** one dimension given: the other preserves the aspect ratio within rounding, for any
    rounding operator with relative error at most 2^-53 that is exact on integers up to
    2^53 (the premises on fl are part of the statement) *)
Theorem C15_scale : forall fl : Q -> Q,
  (forall p q, (p == q)%Q -> (fl p == fl q)%Q) ->
  (forall q, (Qabs (fl q - q) <= Qabs q * eps53)%Q) ->
  (forall z, small z -> (fl (inject_Z z) == inject_Z z)%Q) ->
  forall icx icy, small icx -> small icy ->
  (forall x cy, x <> 0 -> truthy cy = false -> icx <> 0 -> small x ->
     exists y, scale fl icx icy (Some x) cy = Ok (x, y) /\
       (Qabs (inject_Z y * inject_Z icx - inject_Z x * inject_Z icy)
        <= Qabs (inject_Z icx) * (1 # 2) + Qabs (inject_Z x * inject_Z icy) * (3 * eps53))%Q) /\
  (forall y cx, y <> 0 -> truthy cx = false -> icy <> 0 -> small y ->
     exists x, scale fl icx icy cx (Some y) = Ok (x, y) /\
       (Qabs (inject_Z x * inject_Z icy - inject_Z y * inject_Z icx)
        <= Qabs (inject_Z icy) * (1 # 2) + Qabs (inject_Z y * inject_Z icx) * (3 * eps53))%Q).
Proof. exact scale_one_given. Qed.
Print Assumptions C15_scale.

(** fl64 of model/Image.v (round to nearest even, 53-bit significand, unbounded exponent:
    the function the runner computes with, validated bit-exactly against CPython floats by
    the correspondence) meets those premises ... *)
Theorem C15_fl64_premises :
  (forall p q, (p == q)%Q -> (fl64 p == fl64 q)%Q) /\
  (forall q, (Qabs (fl64 q - q) <= Qabs q * eps53)%Q) /\
  (forall z, small z -> (fl64 (inject_Z z) == inject_Z z)%Q).
Proof. exact fl64_premises. Qed.
Print Assumptions C15_fl64_premises.

(** ... so for it the aspect bound holds without premises *)
Theorem C15_scale_fl64 : forall icx icy, small icx -> small icy ->
  (forall x cy, x <> 0 -> truthy cy = false -> icx <> 0 -> small x ->
     exists y, scale fl64 icx icy (Some x) cy = Ok (x, y) /\
       (Qabs (inject_Z y * inject_Z icx - inject_Z x * inject_Z icy)
        <= Qabs (inject_Z icx) * (1 # 2) + Qabs (inject_Z x * inject_Z icy) * (3 * eps53))%Q) /\
  (forall y cx, y <> 0 -> truthy cx = false -> icy <> 0 -> small y ->
     exists x, scale fl64 icx icy cx (Some y) = Ok (x, y) /\
       (Qabs (inject_Z x * inject_Z icy - inject_Z y * inject_Z icx)
        <= Qabs (inject_Z icy) * (1 # 2) + Qabs (inject_Z y * inject_Z icx) * (3 * eps53))%Q).
Proof. exact scale_one_given_fl64. Qed.
Print Assumptions C15_scale_fl64.

(** a zero native dimension (not reachable from an image with pixels and dpi <= 2048, see
    C15_native) makes the division fail: ZeroDivisionError *)
Theorem C15_scale_zero_native : forall fl x cy icy, x <> 0 -> truthy cy = false ->
  scale fl 0 icy (Some x) cy = Err OtherErr.
Proof. exact (fun fl x cy icy Hx Hcy => scale_zero_native fl x cy Hx Hcy icy). Qed.
Print Assumptions C15_scale_zero_native.

(* ------------------------------------------------------------------ non-vacuity *)

(** the empty store and a store shaped like the default template (a thumbnail image part
    that no image relationship reaches) satisfy the invariant *)
Example C15_ex_inv_empty : forall H, Inv H empty_state.
Proof. exact inv_empty. Qed.

Definition ex_png : image :=
  mkImage [137; 80; 78; 71; 1]%N (Meta (Some [80; 78; 71]%N) 7 5 PNoTuple false).
Definition ex_jpg : image :=
  mkImage [255; 216; 255; 2]%N (Meta (Some [74; 80; 69; 71]%N) 3 2 (PTuple (DQ (300 # 1)) (DQ (301 # 2))) false).
Definition ex_ops : list op :=
  [OAddSlide; OImage 0 ex_png (UPicture None None); OAddSlide; OImage 1 ex_jpg (UPicture (Some 914400) None);
   OImage 1 ex_png (UPicture None (Some 0)); OReload; OImage 0 ex_png URelOnly; OImage 0 ex_jpg (UPicture (Some 3) (Some 4))].

(** one concrete history (digest = the bytes, fl = fl64): the PNG added three times on two
    slides with a re-open in between is one part, the JPEG another; names, rIds, types
    and sizes as python-pptx gives them *)
Example C15_ex_history :
  snd (run (fun b => b) fl64 empty_state ex_ops) =
  [ Ok OutUnit;
    Ok (OutImg (image_partname 1 [112; 110; 103]%N) 2 [112; 110; 103]%N
          [105; 109; 97; 103; 101; 47; 112; 110; 103]%N 88900 63500);
    Ok OutUnit;
    Ok (OutImg (image_partname 2 [106; 112; 103]%N) 2 [106; 112; 103]%N
          [105; 109; 97; 103; 101; 47; 106; 112; 101; 103]%N 914400 1219200);
    Ok (OutImg (image_partname 1 [112; 110; 103]%N) 3 [112; 110; 103]%N
          [105; 109; 97; 103; 101; 47; 112; 110; 103]%N 88900 63500);
    Ok OutUnit;
    Ok (OutImg (image_partname 1 [112; 110; 103]%N) 2 [112; 110; 103]%N
          [105; 109; 97; 103; 101; 47; 112; 110; 103]%N 0 0);
    Ok (OutImg (image_partname 2 [106; 112; 103]%N) 3 [106; 112; 103]%N
          [105; 109; 97; 103; 101; 47; 106; 112; 101; 103]%N 3 4) ]
  /\ length (st_parts (final (fun b => b) fl64 empty_state ex_ops)) = 2%nat.
Proof. vm_compute. split; reflexivity. Qed.

(** so the hypotheses of C15_once / C15_same_part / C15_distinct are met *)
Example C15_ex_stored_at :
  stored_at (fun b => b) fl64 empty_state ex_ops 1 ex_png (image_partname 1 [112; 110; 103]%N)
    [112; 110; 103]%N [105; 109; 97; 103; 101; 47; 112; 110; 103]%N /\
  stored_at (fun b => b) fl64 empty_state ex_ops 6 ex_png (image_partname 1 [112; 110; 103]%N)
    [112; 110; 103]%N [105; 109; 97; 103; 101; 47; 112; 110; 103]%N /\
  stored_at (fun b => b) fl64 empty_state ex_ops 3 ex_jpg (image_partname 2 [106; 112; 103]%N)
    [106; 112; 103]%N [105; 109; 97; 103; 101; 47; 106; 112; 101; 103]%N.
Proof.
  split; [|split]; unfold stored_at; do 5 eexists; (split; [vm_compute; reflexivity|vm_compute; reflexivity]).
Qed.

Example C15_ex_dpi :
  int_dpi (DQ (72009 # 1000)) = Ok 72 /\ int_dpi (DQ 0) = Ok 72 /\ int_dpi (DQ (5 # 2)) = Ok 2 /\
  int_dpi (DQ (7 # 2)) = Ok 4 /\ int_dpi (DQ (4097 # 2)) = Ok 2048 /\ int_dpi (DQ (4099 # 2)) = Ok 72 /\
  int_dpi (DQ (1 # 2)) = Ok 72 /\ int_dpi (DQ (3 # 2)) = Ok 2 /\
  int_dpi DNan = Ok 72 /\ int_dpi DNonNum = Ok 72 /\ int_dpi DInf = Err OverflowErr.
Proof. vm_compute. repeat split. Qed.

Example C15_ex_native :
  native_size (Meta None 7 5 PNoTuple false) = Ok (88900, 63500) /\
  native_size (Meta None 3 2 (PTuple (DQ (300 # 1)) (DQ (301 # 2))) false) = Ok (9144, 12192) /\
  native_size (Meta None 1 1 (PTuple (DQ (2048 # 1)) (DQ 1)) false) = Ok (446, 914400).
Proof. vm_compute. repeat split. Qed.

Example C15_ex_scale :
  scale fl64 88900 63500 (Some 914400) None = Ok (914400, 653143) /\
  scale fl64 88900 63500 None (Some 914400) = Ok (1280160, 914400) /\
  scale fl64 88900 63500 (Some 0) (Some 5) = Ok (7, 5) /\
  scale fl64 88900 63500 (Some (-10)) None = Ok (-10, -7) /\
  scale fl64 0 63500 (Some 5) None = Err OtherErr /\
  small 914400 /\ small 88900.
Proof. vm_compute. repeat split; discriminate. Qed.

(** the premises of C15_scale are satisfiable *)
Example C15_ex_fl_premises :
  (forall p q, (p == q)%Q -> ((fun x => x) p == (fun x => x) q)%Q) /\
  (forall q, (Qabs ((fun x => x) q - q) <= Qabs q * eps53)%Q) /\
  (forall z, small z -> ((fun x : Q => x) (inject_Z z) == inject_Z z)%Q).
Proof. exact fl_hyps_consistent. Qed.

(** the two repaired behaviours: a TIFF for which Pillow read no XResolution and reports the
    placeholder (1, 1) is sized at 72 dpi, one with the tag keeps its dpi; a blob Pillow
    calls WMF with the EMF signature at offset 40 is stored as emf / image/x-emf, a short or
    different blob as wmf / image/x-wmf *)
Definition ex_emf_blob : blob := repeat 1%N 40 ++ [32; 69; 77; 70; 0; 0]%N.
Example C15_ex_repaired :
  native_size (Meta (Some [84; 73; 70; 70]%N) 64 48 (PTuple (DQ 1) (DQ 1)) false) = Ok (812800, 609600) /\
  native_size (Meta (Some [84; 73; 70; 70]%N) 64 48 (PTuple (DQ (300 # 1)) (DQ (300 # 1))) true) = Ok (195072, 146304) /\
  native_size (Meta (Some [80; 78; 71]%N) 64 48 (PTuple (DQ 1) (DQ 1)) false) = Ok (58521600, 43891200) /\
  image_ext ex_emf_blob (Meta (Some [87; 77; 70]%N) 32 32 PNoTuple false) = Ok [101; 109; 102]%N /\
  ext_content_type [101; 109; 102]%N = Ok [105; 109; 97; 103; 101; 47; 120; 45; 101; 109; 102]%N /\
  image_ext [215; 205; 198; 154]%N (Meta (Some [87; 77; 70]%N) 32 32 PNoTuple false) = Ok [119; 109; 102]%N /\
  ext_content_type [119; 109; 102]%N = Ok [105; 109; 97; 103; 101; 47; 120; 45; 119; 109; 102]%N /\
  image_ext ex_emf_blob (Meta (Some [80; 78; 71]%N) 32 32 PNoTuple false) = Ok [112; 110; 103]%N.
Proof. vm_compute. repeat split. Qed.
