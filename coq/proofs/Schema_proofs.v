(** Proofs about the content-model language and its rank abstraction:
    every accepted child sequence uses only tags of the content model, is sorted by
    rank, and two different tags of equal rank co-occur only in a multi group. *)
From V.lib Require Import Prelude.
From V.model Require Import Schema.

(** * Names for the local fixpoints of [tags_of] / [flatten] *)

Definition tagsl : list cm -> list tag :=
  fix go (l : list cm) : list tag :=
    match l with [] => [] | c :: l' => tags_of c ++ go l' end.
Definition flatl : list cm -> flat :=
  fix go (l : list cm) : flat :=
    match l with [] => [] | c :: l' => flatten c ++ go l' end.

Lemma tags_of_Seq l : tags_of (Seq l) = tagsl l.
Proof. reflexivity. Qed.
Lemma tags_of_Alt l : tags_of (Alt l) = tagsl l.
Proof. reflexivity. Qed.
Lemma flatten_Seq l : flatten (Seq l) = flatl l.
Proof. reflexivity. Qed.
Lemma flatten_Alt l :
  flatten (Alt l) = if forallb is_elt l then [(tagsl l, false)] else flatl l.
Proof. reflexivity. Qed.
Lemma flatten_Rep mn mx c :
  flatten (Rep mn mx c) = if multi_rep mx then [(tags_of c, true)] else flatten c.
Proof. reflexivity. Qed.
Lemma tagsl_cons c l : tagsl (c :: l) = tags_of c ++ tagsl l.
Proof. reflexivity. Qed.
Lemma flatl_cons c l : flatl (c :: l) = flatten c ++ flatl l.
Proof. reflexivity. Qed.

Lemma flatl_app l1 l2 : flatl (l1 ++ l2) = flatl l1 ++ flatl l2.
Proof.
  induction l1 as [|c l1 IH]; [reflexivity|].
  rewrite <- app_comm_cons, !flatl_cons, IH, app_assoc; reflexivity.
Qed.

(** * Nested induction principle for [cm] *)

Fixpoint cm_ind' (P : cm -> Prop)
  (HE : forall t, P (Elt t))
  (HS : forall l, Forall P l -> P (Seq l))
  (HA : forall l, Forall P l -> P (Alt l))
  (HR : forall mn mx c, P c -> P (Rep mn mx c))
  (c : cm) {struct c} : P c :=
  match c with
  | Elt t => HE t
  | Seq l => HS l ((fix go (l : list cm) : Forall P l :=
                      match l with
                      | [] => Forall_nil P
                      | c :: l' => Forall_cons c (cm_ind' P HE HS HA HR c) (go l')
                      end) l)
  | Alt l => HA l ((fix go (l : list cm) : Forall P l :=
                      match l with
                      | [] => Forall_nil P
                      | c :: l' => Forall_cons c (cm_ind' P HE HS HA HR c) (go l')
                      end) l)
  | Rep mn mx c => HR mn mx c (cm_ind' P HE HS HA HR c)
  end.

(** * Mutual induction over derivations *)

Scheme lang_mut := Minimality for lang Sort Prop
  with lang_seq_mut := Minimality for lang_seq Sort Prop
  with lang_rep_mut := Minimality for lang_rep Sort Prop.
Combined Scheme lang_mutind from lang_mut, lang_seq_mut, lang_rep_mut.

(** * Basic facts on [memt], [known], [rank], [multi], [disjoint_groups] *)

Lemma memt_In t l : memt t l = true <-> In t l.
Proof.
  unfold memt; rewrite existsb_exists; split.
  - intros [x [Hx He]]; apply N.eqb_eq in He; subst; auto.
  - intros H; exists t; split; auto; apply N.eqb_refl.
Qed.

Lemma known_nil t : known [] t = false.
Proof. reflexivity. Qed.

Lemma known_cons g b f t : known ((g, b) :: f) t = memt t g || known f t.
Proof. reflexivity. Qed.

Lemma known_app f1 f2 t : known (f1 ++ f2) t = known f1 t || known f2 t.
Proof. unfold known; apply existsb_app. Qed.

Lemma rank_cons g b f t : rank ((g, b) :: f) t = if memt t g then 0 else S (rank f t).
Proof. reflexivity. Qed.

Lemma rank_lt_known f t : known f t = true -> rank f t < length f.
Proof.
  induction f as [|[g b] f IH]; intros H.
  - discriminate.
  - rewrite known_cons in H; rewrite rank_cons; cbn [length].
    destruct (memt t g); cbn [orb] in H; [lia|]. apply IH in H; lia.
Qed.

Lemma rank_app_known f1 f2 t : known f1 t = true -> rank (f1 ++ f2) t = rank f1 t.
Proof.
  induction f1 as [|[g b] f1 IH]; intros H.
  - discriminate.
  - rewrite known_cons in H; rewrite <- app_comm_cons, !rank_cons.
    destruct (memt t g); cbn [orb] in H; [reflexivity|]. rewrite IH; auto.
Qed.

Lemma rank_app_unknown f1 f2 t :
  known f1 t = false -> rank (f1 ++ f2) t = length f1 + rank f2 t.
Proof.
  induction f1 as [|[g b] f1 IH]; intros H.
  - reflexivity.
  - rewrite known_cons in H; rewrite <- app_comm_cons, rank_cons; cbn [length].
    destruct (memt t g); cbn [orb] in H; [discriminate|]. rewrite IH; auto.
Qed.

Lemma multi_app_l f1 f2 r : r < length f1 -> multi (f1 ++ f2) r = multi f1 r.
Proof. intros H; unfold multi; rewrite app_nth1; auto. Qed.

Lemma multi_app_r f1 f2 r : multi (f1 ++ f2) (length f1 + r) = multi f2 r.
Proof. unfold multi; rewrite app_nth2_plus; reflexivity. Qed.

Lemma disjoint_cons g b f :
  disjoint_groups ((g, b) :: f) =
  forallb (fun t => negb (known f t)) g && disjoint_groups f.
Proof. reflexivity. Qed.

Lemma disjoint_app f1 f2 :
  disjoint_groups (f1 ++ f2) = true ->
  disjoint_groups f1 = true /\ disjoint_groups f2 = true /\
  (forall t, known f1 t = true -> known f2 t = false).
Proof.
  induction f1 as [|[g b] f1 IH]; intros H.
  - cbn [app] in H. repeat split; auto. intros t Ht; discriminate.
  - rewrite <- app_comm_cons, disjoint_cons in H.
    apply andb_true_iff in H; destruct H as [Hg Hd].
    destruct (IH Hd) as [H1 [H2 H3]].
    rewrite forallb_forall in Hg.
    repeat split; auto.
    + rewrite disjoint_cons; apply andb_true_iff; split; auto.
      apply forallb_forall; intros t Ht. specialize (Hg t Ht).
      rewrite known_app in Hg. destruct (known f1 t); auto.
    + intros t Ht. rewrite known_cons in Ht.
      destruct (memt t g) eqn:Hm; cbn [orb] in Ht.
      * apply memt_In in Hm. specialize (Hg t Hm).
        rewrite known_app in Hg. destruct (known f2 t); auto.
        rewrite orb_true_r in Hg; discriminate.
      * auto.
Qed.

(** * [ord] *)

Lemma ord_app rk w1 w2 :
  ord rk (w1 ++ w2) <->
  ord rk w1 /\ ord rk w2 /\ (forall a b, In a w1 -> In b w2 -> rk a <= rk b).
Proof.
  induction w1 as [|x w1 IH]; cbn [app ord].
  - split; [intros H; repeat split; auto; intros a b []|intros [_ [H _]]; exact H].
  - rewrite IH; split.
    + intros [Hx [H1 [H2 H3]]]; repeat split; auto.
      * intros b Hb; apply Hx, in_or_app; auto.
      * intros a b [<-|Ha] Hb; [apply Hx, in_or_app; auto|apply H3; auto].
    + intros [[Hx H1] [H2 H3]]; repeat split; auto.
      * intros b Hb; apply in_app_or in Hb; destruct Hb as [Hb|Hb]; [auto|].
        apply H3; [left; reflexivity|exact Hb].
      * intros a b Ha Hb; apply H3; [right; exact Ha|exact Hb].
Qed.

Lemma ord_ext rk rk' w :
  (forall a b, In a w -> In b w -> rk a <= rk b -> rk' a <= rk' b) ->
  ord rk w -> ord rk' w.
Proof.
  induction w as [|x w IH]; cbn [ord]; auto.
  intros He [Hx Hw]; split.
  - intros b Hb; apply He; [left; reflexivity|right; exact Hb|auto].
  - apply IH; auto. intros a b Ha Hb; apply He; right; auto.
Qed.

Lemma ordb_ord rk l : ordb rk l = true <-> ord rk l.
Proof.
  induction l as [|a l IH]; cbn [ordb ord].
  - split; auto.
  - rewrite andb_true_iff, forallb_forall, IH; split; intros [H1 H2]; split; auto.
    + intros b Hb; apply Nat.leb_le; auto.
    + intros b Hb; apply Nat.leb_le; auto.
Qed.

(** * The invariant carried through the induction *)

Definition amo (f : flat) (w : list tag) : Prop :=
  forall a b, In a w -> In b w -> a <> b ->
    rank f a = rank f b -> multi f (rank f a) = true.

Definition good (f : flat) (w : list tag) : Prop := ord (rank f) w /\ amo f w.

Definition allk (f : flat) (w : list tag) : Prop := forall t, In t w -> known f t = true.

Lemma good_nil f : good f [].
Proof. split; [exact I|intros a b []]. Qed.

Lemma good_single f t : good f [t].
Proof.
  split.
  - cbn [ord]; split; auto; intros b [].
  - intros a b [<-|[]] [<-|[]] Hn; congruence.
Qed.

Lemma good_multi g w : (forall t, In t w -> In t g) -> good [(g, true)] w.
Proof.
  intros H.
  assert (Hr : forall t, In t w -> rank [(g, true)] t = 0).
  { intros t Ht; rewrite rank_cons. apply H, memt_In in Ht; rewrite Ht; reflexivity. }
  split.
  - apply ord_ext with (rk := fun _ => 0); [|clear; induction w; cbn [ord]; auto].
    intros a b Ha Hb _; rewrite (Hr a Ha), (Hr b Hb); auto.
  - intros a b Ha Hb _ _; rewrite (Hr a Ha); reflexivity.
Qed.

Lemma good_embed pre f post w :
  allk f w -> (forall t, known f t = true -> known pre t = false) ->
  good f w -> good (pre ++ f ++ post) w.
Proof.
  intros Hk Hp [Ho Ha].
  assert (Hr : forall t, In t w -> rank (pre ++ f ++ post) t = length pre + rank f t).
  { intros t Ht. rewrite rank_app_unknown by (apply Hp, Hk, Ht).
    rewrite rank_app_known by (apply Hk, Ht). reflexivity. }
  split.
  - apply ord_ext with (2 := Ho). intros a b Ha' Hb' Hle.
    rewrite (Hr a Ha'), (Hr b Hb'); lia.
  - intros a b Ha' Hb' Hn He. rewrite (Hr a Ha'), (Hr b Hb') in He.
    rewrite (Hr a Ha'), multi_app_r, multi_app_l by (apply rank_lt_known, Hk, Ha').
    apply (Ha a b); auto; lia.
Qed.

Lemma good_concat f w1 w2 :
  good f w1 -> good f w2 ->
  (forall a b, In a w1 -> In b w2 -> rank f a < rank f b) ->
  good f (w1 ++ w2).
Proof.
  intros [Ho1 Ha1] [Ho2 Ha2] Hlt; split.
  - apply ord_app; repeat split; auto. intros a b Ha Hb; specialize (Hlt a b Ha Hb); lia.
  - intros a b Ha Hb Hn He.
    apply in_app_or in Ha; apply in_app_or in Hb.
    destruct Ha as [Ha|Ha], Hb as [Hb|Hb].
    + apply (Ha1 a b); auto.
    + specialize (Hlt a b Ha Hb); lia.
    + specialize (Hlt b a Hb Ha); lia.
    + apply (Ha2 a b); auto.
Qed.

Lemma good_app f1 f2 w1 w2 :
  disjoint_groups (f1 ++ f2) = true ->
  allk f1 w1 -> allk f2 w2 -> good f1 w1 -> good f2 w2 ->
  good (f1 ++ f2) (w1 ++ w2).
Proof.
  intros Hd Hk1 Hk2 G1 G2.
  destruct (disjoint_app _ _ Hd) as [_ [_ Hx]].
  assert (Hx' : forall t, known f2 t = true -> known f1 t = false).
  { intros t Ht. destruct (known f1 t) eqn:E; auto. rewrite (Hx t E) in Ht; discriminate. }
  apply good_concat.
  - apply (good_embed [] f1 f2 w1); auto.
  - pose proof (good_embed f1 f2 [] w2 Hk2 Hx' G2) as G. rewrite app_nil_r in G; exact G.
  - intros a b Ha Hb.
    rewrite rank_app_known by (apply Hk1, Ha).
    rewrite rank_app_unknown by (apply Hx', Hk2, Hb).
    pose proof (rank_lt_known f1 a (Hk1 a Ha)); lia.
Qed.

(** * Theorem 1: accepted words use only tags of the content model *)

Lemma lang_tags_mut :
  (forall c w, lang c w -> forall t, In t w -> In t (tags_of c)) /\
  (forall l w, lang_seq l w -> forall t, In t w -> In t (tagsl l)) /\
  (forall c n w, lang_rep c n w -> forall t, In t w -> In t (tags_of c)).
Proof.
  apply lang_mutind.
  - intros t x Hx; exact Hx.
  - intros l w _ IH t Ht; rewrite tags_of_Seq; auto.
  - intros l c w Hc _ IH t Ht; rewrite tags_of_Alt.
    apply in_split in Hc; destruct Hc as [l1 [l2 ->]].
    clear - IH Ht. induction l1 as [|d l1 IHl]; cbn [app]; rewrite tagsl_cons;
      apply in_or_app; [left; auto|right; exact IHl].
  - intros mn mx c n w _ IH _ _ t Ht; cbn [tags_of]; auto.
  - intros t [].
  - intros c l w1 w2 _ IH1 _ IH2 t Ht; rewrite tagsl_cons.
    apply in_app_or in Ht; apply in_or_app; destruct Ht; [left|right]; auto.
  - intros c t [].
  - intros c n w1 w2 _ IH1 _ IH2 t Ht.
    apply in_app_or in Ht; destruct Ht; auto.
Qed.

Theorem lang_tags c w : lang c w -> forall t, In t w -> In t (tags_of c).
Proof. apply lang_tags_mut. Qed.

(** * Theorem 2: the tags of a content model are exactly the known tags of its flattening *)

Lemma known_single g b t : known [(g, b)] t = true <-> In t g.
Proof. rewrite known_cons, known_nil, orb_false_r; apply memt_In. Qed.

Lemma tagsl_flatl_known l t :
  Forall (fun c => forall t, In t (tags_of c) <-> known (flatten c) t = true) l ->
  (In t (tagsl l) <-> known (flatl l) t = true).
Proof.
  induction 1 as [|c l Hc _ IH].
  - cbn [tagsl flatl]; rewrite known_nil; split; [intros []|discriminate].
  - rewrite tagsl_cons, flatl_cons, known_app, in_app_iff, orb_true_iff, Hc, IH; reflexivity.
Qed.

Theorem tags_known c t : In t (tags_of c) <-> known (flatten c) t = true.
Proof.
  revert t; induction c as [x|l IH|l IH|mn mx c IH] using cm_ind'; intros t.
  - cbn [tags_of flatten]; symmetry; apply known_single.
  - rewrite tags_of_Seq, flatten_Seq; apply tagsl_flatl_known; exact IH.
  - rewrite tags_of_Alt, flatten_Alt; destruct (forallb is_elt l).
    + symmetry; apply known_single.
    + apply tagsl_flatl_known; exact IH.
  - rewrite flatten_Rep; cbn [tags_of]; destruct (multi_rep mx).
    + symmetry; apply known_single.
    + apply IH.
Qed.

Lemma lang_allk c w : lang c w -> allk (flatten c) w.
Proof. intros H t Ht; apply tags_known; eapply lang_tags; eauto. Qed.

Lemma lang_seq_allk l w : lang_seq l w -> allk (flatl l) w.
Proof.
  intros H t Ht. change (flatl l) with (flatten (Seq l)).
  apply tags_known. rewrite tags_of_Seq.
  destruct lang_tags_mut as [_ [Hs _]]; eapply Hs; eauto.
Qed.

(** * Theorems 3 and 4 together *)

Lemma lang_good_mut :
  (forall c w, lang c w ->
     disjoint_groups (flatten c) = true -> good (flatten c) w) /\
  (forall l w, lang_seq l w ->
     disjoint_groups (flatl l) = true -> good (flatl l) w) /\
  (forall c n w, lang_rep c n w -> n <= 1 ->
     disjoint_groups (flatten c) = true -> good (flatten c) w).
Proof.
  apply lang_mutind.
  - (* L_elt *) intros t _; apply good_single.
  - (* L_seq *) intros l w _ IH Hd; rewrite flatten_Seq in *; auto.
  - (* L_alt *)
    intros l c w Hc Hl IH Hd; rewrite flatten_Alt in *.
    destruct (forallb is_elt l) eqn:Hall.
    + rewrite forallb_forall in Hall. specialize (Hall c Hc).
      destruct c; try discriminate. inversion Hl; subst. apply good_single.
    + apply in_split in Hc; destruct Hc as [l1 [l2 ->]].
      rewrite flatl_app, flatl_cons in *.
      destruct (disjoint_app _ _ Hd) as [_ [Hd2 Hx]].
      destruct (disjoint_app _ _ Hd2) as [Hdc _].
      apply good_embed; auto.
      * apply lang_allk; exact Hl.
      * intros t Ht. destruct (known (flatl l1) t) eqn:E; auto.
        specialize (Hx t E). rewrite known_app, Ht in Hx; discriminate.
  - (* L_rep *)
    intros mn mx c n w Hr IH Hmn Hmx Hd; rewrite flatten_Rep in *.
    destruct (multi_rep mx) eqn:Hm.
    + apply good_multi. destruct lang_tags_mut as [_ [_ H3]]; eapply H3; eauto.
    + destruct mx as [m|]; [|discriminate]. cbn [multi_rep] in Hm.
      apply Nat.ltb_ge in Hm. apply IH; auto; lia.
  - (* LS_nil *) intros _; apply good_nil.
  - (* LS_cons *)
    intros c l w1 w2 H1 IH1 H2 IH2 Hd; rewrite flatl_cons in *.
    destruct (disjoint_app _ _ Hd) as [Hd1 [Hd2 _]].
    apply good_app; auto.
    + apply lang_allk; exact H1.
    + apply lang_seq_allk; exact H2.
  - (* LR_0 *) intros c _ _; apply good_nil.
  - (* LR_S *)
    intros c n w1 w2 H1 IH1 H2 IH2 Hn Hd.
    assert (n = 0) by lia; subst n. inversion H2; subst.
    rewrite app_nil_r; auto.
Qed.

Theorem lang_sorted c w :
  disjoint_groups (flatten c) = true -> lang c w -> ord (rank (flatten c)) w.
Proof. intros Hd Hl; apply lang_good_mut; auto. Qed.

Theorem lang_amo c w : disjoint_groups (flatten c) = true -> lang c w ->
  forall a b, In a w -> In b w -> a <> b ->
  rank (flatten c) a = rank (flatten c) b -> multi (flatten c) (rank (flatten c) a) = true.
Proof.
  intros Hd Hl. destruct lang_good_mut as [H _].
  destruct (H c w Hl Hd) as [_ Ha]; exact Ha.
Qed.

(** * Non-vacuity: a concrete content model and word meeting the hypotheses,
      with two different tags of equal rank inside the multi group *)

Definition ex_cm : cm :=
  Seq [Elt 1%N; Rep 0 None (Alt [Elt 2%N; Elt 3%N]); Rep 0 (Some 1) (Elt 4%N);
       Alt [Seq [Elt 5%N; Elt 6%N]; Elt 7%N]].
Definition ex_w : list tag := [1; 3; 2; 4; 5; 6]%N.

Example ex_disjoint : disjoint_groups (flatten ex_cm) = true.
Proof. vm_compute; reflexivity. Qed.

Example ex_lang : lang ex_cm ex_w.
Proof.
  unfold ex_cm, ex_w. apply L_seq.
  change (lang_seq
    [Elt 1%N; Rep 0 None (Alt [Elt 2%N; Elt 3%N]); Rep 0 (Some 1) (Elt 4%N);
     Alt [Seq [Elt 5%N; Elt 6%N]; Elt 7%N]]
    ([1%N] ++ ([3%N] ++ [2%N] ++ []) ++ ([4%N] ++ []) ++ ([5%N] ++ [6%N] ++ []) ++ [])).
  apply LS_cons; [apply L_elt|].
  apply LS_cons.
  { apply L_rep with (n := 2); [|lia|exact I].
    apply LR_S; [apply L_alt with (c := Elt 3%N); [cbn [In]; auto|apply L_elt]|].
    apply LR_S; [apply L_alt with (c := Elt 2%N); [cbn [In]; auto|apply L_elt]|].
    apply LR_0. }
  apply LS_cons.
  { apply L_rep with (n := 1); [|lia|lia].
    apply LR_S; [apply L_elt|apply LR_0]. }
  apply LS_cons; [|apply LS_nil].
  apply L_alt with (c := Seq [Elt 5%N; Elt 6%N]); [cbn [In]; auto|].
  apply L_seq. apply LS_cons; [apply L_elt|]. apply LS_cons; [apply L_elt|apply LS_nil].
Qed.

Example ex_same_rank :
  rank (flatten ex_cm) 3%N = rank (flatten ex_cm) 2%N /\
  multi (flatten ex_cm) (rank (flatten ex_cm) 3%N) = true /\
  ordb (rank (flatten ex_cm)) ex_w = true.
Proof. vm_compute; auto. Qed.

Print Assumptions lang_tags.
Print Assumptions tags_known.
Print Assumptions lang_sorted.
Print Assumptions lang_amo.
Print Assumptions ordb_ord.
