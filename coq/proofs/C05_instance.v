(** Instance obligations of C05 over the sink list regenerated from /repo (gen/GenC05.v). *)
From V.lib Require Import Prelude.
From V.model Require Import Escape.
From V.proofs Require Import Escape_proofs.
From V.gen Require Import GenC05.

Lemma no_unmodelled : n_unmodelled = 0%nat.
Proof. vm_compute. reflexivity. Qed.

Definition sink_passes (k : sink) : bool := memN (sk_id k) known_failing || sink_good k.

Lemma all_sinks_pass : forallb sink_passes sinks = true.
Proof. vm_compute. reflexivity. Qed.

Lemma all_sinks_safe : forall k, In k sinks -> memN (sk_id k) known_failing = false ->
  forall s, xml_str s = true -> (sk_esc k = NotText -> plain s = true) ->
  lex_slot (sk_ctx k) (apply_esc (sk_esc k) s) = Got (norm (sk_ctx k) s).
Proof.
  intros k Hin Hk s Hx Hp. pose proof (proj1 (forallb_forall _ _) all_sinks_pass k Hin) as H.
  unfold sink_passes in H. rewrite Hk in H. simpl in H. apply sink_ok_sound; auto.
Qed.

(** the same for values that the parser normalisation leaves alone: exactly the caller's string *)
Lemma all_sinks_exact : forall k, In k sinks -> memN (sk_id k) known_failing = false ->
  forall s, xml_str s = true -> no_ws_ctl s = true -> (sk_esc k = NotText -> plain s = true) ->
  lex_slot (sk_ctx k) (apply_esc (sk_esc k) s) = Got s.
Proof.
  intros k Hin Hk s Hx Hw Hp. rewrite (all_sinks_safe k Hin Hk s Hx Hp). f_equal.
  destruct (sk_ctx k).
  - apply norm_attr_id; auto.
  - apply norm_text_id. unfold no_ws_ctl in Hw. unfold no_cr. rewrite forallb_forall in *.
    intros c Hc. specialize (Hw c Hc). apply negb_true_iff in Hw. apply orb_false_iff in Hw as [_ Hw].
    rewrite Hw. reflexivity.
Qed.

(** recorded findings are real: every known-failing sink is rejected by the table and its
    witness string does break the slot *)
Definition known_real (k : sink) : bool :=
  negb (memN (sk_id k) known_failing) || (negb (sink_good k) && sink_breaks k).

Lemma all_known_real : forallb known_real sinks = true.
Proof. vm_compute. reflexivity. Qed.

Lemma known_failing_refuted : forall k, In k sinks -> memN (sk_id k) known_failing = true ->
  xml_str (sink_witness k) = true /\
  lex_slot (sk_ctx k) (apply_esc (sk_esc k) (sink_witness k)) <> Got (norm (sk_ctx k) (sink_witness k)).
Proof.
  intros k Hin Hk. pose proof (proj1 (forallb_forall _ _) all_known_real k Hin) as H.
  unfold known_real in H. rewrite Hk in H. simpl in H. apply andb_true_iff in H as [Hg Hb].
  apply negb_true_iff in Hg. unfold sink_good in Hg.
  destruct (sink_ok_complete _ _ Hg) as [Hx [_ Hne]]. split; [exact Hx|exact Hne].
Qed.

(** ids are the positions in the list (so that the meta file and the list agree) *)
Fixpoint ids_from (n : N) (l : list sink) : bool :=
  match l with [] => true | k :: r => N.eqb (sk_id k) n && ids_from (N.succ n) r end.
Lemma ids_sequential : ids_from 0%N sinks = true.
Proof. vm_compute. reflexivity. Qed.

(** every sink that receives caller text is in the list, and known findings are among them *)
Lemma known_are_caller_text : forallb (fun i => memN i caller_text_sinks) known_failing = true.
Proof. vm_compute. reflexivity. Qed.
