"""C19 — part-name arithmetic.  Proof: props/C19.v over model/PackUri.v.
Tie: correspondence of the extracted model with pptx.opc.packuri.PackURI on
bounded-exhaustive part names (depth <= 3 quick / 4 thorough) + random references.
Oracle: the property's own statement evaluated on the implementation with an
independent reading of OPC names and urllib's RFC 3986 resolver."""
import itertools
import posixpath
from urllib.parse import urljoin

from corr.harness import coq_build, run_model, dec, exc_name

SEGS = [
    "ppt", "slide12", "a.b", "x.tar.gz", "media", "Slide1.XML", "[Content_Types].xml",
    "_rels", ".hidden", "..x", "s1a.xml", "9lives.xml", "im age.png", "slide007.xml", "é2.xml", "a1.",
]
TB = [
    "posixpath.split/splitext/join/normpath/abspath/relpath are re-implemented in model/PackUri.v (transcribed, tied by this correspondence, not verified against CPython)",
    "re prefix match of ([a-zA-Z]+)([0-9][0-9]*)? modelled as take_while over ASCII classes",
]
ASSUME = [
    "abspath/relpath on a non-absolute start consult os.getcwd(); the model returns Err Other there and such inputs are not generated",
    "RFC 3986 5.2.4 is transcribed at segment level (dot-segment removal as a stack machine); references ending in '.', '..', '/' or containing '//' are outside C19_rfc3986 (ref_ok) because the RFC keeps a trailing or doubled slash that a part name cannot carry",
]


def names(depth):
    out = ["/"]
    for d in range(1, depth + 1):
        for t in itertools.product(SEGS, repeat=d):
            out.append("/" + "/".join(t))
    return out


def impl(case):
    from pptx.opc.packuri import PackURI

    op = case[0]
    try:
        if op == "acc":
            p = PackURI(case[1])
            try:
                r = "ok:" + show(p.rels_uri)
            except Exception as e:  # noqa
                r = "err:" + exc_name(e)
            return "|".join([show(p.baseURI), show(p.filename), show(p.ext),
                             "None" if p.idx is None else str(p.idx), show(p.membername), r])
        if op == "new":
            return "ok:" + show(PackURI(case[1]))
        if op == "rt":
            P, Q = PackURI(case[1]), PackURI(case[2])
            base = P.baseURI
            try:
                ref = Q.relative_ref(base)
            except Exception as e:  # noqa
                return "err:%s|err:%s" % (exc_name(e), exc_name(e))
            try:
                back = "ok:" + show(PackURI.from_rel_ref(base, ref))
            except Exception as e:  # noqa
                back = "err:" + exc_name(e)
            return "ok:" + show(ref) + "|" + back
        if op == "frr":
            return "ok:" + show(PackURI.from_rel_ref(case[1], case[2]))
        if op == "rel":
            return "ok:" + show(PackURI(case[1]).relative_ref(case[2]))
    except Exception as e:  # noqa
        return "err:" + exc_name(e)
    return "badcase"


def show(s):
    return " ".join(str(ord(c)) for c in s)


def expected_acc(name):
    """Independent reading of OPC part-name structure (string slicing only)."""
    if name == "/":
        return {"baseURI": "/", "filename": "", "membername": "", "rels": "/_rels/.rels"}
    segs = name[1:].split("/")
    d, f = segs[:-1], segs[-1]
    base = "/" + "/".join(d)
    return {"baseURI": base, "filename": f, "membername": name[1:],
            "rels": (base if d else "") + "/_rels/" + f + ".rels"}


def oracle(ck, case, out):
    """The property's statement on the implementation's own output."""
    op = case[0]
    if op == "rt":
        parts = out.split("|")
        if parts[1] != "ok:" + show(case[2]):
            ck.violation("roundtrip", "from_rel_ref(P.baseURI, Q.relative_ref(P.baseURI)) != Q for P=%r Q=%r (got %s)" % (
                case[1], case[2], parts[1]), {"entry_point": "PackURI.relative_ref/from_rel_ref", "input": case, "impl_outcome": out})
    elif op == "acc":
        f = out.split("|")
        exp = expected_acc(case[1])
        got = {"baseURI": dec(f[0]), "filename": dec(f[1]), "membername": dec(f[4]),
               "rels": dec(f[5][3:]) if f[5].startswith("ok:") else f[5]}
        if got != exp:
            ck.violation("accessors", "accessors of %r: expected %r got %r" % (case[1], exp, got),
                         {"entry_point": "PackURI accessors", "input": case, "impl_outcome": out})
        fn = exp["filename"]
        ext = dec(f[2])
        stem_ext = fn.rsplit(".", 1)
        if len(stem_ext) == 2 and stem_ext[0].strip(".") != "":
            want = stem_ext[1]
        else:
            want = ""
        if ext != want:
            ck.violation("ext", "ext of %r: expected %r got %r" % (case[1], want, ext),
                         {"entry_point": "PackURI.ext", "input": case, "impl_outcome": out})
        import re
        stem = stem_ext[0] if (len(stem_ext) == 2 and stem_ext[0].strip(".") != "") else fn
        m = re.fullmatch(r"([a-zA-Z]+)([0-9]+)", stem)
        m0 = re.fullmatch(r"[a-zA-Z]+", stem)
        if m and f[3] != str(int(m.group(2))):
            ck.violation("idx", "idx of %r: expected %d got %s" % (case[1], int(m.group(2)), f[3]),
                         {"entry_point": "PackURI.idx", "input": case, "impl_outcome": out})
        if m0 and f[3] != "None":
            ck.violation("idx", "idx of %r: expected None got %s" % (case[1], f[3]),
                         {"entry_point": "PackURI.idx", "input": case, "impl_outcome": out})
    elif op == "new":
        if not case[1].startswith("/") and not (out.startswith("err:Value") or out.startswith("err:Index")):
            ck.violation("reject", "PackURI(%r) not rejected: %s" % (case[1], out),
                         {"entry_point": "PackURI", "input": case, "impl_outcome": out})
    elif op == "frr":
        base, ref = case[1], case[2]
        if ref_ok(ref):
            want = urljoin("http://h" + base.rstrip("/") + "/", ref)[len("http://h"):] or "/"
            if out != "ok:" + show(want):
                ck.violation("rfc3986", "from_rel_ref(%r, %r): RFC 3986 gives %r, got %s" % (base, ref, want, out),
                             {"entry_point": "PackURI.from_rel_ref", "input": case, "impl_outcome": out})


def ref_ok(ref):
    if not ref:
        return False
    pieces = ref.split("/")
    if pieces[0] == "":
        pieces = pieces[1:]
    return bool(pieces) and all(pieces) and pieces[-1] not in (".", "..")


def gen_cases(tier, rng):
    depth = 3 if tier == "quick" else 4
    ns = names(depth)
    cases = [("acc", n) for n in ns]
    npairs = 60000 if tier == "quick" else 600000
    small = names(2)
    # all pairs at depth <= 2 (273^2 = 74529), sampled pairs deeper
    if tier == "thorough":
        cases += [("rt", p, q) for p in small for q in small]
    else:
        cases += [("rt", p, q) for p in names(1) for q in small]
    for _ in range(npairs):
        cases.append(("rt", rng.choice(ns), rng.choice(ns)))
    # references with dot segments / root-absolute
    pieces = SEGS[:8] + [".", "..", "..", "."]
    for _ in range(20000 if tier == "quick" else 200000):
        base = rng.choice(small)
        n = rng.randint(1, 5)
        ref = "/".join(rng.choice(pieces) for _ in range(n))
        r = rng.random()
        if r < 0.2:
            ref = "/" + ref
        elif r < 0.25:
            ref = ref + "/"
        elif r < 0.3:
            ref = ref.replace("/", "//", 1)
        cases.append(("frr", base, ref))
    for s in ["", "ppt/x.xml", "a", ".", "../x", "\\x", " /x", "x/", "é", "//x/y", "/"]:
        cases.append(("new", s))
    for _ in range(300):
        cases.append(("new", "".join(rng.choice("ab/.[ 1") for _ in range(rng.randint(0, 6)))))
    return cases


def nontrivial(case):
    if case[0] == "rt":
        return case[1] != case[2] and case[1].count("/") >= 2 and case[2].count("/") >= 2
    if case[0] == "frr":
        return "." in case[2].split("/") or ".." in case[2].split("/") or case[2].startswith("/")
    if case[0] == "acc":
        return case[1].count("/") >= 2
    return True


def assigned_partnames():
    """the part names python-pptx itself assigns: every partname_template of a part class (read from the live classes),
    instantiated with 1 and with 12"""
    import importlib
    import inspect
    import pkgutil

    import pptx.parts
    out = []
    for mi in pkgutil.iter_modules(pptx.parts.__path__):
        mod = importlib.import_module("pptx.parts." + mi.name)
        for _n, cls in sorted(vars(mod).items()):
            t = getattr(cls, "partname_template", None) if inspect.isclass(cls) else None
            if isinstance(t, str) and "%d" in t:
                out += [t % 1, t % 12]
    return sorted(set(out))


def written_targets(ck, rt_cases, rng, n):
    """The property speaks of the relationship target WRITTEN for a source -> target pair: relative_ref's answer goes
    through _Relationships / CT_Relationships into the Target attribute of the serialised rels item.  For sampled pairs
    the Target read from the bytes the real writer produces must resolve from the source's directory back to the target."""
    from lxml import etree
    from pptx.opc.package import Part, _Relationships
    from pptx.opc.packuri import PackURI
    pairs = rt_cases if len(rt_cases) <= n else rng.sample(rt_cases, n)
    pairs = list(pairs) + [("rt", src, tgt) for tgt in assigned_partnames() for src in ("/ppt/slides/slide1.xml", "/ppt/presentation.xml", tgt)]
    for _k, src, tgt in pairs:
        try:
            s_uri, t_uri = PackURI(src), PackURI(tgt)
            rels = _Relationships(s_uri.baseURI)
            part = Part(t_uri, "application/xml", None, b"")
            rid = rels.get_or_add("http://example.com/rt", part)
            root = etree.fromstring(rels.xml)
            target = [e.get("Target") for e in root if e.get("Id") == rid][0]
            back = PackURI.from_rel_ref(s_uri.baseURI, target)
        except Exception as e:  # noqa
            ck.violation("written-target-raises", "writing the relationship %s -> %s raised %s: %s" % (src, tgt, type(e).__name__, str(e)[:120]),
                         {"entry_point": "_Relationships.get_or_add + .xml", "input": [src, tgt], "impl_outcome": type(e).__name__})
            continue
        ck.count(("written", src, tgt), src != tgt, "written-target")
        if str(back) != tgt:
            ck.violation("written-target", "the relationship target written for %s -> %s is %r, which resolves from %s to %s" % (
                src, tgt, target, s_uri.baseURI, back),
                {"entry_point": "_Relationships.xml (CT_Relationships.add_rel)", "input": [src, tgt], "impl_outcome": [target, str(back)]})


def loaded_targets(ck, rt_cases, rng, npk):
    """... and of the part names LOADED for the Target attributes of a package: in generated packages the same
    relative reference text recurs in the relationship items of sources in different directories (as ../media/image1.png
    does in real decks), so every reference must be resolved against the directory of ITS OWN source.  Expected target =
    RFC 3986 resolution, computed here with posixpath on plain strings, independent of PackURI and of the loader."""
    import io
    import posixpath
    import zipfile
    from xml.sax.saxutils import quoteattr

    from pptx.opc.package import OpcPackage

    def ok_name(n):
        segs = n.split("/")[1:]
        return (n.startswith("/") and n != "/" and not n.endswith("/") and all(segs) and "_rels" not in segs
                and "[Content_Types].xml" not in n and not any(sg in (".", "..") for sg in segs))

    pool = [(s_, t_) for _k, s_, t_ in rt_cases if ok_name(s_) and ok_name(t_) and s_ != t_]
    if not pool:
        return
    RT = "http://example.com/rt"
    for _ in range(npk):
        src0, tgt0 = rng.choice(pool)
        ref = posixpath.relpath(tgt0, posixpath.dirname(src0))
        fname = posixpath.basename(src0)
        bases = [posixpath.dirname(src0)] + ["/" + "/".join(rng.choice(["a", "b", "ppt", "x1", "D.e"]) for _ in range(rng.randint(1, 3)))
                                             for _ in range(rng.randint(1, 3))]
        want = {}     # source name -> [(rId, reference, expected target name)]
        names = set()
        for b in dict.fromkeys(bases):
            src = posixpath.join(b, fname)
            tgt = posixpath.normpath(posixpath.join(b, ref))
            if not ok_name(src) or not ok_name(tgt) or tgt.startswith("/..") or src in names:
                continue
            want[src] = [("rId1", ref, tgt)]
            if rng.random() < 0.5:       # a second reference, root-absolute, to a part of another source
                want[src].append(("rId2", tgt0, tgt0))
            names |= {src, tgt, tgt0}
        # no name may be both a part and a source's target twice over with different roles: sources are parts too
        lower = [n.lower() for n in names]
        if len(set(lower)) != len(lower) or len(want) < 2:
            continue
        members = {"[Content_Types].xml": '<?xml version="1.0" encoding="UTF-8" standalone="yes"?>\n<Types xmlns="http://schemas.openxmlformats.org/package/2006/content-types">'
                   + "".join('<Override PartName=%s ContentType="application/xml"/>' % quoteattr(n) for n in sorted(names))
                   + '<Default Extension="rels" ContentType="application/vnd.openxmlformats-package.relationships+xml"/></Types>'}

        def rels_xml(rows):
            return ('<?xml version="1.0" encoding="UTF-8" standalone="yes"?>\n<Relationships xmlns="http://schemas.openxmlformats.org/package/2006/relationships">'
                    + "".join('<Relationship Id="%s" Type="%s" Target=%s/>' % (rid, RT, quoteattr(t)) for rid, t, _e in rows) + "</Relationships>")
        members["_rels/.rels"] = rels_xml([("rId%d" % (i + 1), s_, s_) for i, s_ in enumerate(sorted(want))])
        for n in names:
            members[n[1:]] = "<r/>"
        for s_, rows in want.items():
            members[posixpath.join(posixpath.dirname(s_), "_rels", posixpath.basename(s_) + ".rels")[1:]] = rels_xml(rows)
        buf = io.BytesIO()
        with zipfile.ZipFile(buf, "w") as z:
            for k, v in members.items():
                z.writestr(k, v)
        rec_in = {"members": members}
        try:
            pkg = OpcPackage.open(io.BytesIO(buf.getvalue()))
            loaded = {str(p.partname): p for p in pkg.iter_parts()}
        except Exception as e:  # noqa
            ck.violation("loaded-target-raises", "opening a package whose relationship items repeat the reference %r in %d directories raised %s: %s"
                         % (ref, len(want), type(e).__name__, str(e)[:160]),
                         {"entry_point": "OpcPackage.open", "input": rec_in, "impl_outcome": type(e).__name__})
            continue
        for s_, rows in sorted(want.items()):
            ck.count(("loaded", s_, ref), True, "loaded-target")
            part = loaded.get(s_)
            got = {} if part is None else {rid: (None if r.is_external else str(r.target_part.partname)) for rid, r in part.rels.items()}
            for rid, t, exp in rows:
                if got.get(rid) != exp:
                    ck.violation("loaded-target", "the reference %r in the relationship item of %s was loaded as %s; it resolves from %s to %s (the same "
                                 "reference text occurs in the items of %d sources in different directories)"
                                 % (t, s_, got.get(rid, "<relationship absent>") if part is not None else "<source part not loaded>",
                                    posixpath.dirname(s_), exp, len(want)),
                                 {"entry_point": "OpcPackage.open (_PackageLoader)", "input": rec_in, "impl_outcome": got})
                    break


def run(ck, tier, rng):
    ck.build = coq_build("C19")
    cases = gen_cases(tier, rng)
    impl_out = [impl(c) for c in cases]
    for c, o in zip(cases, impl_out):
        ck.count(c, nontrivial(c), c[0])
        oracle(ck, c, o)
    written_targets(ck, [c for c in cases if c[0] == "rt"], rng, 1500 if tier == "quick" else 20000)
    loaded_targets(ck, [c for c in cases if c[0] == "rt"], rng, 300 if tier == "quick" else 4000)
    for c in cases[:3] + cases[-400:-397] + [c for c in cases if c[0] == "frr"][:3]:
        ck.sample(list(c), limit=12)
    concrete_before = len(ck.violations)
    diffs = 0
    if ck.build.ok:
        model_out = run_model("C19", cases)
        for c, mo, io in zip(cases, model_out, impl_out):
            if mo != io:
                # model refuses cwd-dependent inputs; the implementation's answer then depends on os.getcwd()
                if "err:Other" in mo:
                    ck.dist["cwd-dependent-skipped"] = ck.dist.get("cwd-dependent-skipped", 0) + 1
                    continue
                diffs += 1
                if diffs <= 5:
                    ck.notes.append("diff %r model=%s impl=%s" % (c, mo, io))
        if diffs and len(ck.violations) == concrete_before:
            first = next((c, mo, io) for c, mo, io in zip(cases, model_out, impl_out) if mo != io and "err:Other" not in mo)
            ck.violation("correspondence", "model/PackUri.v and pptx.opc.packuri disagree on %d cases, e.g. %r: model=%s impl=%s; "
                         "the oracle found no input on which the property itself fails" % (diffs, first[0], first[1], first[2]),
                         {"theorem_or_correspondence": "correspondence PackUri.v ~ packuri.py (theorems C19_* are about the model only)",
                          "input": first[0], "model_outcome": first[1], "impl_outcome": first[2]}, concrete=False)
    ck.broken_build(oracle_found_concrete=len(ck.violations) > 0)
    return ck.finish(
        rule="all part names over a %d-segment alphabet to depth %d (accessors), pairs (all at depth<=2 in thorough, sampled otherwise) for the round trip, random references with '.', '..', root-absolute, trailing/double slashes, and non-rooted strings; non-trivial = round-trip pairs of distinct names each >=2 segments, references that contain a dot segment or are root-absolute, accessor names with >=2 segments" % (len(SEGS), 3 if tier == "quick" else 4),
        trusted_base=TB, assumptions=ASSUME,
        extra={"correspondence_diffs": diffs, "exhaustive": False},
    )


def replay(rec):
    case = tuple(rec["input"])
    io = impl(case)
    mo = run_model("C19", [case])[0]
    print("case", case)
    print("impl ", io)
    print("model", mo)
    return 0 if io == mo else 1


CLAIM = {'tech': 'Coq proof over a Gallina model of PackURI/posixpath + extracted-model correspondence (bounded-exhaustive part names) + direct oracle', 'text': '15 theorems (C19_*) closed under the global context state the round trip for all well-formed part names, the accessors, rejection, and agreement with RFC 3986 dot-segment removal; the model is tied to src/pptx/opc/packuri.py by running the extracted model and the implementation on every part name to depth 3/4 over a 16-segment alphabet and on random references.', 'note': "posixpath is re-implemented in the model (transcribed, exercised by the correspondence); cwd-dependent inputs excluded; RFC statement excludes references ending in '.', '..', '/' or containing '//'.", 'ref': '6/C19'}
