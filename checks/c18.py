"""C18 -- core document properties round-trip and stay valid.

Proof: props/C18.v over model/CoreProps.v and lib/Calendar.v.
Tie: correspondence of the extracted model (run_c18) with pptx.parts.coreprops /
pptx.oxml.coreprops / Package.core_properties on operation histories: assignments of
strings (length 0..256 over XML characters), datetimes (years 1..9999, aware and naive,
microseconds), revision values, wrong-typed values, element text written directly
(W3CDTF granularities x offsets, malformed text), save/re-open cycles, default-part
creation; plus lib/Calendar.v against datetime.date.
Codec: model/CorePropsCodec.v (proofs/CorePropsCodec_proofs.v: dec_core (enc_core st) = Some st for every
state of declared children with XML-character texts, blank-only texts included) is compared with lxml
as python-pptx drives it on generated states: the bytes held for docProps/core.xml (first and second save),
and what Presentation(saved).core_properties reads, against enc_core_m / dec_core_r + the model getters.
Oracle: the property's own statement evaluated on the implementation's readings
(independent of the model), and lxml.etree.XMLSchema built from the repository's
opc-coreProperties.xsd (with local stand-ins for the Dublin Core schemas it imports).
"""
import datetime as dt
import io
import os
import re
import shutil
import sys
import tempfile
import unicodedata
import zipfile
from decimal import Decimal

from corr.harness import COQ, coq_build, exc_name, run_model

ATTR = ["author", "category", "comments", "content_status", "created", "identifier", "keywords",
        "language", "last_modified_by", "last_printed", "modified", "revision", "subject", "title",
        "version"]
ELEM = ["creator", "category", "description", "contentStatus", "created", "identifier", "keywords",
        "language", "lastModifiedBy", "lastPrinted", "modified", "revision", "subject", "title",
        "version"]
QN = ["dc:creator", "cp:category", "dc:description", "cp:contentStatus", "dcterms:created",
      "dc:identifier", "cp:keywords", "dc:language", "cp:lastModifiedBy", "cp:lastPrinted",
      "dcterms:modified", "cp:revision", "dc:subject", "dc:title", "cp:version"]
KIND = ["t", "t", "t", "t", "d", "t", "t", "t", "t", "d", "d", "r", "t", "t", "t"]
TEXT_P = [i for i, k in enumerate(KIND) if k == "t"]
DATE_P = [i for i, k in enumerate(KIND) if k == "d"]
REV_P = 11
XSI_P = (4, 10)

TB = [
    "re.match semantics of _w3cdtf_pattern / _offset_pattern (Unicode decimal digits for \\d, '$' also before one final newline), %04d/%02d formatting, int()/str() of int incl. the 4300-digit limit, OverflowError of datetime arithmetic outside years 1..9999, and lxml's refusal of non-XML characters are transcribed in model/CoreProps.v and tied by this correspondence only",
    "datetime + timedelta is modelled by lib/Calendar.v add_seconds (proved inverse of ordinal/civil arithmetic; compared with datetime.date.fromordinal/toordinal by this check)",
    "validity: valid_cp in model/CoreProps.v is a hand reading of opc-coreProperties.xsd (xsd:all of 15 children; cp:lastPrinted xsd:dateTime; dcterms:created/modified with xsi:type dcterms:W3CDTF = gYear|gYearMonth|date|dateTime), compared on every observed state with lxml.etree.XMLSchema (libxml2)",
    "nd_zeros in model/CoreProps.v is compared in full with unicodedata (category Nd) of the running interpreter",
    "model/CorePropsCodec.v: text-level writer and reader of docProps/core.xml (element text through sax_escape_g / lex_text of model/Escape.v, C05, which holds libxml2's blank-text removal), tied to lxml by the codec phase of this check (byte for byte on CorePropertiesPart.blob = the saved member, first and second save; readings and children of the re-opened package against dec_core_r); UTF-8 between bytes and code points is Python's codec",
]
ASSUME = [
    "dc.xsd / dcterms.xsd / xml.xsd are not in the repository and cannot be fetched: the XMLSchema oracle compiles the repository's opc-coreProperties.xsd against minimal local stand-ins (SimpleLiteral = mixed text without children + xml:lang; dcterms:W3CDTF = simpleContent restriction of SimpleLiteral to the union gYear|gYearMonth|date|dateTime), written from the published 2003/04/02 Dublin Core schemas",
    "save/re-open is the identity on the model state: PROVED for the concrete codec of model/CorePropsCodec.v (proofs/CorePropsCodec_proofs.v dec_enc_core, history_reopen: every state of declared children whose texts are XML characters, blank-only and empty texts included; roots of the default template and of CorePropertiesPart.default); that the codec IS what lxml does is the codec correspondence of every run; a root from another producer that leaves dc / dcterms undeclared (start state k = 2: lxml then declares them on each child) is outside the codec and only observed (readings and children identical after 1-3 cycles)",
    "codec phase: xsi:type on a child other than dcterms:created / dcterms:modified is written, read and compared, but its effect on schema validity is outside valid_cp (validity not compared for those states)",
    "children of cp:coreProperties are leaves with text (cp:keywords with cp:value children, comments, other attributes are outside the model); absent text and empty text are identified",
    "values whose %-formatting in the error message itself fails (tuples) and str subclasses are not generated",
    "libxml2 does not collapse white space around xsd:dateTime content in this position; such raw texts are excluded from the validity comparison",
    "the clock of CorePropertiesPart.default is replaced by a fixed reading (pptx.parts.coreprops.dt patched in the harness process only)",
]

_NOW = [dt.datetime(2024, 1, 2, 3, 4, 5, 678)]


class _FakeDT(dt.datetime):
    @classmethod
    def now(cls, tz=None):
        n = _NOW[0]
        return cls(n.year, n.month, n.day, n.hour, n.minute, n.second, n.microsecond, tzinfo=tz)


class _FakeMod:
    datetime = _FakeDT
    timezone = dt.timezone
    timedelta = dt.timedelta


_TPL = []


def template_bytes():
    if not _TPL:
        import pptx

        p = os.path.join(os.path.dirname(pptx.__file__), "templates", "default.pptx")
        _TPL.append(open(p, "rb").read())
    return _TPL[0]


_FTPL = []


def foreign_template_bytes():
    """The default deck as another producer's packaging library writes it (System.IO.Packaging style): relationship Ids
    that are not rId<number> (the core-properties relationship first), the core-properties part under
    /package/services/metadata/core-properties/<id>.psmdcp.  Same parts, same content."""
    if not _FTPL:
        import re as _re
        import zipfile
        zin = zipfile.ZipFile(io.BytesIO(template_bytes()))
        new_core = "package/services/metadata/core-properties/0f1e2d3c4b5a.psmdcp"
        out = io.BytesIO()
        with zipfile.ZipFile(out, "w", zipfile.ZIP_DEFLATED) as z:
            for info in zin.infolist():
                data = zin.read(info.filename)
                name = info.filename
                if name == "_rels/.rels":
                    txt = data.decode("utf-8")
                    rels = _re.findall(r"<Relationship\b[^>]*/>", txt)
                    core = [r for r in rels if "core-properties" in r]
                    rest = [r for r in rels if "core-properties" not in r]
                    new = []
                    for i, r in enumerate(core + rest):
                        r = _re.sub(r'Id="[^"]*"', 'Id="R%08x"' % (0x5b2c9f1e + 7919 * i), r)
                        r = r.replace('Target="docProps/core.xml"', 'Target="%s"' % new_core)
                        new.append(r)
                    head = txt[:txt.index(rels[0])]
                    data = (head + "".join(new) + "</Relationships>").encode("utf-8")
                elif name == "[Content_Types].xml":
                    data = data.replace(b'PartName="/docProps/core.xml"', ('PartName="/%s"' % new_core).encode())
                elif name == "docProps/core.xml":
                    name = new_core
                z.writestr(name, data)
        _FTPL.append(out.getvalue())
    return _FTPL[0]


def foreign_packaging(case):
    """a quarter of the histories that start from an existing core-properties part start from the deck in the other
    producer's packaging (decided by the case itself: the random stream is left as it was)"""
    import hashlib
    if case.get("k") not in (0, 2):
        return False
    return int(hashlib.sha1(repr((case["now"], case["ops"])).encode()).hexdigest()[:4], 16) % 4 == 0


# ------------------------------------------------------------------ schema oracle
XML_XSD = """<?xml version="1.0"?>
<xs:schema xmlns:xs="http://www.w3.org/2001/XMLSchema" targetNamespace="http://www.w3.org/XML/1998/namespace">
  <xs:attribute name="lang" type="xs:language"/>
</xs:schema>
"""
DC_XSD = """<?xml version="1.0" encoding="UTF-8"?>
<xs:schema xmlns:xs="http://www.w3.org/2001/XMLSchema" xmlns="http://purl.org/dc/elements/1.1/"
           targetNamespace="http://purl.org/dc/elements/1.1/" elementFormDefault="qualified" attributeFormDefault="unqualified">
  <xs:import namespace="http://www.w3.org/XML/1998/namespace" schemaLocation="xml.xsd"/>
  <xs:complexType name="SimpleLiteral">
    <xs:complexContent mixed="true">
      <xs:restriction base="xs:anyType">
        <xs:sequence><xs:any processContents="lax" minOccurs="0" maxOccurs="0"/></xs:sequence>
        <xs:attribute ref="xml:lang" use="optional"/>
      </xs:restriction>
    </xs:complexContent>
  </xs:complexType>
  <xs:element name="any" type="SimpleLiteral" abstract="true"/>
  <xs:element name="title" substitutionGroup="any"/>
  <xs:element name="creator" substitutionGroup="any"/>
  <xs:element name="subject" substitutionGroup="any"/>
  <xs:element name="description" substitutionGroup="any"/>
  <xs:element name="date" substitutionGroup="any"/>
  <xs:element name="identifier" substitutionGroup="any"/>
  <xs:element name="language" substitutionGroup="any"/>
</xs:schema>
"""
DCTERMS_XSD = """<?xml version="1.0" encoding="UTF-8"?>
<xs:schema xmlns:xs="http://www.w3.org/2001/XMLSchema" xmlns:dc="http://purl.org/dc/elements/1.1/"
           xmlns="http://purl.org/dc/terms/" targetNamespace="http://purl.org/dc/terms/"
           elementFormDefault="qualified" attributeFormDefault="unqualified">
  <xs:import namespace="http://www.w3.org/XML/1998/namespace" schemaLocation="xml.xsd"/>
  <xs:import namespace="http://purl.org/dc/elements/1.1/" schemaLocation="dc.xsd"/>
  <xs:element name="created" substitutionGroup="dc:date"/>
  <xs:element name="modified" substitutionGroup="dc:date"/>
  <xs:complexType name="W3CDTF">
    <xs:simpleContent>
      <xs:restriction base="dc:SimpleLiteral">
        <xs:simpleType><xs:union memberTypes="xs:gYear xs:gYearMonth xs:date xs:dateTime"/></xs:simpleType>
        <xs:attribute ref="xml:lang" use="prohibited"/>
      </xs:restriction>
    </xs:simpleContent>
  </xs:complexType>
</xs:schema>
"""


def make_schema():
    """lxml XMLSchema for the repository's opc-coreProperties.xsd, or None when it cannot be built."""
    from lxml import etree

    from corr.harness import REPO

    tmp = tempfile.mkdtemp(prefix="c18-xsd-")
    try:
        src = open(os.path.join(REPO, "spec/ISO-IEC-29500-2/opc-xsd/opc-coreProperties.xsd"), encoding="utf-8").read()
        src = src.replace("http://dublincore.org/schemas/xmls/qdc/2003/04/02/dc.xsd", "dc.xsd")
        src = src.replace("http://dublincore.org/schemas/xmls/qdc/2003/04/02/dcterms.xsd", "dcterms.xsd")
        src = src.replace('<xs:import id="xml" namespace="http://www.w3.org/XML/1998/namespace"/>',
                          '<xs:import id="xml" namespace="http://www.w3.org/XML/1998/namespace" schemaLocation="xml.xsd"/>')
        for name, text in (("xml.xsd", XML_XSD), ("dc.xsd", DC_XSD), ("dcterms.xsd", DCTERMS_XSD), ("core.xsd", src)):
            with open(os.path.join(tmp, name), "w", encoding="utf-8") as f:
                f.write(text)
        return etree.XMLSchema(etree.parse(os.path.join(tmp, "core.xsd")))
    finally:
        shutil.rmtree(tmp, ignore_errors=True)


# ------------------------------------------------------------------ values
OTHERS = {"f1": 1.0, "f25": 2.5, "bytes": b"ab", "list": [1, 2], "dec": Decimal("3"), "cplx": 1j}


def py_val(v):
    k = v[0]
    if k == "str":
        return v[1]
    if k == "int":
        return v[1]
    if k == "big":
        return 10 ** v[1] + v[2]
    if k == "bool":
        return bool(v[1])
    if k == "none":
        return None
    if k == "dt":
        y, m, d, H, M, S, us, tz = v[1:]
        return dt.datetime(y, m, d, H, M, S, us, tzinfo=None if tz is None else dt.timezone(dt.timedelta(seconds=tz)))
    if k == "date":
        return dt.date(*v[1:4])
    if k == "other":
        return OTHERS[v[1]]
    raise ValueError(k)


def cps(nums):
    return "".join(chr(n) for n in nums)


def enc_val(v):
    k = v[0]
    if k == "str":
        return chr(0) + v[1]
    if k == "int":
        return chr(1) + str(v[1])
    if k == "big":
        return chr(7) + chr(v[1]) + chr(-v[2])
    if k == "bool":
        return chr(2) + chr(1 if v[1] else 0)
    if k == "none":
        return chr(3)
    if k == "dt":
        y, m, d, H, M, S, us, tz = v[1:]
        return chr(4) + cps([y, m, d, H, M, S, us, 0 if tz is None else 1, 1 if (tz or 0) < 0 else 0, abs(tz or 0)])
    if k == "date":
        return chr(5) + cps(v[1:4])
    if k == "other":
        return chr(6) + str(OTHERS[v[1]])
    raise ValueError(k)


def enc_op(op):
    k = op[0]
    if k == "set":
        return chr(1) + chr(op[1]) + enc_val(op[2])
    if k == "raw":
        return chr(2) + chr(op[1]) + chr(1 if op[2] else 0) + op[3]
    if k == "reopen":
        return chr(3)
    if k == "access":
        return chr(4)
    raise ValueError(k)


def wire(case):
    if case["kind"] == "cal":
        return ["cal", str(case["lo"]), str(case["cnt"])]
    # k = 2 (a root element from another producer that declares only its own namespace) is k = 0 for the model:
    # namespace declarations are not part of the modelled structure
    return ["seq", chr(0 if case["k"] == 2 else case["k"]) + cps(case["now"])] + [enc_op(o) for o in case["ops"]]


def show(s):
    return " ".join(str(ord(c)) for c in s)


# ------------------------------------------------------------------ implementation runner
def fmt_reading(v):
    if isinstance(v, tuple):
        return "err:" + v[1]
    if v is None:
        return "None"
    if isinstance(v, str):
        return "s:" + show(v)
    if isinstance(v, dt.datetime):
        return "d:%d %d %d %d %d %d" % (v.year, v.month, v.day, v.hour, v.minute, v.second)
    if isinstance(v, int):
        return "i:" + str(v)
    return "?:" + repr(v)


def impl_seq(case, schema):
    """Run one history on python-pptx.  Returns (wire text, trace)."""
    import pptx.parts.coreprops as pc
    from pptx import Presentation
    from pptx.opc.constants import RELATIONSHIP_TYPE as RT
    from pptx.oxml.ns import qn

    tagidx = {qn(t): i for i, t in enumerate(QN)}
    xsi_type = qn("xsi:type")
    y, m, d, H, M, S = case["now"]
    _NOW[0] = dt.datetime(y, m, d, H, M, S, 678)
    old_dt = pc.dt
    pc.dt = _FakeMod
    try:
        prs = Presentation(io.BytesIO(foreign_template_bytes() if foreign_packaging(case) else template_bytes()))
        if case["k"] == 0:
            el = prs.core_properties._element
            for ch in list(el):
                el.remove(ch)
        elif case["k"] == 2:
            # the core-properties part as another producer leaves it when it has written no property yet: the root declares
            # its own namespace only (no dc / dcterms / xsi declarations for new children to lean on)
            from pptx.oxml import parse_xml
            cpp = prs.core_properties
            cpp._element = parse_xml('<cp:coreProperties xmlns:cp="http://schemas.openxmlformats.org/package/2006/metadata/core-properties"/>')
        else:
            pkg = prs.part.package
            for rid in [r.rId for r in pkg._rels.values() if r.reltype == RT.CORE_PROPERTIES]:
                pkg._rels.pop(rid)
        outs, trace = [], []
        for op in case["ops"]:
            cp = prs.core_properties
            res = "ok:"
            saved_valid = None
            k = op[0]
            if k == "set":
                try:
                    setattr(cp, ATTR[op[1]], py_val(op[2]))
                except Exception as e:  # noqa
                    res = "err:" + exc_name(e)
            elif k == "raw":
                ch = getattr(cp._element, "get_or_add_" + ELEM[op[1]])()
                ch.text = op[3]
                if op[2]:
                    cp._element.set(qn("xsi:foo"), "bar")
                    ch.set(xsi_type, "dcterms:W3CDTF")
                    del cp._element.attrib[qn("xsi:foo")]
                elif xsi_type in ch.attrib:
                    del ch.attrib[xsi_type]
            elif k == "reopen":
                buf = io.BytesIO()
                prs.save(buf)
                blob = buf.getvalue()
                if schema is not None:
                    from lxml import etree

                    with zipfile.ZipFile(io.BytesIO(blob)) as z:
                        # the member the package's own core-properties relationship names (another producer may keep the
                        # part elsewhere than docProps/core.xml; python-pptx keeps the name it loaded)
                        member = str(prs.core_properties.partname)[1:] if hasattr(prs.core_properties, "partname") else "docProps/core.xml"
                        saved_valid = bool(schema.validate(etree.fromstring(z.read(member)))) if member in z.namelist() else False
                prs = Presentation(io.BytesIO(blob))
                cp = prs.core_properties
            vals = []
            for a in ATTR:
                try:
                    vals.append(getattr(cp, a))
                except Exception as e:  # noqa
                    vals.append(("err", exc_name(e)))
            kids = []
            for ch in cp._element:
                i = tagidx.get(ch.tag)
                kids.append("%s %s:%s" % ("o0" if i is None else str(i),
                                          "x" if ch.get(xsi_type) == "dcterms:W3CDTF" else "-", show(ch.text or "")))
            valid = bool(schema.validate(cp._element)) if schema is not None else None
            trace.append({"res": res, "vals": vals, "valid": valid, "saved_valid": saved_valid,
                          "kids": [k_.split(" ")[0] for k_ in kids],
                          "xsi": {k_.split(" ")[0]: k_.split(" ")[1][0] == "x" for k_ in kids}})
            outs.append("|".join([res] + [fmt_reading(v) for v in vals] + [",".join(kids), str(valid)]))
        return ";".join(outs), trace
    finally:
        pc.dt = old_dt


def impl_cal(case):
    out = []
    for n in range(case["lo"], case["lo"] + case["cnt"]):
        if 1 <= n <= 3652059:
            t = dt.date.fromordinal(n)
            out.append("%d %d %d %d" % (t.year, t.month, t.day, t.toordinal()))
        else:
            out.append(None)
    return out


# ------------------------------------------------------------------ oracle
UNK = object()
W3C = re.compile(r"(\d{4})(?:-(\d\d)(?:-(\d\d)(?:T(\d\d):(\d\d)(?::(\d\d)(?:\.(\d+))?)?(Z|[+-]\d\d:\d\d)?)?)?)?", re.ASCII)


def xml_chars(s):
    return all(c in "\t\n\r" or 0x20 <= ord(c) <= 0xD7FF or 0xE000 <= ord(c) <= 0xFFFD or 0x10000 <= ord(c) for c in s)


def w3cdtf_expected(text):
    """Independent reading of a W3CDTF string: (utc naive datetime, class) or None when the text
    is not W3CDTF / the UTC time is not representable."""
    mt = W3C.fullmatch(text)
    if not mt:
        return None
    Y, Mo, D, h, mi, s, frac, tz = mt.groups()
    if h is not None and tz is None:
        # W3CDTF requires a zone designator with a time; xsd:dateTime allows none (local = as is)
        pass
    try:
        local = dt.datetime(int(Y), int(Mo or 1), int(D or 1), int(h or 0), int(mi or 0), int(s or 0))
    except ValueError:
        return None
    klass = "w3cdtf-offset"
    if h is not None and s is None:
        klass = "w3cdtf-minutes-granularity"
    elif frac is not None:
        klass = "w3cdtf-fraction"
    if tz in (None, "Z"):
        return local, klass
    sign = 1 if tz[0] == "+" else -1
    off = dt.timedelta(hours=int(tz[1:3]), minutes=int(tz[4:6]))
    if off > dt.timedelta(hours=14):
        return None
    try:
        return local - sign * off, klass
    except OverflowError:
        return None


def oracle(ck, case, trace):
    """The property statement on the implementation's own readings."""
    if case["k"] in (0, 2):
        exp = ["" if k == "t" else (None if k == "d" else 0) for k in KIND]
    else:
        y, m, d, H, M, S = case["now"]
        exp = ["" if k == "t" else (None if k == "d" else 0) for k in KIND]
        exp[13], exp[8], exp[11], exp[10] = "PowerPoint Presentation", "python-pptx", 1, dt.datetime(y, m, d, H, M, S)
    api_only = True      # no element text written behind the API so far
    bad_year = False     # a datetime below year 1000 has been assigned
    flagged = set()

    def viol(sig, what, i):
        if sig in flagged:
            return
        flagged.add(sig)
        ck.violation(sig, what, {"entry_point": "Presentation.core_properties." + (ATTR[case["ops"][i][1]] if len(case["ops"][i]) > 1 else case["ops"][i][0]),
                                 "input": case, "op_index": i, "impl_outcome": [trace[i]["res"]] + [fmt_reading(v) for v in trace[i]["vals"]]})

    for i, (op, tr) in enumerate(zip(case["ops"], trace)):
        k = op[0]
        vals = tr["vals"]
        prev = list(exp)
        sig_mismatch = "independence"
        if k == "set":
            p, v = op[1], op[2]
            kind = KIND[p]
            val = py_val(v)
            want_err, new = None, UNK     # want_err: True/False/None(unconstrained)
            if kind == "t":
                if v[0] == "str" and xml_chars(val):
                    if len(val) <= 255:
                        want_err, new, sig_mismatch = False, val, "text-roundtrip"
                    else:
                        want_err, new, sig_mismatch = True, prev[p], "text-limit"
                elif v[0] == "str":
                    # outside the quantifier (not XML characters): lxml raises ValueError after the old text was dropped
                    if tr["res"] != "ok:" and prev[p] not in ("", UNK) and vals[p] == "":
                        ck.dist["nonxml-assignment-drops-old-value"] = ck.dist.get("nonxml-assignment-drops-old-value", 0) + 1
            elif kind == "d":
                if isinstance(val, dt.datetime):
                    want_err = False
                    if val.tzinfo is None:
                        new = val.replace(microsecond=0)
                        sig_mismatch = "date-year-lt-1000" if val.year < 1000 else "date-roundtrip"
                    else:
                        try:
                            new = val.astimezone(dt.timezone.utc).replace(tzinfo=None, microsecond=0)
                        except OverflowError:
                            # no UTC wall clock within years 1..9999: outside the statement
                            want_err = None
                            new = prev[p] if tr["res"] != "ok:" else UNK
                        sig_mismatch = "date-tzaware" if val.utcoffset() else ("date-year-lt-1000" if val.year < 1000 else "date-roundtrip")
                        if val.year < 1000 and val.utcoffset():
                            new = UNK  # two causes at once: leave to the single-cause cases
                    if val.year < 1000:
                        bad_year = True
                else:
                    want_err, new, sig_mismatch = True, prev[p], "date-type"
            else:
                if isinstance(val, bool):
                    # True is an int instance: either it is refused, or it must read back as itself
                    if tr["res"] == "ok:":
                        new, sig_mismatch = int(val), "revision-bool"
                    else:
                        new = prev[p]
                elif isinstance(val, int) and val >= 1:
                    if v[0] == "big" and v[1] + v[2] >= 4300:
                        new = UNK if tr["res"] == "ok:" else prev[p]   # CPython int/str digit limit: outside the statement
                    else:
                        want_err, new, sig_mismatch = False, val, "revision-roundtrip"
                else:
                    want_err, new, sig_mismatch = True, prev[p], "revision-type"
            if want_err is True and tr["res"] != "err:Value":
                viol(sig_mismatch, "%s = %s must raise ValueError, got %s" % (ATTR[p], describe(v), tr["res"]), i)
            if want_err is False and tr["res"] != "ok:":
                viol(sig_mismatch, "%s = %s must be accepted, got %s" % (ATTR[p], describe(v), tr["res"]), i)
            exp[p] = new
            # every other reading unchanged; the assigned one as stated
            for q in range(15):
                if exp[q] is UNK:
                    exp[q] = vals[q]
                    continue
                if vals[q] != exp[q] or type(vals[q]) is not type(exp[q]):
                    sig = sig_mismatch if q == p else "independence"
                    viol(sig, "after %s = %s: %s reads %s, expected %s" % (ATTR[p], describe(v), ATTR[q], short(vals[q]), short(exp[q])), i)
                    exp[q] = vals[q]
        elif k == "raw":
            p, text = op[1], op[3]
            api_only = False
            new, sig_mismatch = UNK, "raw"
            if KIND[p] == "t":
                new, sig_mismatch = text, "text-read"
            elif KIND[p] == "d":
                w = w3cdtf_expected(text)
                if w is not None:
                    new, sig_mismatch = w
                    got = vals[p]
                    if sig_mismatch == "w3cdtf-fraction" and got != new:
                        sig_mismatch = "w3cdtf-fraction-unreadable" if got is None else "w3cdtf-fraction-offset-ignored"
                    elif sig_mismatch == "w3cdtf-fraction":
                        sig_mismatch = "w3cdtf-offset"
            exp[p] = new
            for q in range(15):
                if exp[q] is UNK:
                    exp[q] = vals[q]
                    continue
                if vals[q] != exp[q] or type(vals[q]) is not type(exp[q]):
                    sig = sig_mismatch if q == p else "independence"
                    viol(sig, "element text of %s written as %r: %s reads %s, expected %s" % (QN[p], text, ATTR[q], short(vals[q]), short(exp[q])), i)
                    exp[q] = vals[q]
        else:
            if i == 0 and case["k"] == 1:
                sig_mismatch = "default-part"
            elif k == "reopen":
                sig_mismatch = "reopen"
            for q in range(15):
                if exp[q] is UNK:
                    exp[q] = vals[q]
                    continue
                if vals[q] != exp[q] or type(vals[q]) is not type(exp[q]):
                    viol(sig_mismatch, "after %s: %s reads %s, expected %s" % (k, ATTR[q], short(vals[q]), short(exp[q])), i)
                    exp[q] = vals[q]
            if k == "reopen" and tr["saved_valid"] is not None and i > 0 and trace[i - 1]["valid"] is not None:
                if tr["saved_valid"] != trace[i - 1]["valid"] or tr["valid"] != trace[i - 1]["valid"]:
                    viol("reopen-validity", "validity of docProps/core.xml changed across save/re-open: before %s, saved %s, re-opened %s" % (
                        trace[i - 1]["valid"], tr["saved_valid"], tr["valid"]), i)
        if i == 0 and case["k"] == 1 and k != "access":
            pass
        # the part stays valid as long as only the API wrote it
        if api_only and tr["valid"] is False:
            viol("date-year-lt-1000" if bad_year else "part-invalid",
                 "core-properties part no longer validates against opc-coreProperties.xsd after op %d (%s)" % (i, describe_op(op)), i)
        # at most one child per declared tag, only declared tags
        ks = tr["kids"]
        if api_only and (len(set(ks)) != len(ks) or "o0" in ks):
            viol("part-structure", "duplicate or undeclared child under cp:coreProperties: %r" % ks, i)
        # OPC requires xsi:type="dcterms:W3CDTF" on dcterms:created / dcterms:modified
        if api_only and any(tr["xsi"].get(str(q)) is False for q in XSI_P):
            viol("xsi-type-missing", "dcterms:created/modified written without xsi:type=dcterms:W3CDTF", i)


def short(v):
    r = fmt_short(v)
    return r if len(r) < 80 else r[:77] + "..."


def fmt_short(v):
    if isinstance(v, tuple):
        return "raises " + v[1] + "Error"
    if isinstance(v, int) and not isinstance(v, bool) and abs(v) >= 10 ** 40:
        return "<int of about %d bits>" % v.bit_length()
    return repr(v)


def describe(v):
    if v[0] == "str":
        s = v[1]
        return "str of %d code points %r" % (len(s), s if len(s) <= 24 else s[:24] + "...")
    if v[0] == "big":
        return "10**%d%+d" % (v[1], v[2])
    if v[0] == "dt":
        return repr(py_val(v))
    return repr(py_val(v))


def describe_op(op):
    if op[0] == "set":
        return "%s = %s" % (ATTR[op[1]], describe(op[2]))
    if op[0] == "raw":
        return "%s text %r" % (QN[op[1]], op[3])
    return op[0]


# ------------------------------------------------------------------ generators
ALPHA = {
    "ascii": "abcXYZ019 _-.,;:!?()[]{}@#$%^*+=/\\|~`",
    "markup": "<>&\"' <!---->]]>&amp;&#13;<?x?>",
    "ws": " \t\n\r",
    "astral": "\U0001F600\U00010000\U0010FFFF\U0001D11E\U00020000",
    "bmp": "\u00e9\u4e2d\u0663\u2028\u00a0\u0085\ufffd\ud7ff\ue000\u200b\u0301",
    "ctl": "\x00\x01\x0b\x0c\x1f\ufffe\uffff\ud800\udfff",
}


def rand_str(rng, n, klass):
    if klass == "mixed":
        pool = ALPHA["ascii"] + ALPHA["markup"] + ALPHA["ws"] + ALPHA["astral"] + ALPHA["bmp"]
    elif klass == "anyxml":
        out = []
        for _ in range(n):
            r = rng.random()
            if r < 0.4:
                out.append(chr(rng.randint(0x20, 0x7E)))
            elif r < 0.7:
                c = rng.randint(0x80, 0xFFFD)
                out.append(chr(c) if not 0xD800 <= c <= 0xDFFF else "x")
            else:
                out.append(chr(rng.randint(0x10000, 0x10FFFF)))
        return "".join(out)
    else:
        pool = ALPHA[klass]
    return "".join(rng.choice(pool) for _ in range(n))


def rand_dt(rng, year=None, aware=None):
    y = year if year is not None else rng.choice([rng.randint(1, 9999), rng.randint(1000, 9999), rng.randint(1900, 2100), rng.randint(1, 999)])
    m = rng.randint(1, 12)
    if rng.random() < 0.2 and y % 4 == 0 and (y % 100 != 0 or y % 400 == 0):
        m, d = 2, 29
    else:
        d = rng.randint(1, 28) if rng.random() < 0.6 else [31, 28, 31, 30, 31, 30, 31, 31, 30, 31, 30, 31][m - 1]
    r = rng.random()
    if r < 0.2:
        H, M, S = 23, 59, 59
    elif r < 0.3:
        H, M, S = 0, 0, 0
    else:
        H, M, S = rng.randint(0, 23), rng.randint(0, 59), rng.randint(0, 59)
    us = rng.choice([0, 0, 1, 500000, 999999, rng.randint(0, 999999)])
    tz = None
    if aware or (aware is None and rng.random() < 0.12):
        tz = rng.choice([0, 3600, -18000, 19800, 50400, -43200, 1, -1, 86399, -86399, 60 * rng.randint(-840, 840)])
    return ("dt", y, m, d, H, M, S, us, tz)


def fmt_local(y, m, d, H, M, S):
    return "%04d-%02d-%02dT%02d:%02d:%02d" % (y, m, d, H, M, S)


def tzd(minutes):
    a = abs(minutes)
    return ("-" if minutes < 0 else "+") + "%02d:%02d" % (a // 60, a % 60)


BASES = [(2003, 12, 31, 10, 14, 55), (2020, 3, 1, 0, 30, 0), (2020, 2, 29, 23, 59, 59), (2021, 1, 1, 0, 0, 0),
         (1999, 12, 31, 23, 59, 59), (1900, 3, 1, 0, 0, 0), (2000, 2, 29, 12, 0, 0), (1, 1, 1, 0, 0, 0),
         (9999, 12, 31, 23, 59, 59), (1000, 1, 1, 13, 59, 0), (999, 6, 15, 1, 2, 3), (1, 1, 1, 14, 0, 0),
         (9999, 12, 31, 10, 0, 0), (2024, 10, 31, 23, 0, 1)]


def w3c_forms(base, off):
    """W3CDTF granularities for a local time and an offset in minutes (None: Z / no zone)."""
    y, m, d, H, M, S = base
    z = "Z" if off is None else tzd(off)
    full = fmt_local(*base)
    return {
        "Y": "%04d" % y,
        "YM": "%04d-%02d" % (y, m),
        "YMD": "%04d-%02d-%02d" % (y, m, d),
        "hm": full[:16] + z,
        "hms": full + z,
        "hms-nozone": full,
        "frac1": full + ".5" + z,
        "frac2": full + ".45" + z,
        "frac3": full + ".123" + z,
        "frac4": full + ".1234" + z,
        "frac6": full + ".123456" + z,
    }


MALFORMED_DATES = [
    "", " ", "2003-12-31t10:14:55", "2003-1-2", "2003-1-2T3:4:5", "2003-12-31T10:14:60", "2003-12-31T10:14:61",
    "2003-02-30", "2003-02-29", "2004-02-29", "0000", "0000-01-01", "2003-12- 1", "2003-12-31T10:14:55+99:99",
    "2003-12-31T10:14:55+\u0660\u0668:00", "2003-12-31T10:14:55 08:00", "2003-12-31T10:14:55-08:00x",
    "2003-12-31T24:00:00", "  2003", "2003 ", "2003-12-31T10:14:55z", "2003-12-31T10:14:5Z+01:00",
    "2003-12-31T1:14:55+01:00", "2003-00", "2003-13", "2003-12-00", "2003-12-32", "\u0662\u0660\u0660\u0663",
    "\u0662\u0660\u0660\u0663-\u0661\u0662", "2003-12-31T10:14:55+0800", "2003-12-31T10:14:55+08", "20031231T101455Z",
    "2003-12-31 10:14:55", "2003-12-31T10:14:55,5Z", "+2003", "-2003", "12003", "02003-01-01T00:00:00Z", "999", "99-01-01",
    "2003-12-31T10:14:55Z ", "2003-12-31T10:14:55-8:000", "2003-12-31T10:14:55*08:00", "2003-12-31T10:14:55+08-00",
    "2003-12-31T10:14:55+0a:00", "2003-12-31T10:14:55+08:0a", "2003-12-31T23:59:59-14:00", "2003-12-31T23:59:59+14:00",
    "1e3", "2003-W01", "2003-001", "2003-12-31T", "2003-12-31T10", "2003-12-3", "2003-12-31T10:14:55.", "３００３",
    "2003-1２", "2003-12-31T2４:00:00", "2003-12-31T10:14:6\u0660",
    "2003\n", "2003-12\n", "2003-12-31\n", "2003-12-31T10:14:55Z\n", "2003-12-31T10:14:55+01:00\n", "2003\n\n", "\n2003", "2003-12-31T10:14\n",
    "2003-12-31T10:14:55.Z", "2003-12-31T10:14.5Z", "2003-12-31T10Z", "2003-12-31T10:14:55.5", "2003-12-31T10:14:55.5\n", "2003-12-31T10:14Z",
    "2003-12-31T10:14:55.٥+01:00", "2003-12-31T10:14:55+1:00", "2003-12-31T10:14:55Z+01:00", "2003-12-31T10:14:55+01:00Z", "2003-12-31T10:14:55.5.5Z",
    "2003-12-31T10:14:", "2003-12-31T10:14:5", "2003-12-31T10:14:55:00", "2003-12T10:14", "2003T10:14", "2003-12-31T23:60", "2003-12-31T10:14-14:00",
    "0001-01-01T00:00+00:01", "9999-12-31T23:59-00:01", "2003-12-31T10:14:55.123456789012345678901234567890+14:00",
]
REV_TEXTS = ["", " 7 ", "+7", "-3", "1_0", "\u0663", "7.0", "0x1", "0", "007", "_1", "1_", "1__0", "+ 1", "- 1", "+-1", " +1 ",
             "\u20031", "1\u00a0", "0_7", "00", "-0", "+", "-", " ", "1 2", "\u0661\u0662", "1\u0662", "1\t", "\u0663_\u0663",
             "1e3", "True", "١٢٣", "12\u200b", "\u200b12", "\ufeff1", "1\u2028", "\u00851\u0085", "\u16801", "1\u3000", "\u180e1",
             "4294967296", "-1", "1" * 30, "\U0001D7CE\U0001D7CF", "\uff11\uff12", "1\u0301", "٠", "+٣", "-٣"]
REV_VALUES = [("int", 1), ("int", 2), ("int", 7), ("int", 2 ** 31), ("int", 2 ** 63), ("int", 10 ** 30), ("int", 0), ("int", -1),
              ("int", -10 ** 30), ("bool", 1), ("bool", 0), ("other", "f1"), ("other", "f25"), ("str", "3"), ("str", ""), ("none",),
              ("other", "dec"), ("other", "bytes"), ("dt", 2020, 1, 1, 0, 0, 0, 0, None), ("other", "cplx")]
REV_BIG = [("big", 4300, -1), ("big", 4300, 0), ("big", 4299, 0), ("big", 4301, 0)]


def mutate(rng, s):
    alpha = "0123456789-:TZ+. t\u0663_"
    s = list(s)
    for _ in range(rng.randint(1, 2)):
        r = rng.random()
        if r < 0.35 and s:
            del s[rng.randrange(len(s))]
        elif r < 0.7:
            s.insert(rng.randint(0, len(s)), rng.choice(alpha))
        elif s:
            s[rng.randrange(len(s))] = rng.choice(alpha)
    return "".join(s)


NOW0 = [2024, 1, 2, 3, 4, 5]


def mk(ops, klass, k=0, now=None):
    # text written directly into an element must be XML characters (lxml refuses anything else)
    ops = [(o[0], o[1], o[2], "".join(c if xml_chars(c) else "?" for c in o[3])) if o[0] == "raw" else o for o in ops]
    return {"kind": "seq", "k": k, "now": list(now or NOW0), "ops": [list(o) if not isinstance(o, list) else o for o in ops], "klass": klass}


def rand_value_for(rng, p, good=0.8):
    kind = KIND[p]
    r = rng.random()
    if kind == "t":
        if r < good:
            n = rng.choice([0, 1, 2, 3, 10, 50, 254, 255, rng.randint(0, 255)])
            return ("str", rand_str(rng, n, rng.choice(["ascii", "markup", "ws", "astral", "bmp", "mixed", "anyxml"])))
        if r < good + 0.08:
            return ("str", rand_str(rng, rng.choice([256, 257, 300, 1000]), rng.choice(["ascii", "astral", "mixed"])))
        if r < good + 0.12:
            return ("str", rand_str(rng, rng.randint(1, 5), "ascii") + rng.choice(ALPHA["ctl"]) + rand_str(rng, rng.randint(0, 3), "ascii"))
        return rng.choice([("int", 5), ("none",), ("bool", 1), ("other", "f25"), rand_dt(rng), ("date", 2020, 2, 29), ("int", -12), ("other", "list")])
    if kind == "d":
        if r < good + 0.05:
            return rand_dt(rng)
        return rng.choice([("date", 2020, 2, 29), ("str", "2020-01-01T00:00:00Z"), ("none",), ("int", 0), ("other", "f1"), ("bool", 1)])
    if r < good - 0.2:
        return ("int", rng.choice([1, 2, 3, 10, 255, rng.randint(1, 10 ** 6), rng.randint(1, 10 ** 40)]))
    return rng.choice(REV_VALUES)


def gen_cases(tier, rng):
    quick = tier == "quick"
    cases = []
    # the witnesses carried by the C18_*_refuted theorems, replayed on the implementation first
    cases.append(mk([("set", 4, ("dt", 999, 1, 2, 3, 4, 5, 0, None))], "witness"))
    cases.append(mk([("set", 4, ("dt", 2020, 2, 29, 23, 59, 59, 0, 18000))], "witness"))
    cases.append(mk([("set", REV_P, ("bool", 1))], "witness"))
    cases.append(mk([("raw", 4, 1, "2003-12-31T10:14+01:00")], "witness"))
    cases.append(mk([("raw", 4, 1, "2003-12-31T10:14:55.5+01:00")], "witness"))
    cases.append(mk([("raw", 4, 1, "2003-12-31T10:14:55.1234Z")], "witness"))
    cases.append(mk([("raw", 4, 1, "0001-01-01T00:00:00+00:01")], "witness"))
    cases.append(mk([("set", 13, ("str", "a")), ("set", 13, ("str", "\uffff"))], "witness"))
    # A. strings: every text property x boundary lengths x alphabets; then every length 0..256
    for p in TEXT_P:
        for n in (0, 1, 2, 254, 255, 256):
            for kl in ("ascii", "markup", "ws", "astral", "bmp"):
                q = rng.choice([x for x in range(15) if x != p])
                cases.append(mk([("set", p, ("str", rand_str(rng, n, kl))), ("reopen",), ("set", q, rand_value_for(rng, q))], "text-grid"))
    lens = list(range(257))
    for p in range(15):
        for n in (rng.sample(lens, 12) if quick else lens):
            ops = [("set", p, ("str", rand_str(rng, n, rng.choice(["mixed", "anyxml"]))))]
            if rng.random() < (0.3 if quick else 0.15):
                ops.append(("reopen",))
            cases.append(mk(ops, "text-length"))
    # B. datetimes
    years = [1, 2, 9, 10, 99, 100, 101, 999, 1000, 1001, 1582, 1900, 1969, 1970, 2000, 2020, 2024, 2038, 9998, 9999]
    for y in years:
        for p in DATE_P:
            for aware in (False, True) if y in (999, 1000, 2020, 9999) else (False,):
                cases.append(mk([("set", p, rand_dt(rng, y, aware)), ("reopen",), ("access",)], "date-grid"))
    for v in [("dt", 1, 1, 1, 0, 0, 0, 0, 60), ("dt", 1, 1, 1, 0, 0, 59, 999999, 60), ("dt", 1, 1, 1, 0, 1, 0, 0, 60), ("dt", 1, 1, 1, 13, 59, 59, 0, 50400),
              ("dt", 9999, 12, 31, 23, 59, 59, 999999, -1), ("dt", 9999, 12, 31, 23, 59, 58, 0, -1), ("dt", 9999, 12, 31, 12, 0, 0, 0, -43200),
              ("dt", 9999, 12, 31, 11, 59, 59, 0, -43200), ("dt", 1, 1, 1, 0, 0, 0, 0, -60), ("dt", 9999, 12, 31, 23, 59, 59, 0, 86399)]:
        for p in DATE_P:
            cases.append(mk([("set", p, ("dt", 2001, 2, 3, 4, 5, 6, 7, None)), ("set", p, v), ("reopen",)], "date-aware-edge"))
    for _ in range(150 if quick else 3000):
        p = rng.choice(DATE_P)
        cases.append(mk([("set", p, rand_dt(rng))] + ([("reopen",)] if rng.random() < 0.3 else []), "date-random"))
    for y in (rng.sample(range(1, 10000), 40) if quick else range(1, 10000)):
        cases.append(mk([("set", rng.choice(DATE_P), ("dt", y, 1, 2, 3, 4, 5, 0, None))], "date-years"))
    # C. revision values and D. wrong types
    for v in REV_VALUES:
        cases.append(mk([("set", REV_P, ("int", 5)), ("set", REV_P, v), ("reopen",)], "revision"))
    for v in REV_BIG[:2] if quick else REV_BIG:
        cases.append(mk([("set", REV_P, ("int", 5)), ("set", REV_P, v)], "revision-big"))
    for p in DATE_P:
        for v in [("date", 2020, 2, 29), ("str", "2020-01-01T00:00:00Z"), ("none",), ("int", 0), ("other", "f1"), ("bool", 1), ("str", "")]:
            cases.append(mk([("set", p, ("dt", 2001, 2, 3, 4, 5, 6, 7, None)), ("set", p, v)], "date-type"))
    for p in TEXT_P:
        for v in [("int", 5), ("none",), ("bool", 0), ("other", "f25"), ("dt", 2001, 2, 3, 4, 5, 6, 7, 3600), ("date", 999, 2, 28), ("big", 300, 0)]:
            cases.append(mk([("set", p, v)], "text-nonstr"))
    cases.append(mk([("set", 13, ("big", 4300, 0))], "text-nonstr"))
    # E. W3CDTF text read back: granularities x offsets
    allmins = list(range(-840, 841))
    offs = sorted(set(rng.sample(allmins, 56) + [0, 840, -840, 60, -60, 330, -570, 1, -1])) if quick else allmins
    for off in offs:
        base = rng.choice(BASES[:7]) if quick else None
        for b in ([base] if quick else [BASES[0], rng.choice(BASES[1:7])]):
            forms = w3c_forms(b, off)
            for name in ("hms", "hm", "frac1") if quick else ("hms", "hm", "frac1", "frac3", "frac4", "frac6"):
                p = rng.choice(DATE_P)
                cases.append(mk([("raw", p, 1 if p in XSI_P else 0, forms[name])], "w3cdtf-" + name))
    for b in BASES:
        forms = w3c_forms(b, None)
        for name, text in forms.items():
            p = rng.choice(DATE_P)
            cases.append(mk([("raw", p, 1 if p in XSI_P else 0, text), ("reopen",)], "w3cdtf-z-" + name))
        for off in (840, -840, 1, -1, 60, -60):
            p = rng.choice(DATE_P)
            cases.append(mk([("raw", p, 1 if p in XSI_P else 0, w3c_forms(b, off)["hms"])], "w3cdtf-edge"))
    for _ in range(120 if quick else 4000):
        y = rng.choice([rng.randint(1, 9999), rng.randint(1990, 2030)])
        d_ = rand_dt(rng, y, False)
        b = d_[1:7]
        off = rng.choice([None, rng.choice(allmins), rng.choice([0, 60, -60, 330, 840, -840])])
        name = rng.choice(["Y", "YM", "YMD", "hm", "hms", "hms", "hms", "hms-nozone", "frac1", "frac2", "frac3", "frac4", "frac6"])
        p = rng.choice(DATE_P)
        cases.append(mk([("raw", p, 1 if p in XSI_P else 0, w3c_forms(b, off)[name])], "w3cdtf-random"))
    # F. malformed text
    for t in MALFORMED_DATES:
        p = rng.choice(DATE_P)
        cases.append(mk([("raw", p, 1 if p in XSI_P else 0, t)], "date-malformed"))
    for _ in range(250 if quick else 6000):
        b = rand_dt(rng, rng.randint(1, 9999), False)[1:7]
        t = mutate(rng, w3c_forms(b, rng.choice([None, rng.choice(allmins)]))[rng.choice(["YM", "YMD", "hms", "hms", "hm", "frac2"])])
        p = rng.choice(DATE_P)
        cases.append(mk([("raw", p, 1 if p in XSI_P else 0, t)], "date-mutated"))
    for t in REV_TEXTS:
        cases.append(mk([("raw", REV_P, 0, t)], "revision-text"))
    for n in (4300, 4301) if quick else (4299, 4300, 4301):
        cases.append(mk([("raw", REV_P, 0, "7" * n)], "revision-text"))
        if not quick:
            cases.append(mk([("raw", REV_P, 0, " -" + "0" * (n - 1) + "1 ")], "revision-text"))
            cases.append(mk([("raw", REV_P, 0, "1_" * (n - 1) + "1")], "revision-text"))
    for _ in range(80 if quick else 2000):
        cases.append(mk([("raw", REV_P, 0, mutate(rng, rng.choice(REV_TEXTS + ["12", "+3", " 45 "])))], "revision-mutated"))
    # G. histories: any assignment order, interleaved save/re-open, overwrites, failures
    for _ in range(60 if quick else 600):
        order = list(range(15))
        rng.shuffle(order)
        ops = [("set", p, rand_value_for(rng, p, good=0.95)) for p in order]
        for _r in range(rng.randint(1, 3)):
            ops.insert(rng.randint(1, len(ops)), ("reopen",))
        cases.append(mk(ops, "history-all15"))
    for _ in range(350 if quick else 6000):
        n = rng.randint(2, 9)
        ops = []
        for _j in range(n):
            r = rng.random()
            p = rng.randrange(15)
            if r < 0.7:
                ops.append(("set", p, rand_value_for(rng, p)))
            elif r < 0.8:
                ops.append(("reopen",))
            elif r < 0.85:
                ops.append(("access",))
            elif KIND[p] == "d":
                b = rand_dt(rng, rng.randint(1, 9999), False)[1:7]
                ops.append(("raw", p, 1 if p in XSI_P else 0, w3c_forms(b, rng.choice([None, rng.choice(allmins)]))[rng.choice(["hms", "YMD", "hm", "Y"])]))
            elif KIND[p] == "r":
                ops.append(("raw", p, 0, rng.choice(REV_TEXTS)))
            else:
                ops.append(("raw", p, 0, rand_str(rng, rng.randint(0, 300), "mixed")))
        cases.append(mk(ops, "history", k=(1 if rng.random() < 0.15 else 2 if rng.random() < 0.2 else 0),
                        now=[rng.randint(1970, 9999), rng.randint(1, 12), rng.randint(1, 28), rng.randint(0, 23), rng.randint(0, 59), rng.randint(0, 59)]))
    # H. default part
    for now in ([2024, 1, 2, 3, 4, 5], [1970, 1, 1, 0, 0, 0], [9999, 12, 31, 23, 59, 59], [2024, 2, 29, 23, 59, 59], [1000, 1, 1, 0, 0, 0]):
        cases.append(mk([("access",), ("access",), ("reopen",), ("reopen",)], "default-part", k=1, now=now))
        cases.append(mk([("set", 13, ("str", "mine")), ("reopen",), ("set", 4, ("dt", 2011, 11, 11, 11, 11, 11, 11, None))], "default-part", k=1, now=now))
        cases.append(mk([("reopen",), ("access",)], "default-part", k=1, now=now))
    # I. character tables: decimal digits, white space for int(), XML characters
    zeros = [c for c in range(sys.maxunicode + 1) if unicodedata.category(chr(c)) == "Nd" and unicodedata.digit(chr(c)) == 0]
    for z in zeros:
        ops = [("raw", REV_P, 0, chr(z + i)) for i in (0, 3, 9)] + [("raw", REV_P, 0, "1" + chr(z - 1)), ("raw", REV_P, 0, "1" + chr(z + 10))]
        ops += [("raw", 4, 1, "".join(chr(z + int(ch)) for ch in "2003") + "-1" + chr(z + 2))]
        cases.append(mk(ops, "digits"))
    spaces = [c for c in range(sys.maxunicode + 1) if chr(c).isspace() and xml_chars(chr(c))]
    near = [0x200B, 0x180E, 0xFEFF, 0x2060, 0x7F, 0x84, 0x86, 0x9F, 0xA1, 0x1FFF, 0x200C, 0x2027, 0x202A, 0x3001]
    cases.append(mk([("raw", REV_P, 0, chr(c) + "7" + chr(c)) for c in spaces + near], "int-space"))
    bounds = [0, 1, 8, 9, 10, 11, 12, 13, 14, 31, 32, 0x7E, 0x7F, 0x80, 0x84, 0x85, 0x9F, 0xA0, 0xD7FF, 0xD800, 0xDBFF, 0xDC00, 0xDFFF,
              0xE000, 0xFDD0, 0xFFFD, 0xFFFE, 0xFFFF, 0x10000, 0x1FFFE, 0x1FFFF, 0x10FFFD, 0x10FFFE, 0x10FFFF]
    pts = bounds + [rng.randint(0, 0x10FFFF) for _ in range(300 if quick else 20000)]
    for j in range(0, len(pts), 40):
        cases.append(mk([("set", 13, ("str", "a" + chr(c))) for c in pts[j:j + 40]], "xml-chars"))
    # J. calendar
    if quick:
        for lo in [1, 3652059 - 399, 730000, 146097 - 200, 577500] + [rng.randint(1, 3650000) for _ in range(15)]:
            cases.append({"kind": "cal", "lo": lo, "cnt": 400, "klass": "calendar"})
        cases.append({"kind": "cal", "lo": -1200, "cnt": 400, "klass": "calendar"})
    else:
        for lo in range(1, 3652060, 20000):
            cases.append({"kind": "cal", "lo": lo, "cnt": min(20000, 3652060 - lo), "klass": "calendar"})
    return cases


def nontrivial(case):
    """A history is non-trivial when an accepted assignment or written text is followed by at
    least one more operation (another property, an overwrite, a save/re-open), or when a single
    written timestamp carries a non-zero offset / a string has boundary length."""
    if case["kind"] == "cal":
        return True
    ops = case["ops"]
    if len(ops) >= 2 and any(o[0] in ("set", "raw") for o in ops[:-1]):
        return True
    if len(ops) == 1 and ops[0][0] == "raw":
        return bool(re.search(r"[+-]\d\d:\d\d$", ops[0][3])) and not ops[0][3].endswith("00:00")
    if len(ops) == 1 and ops[0][0] == "set" and ops[0][2][0] == "str":
        return len(ops[0][2][1]) >= 254
    if len(ops) == 1 and ops[0][0] == "set" and ops[0][2][0] == "dt":
        return True
    return False


def check_tables(ck):
    """nd_zeros of the model against unicodedata, in full."""
    src = open(os.path.join(COQ, "model", "CoreProps.v"), encoding="utf-8").read()
    mt = re.search(r"Definition nd_zeros : list N :=\s*\[([^\]]*)\]", src)
    mine = [int(x) for x in mt.group(1).replace("\n", " ").split(";")] if mt else []
    zeros = [c for c in range(sys.maxunicode + 1) if unicodedata.category(chr(c)) == "Nd" and unicodedata.digit(chr(c)) == 0]
    allnd = sum(1 for c in range(sys.maxunicode + 1) if unicodedata.category(chr(c)) == "Nd")
    ok = mine == zeros and allnd == 10 * len(zeros)
    ck.count(("nd_zeros",), True, "table")
    return ok, "nd_zeros has %d entries, unicodedata %s has %d decimal-digit blocks" % (len(mine), unicodedata.unidata_version, len(zeros))


def mask_validity(case, line):
    """Drop the validity field where libxml2 is known to deviate from the schema text (white space
    around a date) -- see ASSUME."""
    if not any(o[0] == "raw" and KIND[o[1]] == "d" and o[3] != o[3].strip(" \t\n\r") for o in case["ops"]):
        return line
    return ";".join(rec.rsplit("|", 1)[0] for rec in line.split(";"))


# ------------------------------------------------------------------ concrete codec (model/CorePropsCodec.v)
# texts the generated states draw from: blanks only, leading / trailing blanks, line ends in every arrangement, markup
# characters and things that look like references / CDATA / comments / tags, non-ASCII blanks, the ends of the XML Char
# ranges, beyond-BMP characters, the 255 limit; CODEC_LONG go in through the element only (the API refuses them)
CODEC_TEXTS = [
    "", " ", "  ", "\t", "\n", "\r", "\r\n", " \r", "\r ", " \n ", "\n\n", "\r\r", "\n\r", " \t\n\r ", " a", "a ", "  a  ", "\ta\n",
    "a\rb", "a\r\nb", "\r\na", "a\r\n", "a\n", "\na", " \r\n ", "\r\n\r\n",
    "<", ">", "&", "\"", "'", "<>&\"'", "&amp;", "&#13;", "&#x20;", "&lt;", "&nosuch;", "]]>", "]]", "a]]>b", "<![CDATA[x]]>", "<!--c-->",
    "<?pi?>", "</dc:title>", "<dc:title>", "a<b>c</b>", " < ", "\n<\n", " & ", "\r&\r",
    "\u00e9", "\u00a0", "\u0085", "\u2028", "\u3000 ", " \u00a0", "\u00a0 ", "\ud7ff\ue000\ufffd", "\U00010000", "\U0001F600", "\U0010FFFF",
    " \U0001F600 ", "\n\u00e9", " \u4e2d\n",
    " " * 255, "\n" * 255, "\t" * 255, " " * 254 + "a", "a" + " " * 254, (" \t\n\r" * 64)[:255], ("\r\n" * 128)[:255], "\U0001F600" * 255,
    "&" * 255, "<" * 255,
]
CODEC_LONG = [" " * 256, " " * 299, " " * 300, " " * 301, " " * 600, "\n" * 299 + "\r", " " * 299 + "\u00e9", "\n" * 300 + "a",
              " " * 300 + "<", "\r" * 300, (" \t\n\r" * 100), "a" * 1000, " " * 299 + "\r\n" + " " * 300]
CODEC_DATES = ["2003", "2003-12", "2003-12-31", "2003-12-31T10:14Z", "2003-12-31T10:14:55Z", "2003-12-31T10:14:55+01:00",
               "2003-12-31T10:14:55.45-08:00", "0001-01-01T00:00:00Z", "9999-12-31T23:59:59Z", " 2003", "2003 ", "2003\n", "\n2003-12-31T10:14:55Z\n",
               "", " ", "\n", "not a date", "2003-02-30", "2003-12-31T10:14:55+14:00", "\u0662\u0660\u0660\u0663"]


def codec_text(rng, limit=255):
    r = rng.random()
    if r < 0.45:
        t = rng.choice(CODEC_TEXTS)
    elif r < 0.6:
        n = rng.choice([1, 2, 3, 5, 17, rng.randint(0, 40)])
        t = "".join(rng.choice(" \t\n\r") for _ in range(n))
    elif r < 0.7:
        core = rand_str(rng, rng.randint(1, 12), rng.choice(["ascii", "markup", "astral", "bmp", "mixed"]))
        t = "".join(rng.choice(" \t\n\r") for _ in range(rng.randint(0, 4))) + core + "".join(rng.choice(" \t\n\r") for _ in range(rng.randint(0, 4)))
    else:
        t = rand_str(rng, rng.choice([1, 2, 3, 10, 50, 254, 255, rng.randint(0, 255)]), rng.choice(["markup", "ws", "mixed", "anyxml", "astral", "bmp"]))
    t = "".join(c if xml_chars(c) else "?" for c in t)
    return t[:limit] if limit else t


def gen_codec_case(rng, i):
    """One generated state, given as the operations that build it on an emptied template root (k = 0) or on a package
    without the part (k = 1: CorePropertiesPart.default first).  Operations: set (public API), raw (element text, xsi flag),
    touch (get_or_add only: an element without text node)."""
    k = 1 if i % 9 == 4 else 0
    r = rng.random()
    if i < 15:
        props = [i]                                # each property alone
    elif r < 0.25:
        props = list(range(15))                    # all 15
    else:
        props = rng.sample(range(15), rng.randint(0 if i % 50 == 17 else 1, 8))
    rng.shuffle(props)
    ops = []
    for p in props:
        kind = KIND[p]
        r = rng.random()
        if kind == "t":
            if r < 0.6:
                ops.append(["set", p, ["str", codec_text(rng)]])
            elif r < 0.9:
                ops.append(["raw", p, 0, rng.choice(CODEC_LONG) if rng.random() < 0.25 else codec_text(rng, 0)])
            else:
                ops.append(["touch", p])
        elif kind == "d":
            if r < 0.5:
                ops.append(["set", p, list(rand_dt(rng))])
            elif r < 0.75:
                ops.append(["raw", p, 1 if p in XSI_P else 0, rng.choice(CODEC_DATES)])
            elif r < 0.9:
                ops.append(["raw", p, 0 if p in XSI_P else 1, rng.choice(CODEC_DATES + [codec_text(rng, 40)])])
            else:
                ops.append(["touch", p])
        else:
            if r < 0.5:
                ops.append(["set", p, ["int", rng.choice([1, 2, 7, 10 ** 12, rng.randint(1, 10 ** 30)])]])
            elif r < 0.9:
                ops.append(["raw", p, 0, rng.choice(REV_TEXTS)])
            else:
                ops.append(["touch", p])
        if rng.random() < 0.12:
            # a second write to the same child: an empty string over a text, a text over an element without text node ...
            ops.append(rng.choice([["set", p, ["str", ""]] if kind == "t" else ["raw", p, 0, ""], ["raw", p, rng.randint(0, 1), codec_text(rng, 0)]]))
    return {"codec": "core", "k": k, "ops": ops}


def codec_observe(el):
    """The children of cp:coreProperties as the codec's state with text-node marks: (tag index or 15, xsi flag, no text node, text)."""
    from pptx.oxml.ns import qn

    tagidx = {qn(t): i for i, t in enumerate(QN)}
    xsi_type = qn("xsi:type")
    return [(tagidx.get(ch.tag, 15), ch.get(xsi_type) == "dcterms:W3CDTF", ch.text is None, ch.text or "") for ch in el]


def codec_fields(kids):
    return [chr(i) + chr(1 if x else 0) + chr(1 if nt else 0) + t for i, x, nt, t in kids]


def codec_impl(case, schema):
    """Build the state on python-pptx, take the bytes it holds for docProps/core.xml, save, re-open, read."""
    from pptx import Presentation
    from pptx.opc.constants import RELATIONSHIP_TYPE as RT
    from pptx.oxml.ns import qn

    xsi_type = qn("xsi:type")
    prs = Presentation(io.BytesIO(template_bytes()))
    if case["k"] == 0:
        el = prs.core_properties._element
        for ch in list(el):
            el.remove(ch)
    else:
        pkg = prs.part.package
        for rid in [r.rId for r in pkg._rels.values() if r.reltype == RT.CORE_PROPERTIES]:
            pkg._rels.pop(rid)
    cp = prs.core_properties
    want = {}                 # what the property statement says each assigned property reads after re-open
    for op in case["ops"]:
        if op[0] == "set":
            val = py_val(tuple(op[2]))
            try:
                setattr(cp, ATTR[op[1]], val)
            except Exception:  # noqa
                want.pop(op[1], None)
                continue
            if isinstance(val, dt.datetime):
                val = (val if val.tzinfo is None else val.astimezone(dt.timezone.utc).replace(tzinfo=None)).replace(microsecond=0)
            want[op[1]] = val
        elif op[0] == "raw":
            ch = getattr(cp._element, "get_or_add_" + ELEM[op[1]])()
            ch.text = op[3]
            if op[2]:
                cp._element.set(qn("xsi:foo"), "bar")
                ch.set(xsi_type, "dcterms:W3CDTF")
                del cp._element.attrib[qn("xsi:foo")]
            elif xsi_type in ch.attrib:
                del ch.attrib[xsi_type]
            if KIND[op[1]] == "t":
                want[op[1]] = op[3]
            else:
                want.pop(op[1], None)
        else:
            getattr(cp._element, "get_or_add_" + ELEM[op[1]])()
    blob1 = cp.blob
    kids1 = codec_observe(cp._element)
    buf = io.BytesIO()
    prs.save(buf)
    with zipfile.ZipFile(io.BytesIO(buf.getvalue())) as z:
        member = z.read("docProps/core.xml")
    prs2 = Presentation(io.BytesIO(buf.getvalue()))
    cp2 = prs2.core_properties
    vals = []
    for a in ATTR:
        try:
            vals.append(getattr(cp2, a))
        except Exception as e:  # noqa
            vals.append(("err", exc_name(e)))
    kids2 = codec_observe(cp2._element)
    valid = bool(schema.validate(cp2._element)) if schema is not None else None
    return {"blob1": blob1, "kids1": kids1, "member": member, "vals": vals, "kids2": kids2, "valid": valid, "blob2": cp2.blob, "want": want}


def codec_judge(case, im, lines):
    """Differences between lxml as python-pptx drives it and model/CorePropsCodec.v on one state (lines: the model's answers to
    enc of the state held, dec of the bytes written, enc of the state re-opened)."""
    from corr.harness import dec as wdec

    d = []
    rk = str(case["k"])
    text1 = im["blob1"].decode("utf-8")
    if im["member"] != im["blob1"]:
        d.append("the saved member docProps/core.xml is not the part's blob")
    mtext = wdec(lines[0]) if lines[0] not in ("badcase", "") else lines[0]
    if mtext != text1:
        j = next((n for n, (x, y) in enumerate(zip(mtext, text1)) if x != y), min(len(mtext), len(text1)))
        d.append("written text differs at %d: model %r lxml %r" % (j, mtext[max(0, j - 30):j + 30], text1[max(0, j - 30):j + 30]))
    if lines[1] == "none":
        d.append("model reader refuses lxml's own output %r" % text1[-120:])
    else:
        rec = lines[1].split("|")
        kids = ",".join("%s %s:%s" % ("o0" if i == 15 else str(i), "x" if x else "-", show(t)) for i, x, nt, t in im["kids2"])
        want = [rk] + [fmt_reading(v) for v in im["vals"]] + [kids]
        has_ws_date = any(KIND[i] == "d" and t != t.strip(" \t\n\r") for i, x, nt, t in im["kids2"] if i < 15)
        # valid_cp knows xsi:type on dcterms:created / dcterms:modified only: elsewhere the attribute is written, read and
        # compared here, but its effect on schema validity is outside model/CoreProps.v
        odd_xsi = any(x and i not in XSI_P for i, x, nt, t in im["kids2"])
        if im["valid"] is not None and not has_ws_date and not odd_xsi:
            want.append(str(im["valid"]))
        else:
            rec = rec[:17]
        if rec != want:
            n = next((n for n, (a, b) in enumerate(zip(rec, want)) if a != b), min(len(rec), len(want)))
            d.append("re-opened field %d: model %r impl %r" % (n, rec[n][:160] if n < len(rec) else "?", want[n][:160] if n < len(want) else "?"))
    text2 = im["blob2"].decode("utf-8")
    mtext2 = wdec(lines[2]) if lines[2] not in ("badcase", "") else lines[2]
    if mtext2 != text2:
        j = next((n for n, (x, y) in enumerate(zip(mtext2, text2)) if x != y), min(len(mtext2), len(text2)))
        d.append("second save differs at %d: model %r lxml %r" % (j, mtext2[max(0, j - 30):j + 30], text2[max(0, j - 30):j + 30]))
    # the theorem's content on the real code: the state is the same after re-open (an empty text has lost its text node)
    if [(i, x, t) for i, x, nt, t in im["kids1"]] != [(i, x, t) for i, x, nt, t in im["kids2"]]:
        d.append("children changed across save / re-open: %r -> %r" % (im["kids1"][:4], im["kids2"][:4]))
    if any(nt != (t == "") for i, x, nt, t in im["kids2"]):
        d.append("a re-opened child has an empty text node or a text without one: %r" % (im["kids2"][:4],))
    return d


def codec_oracle(ck, case, im):
    """The property's own words on the re-opened package: what was assigned reads back."""
    for p, w in im["want"].items():
        got = im["vals"][p]
        if KIND[p] == "r":
            continue
        if got != w or type(got) is not type(w):
            blank = isinstance(w, str) and w != "" and w.strip(" \t\n\r") == ""
            ck.violation("reopen-blank-text" if blank else "reopen",
                         "after save and re-open %s reads %s, assigned %s" % (ATTR[p], short(got), short(w)),
                         {"entry_point": "Presentation.core_properties.%s; save; re-open" % ATTR[p], "input": case,
                          "impl_outcome": [fmt_reading(v) for v in im["vals"]]})


def codec_phase(ck, tier, rng, schema):
    """model/CorePropsCodec.v against lxml as python-pptx drives it.  Returns (diffs, documents)."""
    n = 700 if tier == "quick" else 12000
    cases, ims, wires = [], [], []
    for i in range(n):
        c = gen_codec_case(rng, i)
        try:
            im = codec_impl(c, schema)
        except Exception as e:  # noqa
            ck.violation("history-raised:codec:%s" % type(e).__name__,
                         "building a core-properties state, saving and re-opening raised %s: %s" % (type(e).__name__, str(e)[:200]),
                         {"entry_point": "Presentation.core_properties / save / re-open", "input": c, "impl_outcome": "%s: %s" % (type(e).__name__, str(e)[:300])})
            continue
        cases.append(c)
        ims.append(im)
        rk = chr(c["k"])
        wires += [["enc", rk] + codec_fields(im["kids1"]), ["dec", im["blob1"].decode("utf-8")], ["enc", rk] + codec_fields(im["kids2"])]
        ck.count(("codec", c["k"], c["ops"]), any(t != "" for _i, _x, _nt, t in im["kids1"]), "codec")
        codec_oracle(ck, c, im)
    diffs, first = 0, None
    if ck.build.ok and cases:
        out = run_model("C18", wires)
        for j, (c, im) in enumerate(zip(cases, ims)):
            d = codec_judge(c, im, out[3 * j:3 * j + 3])
            if d:
                diffs += 1
                if first is None:
                    first = (c, d[:3])
                if diffs <= 5:
                    ck.notes.append("codec diff: %s" % d[:2])
        if diffs and first is not None:
            ck.violation("correspondence-codec",
                         "model/CorePropsCodec.v and lxml (as driven by parts/coreprops.py, opc/package.py XmlPart.blob, oxml parse_xml) disagree on %d of %d documents, e.g. %s" % (
                             diffs, len(cases), first[1]),
                         {"entry_point": "CorePropertiesPart.blob / Presentation.save / Presentation(saved).core_properties",
                          "input": first[0],
                          "theorem_or_correspondence": "correspondence CorePropsCodec.v ~ lxml serialiser / parser (theorems C18_reopen_* are about the model only)"},
                         concrete=False)
    return diffs, len(cases)


def replay_codec(case):
    schema = None
    try:
        schema = make_schema()
    except Exception:  # noqa
        pass
    im = codec_impl(case, schema)
    rk = chr(case["k"])
    out = run_model("C18", [["enc", rk] + codec_fields(im["kids1"]), ["dec", im["blob1"].decode("utf-8")], ["enc", rk] + codec_fields(im["kids2"])])
    print("case", {"k": case["k"], "ops": [o[:2] + [repr(o[-1])[:60]] for o in case["ops"]]})
    print("written ", im["blob1"][-300:])
    print("re-opened", [fmt_reading(v)[:60] for v in im["vals"]])
    d = codec_judge(case, im, out)
    for x in d:
        print("diff", x)
    bad = [p for p, w in im["want"].items() if KIND[p] != "r" and (im["vals"][p] != w or type(im["vals"][p]) is not type(w))]
    for p in bad:
        print("re-open changed", ATTR[p], "assigned", short(im["want"][p]), "reads", short(im["vals"][p]))
    return 1 if d or bad else 0



def run(ck, tier, rng):
    ck.build = coq_build("C18")
    schema = None
    try:
        schema = make_schema()
    except Exception as e:  # noqa
        ck.notes.append("XMLSchema for opc-coreProperties.xsd could not be compiled (%s): validity compared structurally only" % e)
    cases = gen_cases(tier, rng)
    tab_ok, tab_msg = check_tables(ck)
    ck.notes.append(tab_msg)
    impl_out = []
    for c in cases:
        if c["kind"] == "cal":
            impl_out.append(impl_cal(c))
            ck.count(("cal", c["lo"], c["cnt"]), True, "calendar")
            continue
        try:
            out, trace = impl_seq(c, schema)
        except Exception as e:  # noqa
            # the history itself could not be run: core_properties could not be reached, a save or a re-open raised ...
            # every operation of these histories is one the property says must work (a refused assignment is caught inside)
            ck.violation("history-raised:%s:%s" % (c["klass"], type(e).__name__),
                         "a core-properties history (%s, %s core-properties part at the start) raised %s: %s -- operations %r" % (
                             c["klass"], "without a" if c["k"] == 1 else "with an emptied", type(e).__name__, str(e)[:200],
                             [describe_op(o) for o in c["ops"]][:4]),
                         {"entry_point": "Presentation.core_properties / save / re-open", "input": {"k": c["k"], "now": c["now"], "ops": [list(map(str, o)) for o in c["ops"]][:8]},
                          "impl_outcome": "%s: %s" % (type(e).__name__, str(e)[:300])})
            impl_out.append("raised:" + type(e).__name__)
            continue
        impl_out.append(out)
        ck.count((c["k"], c["now"], c["ops"]), nontrivial(c), c["klass"])
        ck.evaluations += len(c["ops"]) - 1
        oracle(ck, c, trace)
    seen = set()
    for c in cases:
        if c["klass"] not in seen and c["kind"] == "seq":
            seen.add(c["klass"])
            ck.sample({"k": c["k"], "ops": [describe_op(o) for o in c["ops"]][:4]}, limit=14)
    concrete_before = len(ck.violations)
    diffs = 0
    first = None
    if ck.build.ok:
        model_out = run_model("C18", [wire(c) for c in cases])
        for c, mo, io_ in zip(cases, model_out, impl_out):
            if c["kind"] == "cal":
                got = mo.split(",")
                bad = [(n, g, w) for n, (g, w) in enumerate(zip(got, io_)) if (w is not None and g != w) or g.split(" ")[3] != str(c["lo"] + n)]
                if bad or len(got) != len(io_):
                    diffs += 1
                    first = first or (c, str(bad[:2]), "datetime.date")
                continue
            if schema is None:
                mo = ";".join(rec.rsplit("|", 1)[0] for rec in mo.split(";"))
                io_ = ";".join(rec.rsplit("|", 1)[0] for rec in io_.split(";"))
            mo, io_ = mask_validity(c, mo), mask_validity(c, io_)
            if mo != io_:
                diffs += 1
                mr, ir = mo.split(";"), io_.split(";")
                j = next((n for n, (a, b) in enumerate(zip(mr, ir)) if a != b), 0)
                if first is None:
                    first = (c, "op %d: %s" % (j, mr[j][:300] if j < len(mr) else "?"), "op %d: %s" % (j, ir[j][:300] if j < len(ir) else "?"))
                if diffs <= 5:
                    ck.notes.append("diff in %s at op %d (%s): model=%s impl=%s" % (c["klass"], j, describe_op(c["ops"][j]) if j < len(c["ops"]) else "?",
                                                                             mr[j][:200] if j < len(mr) else "?", ir[j][:200] if j < len(ir) else "?"))
        if not tab_ok:
            diffs += 1
            first = first or ({"kind": "table"}, tab_msg, "unicodedata")
        if diffs and len(ck.violations) == concrete_before:
            ck.violation("correspondence", "model/CoreProps.v and pptx core properties disagree on %d cases, e.g. %s: model=%s impl=%s; "
                         "the oracle found no input on which the property itself fails" % (diffs, first[0].get("klass", first[0]["kind"]), first[1], first[2]),
                         {"theorem_or_correspondence": "correspondence CoreProps.v ~ oxml/coreprops.py, parts/coreprops.py (theorems C18_* are about the model only)",
                          "input": first[0], "model_outcome": first[1], "impl_outcome": first[2]}, concrete=False)
        elif diffs:
            ck.notes.append("%d correspondence diffs besides the concrete findings" % diffs)
    codec_diffs, codec_docs = codec_phase(ck, tier, rng, schema)
    # the one place where the real parser is known to leave the reader the codec theorems are about (recorded finding)
    from checks import xmltree_phase
    boundary = xmltree_phase.boundary_probe_core(ck)
    ck.broken_build(oracle_found_concrete=len(ck.violations) > 0)
    return ck.finish(
        rule="histories over the 15 properties: strings of every length 0..256 (%s) over ASCII, markup, white-space-only, astral, BMP and random XML characters; datetimes over years 1..9999 incl. below 1000, leap days, 23:59:59, microseconds, aware values; revision values; wrong types; element text written directly in every W3CDTF granularity x offsets -14:00..+14:00 (%s) and mutated/malformed text; permutations of all 15 assignments; 1-3 save/re-open cycles; default-part creation; calendar ordinals (%s); plus %d codec documents (states of 0-15 children built through the API, by element text incl. texts beyond 255 / 300 characters, and by get_or_add alone; texts of blanks only, leading / trailing blanks, CR / LF / TAB in every arrangement, markup characters, reference- / CDATA- / tag-like text, non-ASCII blanks, the ends of the XML Char ranges, beyond-BMP characters, empty strings; dates with and without xsi:type; both roots): bytes written (first and second save) and the re-opened readings compared with model/CorePropsCodec.v. Non-trivial = an accepted assignment or written text followed by a further operation, a written timestamp with a non-zero offset, a string of length >= 254, or a datetime assignment" % (
            "12 sampled lengths per property" if tier == "quick" else "all lengths for all properties",
            "65 sampled" if tier == "quick" else "all 1681 minute offsets",
            "21 windows of 400 days" if tier == "quick" else "every day of years 1..9999", codec_docs),
        trusted_base=TB, assumptions=ASSUME,
        extra={"correspondence_diffs": diffs, "codec_documents": codec_docs, "codec_diffs": codec_diffs, "blank_text_at_block_boundary": boundary, "exhaustive": False, "xmlschema_oracle": schema is not None},
    )


def replay(rec):
    case = rec["input"]
    if case.get("codec"):
        return replay_codec(case)
    schema = None
    try:
        schema = make_schema()
    except Exception:  # noqa
        pass
    if case.get("kind") == "cal":
        io_ = ",".join(str(x) for x in impl_cal(case))
    else:
        io_, trace = impl_seq(case, schema)
    mo = run_model("C18", [wire(case)])[0]
    print("case", {"k": case.get("k"), "ops": [describe_op(o) for o in case.get("ops", [])]})
    mr, ir = mo.split(";"), io_.split(";")
    for j, (a, b) in enumerate(zip(mr, ir)):
        print("op", j, "impl ", b[:400])
        print("op", j, "model", a[:400])
    return 0 if mask_validity(case, mo) == mask_validity(case, io_) else 1


CLAIM = {
    "tech": "Coq proof over a Gallina model of the core-properties setters/getters (all strings, all datetimes, all W3CDTF granularities x zone designators, all states and assignment histories) + proved proleptic-Gregorian calendar arithmetic + extracted-model correspondence on real packages incl. save/re-open + independent oracle with XMLSchema validation",
    "text": "30 theorems closed under the global context over model/CoreProps.v, model/CorePropsCodec.v and lib/Calendar.v: save and re-open is the identity on the state for a CONCRETE writer and reader of docProps/core.xml (C18_reopen_codec / _identity / _history: every state of declared children whose texts are XML characters, any number of cycles, blank-only texts included), tied to lxml byte for byte; strings of <= 255 XML characters round-trip and longer ones raise ValueError leaving the element untouched; naive datetimes of every year 1..9999 round-trip to the second and aware ones read back as the UTC wall clock with instant local - utcoffset; minute / second / fractional-second timestamps with nothing, Z or any signed hh:mm designator read as the equivalent UTC time (date, year-month, year forms too); positive ints round-trip as revision, bool/non-int/<1 raise ValueError; assigning one property never changes the other 14 readings and after any fold of assignments each property reads its last accepted value; every assignment keeps the element valid against opc-coreProperties.xsd (xsd:all of 15 children, xsd:dateTime / W3CDTF lexical forms); a missing part is created with the documented defaults; civil_of_ordinal and ordinal are mutually inverse on all of Z. The model is tied to oxml/coreprops.py, parts/coreprops.py and Package.core_properties by running ~6.9k (quick) / ~120k (thorough) operations in histories on real presentations and on the extracted model, comparing every reading, the children of cp:coreProperties and schema validity after each step; six regression signatures (year < 1000, aware datetimes, revision = True, minute granularity, fraction with offset, fraction with Z) stay armed in the oracle.",
    "note": "a root element of another producer that leaves dc / dcterms undeclared is outside the concrete codec (observed at run time only); dc.xsd/dcterms.xsd are not in the repository, the XMLSchema oracle uses minimal local stand-ins; re/int()/%-formatting/lxml behaviour is transcribed and tied by correspondence, not proved about CPython; outside the statement and on record: a timestamp whose UTC time leaves years 1..9999 raises OverflowError (on read and on assigning an aware value), text with a non-XML code point raises ValueError after erasing the previous value, ints of more than 4300 digits hit CPython's conversion limit, a final newline and non-ASCII decimal digits are tolerated by the reader.",
    "ref": "6/C18",
}
