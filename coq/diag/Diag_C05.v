(** Diagnostics for C05: sinks the decision table rejects, with the witness string of each.
    No obligations here, so this compiles whenever gen does. *)
From V.lib Require Import Prelude.
From V.model Require Import Escape.
From V.gen Require Import GenC05.
Definition failing := filter (fun k => negb (sink_good k)) sinks.
(* one row per failing sink: id :: 7777 :: witness code points *)
Eval vm_compute in map (fun k => sk_id k :: 7777%N :: sink_witness k) failing.
