(** C04 — text assigned is the text read back, with only the documented translations.
    Statements over model/Text.v; proofs in proofs/Text_proofs.v. *)
From V.lib Require Import Prelude.
From V.model Require Import Text Escape TextRun.
From V.proofs Require Import Text_proofs Escape_proofs.

(** The translations are the documented ones, character by character:
    frame / cell: TAB, LF, VT stay, any other C0 control becomes its escape;
    paragraph: LF and VT both read back as VT;  run: also VT is escaped. *)
Theorem C04_levels_agree : forall s,
  tr_frame s = flat_map doc_frame_char s /\
  tr_para s = flat_map doc_para_char s /\
  tr_run s = flat_map doc_run_char s.
Proof. exact levels_agree. Qed.
Print Assumptions C04_levels_agree.

Theorem C04_para_via_frame : forall s, tr_para s = tr_frame (map lf_to_vt s).
Proof. exact para_via_frame. Qed.
Print Assumptions C04_para_via_frame.

Theorem C04_levels_coincide : forall s, forallb (fun c => negb (is_brk c)) s = true ->
  tr_frame s = tr_run s /\ tr_para s = tr_run s.
Proof. exact levels_coincide. Qed.
Print Assumptions C04_levels_coincide.

(** the escape of a C0 control: underscore, x, 0, 0, two upper-case hex digits, underscore *)
Theorem C04_escape_format : forall c, (c < 32)%N ->
  esc_seq c = [95; 120; 48; 48; hex_digit (c / 16); hex_digit (c mod 16); 95]%N.
Proof. exact esc_seq_c0. Qed.
Print Assumptions C04_escape_format.

(** run level *)
Theorem C04_run : forall s x t,
  set_run s (R x t) = R x (tr_run s) /\ get_run (set_run s (R x t)) = tr_run s.
Proof. exact run_full. Qed.
Print Assumptions C04_run.

(** run level inside a paragraph: only that run's text changes *)
Theorem C04_run_in_paragraph : forall s j p p',
  update_run j (set_run s) p = Some p' ->
  exists pre x t post,
    p = pre ++ It (R x t) :: post /\
    p' = pre ++ It (R x (tr_run s)) :: post /\
    length (runs_of pre) = j.
Proof. exact update_run_exact. Qed.
Print Assumptions C04_run_in_paragraph.

(** paragraph level, any prior paragraph (children in any order): read-back; every
    non-content child (a:pPr, a:endParaRPr) stays, in place; one a:br per LF or VT;
    no empty run; the new content sits right before the first a:endParaRPr *)
Theorem C04_para : forall s p,
  get_para (set_para s p) = tr_para s /\
  clear_para (set_para s p) = clear_para p /\
  first_ppr (set_para s p) = first_ppr p /\
  first_endrpr (set_para s p) = first_endrpr p /\
  count_br (set_para s p) = count is_brk s /\
  Forall run_nonempty (content (set_para s p)) /\
  (exists pre post,
      clear_para p = pre ++ post /\
      set_para s p = pre ++ map It (content (set_para s p)) ++ post /\
      forallb (fun c => negb (is_end c)) pre = true /\
      (post = [] \/ exists x r, post = EndRPr x :: r)).
Proof. exact para_full. Qed.
Print Assumptions C04_para.

(** the runs of the paragraph are exactly the escaped non-empty pieces, in order *)
Theorem C04_para_runs : forall s p,
  map get_run (runs_of (set_para s p)) = map escape_ctrl (filter nonempty (split_by is_brk s)).
Proof. exact para_runs. Qed.
Print Assumptions C04_para_runs.

(** frame level, ANY prior body: read-back; 1 + number of LF paragraphs; the pieces
    are the LF-separated segments of s; each new paragraph (fresh_para_ok) reads back
    its segment, has one a:br per VT, no empty run, no a:pPr / a:endParaRPr;
    a:bodyPr untouched; nothing of the prior paragraphs survives *)
Theorem C04_frame : forall s b,
  get_frame (set_frame s b) = tr_frame s /\
  length (paras (set_frame s b)) = S (count is_lf s) /\
  join_with [c_lf] (split_by is_lf s) = s /\
  Forall2 fresh_para_ok (split_by is_lf s) (paras (set_frame s b)) /\
  bodypr (set_frame s b) = bodypr b /\
  (forall b', paras (set_frame s b') = paras (set_frame s b)).
Proof. exact frame_full. Qed.
Print Assumptions C04_frame.

(** cell level (also a cell that has no a:txBody yet) *)
Theorem C04_cell : forall s c,
  get_cell (set_cell s c) = tr_frame s /\
  (exists b', set_cell s c = Some b' /\
     length (paras b') = S (count is_lf s) /\
     Forall2 fresh_para_ok (split_by is_lf s) (paras b') /\
     bodypr b' = bodypr (cell_body c)).
Proof. exact cell_full. Qed.
Print Assumptions C04_cell.

(** whitespace (any text without controls and breaks) is kept verbatim, alone ... *)
Theorem C04_whitespace : forall s, plain s = true -> s <> [] ->
  (forall p, content (set_para s p) = [R None s]) /\
  (forall b, paras (set_frame s b) = [[It (R None s)]]) /\
  (forall x t, set_run s (R x t) = R x s).
Proof. exact whitespace_kept. Qed.
Print Assumptions C04_whitespace.

(** ... and on both sides of a break *)
Theorem C04_whitespace_around_break : forall u v brk, plain u = true -> plain v = true ->
  u <> [] -> v <> [] -> is_brk brk = true ->
  forall p, content (set_para (u ++ brk :: v) p) = [R None u; Br; R None v].
Proof. exact whitespace_around_break. Qed.
Print Assumptions C04_whitespace_around_break.

(** escaping twice changes nothing more; but the escape is ambiguous: a control
    character and the literal text of its escape read back the same, and a literal
    escape-shaped text is stored unchanged (not protected with _x005F_) *)
Theorem C04_escape_idempotent : forall s, tr_run (tr_run s) = tr_run s.
Proof. exact tr_run_idempotent. Qed.
Print Assumptions C04_escape_idempotent.

Theorem C04_escape_not_injective : exists s1 s2, s1 <> s2 /\ tr_run s1 = tr_run s2 /\
  tr_para s1 = tr_para s2 /\ tr_frame s1 = tr_frame s2.
Proof. exact escape_not_injective. Qed.
Print Assumptions C04_escape_not_injective.

Theorem C04_escape_shaped_literal_unchanged :
  tr_run lit_x000A = lit_x000A /\ tr_para lit_x000A = lit_x000A /\ tr_frame lit_x000A = lit_x000A.
Proof. exact escape_shaped_literal_unchanged. Qed.
Print Assumptions C04_escape_shaped_literal_unchanged.

(** histories: after ANY sequence of operations from ANY state, an assignment at each
    level reads back the documented text (or IndexError when the paragraph is absent) *)
Theorem C04_history : forall ops c0 s,
  let c := run_ops ops c0 in
  snd (apply_op (OFrame s) c) = Ok (tr_frame s) /\
  snd (apply_op (OCell s) c) = Ok (tr_frame s) /\
  (forall i, (i < length (paras (cell_body c)))%nat ->
     snd (apply_op (OPara i s) c) = Ok (tr_para s)) /\
  (forall i, (length (paras (cell_body c)) <= i)%nat ->
     snd (apply_op (OPara i s) c) = Err IndexErr) /\
  (forall i j p, nth_error (paras (cell_body c)) i = Some p -> (j < length (runs_of p))%nat ->
     snd (apply_op (ORun i j s) c) = Ok (tr_run s)).
Proof. exact history_readback. Qed.
Print Assumptions C04_history.

(** histories keep every paragraph in schema order (a:pPr, content, a:endParaRPr) *)
Theorem C04_history_wf : forall ops c, wf_cell c -> wf_cell (run_ops ops c).
Proof. exact wf_run_ops. Qed.
Print Assumptions C04_history_wf.

(** save / re-open: for any serialiser whose re-parse returns the body, any number of
    cycles reads the same text (the hypothesis is what the correspondence exercises) *)
Theorem C04_reopen : forall (X : Type) (ser : body -> X) (reparse : X -> body),
  (forall b, reparse (ser b) = b) ->
  forall n s b, get_frame (cycles X ser reparse n (set_frame s b)) = tr_frame s.
Proof. exact reopen_readback. Qed.
Print Assumptions C04_reopen.

(** the leaf level of that hypothesis, discharged against the parser model of C05 (model/Escape.v, which contains
    libxml2's blank-text removal): the text of an a:t, written with libxml2's text escaping (amp, lt, gt, and CR as
    a character reference -- tied to the real serialiser by the correspondence, op lx) is read back EXACTLY, for
    every string of XML characters: leading / trailing / only white space, CR, CR LF, TAB included *)
Theorem C04_reopen_text_leaf : forall s, xml_str s = true ->
  lex_text (lxml_text_escape s) = OneText s.
Proof. exact (fun s H => text_safe_r s false false false H). Qed.
Print Assumptions C04_reopen_text_leaf.

(** what a run setter stores is such a string whenever lxml accepts it at all *)
Theorem C04_reopen_run_text : forall s, xml_str (tr_run s) = true ->
  lex_text (lxml_text_escape (tr_run s)) = OneText (tr_run s).
Proof. exact (fun s H => text_safe_r (tr_run s) false false false H). Qed.
Print Assumptions C04_reopen_run_text.

Example C04_ex_reopen_leaf :
  lex_text (lxml_text_escape [32; 13; 10; 9; 60; 38; 62; 32]%N) = OneText [32; 13; 10; 9; 60; 38; 62; 32]%N /\
  xml_str (tr_run [32; 13; 7; 11]%N) = true.
Proof. vm_compute. split; reflexivity. Qed.

(** ---- non-vacuity ---- *)
(* frame: a, LF, VT, b, space, BEL onto a body with two paragraphs and properties *)
Example C04_ex_frame :
  let b := mkBody 7 [[PPr 3; It (R (Some 5) [111]); It Br; It (Fld [49]); EndRPr 4]; [It (R None [50])]]%N in
  set_frame [97; 10; 11; 98; 32; 7]%N b =
    mkBody 7 [[It (R None [97])]; [It Br; It (R None [98; 32; 95; 120; 48; 48; 48; 55; 95])]]%N
  /\ get_frame (set_frame [97; 10; 11; 98; 32; 7]%N b) = [97; 10; 11; 98; 32; 95; 120; 48; 48; 48; 55; 95]%N.
Proof. split; vm_compute; reflexivity. Qed.

(* paragraph: leading blank, LF, trailing VT; misplaced a:endParaRPr in the prior state *)
Example C04_ex_para :
  set_para [32; 97; 10; 11]%N [PPr 3; EndRPr 4; It (R None [111]); It Br]%N =
    [PPr 3; It (R None [32; 97]); It Br; It Br; EndRPr 4]%N.
Proof. vm_compute; reflexivity. Qed.

(* run inside a paragraph: second run, VT escaped, a:rPr kept *)
Example C04_ex_run :
  update_run 1 (set_run [11; 9]%N) [It (R None [97]); It Br; It (R (Some 9) [98])]%N =
    Some [It (R None [97]); It Br; It (R (Some 9) [95; 120; 48; 48; 48; 66; 95; 9])]%N.
Proof. vm_compute; reflexivity. Qed.

(* plain text exists: blanks only; and a text with markup characters *)
Example C04_ex_plain : plain [32; 9; 32]%N = true /\ plain [60; 38; 62; 128512]%N = true.
Proof. split; reflexivity. Qed.

(* a history in which the hypotheses of C04_history are met at each level *)
Example C04_ex_history :
  let c := run_ops [OCell [97; 10; 98]; OAddRun 1; OPara 0 [120; 11; 121]; OAddBr 1; OClear 5]%N None in
  length (paras (cell_body c)) = 2%nat /\
  (exists p, nth_error (paras (cell_body c)) 1 = Some p /\ length (runs_of p) = 2%nat) /\
  wf_cell c.
Proof.
  split; [reflexivity|]. split.
  - eexists; split; reflexivity.
  - apply C04_history_wf. exact I.
Qed.

(* levels_coincide: a string without breaks but with a control *)
Example C04_ex_coincide : forallb (fun c => negb (is_brk c)) [97; 7; 9]%N = true.
Proof. reflexivity. Qed.
