(** C09 -- a property reads back as set, survives save/re-open; None restores inheritance.

    Generic theorems over the setter/getter language of model/Props.v (ALL values, ALL
    well-formed element states, ALL assignment histories), and their instance on the
    catalogue model/PropCatalogue.v whose attribute codecs are the simple-type code
    translated from /repo on this run (gen/GenC11.v through gen/GenC09.v).

    Full statement (DESIGN 6/C09): for every settable property and every value of its
    domain, get (set v t) = quantize v with |quantize v - v| <= quantum, None restores the
    inherited/default reading and removes the explicit setting, a value outside the domain
    raises TypeError or ValueError AND LEAVES THE STATE UNCHANGED, independent properties keep
    their readings.  What is proved: get_set / none / frame / history as stated, for every
    property built from the builders (A) typed attribute, (B) remove-then-add child, (D) child
    presence, (E) a value child guarded by a sibling mode child (Legend.horz_offset: from every state, also
    the modes only other producers write); reject with the unchanged state where the code has it (every element on the way
    already exists, validation before mutation) and the exact residue otherwise (the property's
    statement does not ask for an unchanged element; the model lists the setters that mutate
    before validating in Diag_C09).  What the statement does forbid -- a getter that raises after a
    refusal, a sibling reading changed -- is refuted with witnesses (C09_*_refuted below, replayed
    on the implementation by the check).  Placeholder geometry (left / top / width / height of
    _InheritsDimensions, whose setter reads the base placeholder and writes the displaced dimensions
    back: constructor Keep of the setter language) has overlapping footprints, so C09_frame does not
    apply; C09_frame_placeholder proves the clause for it directly, for every state and value, with
    the former refutation kept as a regression Example.  The quantum bound is
    proved for EMU (exact), Font.size and paragraph spacing (1/100 pt), ST_Percentage (1/100000:
    crop, gradient stops, lumMod/lumOff) and ST_Angle (1/60000 degree modulo 360: rotation) for every
    accepted value; for the remaining float conversions (line spacing in lines, gradient angle,
    adjustments, xsd:double) quantize IS the translated code and the bound is checked bit-exactly by
    the correspondence only (partial). *)
From V.lib Require Import Prelude PyFloat PyVal.
From V.model Require Import SimpleTypeLib Props PropCatalogue.
From V.proofs Require Import PyFloat_proofs SimpleTypeLib_proofs C11_instance Props_proofs C09_instance.
From V.gen Require Import GenC11 GenC09.
From V.model Require XmlTree.
From V.proofs Require XmlTree_proofs.
From Coq Require Import QArith Qabs.

(** a setter changes nothing outside its declared footprint and keeps the state a tree *)
Theorem C09_run_frame : forall p v s, WF s ->
  forall k, in_writes k (writes p) = false -> lookup k (fst (run p v s)) = lookup k s.
Proof. exact run_frame. Qed.
Print Assumptions C09_run_frame.

Theorem C09_run_wf : forall p v s, WF s -> WF (fst (run p v s)).
Proof. exact run_wf. Qed.
Print Assumptions C09_run_wf.

(** a getter depends only on its declared reads *)
Theorem C09_eval_agree : forall g s s', (forall k, In k (reads g) -> lookup k s = lookup k s') -> eval g s = eval g s'.
Proof. exact eval_agree. Qed.
Print Assumptions C09_eval_agree.

(** C09_frame: two properties with disjoint footprints are independent, for every value
    (accepted or not) and every well-formed state *)
Theorem C09_frame : forall a b, e_indep a b = true ->
  forall v s, WF s -> eval (e_get b) (fst (run (e_set a) v s)) = eval (e_get b) s.
Proof. exact entry_frame. Qed.
Print Assumptions C09_frame.

(** refined frame: while the elements of L exist (and the setter never removes or replaces an
    ancestor-or-self of one), get_or_add of them writes nothing: the setter changes only writes_in L *)
Theorem C09_run_present : forall L p, safe L p = true -> forall v s, WF s -> all_present L s = true ->
  all_present L (fst (run p v s)) = true.
Proof. exact run_present. Qed.
Print Assumptions C09_run_present.

Theorem C09_run_frame_present : forall L p, safe L p = true -> forall v s, WF s -> all_present L s = true ->
  forall k, in_writes k (writes_in L p) = false -> lookup k (fst (run p v s)) = lookup k s.
Proof. exact run_frame_in. Qed.
Print Assumptions C09_run_frame_present.

(** C09_frame under Keep (a setter that reads, before assigning, the inherited value of every listed
    reading without an own value and assigns those values afterwards): a kept reading that had the
    value x -- own, or inherited while the own value was None -- has it as its own value after an
    accepted assignment; and the write-back does not disturb what the assigned property reads *)
Theorem C09_keep_reads : forall g L x, x <> PNone ->
  (forall s y, eval g s = Ok y -> y <> PNone -> all_present L s = true) ->
  forall before after rb main v s,
  kp_own rb = g ->
  safe L main = true -> forallb (fun k => negb (in_writes k (writes_in L main))) (reads g) = true ->
  keeps_quiet g L (before ++ after) = true ->
  (forall s0 s1 u, WF s0 -> run_steps (kp_wr rb) (plain x) s0 = (s1, Ok u) -> eval g s1 = Ok x) ->
  WF s -> snd (run (Keep (before ++ rb :: after) main) v s) = Ok tt ->
  eval (GOrElse g (kp_inh rb)) s = Ok x ->
  eval g (fst (run (Keep (before ++ rb :: after) main) v s)) = Ok x.
Proof. exact keep_reads. Qed.
Print Assumptions C09_keep_reads.

Theorem C09_keep_assigned_reads : forall g L x, x <> PNone ->
  (forall s y, eval g s = Ok y -> y <> PNone -> all_present L s = true) ->
  forall rs main v s,
  keeps_quiet g L rs = true -> WF s -> snd (run (Keep rs main) v s) = Ok tt ->
  eval g (fst (run main v s)) = Ok x ->
  eval g (fst (run (Keep rs main) v s)) = Ok x.
Proof. exact keep_assigned_reads. Qed.
Print Assumptions C09_keep_assigned_reads.

(** C09_get_set, builder (A): value conversion, get_or_add down the chain, typed attribute.
    [stored] is the default when the assignment deleted the attribute, else the decoding of the
    written text by the translated from_xml: the property reads quantize v. *)
Theorem C09_get_set_attr : forall pre post ch p d v w s s1,
  WF s -> pre v = Ok w -> chain_exec ch s = (s1, true) -> present p s1 = true ->
  accepts (ad_codec d) (ad_kind d) (av_val w) = true ->
  snd (run (attr_prog pre ch p d) v s) = Ok tt
  /\ eval (attr_gexp post ch p d) (fst (run (attr_prog pre ch p d) v s)) = bindr (stored (ad_codec d) (ad_kind d) (av_val w)) post
  /\ WF (fst (run (attr_prog pre ch p d) v s)).
Proof. exact attr_prop_get_set. Qed.
Print Assumptions C09_get_set_attr.

(** C09_none (A): the default (None where the attribute has no default) deletes the attribute
    and the property reads the default again *)
Theorem C09_none_attr : forall pre post ch p d v w dflt s s1,
  WF s -> pre v = Ok w -> ad_kind d = AOpt dflt -> py_eqb (av_val w) dflt = true ->
  chain_exec ch s = (s1, true) -> present p s1 = true ->
  snd (run (attr_prog pre ch p d) v s) = Ok tt
  /\ lookup (p, Some (ad_attr d)) (fst (run (attr_prog pre ch p d) v s)) = None
  /\ eval (attr_gexp post ch p d) (fst (run (attr_prog pre ch p d) v s)) = post dflt.
Proof. exact attr_prop_none. Qed.
Print Assumptions C09_none_attr.

(** C09_reject (A): refused by the conversion in the proxy -> nothing is touched *)
Theorem C09_reject_attr_pre : forall pre ch p d v e s, pre v = Err e -> run (attr_prog pre ch p d) v s = (s, Err e).
Proof. exact attr_prop_reject_pre. Qed.
Print Assumptions C09_reject_attr_pre.

(** C09_reject (A): refused by the simple type, every element of the chain present -> the
    error of to_xml and the state UNCHANGED *)
Theorem C09_reject_attr : forall pre ch p d v w s,
  WF s -> pre v = Ok w -> forallb (fun l => present (lv_path l) s) ch = true -> present p s = true ->
  accepts (ad_codec d) (ad_kind d) (av_val w) = false ->
  exists e, enc (ad_codec d) (av_val w) = Err e /\ run (attr_prog pre ch p d) v s = (s, Err e).
Proof. exact attr_prop_reject. Qed.
Print Assumptions C09_reject_attr.

(** ... and when elements had to be created first, they stay (mutate-before-validate) *)
Theorem C09_reject_attr_residue : forall pre ch p d v w s s1,
  WF s -> pre v = Ok w -> chain_exec ch s = (s1, true) -> present p s1 = true ->
  accepts (ad_codec d) (ad_kind d) (av_val w) = false ->
  exists e, enc (ad_codec d) (av_val w) = Err e /\ run (attr_prog pre ch p d) v s = (s1, Err e).
Proof. exact attr_prop_reject_residue. Qed.
Print Assumptions C09_reject_attr_residue.

(** the error is a TypeError or ValueError, the read-back is exact: from the C11 theorems for
    every attribute row with a canonical descriptor *)
Theorem C09_row_reject_kind : forall r, In r rows -> forall w e, is_custom_w (ar_desc r) = false ->
  enc (row_codec (ar_to_xml r) (ar_from_xml r)) w = Err e -> e = TypeErr \/ e = ValueErr.
Proof. exact row_reject_kind. Qed.
Print Assumptions C09_row_reject_kind.

Theorem C09_row_exact : forall r, In r rows -> forall kd w, rt_ok (ar_desc r) (ar_rdesc r) = true ->
  accepts (row_codec (ar_to_xml r) (ar_from_xml r)) kd w = true ->
  exists v', stored (row_codec (ar_to_xml r) (ar_from_xml r)) kd w = Ok v' /\ (py_eqb v' w = true \/ py_eqb w v' = true).
Proof. exact row_stored_exact. Qed.
Print Assumptions C09_row_exact.

Theorem C09_row_ties : Forall tie_ok row_ties.
Proof. exact row_ties_ok. Qed.
Print Assumptions C09_row_ties.

(** ... and the value tables of the enumerations carry exactly the tokens of the C11 enumeration lists *)
Theorem C09_enum_ties : forallb (fun p => strs_same (fst p) (snd p)) enum_ties = true.
Proof. exact enum_ties_ok. Qed.
Print Assumptions C09_enum_ties.

(** C09_get_set / C09_none, builder (B): the child is removed, then added again *)
Theorem C09_get_set_fresh : forall pre post ch c init skip loose absent d,
  c <> [] -> forallb (fun l => negb (is_prefix c (lv_path l))) ch = true ->
  forall v w s s1, WF s -> pre v = Ok w -> chain_exec ch s = (s1, true) -> present (parent c) s1 = true ->
  cond_eval skip w (del_sub c s1) = false -> accepts (ad_codec d) (ad_kind d) (av_val w) = true ->
  snd (run (fresh_prog pre ch c init skip loose d) v s) = Ok tt
  /\ eval (child_gexp post ch c absent d) (fst (run (fresh_prog pre ch c init skip loose d) v s))
     = bindr (stored (ad_codec d) (ad_kind d) (av_val w)) post.
Proof. exact fresh_prop_get_set. Qed.
Print Assumptions C09_get_set_fresh.

Theorem C09_none_fresh : forall pre post ch c init skip loose absent d,
  c <> [] -> forallb (fun l => negb (is_prefix c (lv_path l))) ch = true ->
  forall v w s s1 a0, WF s -> pre v = Ok w -> chain_exec ch s = (s1, true) -> present (parent c) s1 = true ->
  cond_eval skip w (del_sub c s1) = true -> absent = Ok a0 ->
  snd (run (fresh_prog pre ch c init skip loose d) v s) = Ok tt
  /\ present c (fst (run (fresh_prog pre ch c init skip loose d) v s)) = false
  /\ eval (child_gexp post ch c absent d) (fst (run (fresh_prog pre ch c init skip loose d) v s)) = post a0.
Proof. exact fresh_prop_none. Qed.
Print Assumptions C09_none_fresh.

(** C09_reject (B) does NOT hold with an unchanged state: the old child is gone (and an empty
    one is left unless the attribute was assigned before insertion) *)
Theorem C09_reject_fresh_state : forall pre ch c init skip loose d,
  c <> [] ->
  forall v w s s1, WF s -> pre v = Ok w -> chain_exec ch s = (s1, true) -> present (parent c) s1 = true ->
  cond_eval skip w (del_sub c s1) = false -> accepts (ad_codec d) (ad_kind d) (av_val w) = false ->
  exists e, enc (ad_codec d) (av_val w) = Err e
    /\ run (fresh_prog pre ch c init skip loose d) v s = ((if loose then del_sub c s1 else add_elem c init (del_sub c s1)), Err e).
Proof. exact fresh_prop_reject_state. Qed.
Print Assumptions C09_reject_fresh_state.

(** C09_get_set, builder (D): presence of a child reads back as bool(value), for every object *)
Theorem C09_get_set_flag : forall ch c init neg,
  c <> [] -> forallb (fun l => negb (is_prefix c (lv_path l))) ch = true ->
  forall v s s1, WF s -> chain_exec ch s = (s1, true) -> present (parent c) s1 = true ->
  snd (run (flag_prog ch c init neg) v s) = Ok tt
  /\ eval (flag_gexp ch c neg) (fst (run (flag_prog ch c init neg) v s)) = Ok (PBool (py_truth (av_val v))).
Proof. exact flag_prop_get_set. Qed.
Print Assumptions C09_get_set_flag.

(** C09_get_set / C09_none / C09_reject, builder (E): a value child that counts only while a sibling mode child
    reads [on] (manual layout: c:xMode + c:x).  For EVERY well-formed state -- so also from the states only another
    producer writes: another mode, a value child without a mode child, ... -- an accepted value that is not the
    [zero] one reads back as stored AND the mode attribute reads [on] afterwards *)
Theorem C09_get_set_moded : forall ch box m x zero off md on d,
  box <> [] -> parent m = box -> parent x = box -> is_prefix x m = false ->
  forall v s s1 on2, WF s -> chain_exec ch s = (s1, true) -> present (parent box) s1 = true ->
  cond_eval zero v s1 = false -> accepts (ad_codec d) (ad_kind d) (av_val v) = true ->
  accepts (ad_codec md) (ad_kind md) on = true -> stored (ad_codec md) (ad_kind md) on = Ok on2 -> py_eqb on2 on = true ->
  snd (run (moded_prog ch box m x zero md on d) v s) = Ok tt
  /\ eval (moded_gexp ch box m x off md on d) (fst (run (moded_prog ch box m x zero md on d) v s)) = stored (ad_codec d) (ad_kind d) (av_val v)
  /\ attr_get m (ad_attr md) (ad_codec md) (ad_kind md) (fst (run (moded_prog ch box m x zero md on d) v s)) = Ok on2
  /\ WF (fst (run (moded_prog ch box m x zero md on d) v s)).
Proof. exact moded_prop_get_set. Qed.
Print Assumptions C09_get_set_moded.

Theorem C09_none_moded : forall ch box m x zero off md on d,
  box <> [] -> parent m = box -> parent x = box ->
  forallb (fun l => negb (is_prefix box (lv_path l))) ch = true ->
  forall v s s1, WF s -> chain_exec ch s = (s1, true) -> present (parent box) s1 = true ->
  cond_eval zero v s1 = true -> accepts (ad_codec d) (ad_kind d) (av_val v) = true ->
  run (moded_prog ch box m x zero md on d) v s = (del_sub box s1, Ok tt)
  /\ eval (moded_gexp ch box m x off md on d) (del_sub box s1) = off.
Proof. exact moded_prop_zero. Qed.
Print Assumptions C09_none_moded.

Theorem C09_reject_moded : forall ch box m x zero md on d v s,
  accepts (ad_codec d) (ad_kind d) (av_val v) = false ->
  exists e, enc (ad_codec d) (av_val v) = Err e /\ run (moded_prog ch box m x zero md on d) v s = (s, Err e).
Proof. exact moded_prop_reject. Qed.
Print Assumptions C09_reject_moded.

(** ... and what the reader makes of a foreign mode: [off], whatever the value child holds *)
Theorem C09_moded_foreign_mode : forall ch box m x off md on d s mode o,
  forallb (fun l => present (lv_path l) s) ch = true ->
  attr_get m (ad_attr md) (ad_codec md) (ad_kind md) s = Ok mode -> py_eqb mode on = false -> off = Ok o -> o <> PNone ->
  eval (moded_gexp ch box m x off md on d) s = off.
Proof. exact moded_foreign_mode_reads_off. Qed.
Print Assumptions C09_moded_foreign_mode.

(** instance: Legend.horz_offset (the catalogue entry IS the builder (E) program over c:layout/c:manualLayout) *)
Theorem C09_horz_offset_in_catalogue :
  find_entry (s2l "Legend.horz_offset"%lit) = Some (mk "Legend" "horz_offset" "" horz_offset_get horz_offset_set)%lit.
Proof. exact horz_offset_in_catalogue. Qed.
Print Assumptions C09_horz_offset_in_catalogue.

Theorem C09_get_set_horz_offset : forall v s, WF s ->
  accepts dbl_c AReq (av_val v) = true -> py_eqb (av_val v) f_zero = false ->
  snd (run horz_offset_set v s) = Ok tt
  /\ eval horz_offset_get (fst (run horz_offset_set v s)) = stored dbl_c AReq (av_val v)
  /\ attr_get ho_m (ad_attr A_CT_LayoutMode__val) (ad_codec A_CT_LayoutMode__val) (ad_kind A_CT_LayoutMode__val)
              (fst (run horz_offset_set v s)) = Ok mode_factor
  /\ WF (fst (run horz_offset_set v s)).
Proof. exact horz_offset_get_set. Qed.
Print Assumptions C09_get_set_horz_offset.

Theorem C09_none_horz_offset : forall v s, WF s ->
  accepts dbl_c AReq (av_val v) = true -> py_eqb (av_val v) f_zero = true ->
  snd (run horz_offset_set v s) = Ok tt
  /\ present ho_box (fst (run horz_offset_set v s)) = false
  /\ eval horz_offset_get (fst (run horz_offset_set v s)) = Ok f_zero.
Proof. exact horz_offset_zero. Qed.
Print Assumptions C09_none_horz_offset.

Theorem C09_reject_horz_offset : forall v s, accepts dbl_c AReq (av_val v) = false ->
  exists e, enc dbl_c (av_val v) = Err e /\ run horz_offset_set v s = (s, Err e).
Proof. exact horz_offset_reject. Qed.
Print Assumptions C09_reject_horz_offset.

Theorem C09_horz_offset_foreign_mode : forall s mode, present (pth "c:layout"%lit) s = true ->
  attr_get ho_m (ad_attr A_CT_LayoutMode__val) (ad_codec A_CT_LayoutMode__val) (ad_kind A_CT_LayoutMode__val) s = Ok mode ->
  py_eqb mode mode_factor = false -> eval horz_offset_get s = Ok f_zero.
Proof. exact horz_offset_foreign_mode. Qed.
Print Assumptions C09_horz_offset_foreign_mode.

(** non-vacuity from a foreign pre-state (the legend was dragged in PowerPoint: mode edge, absolute position 0.7):
    the hypotheses of C09_get_set_horz_offset hold, the offset reads 0.0 before, 0.25 after, the mode text is gone *)
Example C09_ex_horz_offset_from_edge :
  wf w_legend_edge = true
  /\ eval horz_offset_get w_legend_edge = Ok f_zero
  /\ accepts dbl_c AReq (av_val quarter) = true /\ py_eqb (av_val quarter) f_zero = false
  /\ snd (run horz_offset_set quarter w_legend_edge) = Ok tt
  /\ eval horz_offset_get (fst (run horz_offset_set quarter w_legend_edge)) = Ok (PFloat (Fin 1 (-2)))
  /\ lookup (ho_m, Some (s2l "val"%lit)) (fst (run horz_offset_set quarter w_legend_edge)) = None
  /\ stored dbl_c AReq (av_val quarter) = Ok (PFloat (Fin 1 (-2))).
Proof. exact ex_horz_offset_from_edge. Qed.

(** C09_history, abstract: read-after-write + refusal leaves the state + independence imply
    that after ANY assignment sequence every property reads its last accepted value *)
Theorem C09_history : forall (get : nat -> st -> res pyval) (set : nat -> aval -> st -> st * res unit)
  (inv : st -> Prop) (quant : nat -> aval -> res pyval),
  (forall i v s, inv s -> inv (fst (set i v s))) ->
  (forall i v s, inv s -> snd (set i v s) = Ok tt -> get i (fst (set i v s)) = quant i v) ->
  (forall i v s e, inv s -> snd (set i v s) = Err e -> fst (set i v s) = s) ->
  (forall i j v s, inv s -> i <> j -> get j (fst (set i v s)) = get j s) ->
  forall j ops s cur, inv s ->
  (match cur with Some v => get j s = quant j v | None => True end) ->
  match last_accepted set j ops s cur with
  | Some v => get j (hist set ops s) = quant j v
  | None => get j (hist set ops s) = get j s /\ last_accepted set j ops s cur = None
  end.
Proof. exact history_reads. Qed.
Print Assumptions C09_history.

(** C09_history on catalogue families (the entries are the catalogue's, by computation) *)
Theorem C09_font_family_in_catalogue : fam_of_catalogue font_family font_labels.
Proof. exact font_family_in_catalogue. Qed.
Print Assumptions C09_font_family_in_catalogue.

Theorem C09_font_history : forall j ops s, fam_inv font_family s ->
  match last_accepted (fam_set font_family) j ops s None with
  | Some v => fam_get font_family j (hist (fam_set font_family) ops s) = fam_quant font_family j v
  | None => fam_get font_family j (hist (fam_set font_family) ops s) = fam_get font_family j s
  end.
Proof. exact font_history. Qed.
Print Assumptions C09_font_history.

Theorem C09_textframe_family_in_catalogue : fam_of_catalogue tf_family tf_labels.
Proof. exact tf_family_in_catalogue. Qed.
Print Assumptions C09_textframe_family_in_catalogue.

Theorem C09_textframe_history : forall j ops s, fam_inv tf_family s ->
  match last_accepted (fam_set tf_family) j ops s None with
  | Some v => fam_get tf_family j (hist (fam_set tf_family) ops s) = fam_quant tf_family j v
  | None => fam_get tf_family j (hist (fam_set tf_family) ops s) = fam_get tf_family j s
  end.
Proof. exact tf_history. Qed.
Print Assumptions C09_textframe_history.

(** quantum of Font.size: 1/100 pt = 127 EMU, rounding down *)
Theorem C09_font_size_quant : forall emu, (12700 <= emu <= 50800126)%Z ->
  ap_quant font_size_prop (plain (PInt emu)) = Ok (PInt (emu / 127 * 127)) /\ (0 <= emu - emu / 127 * 127 < 127)%Z.
Proof. intros emu H. split; [exact (font_size_quant emu H)|exact (font_size_within_quantum emu)]. Qed.
Print Assumptions C09_font_size_quant.

(** quantum 0 (1 EMU) for position and margins: every accepted int reads back as itself *)
Theorem C09_position_exact : forall z, (-27273042329600 <= z <= 27273042316900)%Z ->
  stored (ad_codec A_CT_Point2D__x) (ad_kind A_CT_Point2D__x) (PInt z) = Ok (PInt z)
  /\ stored (ad_codec A_CT_Point2D__y) (ad_kind A_CT_Point2D__y) (PInt z) = Ok (PInt z).
Proof. exact coordinate_exact. Qed.
Print Assumptions C09_position_exact.

Theorem C09_size_exact : forall z, (0 <= z <= 27273042316900)%Z ->
  stored (ad_codec A_CT_PositiveSize2D__cx) (ad_kind A_CT_PositiveSize2D__cx) (PInt z) = Ok (PInt z)
  /\ stored (ad_codec A_CT_PositiveSize2D__cy) (ad_kind A_CT_PositiveSize2D__cy) (PInt z) = Ok (PInt z).
Proof. exact size_exact. Qed.
Print Assumptions C09_size_exact.

Theorem C09_margin_exact : forall z, (-2147483648 <= z <= 2147483647)%Z ->
  stored (ad_codec A_CT_TextBodyProperties__lIns) (AOpt PNone) (PInt z) = Ok (PInt z).
Proof. exact margin_exact. Qed.
Print Assumptions C09_margin_exact.

(** quantum of paragraph spacing in points: 1/100 pt, rounding down *)
Theorem C09_spacing_point_quant : forall z, (0 <= z <= 20116800)%Z ->
  stored (ad_codec A_CT_TextSpacingPoint__val) (ad_kind A_CT_TextSpacingPoint__val) (PInt z) = Ok (PInt (z / 127 * 127))
  /\ (0 <= z - z / 127 * 127 < 127)%Z.
Proof. exact spacing_point_quant. Qed.
Print Assumptions C09_spacing_point_quant.

(** quantum of ST_Percentage (crop_*, gradient stop position, lumMod / lumOff of brightness): for EVERY
    finite float the simple type accepts, the written text reads back within 1/100000 (the conversions
    are the translated code; the binary64 model is exact, error bounds proved in Props_proofs) *)
Theorem C09_percentage_quantum : forall m e s, ST_Percentage__to_xml (PFloat (Fin m e)) = Ok (PStr s) ->
  exists r, ST_Percentage__from_xml (PStr s) = Ok (PFloat r) /\ f_is_finite r = true
            /\ (Qabs (Qv r - Qv (Fin m e)) <= 1 # 100000)%Q.
Proof. exact pct_roundtrip. Qed.
Print Assumptions C09_percentage_quantum.

(** quantum of ST_Angle (BaseShape.rotation): for EVERY finite float the simple type accepts, the written
    text reads back within 1/60000 degree of the assigned angle modulo 360 *)
Theorem C09_angle_quantum : forall m e s, ST_Angle__to_xml (PFloat (Fin m e)) = Ok (PStr s) ->
  exists r (j : Z), ST_Angle__from_xml (PStr s) = Ok (PFloat r) /\ f_is_finite r = true
    /\ (Qabs (Qv r - (Qv (Fin m e) - 360 * inject_Z j)) <= 1 # 60000)%Q.
Proof. exact angle_roundtrip. Qed.
Print Assumptions C09_angle_quantum.

(** instance *)
Theorem C09_no_unmodelled : n_unmodelled = 0%nat.
Proof. exact no_unmodelled. Qed.
Print Assumptions C09_no_unmodelled.

Theorem C09_catalogue_complete : uncovered = [].
Proof. exact catalogue_complete. Qed.
Print Assumptions C09_catalogue_complete.

(** model-level witnesses of a refused assignment that changes the element are genuine *)
Theorem C09_nonatomic_witness_sound : forall e s v, nonatomic_witness e = Some (s, v) ->
  exists s' err, run (e_set e) v s = (s', Err err) /\ st_same s s' = false.
Proof. exact nonatomic_witness_sound. Qed.
Print Assumptions C09_nonatomic_witness_sound.

(** ... and so are the witnesses of a refusal after which the property's own getter raises *)
Theorem C09_breaking_witness_sound : forall e s v, breaking_witness e = Some (s, v) ->
  exists s' err x, run (e_set e) v s = (s', Err err) /\ eval (e_get e) s = Ok x /\ (exists er, eval (e_get e) s' = Err er).
Proof. exact breaking_witness_sound. Qed.
Print Assumptions C09_breaking_witness_sound.

Theorem C09_known_are_real : forallb (fun l => mem_str l breaking_cns) known_breaking = true.
Proof. exact known_are_real. Qed.
Print Assumptions C09_known_are_real.

(** refuted parts of the statement, with witnesses *)
Local Open Scope lit_scope.
Theorem C09_reject_major_unit_refuted :
  let e := entry_named "ValueAxis.major_unit" in
  wf w_major_unit = true
  /\ eval (e_get e) w_major_unit = Ok (PFloat (Fin 5 0))
  /\ run (e_set e) (plain (PFloat (Fin (-1) 0))) w_major_unit = ([], Err ValueErr)
  /\ eval (e_get e) [] = Ok PNone.
Proof. exact major_unit_reject_refuted. Qed.
Print Assumptions C09_reject_major_unit_refuted.

(** validation before mutation (the current code): a refused value changes nothing *)
Theorem C09_reject_font_name_unchanged :
  let e := entry_named "Font.name" in
  eval (e_get e) [] = Ok PNone /\ run (e_set e) (plain (PInt 5)) [] = ([], Err TypeErr).
Proof. exact font_name_reject_unchanged. Qed.
Print Assumptions C09_reject_font_name_unchanged.

Example C09_reject_marker_size_unchanged :
  let e := entry_named "Marker.size" in
  eval (e_get e) [] = Ok PNone /\ run (e_set e) (plain (PInt 1)) [] = ([], Err ValueErr).
Proof. exact marker_size_reject_unchanged. Qed.

Example C09_reject_placeholder_unchanged :
  let l := entry_named "_InheritsDimensions.left@sp" in
  run (e_set l) (plain (PInt (-27273042329601))) w_placeholder = (w_placeholder, Err ValueErr)
  /\ run (e_set l) (plain (PStr (s2l "abc"))) w_placeholder = (w_placeholder, Err TypeErr).
Proof. exact placeholder_reject_unchanged. Qed.

Theorem C09_reject_theme_color_unchanged :
  let e := entry_named "ColorFormat.theme_color" in
  run (e_set e) (plain (PInt 987654)) w_rgb = (w_rgb, Err ValueErr).
Proof. exact theme_color_reject_unchanged. Qed.
Print Assumptions C09_reject_theme_color_unchanged.

(** placeholder geometry.  C09_frame_placeholder: after an ACCEPTED assignment (any value v) to one of
    left / top / width / height of a placeholder in ANY well-formed state, each of the other three that read
    an integer before -- its own, or its base placeholder's while it had none -- reads the same integer.
    The guard is exactly: tree-shaped state, accepted assignment, the other dimension has a reading; a refused
    assignment changes nothing (C09_reject_placeholder_unchanged) and a dimension without any reading takes
    the 0 of its partner's new a:off / a:ext (Example C09_placeholder_none_partner_reads_zero). *)
Theorem C09_placeholder_entries_in_catalogue :
  map (fun e => find_entry (entry_label e)) ph_entries = map Some ph_entries.
Proof. exact ph_entries_in_catalogue. Qed.
Print Assumptions C09_placeholder_entries_in_catalogue.

Theorem C09_frame_placeholder : forall a b ea eb,
  nth_error ph_entries a = Some ea -> nth_error ph_entries b = Some eb -> a <> b ->
  forall v s z, WF s -> snd (run (e_set ea) v s) = Ok tt -> eval (e_get eb) s = Ok (PInt z) ->
  eval (e_get eb) (fst (run (e_set ea) v s)) = Ok (PInt z).
Proof. exact ph_others_read_same. Qed.
Print Assumptions C09_frame_placeholder.

(** C09_get_set for the assigned dimension of a placeholder: accepted by the simple type, and it reads what
    the written text decodes to (the int itself: C09_position_exact, C09_size_exact) *)
Theorem C09_get_set_placeholder : forall a ea ma,
  nth_error ph_entries a = Some ea -> nth_error ph_dims a = Some ma ->
  forall v s x, WF s -> snd (run (e_set ea) v s) = Ok tt ->
  stored (ad_codec (dm_decl ma)) (ad_kind (dm_decl ma)) (av_val v) = Ok x -> x <> PNone ->
  accepts (ad_codec (dm_decl ma)) (ad_kind (dm_decl ma)) (av_val v) = true
  /\ eval (e_get ea) (fst (run (e_set ea) v s)) = Ok x.
Proof. exact ph_get_set. Qed.
Print Assumptions C09_get_set_placeholder.

(** non-vacuity of the two: a state and a value that meet the hypotheses *)
Example C09_ex_placeholder_guard :
  exists ea eb, nth_error ph_entries 0 = Some ea /\ nth_error ph_entries 1 = Some eb
  /\ wf w_placeholder = true /\ snd (run (e_set ea) (plain (PInt 914400)) w_placeholder) = Ok tt
  /\ eval (e_get eb) w_placeholder = Ok (PInt 1600200)
  /\ stored (ad_codec A_CT_Point2D__x) (ad_kind A_CT_Point2D__x) (PInt 914400) = Ok (PInt 914400).
Proof. exact ex_ph_guard. Qed.

(** regression: the witness of the former C09_frame_placeholder_refuted (top read 0 after left was assigned,
    when the setter was the bare element-level assignment) now keeps its reading; the footprints still overlap *)
Example C09_frame_placeholder_witness :
  let l := entry_named "_InheritsDimensions.left@sp" in
  let t := entry_named "_InheritsDimensions.top@sp" in
  wf w_placeholder = true
  /\ eval (e_get t) w_placeholder = Ok (PInt 1600200)
  /\ snd (run (e_set l) (plain (PInt 914400)) w_placeholder) = Ok tt
  /\ eval (e_get t) (fst (run (e_set l) (plain (PInt 914400)) w_placeholder)) = Ok (PInt 1600200)
  /\ lookup (pth "p:spPr/a:xfrm/a:off", Some (s2l "y")) (fst (run (e_set l) (plain (PInt 914400)) w_placeholder)) = Some (s2l "1600200")
  /\ eval (e_get l) (fst (run (e_set l) (plain (PInt 914400)) w_placeholder)) = Ok (PInt 914400)
  /\ e_indep l t = false.
Proof. exact placeholder_frame_witness. Qed.

(** the guard is needed: without a reading of its own or of the base, the partner of an assigned (or
    written-back) dimension reads 0 afterwards *)
Example C09_placeholder_none_partner_reads_zero :
  let l := entry_named "_InheritsDimensions.left@sp" in
  let t := entry_named "_InheritsDimensions.top@sp" in
  let w := entry_named "_InheritsDimensions.width@sp" in
  let h := entry_named "_InheritsDimensions.height@sp" in
  wf w_placeholder_no_top = true
  /\ eval (e_get t) w_placeholder_no_top = Ok PNone /\ eval (e_get w) w_placeholder_no_top = Ok PNone
  /\ snd (run (e_set l) (plain (PInt 914400)) w_placeholder_no_top) = Ok tt
  /\ eval (e_get t) (fst (run (e_set l) (plain (PInt 914400)) w_placeholder_no_top)) = Ok (PInt 0)
  /\ eval (e_get w) (fst (run (e_set l) (plain (PInt 914400)) w_placeholder_no_top)) = Ok (PInt 0)
  /\ eval (e_get h) (fst (run (e_set l) (plain (PInt 914400)) w_placeholder_no_top)) = Ok (PInt 100).
Proof. exact placeholder_none_partner_reads_zero. Qed.

(** order of evaluation of the setter: readings first (an exception leaves the element untouched), then the
    assignment, then the write-backs in order (a base value its simple type refuses raises after the earlier ones) *)
Example C09_placeholder_evaluation_order :
  let l := entry_named "_InheritsDimensions.left@sp" in
  let w := entry_named "_InheritsDimensions.width@sp" in
  let h := entry_named "_InheritsDimensions.height@sp" in
  run (e_set w) (plain (PInt 914400)) w_placeholder_bad_off = (w_placeholder_bad_off, Err OtherErr)
  /\ snd (run (e_set l) (plain (PInt 1)) w_placeholder_bad_base) = Err ValueErr
  /\ lookup (pth "p:spPr/a:xfrm/a:off", Some (s2l "x")) (fst (run (e_set l) (plain (PInt 1)) w_placeholder_bad_base)) = Some (s2l "1")
  /\ lookup (pth "p:spPr/a:xfrm/a:off", Some (s2l "y")) (fst (run (e_set l) (plain (PInt 1)) w_placeholder_bad_base)) = Some (s2l "7")
  /\ present (pth "p:spPr/a:xfrm/a:ext") (fst (run (e_set l) (plain (PInt 1)) w_placeholder_bad_base)) = false
  /\ eval (e_get h) (fst (run (e_set l) (plain (PInt 1)) w_placeholder_bad_base)) = Ok (PInt 9).
Proof. exact placeholder_evaluation_order. Qed.

(** non-vacuity *)
Example C09_ex_rotation :
  let e := entry_named "BaseShape.rotation@sp" in
  let s0 : st := [ ((pth "p:spPr", None), []) ]%lit in
  snd (run (e_set e) (plain (PFloat (Fin 91 (-1)))) s0) = Ok tt
  /\ res_differs (eval (e_get e) (fst (run (e_set e) (plain (PFloat (Fin 91 (-1)))) s0))) (Ok (PFloat (Fin 91 (-1)))) = false
  /\ lookup (pth "p:spPr/a:xfrm", Some (s2l "rot")) (fst (run (e_set e) (plain (PFloat (Fin 91 (-1)))) s0)) = Some (s2l "2730000")
  /\ snd (run (e_set e) (plain (PInt 0)) (fst (run (e_set e) (plain (PFloat (Fin 91 (-1)))) s0))) = Ok tt
  /\ lookup (pth "p:spPr/a:xfrm", Some (s2l "rot")) (fst (run (e_set e) (plain (PInt 0)) (fst (run (e_set e) (plain (PFloat (Fin 91 (-1)))) s0)))) = None.
Proof. exact ex_rotation. Qed.
Example C09_ex_indep :
  e_indep (entry_named "BaseShape.left@sp") (entry_named "BaseShape.rotation@sp") = true
  /\ e_indep (entry_named "BaseShape.rotation@sp") (entry_named "BaseShape.left@sp") = true
  /\ e_indep (entry_named "Font.size") (entry_named "Font.bold") = true
  /\ e_indep (entry_named "_Paragraph.line_spacing") (entry_named "_Paragraph.space_before") = true
  /\ e_indep (entry_named "BaseShape.left@sp") (entry_named "BaseShape.top@sp") = false.
Proof. exact ex_indep. Qed.
Example C09_ex_font_size :
  ap_quant font_size_prop (AV TLength (PInt 152400)) = Ok (PInt 152400)
  /\ ap_quant font_size_prop (plain (PInt 152500)) = Ok (PInt 152400)
  /\ ap_quant font_size_prop (plain (PInt 12699)) = Err ValueErr
  /\ ap_quant font_size_prop (plain (PStr (s2l "x"))) = Err ValueErr.
Proof. exact ex_font_size. Qed.

(** LAST (fails when a finding of this class appears that is neither fixed nor recorded): no catalogue property has a refused
    assignment after which its own getter raises, except the recorded findings.  (That a refusal may
    leave an empty element behind, or drop the old explicit value of the SAME property, is not part of
    the property's statement: Diag_C09 lists those setters, C09_reject_attr_residue and
    C09_reject_fresh_state characterise them.) *)
Theorem C09_no_unknown_breaking : unknown_breaking = [].
Proof. vm_compute. reflexivity. Qed.
Print Assumptions C09_no_unknown_breaking.

(** the centipoint conversion of the catalogue is the translated body of pptx.util.Length.centipoints *)
Theorem C09_centipoints_tied : forall z, py_centipoints_attr (PInt z) = Length__centipoints (PInt z).
Proof. exact centipoints_tied. Qed.
Print Assumptions C09_centipoints_tied.

(** ---- save and re-open of any part: a concrete generic XML writer / reader ---- *)

(** Save and re-open of ANY part.  Every getter of python-pptx is a function of the lxml element tree of a
    part; a part is saved by serialize_part_xml and re-opened by pptx.oxml.parse_xml.  model/XmlTree.v is a
    concrete generic writer (enc_doc: what libxml2 writes) and reader (dec_doc: what libxml2 reads under
    remove_blank_text=True) of element trees, with no bound on depth, width, number of attributes or lengths,
    tied to lxml byte for byte by the phase xml-codec of the check (checks/xmltree_phase.py).
    wf_tree: names are qualified names, attribute names are distinct within an element, attribute values and
    text are XML characters.  XmlTree.strict: no leaf holds an EMPTY text node (the parser never produces one;
    XmlTree.canon turns such a leaf into the element without content, which is what the parser reads). *)
Theorem C09_reopen_tree : forall t, XmlTree.wf_tree t = true ->
  XmlTree.dec_doc (XmlTree.enc_doc t) = Some (XmlTree.canon t)
  /\ XmlTree.dec_tree (XmlTree.enc_tree t) = Some (XmlTree.canon t)
  /\ (XmlTree.strict t = true -> XmlTree.dec_doc (XmlTree.enc_doc t) = Some t /\ XmlTree.dec_tree (XmlTree.enc_tree t) = Some t).
Proof. exact XmlTree_proofs.C09_reopen_tree_all. Qed.
Print Assumptions C09_reopen_tree.

Theorem C09_reopen_tree_cycles : forall n t, XmlTree.wf_tree t = true ->
  XmlTree.xreopen_cycles (S n) t = Some (XmlTree.canon t)
  /\ (XmlTree.strict t = true -> XmlTree.xreopen_cycles n t = Some t).
Proof. exact XmlTree_proofs.C09_reopen_cycles_all. Qed.
Print Assumptions C09_reopen_tree_cycles.

Theorem C09_reopen_any_getter : forall (A : Type) (g : XmlTree.xtree -> A) t, XmlTree.wf_tree t = true ->
  option_map g (XmlTree.dec_doc (XmlTree.enc_doc t)) = Some (g (XmlTree.canon t))
  /\ (XmlTree.strict t = true -> option_map g (XmlTree.dec_doc (XmlTree.enc_doc t)) = Some (g t))
  /\ ((forall u, g (XmlTree.canon u) = g u) -> option_map g (XmlTree.dec_doc (XmlTree.enc_doc t)) = Some (g t)).
Proof. exact XmlTree_proofs.C09_any_getter_all. Qed.
Print Assumptions C09_reopen_any_getter.

Theorem C09_reopen_injective : forall t1 t2, XmlTree.wf_tree t1 = true -> XmlTree.wf_tree t2 = true ->
  (XmlTree.enc_tree t1 = XmlTree.enc_tree t2 -> XmlTree.canon t1 = XmlTree.canon t2)
  /\ (XmlTree.strict t1 = true -> XmlTree.strict t2 = true ->
      (XmlTree.enc_tree t1 = XmlTree.enc_tree t2 -> t1 = t2) /\ (XmlTree.enc_doc t1 = XmlTree.enc_doc t2 -> t1 = t2)).
Proof. exact XmlTree_proofs.C09_injective_all. Qed.
Print Assumptions C09_reopen_injective.

(** non-vacuity: a p:sp with attribute values that need every escape (ampersand, less-than, greater-than,
    quote, TAB, CR, LF, edge blanks, a non-ASCII and an astral character), a blank-only a:t, an a:t holding
    markup characters, a CR and the CDATA-end sequence, and an a:t without content *)
Definition c09_ex_sp : XmlTree.xtree :=
  (XmlTree.XNode [112; 58; 115; 112]
    [([120; 109; 108; 110; 115; 58; 112], [104; 116; 116; 112; 58; 47; 47; 115; 99; 104; 101; 109; 97; 115; 46; 111; 112; 101; 110; 120; 109; 108; 102; 111; 114; 109; 97; 116; 115; 46; 111; 114; 103; 47; 112; 114; 101; 115; 101; 110; 116; 97; 116; 105; 111; 110; 109; 108; 47; 50; 48; 48; 54; 47; 109; 97; 105; 110]); ([120; 109; 108; 110; 115; 58; 97], [104; 116; 116; 112; 58; 47; 47; 115; 99; 104; 101; 109; 97; 115; 46; 111; 112; 101; 110; 120; 109; 108; 102; 111; 114; 109; 97; 116; 115; 46; 111; 114; 103; 47; 100; 114; 97; 119; 105; 110; 103; 109; 108; 47; 50; 48; 48; 54; 47; 109; 97; 105; 110])]
    [(XmlTree.XNode [112; 58; 110; 118; 83; 112; 80; 114]
        []
        [(XmlTree.XNode [112; 58; 99; 78; 118; 80; 114]
            [([105; 100], [50]); ([110; 97; 109; 101], [81; 38; 65; 32; 60; 34; 84; 105; 116; 108; 101; 34; 62; 9; 49; 13; 10]); ([100; 101; 115; 99; 114], [32; 32; 99; 97; 102; 233; 32; 128512; 32])]
            []);
         (XmlTree.XNode [112; 58; 99; 78; 118; 83; 112; 80; 114]
            [([116; 120; 66; 111; 120], [49])]
            []);
         (XmlTree.XNode [112; 58; 110; 118; 80; 114]
            []
            [])]);
     (XmlTree.XNode [112; 58; 115; 112; 80; 114]
        []
        [(XmlTree.XNode [97; 58; 120; 102; 114; 109]
            [([114; 111; 116], [45; 53; 52; 48; 48; 48; 48; 48])]
            [(XmlTree.XNode [97; 58; 111; 102; 102]
                [([120], [48]); ([121], [57; 49; 52; 52; 48; 48])]
                []);
             (XmlTree.XNode [97; 58; 101; 120; 116]
                [([99; 120], [57; 49; 52; 52; 48; 48]); ([99; 121], [48])]
                [])])]);
     (XmlTree.XNode [112; 58; 116; 120; 66; 111; 100; 121]
        []
        [(XmlTree.XNode [97; 58; 98; 111; 100; 121; 80; 114]
            []
            []);
         (XmlTree.XNode [97; 58; 112]
            []
            [(XmlTree.XNode [97; 58; 114]
                []
                [(XmlTree.XNode [97; 58; 114; 80; 114]
                    [([108; 97; 110; 103], [101; 110; 45; 85; 83]); ([98], [49])]
                    []);
                 (XmlTree.XLeaf [97; 58; 116]
                    []
                    [32; 9; 32])]);
             (XmlTree.XNode [97; 58; 114]
                []
                [(XmlTree.XLeaf [97; 58; 116]
                    []
                    [97; 32; 60; 32; 98; 32; 38; 38; 32; 99; 32; 62; 32; 100; 13; 93; 93; 62])]);
             (XmlTree.XNode [97; 58; 114]
                []
                [(XmlTree.XNode [97; 58; 116]
                    []
                    [])])])])])%N.
Example C09_reopen_tree_nonvacuous :
  XmlTree.wf_tree c09_ex_sp = true /\ XmlTree.strict c09_ex_sp = true
  /\ XmlTree.dec_doc (XmlTree.enc_doc c09_ex_sp) = Some c09_ex_sp
  /\ XmlTree.xreopen_cycles 3 c09_ex_sp = Some c09_ex_sp.
Proof. vm_compute. repeat split; reflexivity. Qed.
Print Assumptions C09_reopen_tree_nonvacuous.
(** the two spellings of an a:t without text: the empty text node is written with a start and an end tag and
    read back as the element without content *)
Definition c09_ex_empty : XmlTree.xtree :=
  (XmlTree.XNode [112; 58; 116; 120; 66; 111; 100; 121]
    [([120; 109; 108; 110; 115; 58; 112], [104; 116; 116; 112; 58; 47; 47; 115; 99; 104; 101; 109; 97; 115; 46; 111; 112; 101; 110; 120; 109; 108; 102; 111; 114; 109; 97; 116; 115; 46; 111; 114; 103; 47; 112; 114; 101; 115; 101; 110; 116; 97; 116; 105; 111; 110; 109; 108; 47; 50; 48; 48; 54; 47; 109; 97; 105; 110]); ([120; 109; 108; 110; 115; 58; 97], [104; 116; 116; 112; 58; 47; 47; 115; 99; 104; 101; 109; 97; 115; 46; 111; 112; 101; 110; 120; 109; 108; 102; 111; 114; 109; 97; 116; 115; 46; 111; 114; 103; 47; 100; 114; 97; 119; 105; 110; 103; 109; 108; 47; 50; 48; 48; 54; 47; 109; 97; 105; 110])]
    [(XmlTree.XNode [97; 58; 112]
        []
        [(XmlTree.XNode [97; 58; 114]
            []
            [(XmlTree.XLeaf [97; 58; 116]
                []
                [])])])])%N.
Definition c09_ex_empty_read : XmlTree.xtree :=
  (XmlTree.XNode [112; 58; 116; 120; 66; 111; 100; 121]
    [([120; 109; 108; 110; 115; 58; 112], [104; 116; 116; 112; 58; 47; 47; 115; 99; 104; 101; 109; 97; 115; 46; 111; 112; 101; 110; 120; 109; 108; 102; 111; 114; 109; 97; 116; 115; 46; 111; 114; 103; 47; 112; 114; 101; 115; 101; 110; 116; 97; 116; 105; 111; 110; 109; 108; 47; 50; 48; 48; 54; 47; 109; 97; 105; 110]); ([120; 109; 108; 110; 115; 58; 97], [104; 116; 116; 112; 58; 47; 47; 115; 99; 104; 101; 109; 97; 115; 46; 111; 112; 101; 110; 120; 109; 108; 102; 111; 114; 109; 97; 116; 115; 46; 111; 114; 103; 47; 100; 114; 97; 119; 105; 110; 103; 109; 108; 47; 50; 48; 48; 54; 47; 109; 97; 105; 110])]
    [(XmlTree.XNode [97; 58; 112]
        []
        [(XmlTree.XNode [97; 58; 114]
            []
            [(XmlTree.XNode [97; 58; 116]
                []
                [])])])])%N.
Example C09_reopen_tree_empty_text :
  XmlTree.wf_tree c09_ex_empty = true /\ XmlTree.strict c09_ex_empty = false
  /\ XmlTree.canon c09_ex_empty = c09_ex_empty_read
  /\ XmlTree.dec_doc (XmlTree.enc_doc c09_ex_empty) = Some c09_ex_empty_read
  /\ XmlTree.enc_doc c09_ex_empty <> XmlTree.enc_doc c09_ex_empty_read.
Proof. vm_compute. repeat split; try reflexivity. discriminate. Qed.
Print Assumptions C09_reopen_tree_empty_text.
(** the hypothesis is needed: a text holding U+0000 (which lxml refuses to store) is not well formed, and
    what the writer would write for it is refused by the reader *)
Definition c09_ex_nul : XmlTree.xtree :=
  (XmlTree.XNode [112; 58; 115; 112]
    [([120; 109; 108; 110; 115; 58; 112], [104; 116; 116; 112; 58; 47; 47; 115; 99; 104; 101; 109; 97; 115; 46; 111; 112; 101; 110; 120; 109; 108; 102; 111; 114; 109; 97; 116; 115; 46; 111; 114; 103; 47; 112; 114; 101; 115; 101; 110; 116; 97; 116; 105; 111; 110; 109; 108; 47; 50; 48; 48; 54; 47; 109; 97; 105; 110])]
    [(XmlTree.XLeaf [97; 58; 116]
        []
        [97; 0; 98])])%N.
Example C09_reopen_tree_refuses_nul :
  XmlTree.wf_tree c09_ex_nul = false /\ XmlTree.dec_doc (XmlTree.enc_doc c09_ex_nul) = None.
Proof. vm_compute. split; reflexivity. Qed.
Print Assumptions C09_reopen_tree_refuses_nul.
