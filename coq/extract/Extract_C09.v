From Coq Require Import Extraction ExtrOcamlBasic.
From V.model Require Import PropsRun.
Extraction Language OCaml.
Cd "extract".
Extraction "c09.ml" run_c09.
Cd "..".
