"""C10 — a child is inserted where the schema allows it, whatever siblings exist.

translate (tx/tx_c10.py: declarations from the live classes + XSD content models)
-> prove (props/C10.v: generic soundness + instance over gen/GenC10.v by vm_compute)
-> diagnose (diag/Diag_C10.v: rejected declarations with witness contexts)
-> replay witnesses on real lxml elements (oracle = python-side rank order)
-> correspondence of model/Xmlchemy.v with the metaclass-generated methods on the
   property's own context grid (complete enumeration).
"""
import json
import os
import re
import subprocess

from corr.harness import COQ, VERIF, coq_build, run_model, _run

TB = [
    "tx/tx_c10.py + tx/xsdlib.py (translator: class declarations recovered from _insert_x closures, XSD particles transcribed structurally; groups/extension bases inlined)",
    "lxml/libxml2 find/addprevious/append/remove semantics as modelled in model/Xmlchemy.v (tied by the exhaustive grid correspondence)",
    "the XSDs under /repo/spec are the oracle of order",
]
ASSUME = [
    "xsd:all is over-approximated by a repeatable choice; xsd:any is a reserved tag",
    "a successor tag unknown to the parent's content model can never be present among schema-valid children and is ignored",
    "direct insertion sites classified 'template' or 'observed' in tx/c10_sites_known.json are outside the instance theorem (template construction is C03's; observed ones are exercised by C03's API-level runs)",
]


def load_meta():
    return json.load(open(os.path.join(COQ, "gen", "c10_meta.json")))


def diag_rows():
    rc, out = _run(["timeout", "600", "coqc", "-Q", ".", "V", "diag/Diag_C10.v"], cwd=COQ)
    if rc != 0:
        return None, out
    body = out[out.index("="):] if "=" in out else ""
    rows = []
    for m in re.finditer(r"\[([^\[\]]*)\]", body):
        nums = [int(x) for x in re.findall(r"(\d+)%N", m.group(1))]
        if len(nums) >= 2 and nums[1] == 7777:
            rows.append((nums[0], nums[2:]))
    return rows, out


def mk_parent(tag, ctx_tags):
    from pptx.oxml.xmlchemy import OxmlElement

    parent = OxmlElement(tag)
    for t in ctx_tags:
        parent.append(OxmlElement(t))
    return parent


def child_tags(parent):
    from pptx.oxml.ns import NamespacePrefixedTag

    return [str(NamespacePrefixedTag.from_clark_name(c.tag)) for c in parent]


def _tiny_png():
    import io
    from PIL import Image
    b = io.BytesIO()
    Image.new("RGB", (3, 2), (200, 10, 10)).save(b, "PNG")
    b.seek(0)
    return b


def site_replay(meta, ctx):
    """Direct insertion sites are replayed through the public API call that reaches them,
    on a real slide whose shape tree (or a group in it) already holds the context children."""
    import io
    from pptx import Presentation
    from pptx.chart.data import CategoryChartData
    from pptx.enum.chart import XL_CHART_TYPE
    from pptx.enum.shapes import MSO_SHAPE, MSO_CONNECTOR, PROG_ID
    from pptx.oxml.xmlchemy import OxmlElement
    from pptx.util import Emu

    fn = meta["cls"][len("site:"):]
    prs = Presentation()
    slide = prs.slides.add_slide(prs.slide_layouts[6])
    spTree = slide.shapes._spTree
    for t in ctx:
        if t not in ("p:nvGrpSpPr", "p:grpSpPr"):
            spTree.append(OxmlElement(t))
    sh = slide.shapes
    E = Emu(100000)
    if fn.endswith("add_autoshape"):
        sh.add_shape(MSO_SHAPE.RECTANGLE, E, E, E, E)
    elif fn.endswith("add_cxnSp"):
        sh.add_connector(MSO_CONNECTOR.STRAIGHT, E, E, E, E)
    elif fn.endswith("add_freeform_sp"):
        fb = sh.build_freeform(0, 0)
        fb.add_line_segments([(10, 10), (20, 0)])
        fb.convert_to_shape()
    elif fn.endswith("add_grpSp"):
        sh.add_group_shape()
    elif fn.endswith("add_pic"):
        sh.add_picture(_tiny_png(), E, E)
    elif fn.endswith("add_placeholder"):
        # clone_placeholder goes through add_placeholder
        lay = prs.slide_layouts[0]
        sh.clone_placeholder(lay.placeholders[0])
    elif fn.endswith("add_table"):
        sh.add_table(2, 2, E, E, E, E)
    elif fn.endswith("add_textbox"):
        sh.add_textbox(E, E, E, E)
    elif fn.endswith("add_group_shape"):
        s1 = sh.add_shape(MSO_SHAPE.RECTANGLE, E, E, E, E)
        before = child_tags(spTree)
        grp = sh.add_group_shape(shapes=[s1])
        return child_tags(grp._element)
    elif fn.endswith("add_movie"):
        sh.add_movie(io.BytesIO(b"not really a movie"), E, E, E, E, mime_type="video/mp4")
    elif fn.endswith("_add_chart_graphicFrame"):
        cd = CategoryChartData()
        cd.categories = ["a", "b"]
        cd.add_series("s", (1, 2))
        sh.add_chart(XL_CHART_TYPE.COLUMN_CLUSTERED, E, E, E, E, cd)
    elif fn.endswith("add_ole_object"):
        sh.add_ole_object(io.BytesIO(b"xlsx bytes"), PROG_ID.XLSX, E, E)
    elif fn.endswith("add_video"):
        sh.add_movie(io.BytesIO(b"not really a movie"), E, E, E, E, mime_type="video/mp4")
        tl = slide._element.xpath(".//p:childTnLst")
        return child_tags(tl[-1]) if tl else []
    elif fn.endswith("append_ps_from"):
        tbl = sh.add_table(1, 2, E, E, E, E).table
        tbl.cell(0, 1).text = "x"
        tbl.cell(0, 0).merge(tbl.cell(0, 1))
        return child_tags(tbl.cell(0, 0)._tc.txBody)
    else:
        raise KeyError("no replay for site " + fn)
    return child_tags(spTree)


def impl_op(op, meta, ctx):
    """Run the real generated method on a real element; returns resulting child tag list."""
    from pptx.oxml.xmlchemy import OxmlElement

    if meta["cls"].startswith("site:"):
        return site_replay(meta, ctx)

    parent = mk_parent(meta["tags"][0], ctx)
    x = meta["method"][len("_insert_"):]
    if op == "ins":
        getattr(parent, "_insert_" + x)(OxmlElement(meta["child"]))
    elif op == "add":
        getattr(parent, "_add_" + x)()
    elif op == "goa":
        getattr(parent, "get_or_add_" + x)()
    elif op == "rem":
        getattr(parent, "_remove_" + x)()
    elif op == "chg":
        getattr(parent, "get_or_change_to_" + x)()
    return child_tags(parent)


def has(meta, prefix):
    from pptx.oxml.xmlchemy import OxmlElement

    return hasattr(OxmlElement(meta["tags"][0]), prefix + meta["method"][len("_insert_"):])


def rank_sorted(pyranks, tags):
    rs = [pyranks[t][0] for t in tags if t in pyranks]
    return all(a <= b for a, b in zip(rs, rs[1:]))


def contexts(meta):
    """The property's grid for one declaration."""
    pr = meta["pyranks"]
    child = meta["child"]
    tags = [t for t in meta["cm_tags"] if t != "#any" and t in pr]
    by_rank = sorted(tags, key=lambda t: (pr[t][0], t))
    rt = pr[child][0]
    later = [t for t in by_rank if pr[t][0] > rt]
    earlier = [t for t in by_rank if pr[t][0] < rt]
    same = [t for t in by_rank if pr[t][0] == rt and t != child]
    out = [[]]
    for t in by_rank:                     # one other permitted child
        if t != child or pr[t][1]:
            out.append([t])

    def one_per_group(ts, last=False):
        seen, res = set(), []
        for t in (reversed(ts) if last else ts):
            key = pr[t][0]
            if pr[t][1] or key not in seen:
                res.append(t)
                seen.add(key)
        return sorted(res, key=lambda t: (pr[t][0], t)) if last else res

    out.append(one_per_group(later))
    out.append(one_per_group(later, last=True))
    out.append(one_per_group(earlier))
    out.append(one_per_group(earlier, last=True))

    out.append(one_per_group(earlier + later))          # all permitted (one member per choice group)
    if pr[child][1]:
        out.append(one_per_group(earlier) + same + one_per_group(later))
    # repeatable mixed content: every ordering of two kinds
    groups = {}
    for t in tags:
        if pr[t][1]:
            groups.setdefault(pr[t][0], []).append(t)
    for g in groups.values():
        g = sorted(set(g))[:6]
        for a in g:
            for b in g:
                if a != b:
                    out.append([a, b])
                    out.append([a, b, a])
    uniq = []
    for c in out:
        if c not in uniq:
            uniq.append(c)
    return uniq


def random_word(cm, rng, depth=0):
    """A random member of the language of a content model (repetitions kept short)."""
    k = cm[0]
    if k == "elt":
        return [cm[1]]
    if k == "any":
        return []
    if k == "seq":
        return [t for c in cm[1] for t in random_word(c, rng, depth + 1)]
    if k == "alt":
        return random_word(rng.choice(cm[1]), rng, depth + 1) if cm[1] else []
    if k == "rep":
        mn, mx = cm[1], cm[2]
        hi = mn + 3 if mx is None else min(mx, mn + 3)
        n = rng.randint(mn, max(mn, hi))
        if rng.random() < 0.35:
            n = mn
        return [t for _ in range(n) for t in random_word(cm[3], rng, depth + 1)]
    return []


def run(ck, tier, rng):
    # 1. translate from the current tree
    rc, out = _run(["/venv/bin/python", os.path.join(VERIF, "tx", "tx_c10.py")], cwd=VERIF)
    if rc != 0:
        ck.violation("translator", "tx_c10 failed on the current tree: " + out[-600:],
                     {"theorem_or_correspondence": "translator tx_c10 (model regeneration)"}, concrete=False)
        return ck.finish("translator failed", TB, ASSUME)
    ck.notes.append(out.strip())
    meta = load_meta()
    names = meta["tag_names"]
    ids = {v: int(k) for k, v in names.items()}
    by_id = {m["id"]: m for m in meta["checks"]}
    # 2. prove
    ck.build = coq_build("C10", extra_targets=["proofs/C10_proofs.vo", "gen/GenC10.vo"])
    concrete = 0
    # 3. diagnose + replay witnesses
    rows, dout = diag_rows()
    if rows is None:
        ck.notes.append("diagnostics did not compile: " + dout[-300:])
        rows = []
    ck.coverage_failing = []
    for cid, wit in rows:
        m = by_id[cid]
        ctx = [names[str(t)] for t in wit]
        try:
            got = impl_op("ins", m, ctx)
        except Exception as e:  # noqa
            got = ["<exception %r>" % e]
        bad = not rank_sorted(m["pyranks"], got)
        rec = {"entry_point": "%s.%s" % (m["cls"], m["method"]), "xsd_type": m["type"],
               "input": {"parent": m["tags"][0], "children": ctx, "insert": m["child"]},
               "model_outcome": "decl_ok = false (witness from diag/Diag_C10.v)", "impl_outcome": got,
               "successors_declared": m["succ"]}
        if bad:
            concrete += 1
            ck.violation("decl:" + m["sig"],
                         "%s: inserting <%s> into <%s> holding %s gives %s, out of schema order (%s)" % (
                             m["sig"], m["child"], m["tags"][0], ctx, got, m["type"]), rec)
        else:
            ck.violation("decl-unreplayed:" + m["sig"],
                         "declaration %s rejected by decl_ok but witness %s did not misplace on the implementation (%s)" % (
                             m["sig"], ctx, got), dict(rec, theorem_or_correspondence="C10_all_declared"), concrete=False)
    # 4. unmodelled constructs
    for u in meta["unmodelled"]:
        ck.violation("unmodelled:" + u[:100], "translator met a construct outside the model: " + u,
                     {"theorem_or_correspondence": "C10_no_unmodelled", "construct": u}, concrete=False)
    # 5. correspondence of the xmlchemy semantics on the property's grid (complete)
    cases, expect = [], []
    seen_decl = set()
    for m in meta["checks"]:
        key = (m["cls"], m["child"], m["type"])
        if key in seen_decl or m["cls"].startswith("site:"):
            continue
        seen_decl.add(key)
        x = ids[m["child"]]
        S = [ids.get(s) for s in m["succ"] if s in ids]
        Sfield = "".join(chr(i) for i in S)
        members = None
        ctxs = contexts(m)
        if tier == "thorough":
            # random schema-valid sibling sequences (long contexts, repeated children)
            seen_ctx = {tuple(c) for c in ctxs}
            for _ in range(40):
                w = [t for t in random_word(m["cm_json"], rng) if t in ids and t in m["pyranks"]]
                if m["kind"] != "ZeroOrMore" and m["kind"] != "OneOrMore" and not m["pyranks"][m["child"]][1]:
                    w = [t for t in w if t != m["child"]]
                if tuple(w) not in seen_ctx and len(w) <= 60:
                    seen_ctx.add(tuple(w))
                    ctxs.append(w)
        for ctx in ctxs:
            cf = "".join(chr(ids[t]) for t in ctx)
            if m.get("first"):
                ops = [("ins", ["fst", chr(x), cf])]
                if has(m, "get_or_add_"):
                    ops.append(("goa", ["gof", chr(x), cf]))
            else:
                ops = [("ins", ["ins", chr(x), Sfield, cf])]
                if has(m, "get_or_add_"):
                    ops.append(("goa", ["goa", chr(x), Sfield, cf]))
            if has(m, "_remove_") and m["kind"] != "Choice":
                ops.append(("rem", ["rem", chr(x), cf]))
            for op, fields in ops:
                try:
                    got = impl_op(op, m, ctx)
                    got_ids = " ".join(str(ids[t]) for t in got)
                except Exception as e:  # noqa
                    got_ids = "exception:" + type(e).__name__
                cases.append(fields)
                expect.append((m, op, ctx, got_ids))
                nontriv = any(t != m["child"] for t in ctx)
                ck.count((m["cls"], m["child"], m["type"], op, tuple(ctx)), nontriv, op)
                # oracle: the property's statement on the implementation's result
                if op in ("ins", "goa") and not got_ids.startswith("exception"):
                    if rank_sorted(m["pyranks"], ctx) and not rank_sorted(m["pyranks"], got):
                        ck.violation("decl:" + m["sig"],
                                     "%s: %s of <%s> into <%s> holding %s gives %s, out of schema order (%s)" % (
                                         m["sig"], op, m["child"], m["tags"][0], ctx, got, m["type"]),
                                     {"entry_point": "%s.%s" % (m["cls"], m["method"]), "xsd_type": m["type"],
                                      "input": {"parent": m["tags"][0], "children": ctx, "insert": m["child"], "op": op},
                                      "impl_outcome": got})
                    if op == "goa" and got.count(m["child"]) != max(1, ctx.count(m["child"])):
                        ck.violation("goa-count:" + m["sig"], "get_or_add created %d <%s> children" % (got.count(m["child"]), m["child"]),
                                     {"entry_point": m["cls"] + ".get_or_add", "input": {"children": ctx}, "impl_outcome": got})
                if op == "rem" and not got_ids.startswith("exception") and m["child"] in got:
                    ck.violation("rem-left:" + m["sig"], "_remove left a <%s> child" % m["child"],
                                 {"entry_point": m["cls"] + "._remove", "input": {"children": ctx}, "impl_outcome": got})
    for c in expect[:4] + expect[len(expect) // 2: len(expect) // 2 + 3]:
        ck.sample({"class": c[0]["cls"], "child": c[0]["child"], "op": c[1], "context": c[2]}, limit=10)
    diffs = 0
    if ck.build.ok or os.path.exists(os.path.join(COQ, "extract", "run_c10")):
        try:
            model_out = run_model("C10", cases)
        except Exception as e:  # noqa
            model_out = None
            ck.notes.append("model runner unavailable: %r" % e)
        if model_out is not None:
            first = None
            for (m, op, ctx, got), mo in zip(expect, model_out):
                if mo.strip() != got.strip():
                    diffs += 1
                    if first is None:
                        first = (m, op, ctx, got, mo)
            if diffs:
                m, op, ctx, got, mo = first
                ck.violation("correspondence",
                             "model/Xmlchemy.v and the generated xmlchemy methods disagree on %d grid cases, e.g. %s %s of <%s> in context %s: "
                             "model=%s impl=%s" % (diffs, m["cls"], op, m["child"], ctx, mo, got),
                             {"theorem_or_correspondence": "correspondence Xmlchemy.v ~ oxml/xmlchemy.py (insert_before/get_or_add/remove_all)",
                              "input": {"class": m["cls"], "op": op, "child": m["child"], "children": ctx},
                              "model_outcome": mo, "impl_outcome": got}, concrete=False)
    any_concrete = any(v["concrete"] for v in ck.violations)
    ck.broken_build(oracle_found_concrete=any_concrete)
    return ck.finish(
        rule="complete enumeration of the property's grid: every (registered class, XSD type, declared child) x {empty, each single other permitted child, all later, all earlier, all permitted, two-kind orderings of repeatable mixed groups} x {_insert_x, get_or_add_x, _remove_x}; non-trivial = context holds a tag other than the inserted one",
        trusted_base=TB, assumptions=ASSUME,
        extra={"declarations_checked": len(meta["checks"]), "rejected_declarations": [by_id[c]["sig"] for c, _ in rows],
               "inserters_recovered": meta["n_inserters"], "declaration_call_sites_in_ast": meta["n_declaration_sites_ast"],
               "outside_schema": [o["cls"] + "/" + o["child"] for o in meta["outside"]],
               "custom_inserters": meta["customs"], "direct_sites": len(meta["sites"]),
               "correspondence_diffs": diffs, "exhaustive": True},
    )


def replay(rec):
    inp = rec["input"]
    from pptx.oxml.xmlchemy import OxmlElement
    parent = mk_parent(inp["parent"], inp["children"])
    meth = rec["entry_point"].split(".")[-1]
    getattr(parent, meth)(OxmlElement(inp["insert"]))
    print("children before:", inp["children"])
    print("children after :", child_tags(parent))
    return 0


CLAIM = {'tech': 'Coq proof by reflection: verified decision procedure (decl_ok) evaluated by vm_compute on declarations and XSD content models regenerated from /repo each run; grid correspondence of xmlchemy semantics', 'text': "Generic theorems: every schema-accepted child sequence is rank-sorted (lang_sorted) and a declaration accepted by decl_ok inserts in rank order in EVERY schema-accepted context (insert_schema_ordered); instance theorem C10_all_declared over all (class, XSD type, declared child) triples and the literal-successor direct sites re-extracted from the current tree; get_or_add/remove/change_to theorems; the xmlchemy model is tied to the metaclass-generated methods by complete enumeration of the property's context grid on real lxml elements.", 'note': 'translator tx_c10/xsdlib trusted to transcribe; xsd:all over-approximated; sites classified template/observed are outside the instance theorem; lxml tree operations modelled on tag lists.', 'ref': '6/C10'}
