(** Round trip ( RT ), row level, for the simple-type classes WITHOUT a canonical descriptor: the class-level
    theorems of C11_roundtrip_instance.v, proved on the Gallina regenerated from simpletypes.py for ALL python
    values, are lifted to every attribute row whose writer and reader are that class ( gen/GenC11.v: rows,
    row_classes, rows_classes_ok ).  RT speaks of the two functions only, so a row is covered as soon as its
    class has a theorem; what the theorem says depends on the KIND of the class:

    KExact      the value read equals ( python == ) the value written
    KFloor127   EMU in, centipoints out: an int z comes back as z // 127 * 127, less than 127 EMU below z
    KQuant q M  the float read back is within q of the number assigned ( exactly, or through float( ) ), modulo M
                when M is not 0 ( angles: 360 )
    KUpper      a hex colour string comes back in upper case
    KRepr       PARTIAL ( xsd:double ): the text is repr( float( v ) ) and determines that float; reading it back is
                CPython float( repr( f ) ) = f, in the trusted base: verdict 3, not counted as covered *)
From V.lib Require Import Prelude PyFloat PyVal.
From V.model Require Import SimpleTypeLib.
From V.proofs Require Import PyFloat_proofs SimpleTypeLib_proofs Props_proofs C11_roundtrip_instance.
From V.gen Require Import GenC11.
From Coq Require Import Lia ZifyBool QArith Qabs.
Local Open Scope Z_scope.

Inductive rt_kind := KExact | KFloor127 | KQuant (q M : Q) | KUpper | KRepr.

(** what a kind says about a writer / reader pair *)
Definition kind_prop (to_xml from_xml : pyval -> res pyval) (k : rt_kind) : Prop :=
  match k with
  | KExact => rt_exact to_xml from_xml
  | KFloor127 =>
      forall v s, to_xml v = Ok (PStr s) ->
      exists z, as_int v = Some z /\ 0 <= z <= 20116800
        /\ from_xml (PStr s) = Ok (PInt (z / 127 * 127)) /\ 0 <= z - z / 127 * 127 < 127
  | KQuant q M => rt_quant to_xml from_xml q M
  | KUpper => rt_upper to_xml from_xml
  | KRepr => rt_repr to_xml
  end.

Lemma kind_prop_ext to1 from1 to2 from2 k :
  (forall v, to1 v = to2 v) -> (forall v, from1 v = from2 v) -> kind_prop to2 from2 k -> kind_prop to1 from1 k.
Proof.
  intros Ht Hf. destruct k; cbn [kind_prop]; unfold rt_exact, rt_quant, rt_upper, rt_repr; intros H v s W;
    rewrite Ht in W; specialize (H v s W); rewrite ?Hf; exact H.
Qed.

Definition k_Coordinate : str := [83; 84; 95; 67; 111; 111; 114; 100; 105; 110; 97; 116; 101]%N.
Definition k_Coordinate32 : str := [83; 84; 95; 67; 111; 111; 114; 100; 105; 110; 97; 116; 101; 51; 50]%N.
Definition k_PositiveCoordinate : str := [83; 84; 95; 80; 111; 115; 105; 116; 105; 118; 101; 67; 111; 111; 114; 100; 105; 110; 97; 116; 101]%N.
Definition k_LineWidth : str := [83; 84; 95; 76; 105; 110; 101; 87; 105; 100; 116; 104]%N.
Definition k_SlideSizeCoordinate : str := [83; 84; 95; 83; 108; 105; 100; 101; 83; 105; 122; 101; 67; 111; 111; 114; 100; 105; 110; 97; 116; 101]%N.
Definition k_BubbleScale : str := [83; 84; 95; 66; 117; 98; 98; 108; 101; 83; 99; 97; 108; 101]%N.
Definition k_GapAmount : str := [83; 84; 95; 71; 97; 112; 65; 109; 111; 117; 110; 116]%N.
Definition k_Overlap : str := [83; 84; 95; 79; 118; 101; 114; 108; 97; 112]%N.
Definition k_LblOffset : str := [83; 84; 95; 76; 98; 108; 79; 102; 102; 115; 101; 116]%N.
Definition k_TextSpacingPoint : str := [83; 84; 95; 84; 101; 120; 116; 83; 112; 97; 99; 105; 110; 103; 80; 111; 105; 110; 116]%N.
Definition k_Percentage : str := [83; 84; 95; 80; 101; 114; 99; 101; 110; 116; 97; 103; 101]%N.
Definition k_PositiveFixedPercentage : str := [83; 84; 95; 80; 111; 115; 105; 116; 105; 118; 101; 70; 105; 120; 101; 100; 80; 101; 114; 99; 101; 110; 116; 97; 103; 101]%N.
Definition k_TextSpacingPercent : str := [83; 84; 95; 84; 101; 120; 116; 83; 112; 97; 99; 105; 110; 103; 80; 101; 114; 99; 101; 110; 116; 79; 114; 80; 101; 114; 99; 101; 110; 116; 83; 116; 114; 105; 110; 103]%N.
Definition k_TextFontScalePercent : str := [83; 84; 95; 84; 101; 120; 116; 70; 111; 110; 116; 83; 99; 97; 108; 101; 80; 101; 114; 99; 101; 110; 116; 79; 114; 80; 101; 114; 99; 101; 110; 116; 83; 116; 114; 105; 110; 103]%N.
Definition k_Angle : str := [83; 84; 95; 65; 110; 103; 108; 101]%N.
Definition k_PositiveFixedAngle : str := [83; 84; 95; 80; 111; 115; 105; 116; 105; 118; 101; 70; 105; 120; 101; 100; 65; 110; 103; 108; 101]%N.
Definition k_HexColorRGB : str := [83; 84; 95; 72; 101; 120; 67; 111; 108; 111; 114; 82; 71; 66]%N.
Definition k_XsdDouble : str := [88; 115; 100; 68; 111; 117; 98; 108; 101]%N.
Definition k_AxisUnit : str := [83; 84; 95; 65; 120; 105; 115; 85; 110; 105; 116]%N.

(** class name -> kind, each entry backed by a class-level theorem *)
Definition class_rts : list (str * rt_kind) :=
  [ (k_Coordinate, KExact); (k_Coordinate32, KExact); (k_PositiveCoordinate, KExact); (k_LineWidth, KExact);
    (k_SlideSizeCoordinate, KExact); (k_BubbleScale, KExact); (k_GapAmount, KExact); (k_Overlap, KExact);
    (k_LblOffset, KExact);
    (k_TextSpacingPoint, KFloor127);
    (k_Percentage, KQuant (1 # 100000) 0); (k_PositiveFixedPercentage, KQuant (1 # 100000) 0);
    (k_TextSpacingPercent, KQuant (1 # 100000) 0); (k_TextFontScalePercent, KQuant fontscale_quantum 0);
    (k_Angle, KQuant (1 # 60000) 360); (k_PositiveFixedAngle, KQuant (1 # 60000) 360);
    (k_HexColorRGB, KUpper);
    (k_XsdDouble, KRepr); (k_AxisUnit, KRepr) ].

Definition class_rt_holds (e : str * rt_kind) : Prop :=
  kind_prop (dispatch_to_xml (fst e)) (dispatch_from_xml (fst e)) (snd e).

Lemma class_rts_sound : Forall class_rt_holds class_rts.
Proof.
  unfold class_rts. repeat constructor; unfold class_rt_holds; cbn [fst snd kind_prop].
  - change (dispatch_to_xml k_Coordinate) with ST_Coordinate__to_xml.
    change (dispatch_from_xml k_Coordinate) with ST_Coordinate__from_xml. exact RT_Coordinate.
  - change (dispatch_to_xml k_Coordinate32) with ST_Coordinate32__to_xml.
    change (dispatch_from_xml k_Coordinate32) with ST_Coordinate32__from_xml. exact RT_Coordinate32.
  - change (dispatch_to_xml k_PositiveCoordinate) with ST_PositiveCoordinate__to_xml.
    change (dispatch_from_xml k_PositiveCoordinate) with ST_PositiveCoordinate__from_xml. exact RT_PositiveCoordinate.
  - change (dispatch_to_xml k_LineWidth) with ST_LineWidth__to_xml.
    change (dispatch_from_xml k_LineWidth) with ST_LineWidth__from_xml. exact RT_LineWidth.
  - change (dispatch_to_xml k_SlideSizeCoordinate) with ST_SlideSizeCoordinate__to_xml.
    change (dispatch_from_xml k_SlideSizeCoordinate) with ST_SlideSizeCoordinate__from_xml. exact RT_SlideSizeCoordinate.
  - change (dispatch_to_xml k_BubbleScale) with ST_BubbleScale__to_xml.
    change (dispatch_from_xml k_BubbleScale) with ST_BubbleScale__from_xml. exact RT_BubbleScale.
  - change (dispatch_to_xml k_GapAmount) with ST_GapAmount__to_xml.
    change (dispatch_from_xml k_GapAmount) with ST_GapAmount__from_xml. exact RT_GapAmount.
  - change (dispatch_to_xml k_Overlap) with ST_Overlap__to_xml.
    change (dispatch_from_xml k_Overlap) with ST_Overlap__from_xml. exact RT_Overlap.
  - change (dispatch_to_xml k_LblOffset) with ST_LblOffset__to_xml.
    change (dispatch_from_xml k_LblOffset) with ST_LblOffset__from_xml. exact RT_LblOffset.
  - change (dispatch_to_xml k_TextSpacingPoint) with ST_TextSpacingPoint__to_xml.
    change (dispatch_from_xml k_TextSpacingPoint) with ST_TextSpacingPoint__from_xml. exact RT_TextSpacingPoint.
  - change (dispatch_to_xml k_Percentage) with ST_Percentage__to_xml.
    change (dispatch_from_xml k_Percentage) with ST_Percentage__from_xml. exact (rt_quant_of_f _ _ _ _ RT_Percentage).
  - change (dispatch_to_xml k_PositiveFixedPercentage) with ST_PositiveFixedPercentage__to_xml.
    change (dispatch_from_xml k_PositiveFixedPercentage) with ST_PositiveFixedPercentage__from_xml.
    exact (rt_quant_of_f _ _ _ _ RT_PositiveFixedPercentage).
  - change (dispatch_to_xml k_TextSpacingPercent) with ST_TextSpacingPercentOrPercentString__to_xml.
    change (dispatch_from_xml k_TextSpacingPercent) with ST_TextSpacingPercentOrPercentString__from_xml.
    exact (rt_quant_of_f _ _ _ _ RT_TextSpacingPercent).
  - change (dispatch_to_xml k_TextFontScalePercent) with ST_TextFontScalePercentOrPercentString__to_xml.
    change (dispatch_from_xml k_TextFontScalePercent) with ST_TextFontScalePercentOrPercentString__from_xml.
    exact (rt_quant_of_f _ _ _ _ RT_TextFontScalePercent_partial).
  - change (dispatch_to_xml k_Angle) with ST_Angle__to_xml.
    change (dispatch_from_xml k_Angle) with ST_Angle__from_xml. exact (rt_quant_of_f _ _ _ _ RT_Angle).
  - change (dispatch_to_xml k_PositiveFixedAngle) with ST_PositiveFixedAngle__to_xml.
    change (dispatch_from_xml k_PositiveFixedAngle) with ST_PositiveFixedAngle__from_xml.
    exact (rt_quant_of_x _ _ _ _ RT_PositiveFixedAngle).
  - change (dispatch_to_xml k_HexColorRGB) with ST_HexColorRGB__to_xml.
    change (dispatch_from_xml k_HexColorRGB) with ST_HexColorRGB__from_xml. exact RT_HexColorRGB.
  - change (dispatch_to_xml k_XsdDouble) with XsdDouble__to_xml. exact RT_XsdDouble_partial.
  - change (dispatch_to_xml k_AxisUnit) with ST_AxisUnit__to_xml. exact RT_AxisUnit_partial.
Qed.

Fixpoint kind_of (c : str) (l : list (str * rt_kind)) : option rt_kind :=
  match l with
  | [] => None
  | (n, k) :: l' => if str_eqb c n then Some k else kind_of c l'
  end.

Lemma kind_of_sound c l k : Forall class_rt_holds l -> kind_of c l = Some k ->
  kind_prop (dispatch_to_xml c) (dispatch_from_xml c) k.
Proof.
  induction l as [|[n k0] l IH]; cbn [kind_of]; [discriminate|]. intros HF.
  inversion HF as [|? ? Hh Ht]; subst. destruct (str_eqb c n) eqn:E.
  - intros [= ->]. apply str_eqb_eq in E. subst n. exact Hh.
  - apply IH; assumption.
Qed.

(** verdict of a ( row, class ) pair: 0 = the round trip of this attribute is covered by a class theorem;
    3 = partial ( xsd:double: the reading half is CPython float of repr, trusted ); 2 = no theorem here ( rows of
    classes with a canonical descriptor are judged by RT_rows, enumeration rows by C20 ) *)
Definition kind_verdict (k : option rt_kind) : N :=
  match k with Some KRepr => 3%N | Some _ => 0%N | None => 2%N end.
Definition rt_custom_verdict (r : attr_row) (c : str) : N := kind_verdict (kind_of c class_rts).

Definition is_exact (k : option rt_kind) : bool := match k with Some KExact => true | _ => false end.
Definition exact_kind (c : str) : bool := is_exact (kind_of c class_rts).

Fixpoint rtverdicts2 (rs : list attr_row) (cs : list str) : list (N * N) :=
  match rs, cs with
  | r :: rs', c :: cs' => (ar_id r, rt_custom_verdict r c) :: rtverdicts2 rs' cs'
  | _, _ => []
  end.
Definition custom_rt_verdicts : list (N * N) := rtverdicts2 rows row_classes.

Lemma RT_rows_custom_gen rs cs : Forall2 row_is rs cs ->
  forall r c k, In (r, c) (combine rs cs) -> kind_of c class_rts = Some k ->
  kind_prop (ar_to_xml r) (ar_from_xml r) k.
Proof.
  induction 1 as [|r0 c0 rs cs H0 HF IH]; cbn [combine]; [intros ? ? ? []|].
  intros r c k [E|Hin] Hk.
  - injection E as <- <-. destruct H0 as [->|[Hto Hfrom]]; [vm_compute in Hk; discriminate Hk|].
    eapply kind_prop_ext; [exact Hto|exact Hfrom|].
    eapply kind_of_sound; [apply class_rts_sound|exact Hk].
  - eapply IH; eauto.
Qed.

(** RT for the custom classes, per attribute row, whatever the kind *)
Theorem RT_rows_custom : forall r c k, In (r, c) (combine rows row_classes) -> kind_of c class_rts = Some k ->
  kind_prop (ar_to_xml r) (ar_from_xml r) k.
Proof. exact (RT_rows_custom_gen rows row_classes rows_classes_ok). Qed.

(** the exact classes: the statement of C11_RT *)
Theorem RT_rows_custom_exact : forall r c, In (r, c) (combine rows row_classes) ->
  rt_custom_verdict r c = 0%N -> exact_kind c = true ->
  forall v s, ar_to_xml r v = Ok (PStr s) -> exists v', ar_from_xml r (PStr s) = Ok v' /\ py_eqb v' v = true.
Proof.
  intros r c Hin _ Hx. unfold exact_kind in Hx.
  destruct (kind_of c class_rts) as [[| | | |]|] eqn:Hk; try discriminate Hx.
  exact (RT_rows_custom r c KExact Hin Hk).
Qed.

(** the quantum classes: the float read back is within the quantum of the number assigned ( modulo M ) *)
Local Open Scope Q_scope.
Theorem RT_rows_custom_quant : forall r c q M, In (r, c) (combine rows row_classes) ->
  kind_of c class_rts = Some (KQuant q M) ->
  forall v s, ar_to_xml r v = Ok (PStr s) ->
  exists x f (j : Z), assigned v x /\ ar_from_xml r (PStr s) = Ok (PFloat f) /\ f_is_finite f = true
    /\ Qabs (Qv f - (x - M * inject_Z j)) <= q.
Proof. intros r c q M Hin Hk. exact (RT_rows_custom r c (KQuant q M) Hin Hk). Qed.

(** centipoints: less than one centipoint ( 127 EMU ) is lost, downwards *)
Local Open Scope Z_scope.
Theorem RT_rows_custom_floor : forall r c, In (r, c) (combine rows row_classes) ->
  kind_of c class_rts = Some KFloor127 ->
  forall v s, ar_to_xml r v = Ok (PStr s) ->
  exists z, as_int v = Some z /\ 0 <= z <= 20116800
    /\ ar_from_xml r (PStr s) = Ok (PInt (z / 127 * 127)) /\ 0 <= z - z / 127 * 127 < 127.
Proof. intros r c Hin Hk. exact (RT_rows_custom r c KFloor127 Hin Hk). Qed.

(** ---- instance ---- *)
(** every row that RT_rows ( canonical descriptors, proofs/C11_instance.v ) does not judge is judged here,
    except the xsd:double rows ( partial ) *)
Definition rt_row_judged (p : attr_row * str) : bool :=
  rt_ok_b (fst p) || (rt_custom_verdict (fst p) (snd p) =? 0)%N || (rt_custom_verdict (fst p) (snd p) =? 3)%N.
Definition rt_rows_unjudged : list N :=
  map (fun p => ar_id (fst p)) (filter (fun p => negb (rt_row_judged p)) (combine rows row_classes)).
Definition rt_rows_partial : list N :=
  map (fun p => ar_id (fst p))
    (filter (fun p => negb (rt_ok_b (fst p)) && (rt_custom_verdict (fst p) (snd p) =? 3)%N) (combine rows row_classes)).

Lemma all_rows_rt_judged : rt_rows_unjudged = [].
Proof. vm_compute. reflexivity. Qed.

(** non-vacuity: rows are judged this way, of every kind *)
Lemma custom_rt_rows_judged : (0 < length (filter (fun p => N.eqb (snd p) 0) custom_rt_verdicts))%nat.
Proof. vm_compute. lia. Qed.

Definition has_kind (t : rt_kind -> bool) : bool :=
  existsb (fun c => match kind_of c class_rts with Some k => t k | None => false end) row_classes.
Lemma every_kind_occurs :
  has_kind (fun k => match k with KExact => true | _ => false end) = true
  /\ has_kind (fun k => match k with KFloor127 => true | _ => false end) = true
  /\ has_kind (fun k => match k with KQuant _ _ => true | _ => false end) = true
  /\ has_kind (fun k => match k with KUpper => true | _ => false end) = true
  /\ has_kind (fun k => match k with KRepr => true | _ => false end) = true.
Proof. vm_compute. repeat split. Qed.

Example RT_rows_custom_nonvacuous :
  match nth_error (combine rows row_classes) 0 with
  | Some (r, c) =>
      rt_custom_verdict r c = 0%N /\ exact_kind c = true
      /\ ar_to_xml r (PInt 914400) = Ok (PStr [57; 49; 52; 52; 48; 48]%N)
      /\ ar_from_xml r (PStr [57; 49; 52; 52; 48; 48]%N) = Ok (PInt 914400)
  | None => False
  end.
Proof. vm_compute. repeat split. Qed.

Print Assumptions RT_rows_custom.
Print Assumptions RT_rows_custom_exact.
Print Assumptions RT_rows_custom_quant.
Print Assumptions RT_rows_custom_floor.
Print Assumptions all_rows_rt_judged.
