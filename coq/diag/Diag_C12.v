(** Diagnostics for C12: the accessors of the table that are judged and not allowed
    (predicted effect outside Pure / AddsEmpty of containers).  No obligations here. *)
From V.lib Require Import Prelude.
From V.model Require Import Schema Xmlchemy Access.
From V.gen Require Import GenC12.
Eval vm_compute in (7001%N :: map acc_id (filter (fun a => negb (allowed containers a)) effects)).
Eval vm_compute in (7002%N :: known_failing).
